#!/usr/bin/env python3
"""prints the markdown table of seeded changes (DESIGN.md section 0.6) from /verif/seeded/*/meta.json and HISTORY notes"""
import json, glob, os
rows = []
for d in sorted(glob.glob("/verif/seeded/S*")):
    try:
        m = json.load(open(os.path.join(d, "meta.json")))
    except Exception:
        continue
    c = m.get("confirmed", {})
    sid = os.path.basename(d)
    res = []
    for pid, r in sorted(c.get("check_results", {}).items()):
        if r["exit"] == 0:
            res.append("%s quiet" % pid)
        elif "no-failing-input-found" in r["line"]:
            res.append("%s VIOLATION (no failing input)" % pid)
        else:
            res.append("%s VIOLATION + failing input" % pid)
    summ = m.get("agent_meta", {}).get("summary", "").replace("|", "/").replace("\n", " ")
    if len(summ) > 230:
        summ = summ[:227] + "..."
    hist = ""
    hp = os.path.join(d, "HISTORY.txt")
    if os.path.exists(hp):
        hist = open(hp).read().strip().replace("\n", " ")
    rows.append("| %s | %s | %s | %s | %s |" % (sid, summ, "yes" if c.get("suite_passes_with_change") else "NO (see meta)", "; ".join(res), hist))
print("| seed | change | suite passes | quick checks on the changed tree | history |")
print("|---|---|---|---|---|")
print("\n".join(rows))
