#!/usr/bin/env python3
"""seed_final.py [seed-id ...] | --summary
Final regression over the kept seeded changes (/verif/seeded/S*): each patch is applied to a scratch worktree of /repo's
HEAD (patch.rebased*.diff is preferred when the original no longer applies after later repairs), the checks named in
its meta.json are run from an isolated copy of /verif against that worktree (quick tier), and the verdict is written to
seeded/<id>/final.json and summarised in seeded/FINAL.md. Nothing is applied to /repo itself; the library's own suite
is not re-run here (seed_eval.py did that when the seed was admitted). Several invocations with disjoint seed lists may run
side by side (SEEDFINAL_SLOT=<n> gives each its own copy of /verif); `--summary` rewrites seeded/FINAL.md from the final.json
files."""
import sys, os, json, glob, subprocess, time

ENV = dict(os.environ, GOFLAGS="-mod=mod", GOPROXY="off")


def sh(cmd, cwd=None, timeout=3000, env=None):
    p = subprocess.run(cmd, cwd=cwd, env=env or ENV, shell=isinstance(cmd, str), stdout=subprocess.PIPE, stderr=subprocess.STDOUT, text=True, timeout=timeout)
    return p.returncode, p.stdout


def summary(head):
    rows = []
    for d in sorted(glob.glob("/verif/seeded/S*")):
        f = os.path.join(d, "final.json")
        if os.path.exists(f):
            rows.append(json.load(open(f)))
    with open("/verif/seeded/FINAL.md", "w") as f:
        f.write("# Final regression over the seeded changes (repo HEAD %s)\n\n" % head)
        f.write("| seed | patch used | verdict | checks |\n|---|---|---|---|\n")
        for r in rows:
            f.write("| %s | %s | %s | %s |\n" % (r["seed"], r.get("patch"), r["verdict"] + ("" if r.get("repo_head") == head else " (at %s)" % r.get("repo_head")),
                                               "; ".join("%s exit %d%s" % (k, v["exit"], " (no failing input)" if "no-failing-input-found" in v["line"] else "")
                                                         for k, v in r["checks"].items())))
    print(len(rows), "rows;", sum(1 for r in rows if r["verdict"] == "reported with a failing input"), "reported with a failing input")


def main():
    head = sh(["git", "-C", "/repo", "rev-parse", "--short", "HEAD"])[1].strip()
    if sys.argv[1:] == ["--summary"]:
        return summary(head)
    want = set(sys.argv[1:])
    vdir = "/root/ws/seedfinal%s/verif" % os.environ.get("SEEDFINAL_SLOT", "")
    os.makedirs(vdir, exist_ok=True)
    # the COMMITTED framework (git HEAD), not the working tree: work in progress must not leak into an evaluation;
    # the Lean build products are copied along so that nothing is rebuilt that has not changed
    sh("rm -rf %s/checklib %s/harness %s/tools %s/known && mkdir -p %s && git -C /verif archive HEAD | tar -x -C %s" % ((vdir,) * 6))
    sh("rsync -a /verif/lean/.lake %s/lean/ && mkdir -p %s/bin %s/evidence %s/work %s/replays" % ((vdir,) * 5))
    rows = []
    for d in sorted(glob.glob("/verif/seeded/S*")):
        sid = os.path.basename(d)
        if want and sid not in want:
            continue
        try:
            meta = json.load(open(os.path.join(d, "meta.json")))
        except Exception:
            continue
        props = meta.get("breaks", "").split(",")
        wt = "/tmp/seedfinal_%s" % sid
        subprocess.run(["git", "-C", "/repo", "worktree", "remove", "--force", wt], stdout=subprocess.DEVNULL, stderr=subprocess.DEVNULL)
        assert sh(["git", "-C", "/repo", "worktree", "add", "-q", "--detach", wt, "HEAD"])[0] == 0
        res = dict(seed=sid, repo_head=head, checks={})
        try:
            # the newest re-make of the change first (patches whose lines later repairs changed are re-made by hand), the
            # agent's own patch last; a candidate must apply AND build
            used = None
            for cand in sorted(glob.glob(os.path.join(d, "patch.rebased*.diff")), reverse=True) + [os.path.join(d, "patch.diff")]:
                if sh(["git", "apply", "--check", cand], cwd=wt)[0] != 0:
                    continue
                sh(["git", "apply", cand], cwd=wt)
                ok = "BUILD-OK" in sh("go build ./... && go build -tags verif ./... && echo BUILD-OK", cwd=wt)[1]
                sh(["git", "checkout", "--", "."], cwd=wt)
                if ok:
                    used = cand
                    break
            res["patch"] = os.path.basename(used) if used else None
            if used is None:
                res["verdict"] = "patch no longer applies to the repaired tree"
            else:
                sh(["git", "apply", used], cwd=wt)
                rc, o = sh("go build ./... && go build -tags verif ./... && echo BUILD-OK", cwd=wt)
                if "BUILD-OK" not in o:
                    res["verdict"] = "no longer builds on the repaired tree"
                else:
                    env = dict(ENV, H2_REPO=wt)
                    for p in props:
                        t0 = time.time()
                        rc, o = sh(["./check", p, "quick"], cwd=vdir, env=env)
                        line = [l for l in o.splitlines() if l.startswith("VIOLATION")]
                        res["checks"][p] = dict(exit=rc, line=line[0] if line else "", seconds=round(time.time() - t0))
                    hit = [v for v in res["checks"].values() if v["exit"] == 1]
                    if any("no-failing-input-found" not in v["line"] for v in hit):
                        res["verdict"] = "reported with a failing input"
                    elif hit:
                        res["verdict"] = "reported (no failing input)"
                    else:
                        res["verdict"] = "NOT reported"
        finally:
            subprocess.run(["git", "-C", "/repo", "worktree", "remove", "--force", wt], stdout=subprocess.DEVNULL, stderr=subprocess.DEVNULL)
        json.dump(res, open(os.path.join(d, "final.json"), "w"), indent=1)
        rows.append(res)
        print(sid, res["verdict"], {k: v["exit"] for k, v in res["checks"].items()}, flush=True)
    if not want:
        summary(head)


main()
