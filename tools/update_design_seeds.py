#!/usr/bin/env python3
"""re-generates the table of seeded changes inside DESIGN.md section 0.6 (between the markers) from seeded/*/meta.json"""
import subprocess, re
tab = subprocess.run(["python3", "/verif/tools/seed_table.py"], capture_output=True, text=True).stdout
s = open("/verif/DESIGN.md").read()
a = s.index("| seed | change | suite passes |")
b = s.index("### 0.7 Trusted base, as built")
s = s[:a] + tab + "\n" + s[b:]
open("/verif/DESIGN.md", "w").write(s)
print("rows:", tab.count("\n") - 2)
