#!/usr/bin/env python3
"""seed_eval.py <seed-id> <dir-with-out/> <property> [--no-suite]
Confirms a seeded regression in a scratch worktree (builds; the library's own suite passes with it; the demonstration
fails with it and passes without it), stores it under /verif/seeded/<seed-id>/, then applies it to /repo, runs the
property's quick check, undoes it, and records whether the check caught it."""
import sys, os, json, subprocess, shutil, time

sid, src, pid = sys.argv[1], sys.argv[2], sys.argv[3]
no_suite = "--no-suite" in sys.argv
ENV = dict(os.environ, GOFLAGS="-mod=mod", GOPROXY="off")
out = os.path.join(src, "out")
patch = os.path.join(out, "patch.diff")
demo = os.path.join(out, "demo_test.go")
wt = "/tmp/seedeval_%s" % sid


def sh(cmd, cwd=None, timeout=1500):
    p = subprocess.run(cmd, cwd=cwd, env=ENV, shell=isinstance(cmd, str), stdout=subprocess.PIPE, stderr=subprocess.STDOUT, text=True, timeout=timeout)
    return p.returncode, p.stdout


res = {"seed": sid, "property": pid}
subprocess.run(["git", "-C", "/repo", "worktree", "remove", "--force", wt], stdout=subprocess.DEVNULL, stderr=subprocess.DEVNULL)
assert sh(["git", "-C", "/repo", "worktree", "add", "-q", "--detach", wt, "HEAD"])[0] == 0
try:
    rc, o = sh(["git", "apply", "--check", patch], cwd=wt)
    res["applies"] = rc == 0
    if rc != 0:
        res["apply_error"] = o[-500:]
        raise SystemExit
    # demo without the change
    shutil.copy(demo, os.path.join(wt, "demo_seed_test.go"))
    rc, o = sh("go test -vet=off -count=1 -run TestSeededDemo . 2>&1 | tail -5", cwd=wt)
    res["demo_passes_without_change"] = "ok " in o and "FAIL" not in o
    sh(["git", "apply", patch], cwd=wt)
    rc, o = sh("go build ./... && go build -tags verif ./... && echo BUILD-OK", cwd=wt)
    res["builds_with_change"] = "BUILD-OK" in o
    rc, o = sh("go test -vet=off -count=1 -run TestSeededDemo . 2>&1 | tail -8", cwd=wt)
    res["demo_fails_with_change"] = "FAIL" in o
    res["demo_output_with_change"] = o[-600:]
    os.remove(os.path.join(wt, "demo_seed_test.go"))
    if not no_suite:
        t0 = time.time()
        rc, o = sh("go test -vet=off -count=1 -timeout 25m ./... 2>&1 | tail -15", cwd=wt, timeout=2400)
        res["suite_passes_with_change"] = "FAIL" not in o and "ok  \tgithub.com/dgrr/http2\t" in o
        res["suite_seconds"] = round(time.time() - t0)
        if not res["suite_passes_with_change"]:
            # the suite's stress and timing tests fail now and then on a loaded machine, with or without a change:
            # a failure is only held against the change if the tests that failed fail again when run on their own
            res["suite_first_run_tail"] = o[-800:]
            rc, o2 = sh("go test -vet=off -count=1 -timeout 25m ./... 2>&1 | grep -E '^(--- FAIL|FAIL|ok)' | head -20", cwd=wt, timeout=2400)
            res["suite_second_run"] = o2[-600:]
            res["suite_passes_with_change"] = "FAIL" not in o2 and "ok  \tgithub.com/dgrr/http2\t" in o2
            res["suite_note"] = "first run failed under load, second run decides"
finally:
    subprocess.run(["git", "-C", "/repo", "worktree", "remove", "--force", wt], stdout=subprocess.DEVNULL, stderr=subprocess.DEVNULL)

dst = "/verif/seeded/%s" % sid
os.makedirs(dst, exist_ok=True)
shutil.copy(patch, os.path.join(dst, "patch.diff"))
shutil.copy(demo, os.path.join(dst, "demo_test.go"))
meta = {}
try:
    meta = json.load(open(os.path.join(out, "meta.json")))
except Exception:
    pass

# run the check against it. Default: an isolated copy of /verif and a scratch worktree with the patch (so that work
# in /verif and /repo is not disturbed); with --in-place: git -C /repo apply, ./check in /verif, git checkout -- .
caught = {}
if "--in-place" in sys.argv:
    assert sh(["git", "-C", "/repo", "diff", "--quiet"])[0] == 0, "/repo is dirty"
    vdir, env_repo = "/verif", None
    assert sh(["git", "-C", "/repo", "apply", patch])[0] == 0
else:
    vdir = "/root/ws/seedeval/verif"
    os.makedirs(vdir, exist_ok=True)
    # the COMMITTED framework (git HEAD), not the working tree: work in progress must not leak into an evaluation;
    # the Lean build products are copied along so that nothing is rebuilt that has not changed
    sh("rm -rf %s/checklib %s/harness %s/tools %s/known && mkdir -p %s && git -C /verif archive HEAD | tar -x -C %s" % ((vdir,) * 6))
    sh("rsync -a /verif/lean/.lake %s/lean/ && mkdir -p %s/bin %s/evidence %s/work %s/replays" % ((vdir,) * 5))
    env_repo = "/tmp/seedeval_%s_chk" % sid
    subprocess.run(["git", "-C", "/repo", "worktree", "remove", "--force", env_repo], stdout=subprocess.DEVNULL, stderr=subprocess.DEVNULL)
    assert sh(["git", "-C", "/repo", "worktree", "add", "-q", "--detach", env_repo, "HEAD"])[0] == 0
    assert sh(["git", "apply", patch], cwd=env_repo)[0] == 0
    ENV["H2_REPO"] = env_repo
try:
    for p in pid.split(","):
        t0 = time.time()
        rc, o = sh(["./check", p, "quick"], cwd=vdir, timeout=3000)
        line = [l for l in o.splitlines() if l.startswith("VIOLATION")]
        caught[p] = dict(exit=rc, line=line[0] if line else "", seconds=round(time.time() - t0))
        if line and "replay=" in line[0]:
            rp = line[0].split("replay=")[1].split()[0]
            if os.path.exists(rp):
                shutil.copy(rp, os.path.join(dst, "replay-%s.json" % p))
finally:
    if env_repo is None:
        sh(["git", "-C", "/repo", "checkout", "--", "."])
    else:
        subprocess.run(["git", "-C", "/repo", "worktree", "remove", "--force", env_repo], stdout=subprocess.DEVNULL, stderr=subprocess.DEVNULL)
res["check_results"] = caught
res["caught"] = any(v["exit"] == 1 for v in caught.values())
res["caught_with_failing_input"] = any(v["exit"] == 1 and "no-failing-input-found" not in v["line"] for v in caught.values())
json.dump(dict(breaks=pid, agent_meta=meta, confirmed=res,
               ran=["scratch worktree: git apply patch; go build; go test -run TestSeededDemo with and without the change; go test ./... with the change",
                    "git -C /repo apply patch.diff; ./check <property> quick; git -C /repo checkout -- ."]),
          open(os.path.join(dst, "meta.json"), "w"), indent=1)
print(json.dumps(res, indent=1))
