package main

import "bufio"

func runMsg(f []string) string                      { return "bad-op" }
func genMsg(p *prng, thorough bool, w *bufio.Writer) {}
