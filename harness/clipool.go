package main

// clipool: the pooling client (client.go: Client.RoundTrip, pickConn, onConnectionDropped, the retry loop) driven through
// the interface fasthttp uses (HostClient.Transport.RoundTrip), against scripted servers over in-memory connections.
// The library dials through TLS only, so each connection is a real TLS session (self-signed certificate made at start-up,
// ALPN h2) over a memConn. Monitor-only ops (the Lean driver answers `mon` to every `pool.` line): what is judged is
// what the scripted servers saw (how often a request's HEADERS arrived, on which connection and stream) against what
// they said about it (answer, GOAWAY below/at its stream, REFUSED_STREAM, reset after a partial response, hang-up).
//
//	pool.cl.new <id> [mcs=<n>]            new HostClient + ConfigureClient (dials connection 0)
//	pool.cl.rt <id> <tag> <method> <bodylen>   RoundTrip in a goroutine; the path is /<tag>
//	pool.cl.answer <id> <tag> <status>    the server holding <tag>'s latest HEADERS answers it (HEADERS END_STREAM)
//	pool.cl.partial <id> <tag> <code>     … starts a response (HEADERS without END_STREAM) and resets the stream with <code>
//	pool.cl.refuse <id> <tag>             … RST_STREAM(REFUSED_STREAM)
//	pool.cl.goaway <id> <tag> <delta>     … GOAWAY(last = sid + delta) on that connection (delta -2: disclaims it; 0: covers it)
//	pool.cl.goaway2 <id> <tag> <delta>    … GOAWAY(2^31-1) first, then GOAWAY(last = sid + delta)
//	pool.cl.hangup <id> <tag>             … closes that connection
//	pool.cl.res <id> <tag>                the RoundTrip's outcome, if it has returned
//	pool.cl.seen <id>                     every HEADERS frame every scripted server has received, in order
//	pool.cl.end <id>                      Client.Close

import (
	"bytes"
	"crypto/ecdsa"
	"crypto/elliptic"
	"crypto/rand"
	"crypto/tls"
	"crypto/x509"
	"crypto/x509/pkix"
	"errors"
	"fmt"
	"io"
	"math/big"
	"net"
	"os"
	"runtime"
	"sort"
	"strconv"
	"strings"
	"sync"
	"time"

	"github.com/dgrr/http2"
	"github.com/valyala/fasthttp"
	"golang.org/x/net/http2/hpack"
)

// H2_POOL_FAST=1: do not wait for connections being set up (debugging aid: ops then race the dial)
var poolFast = os.Getenv("H2_POOL_FAST") != ""

var (
	poolCertOnce sync.Once
	poolCert     tls.Certificate
)

func poolCertificate() tls.Certificate {
	poolCertOnce.Do(func() {
		key, err := ecdsa.GenerateKey(elliptic.P256(), rand.Reader)
		if err != nil {
			panic(err)
		}
		tmpl := &x509.Certificate{SerialNumber: big.NewInt(1), Subject: pkix.Name{CommonName: "pool.test"},
			NotBefore: time.Now().Add(-time.Hour), NotAfter: time.Now().Add(24 * time.Hour), DNSNames: []string{"pool.test"},
			KeyUsage: x509.KeyUsageDigitalSignature, ExtKeyUsage: []x509.ExtKeyUsage{x509.ExtKeyUsageServerAuth}}
		der, err := x509.CreateCertificate(rand.Reader, tmpl, tmpl, &key.PublicKey, key)
		if err != nil {
			panic(err)
		}
		poolCert = tls.Certificate{Certificate: [][]byte{der}, PrivateKey: key}
	})
	return poolCert
}

// peerEnd is the scripted server's end of a memConn
type peerEnd struct{ mc *memConn }

func (p peerEnd) Read(b []byte) (int, error)         { return p.mc.out.read(b) }
func (p peerEnd) Write(b []byte) (int, error)        { return p.mc.in.write(b) }
func (p peerEnd) Close() error                       { return p.mc.Close() }
func (p peerEnd) LocalAddr() net.Addr                { return p.mc.RemoteAddr() }
func (p peerEnd) RemoteAddr() net.Addr               { return p.mc.LocalAddr() }
func (p peerEnd) SetDeadline(time.Time) error        { return nil }
func (p peerEnd) SetReadDeadline(time.Time) error    { return nil }
func (p peerEnd) SetWriteDeadline(time.Time) error   { return nil }

type poolSeen struct {
	sid  uint32
	path string
	es   bool
}

type poolSrv struct {
	k    int
	tc   *tls.Conn
	mu   sync.Mutex
	seen []poolSeen // HEADERS received, in order
	nfr  int        // frames received
	data map[uint32]int
	gone bool // the read side ended
	up   bool // TLS handshake done, preface read, SETTINGS sent
	enc  *hpack.Encoder
	ebuf bytes.Buffer
	wmu  sync.Mutex
}

type poolRT struct {
	done   chan struct{}
	retry  bool
	err    error
	status int
}

type poolClient struct {
	hc   *fasthttp.HostClient
	mu   sync.Mutex
	srvs []*poolSrv
	rts  map[string]*poolRT
	mcs  int
}

func (pc *poolClient) dial(string) (net.Conn, error) {
	mc := newMemConn()
	pc.mu.Lock()
	s := &poolSrv{k: len(pc.srvs), data: map[uint32]int{}}
	s.enc = hpack.NewEncoder(&s.ebuf)
	pc.srvs = append(pc.srvs, s)
	mcs := pc.mcs
	pc.mu.Unlock()
	s.tc = tls.Server(peerEnd{mc}, &tls.Config{Certificates: []tls.Certificate{poolCertificate()}, NextProtos: []string{"h2"}})
	go s.serve(mcs)
	return mc, nil
}

func (s *poolSrv) write(b []byte) {
	s.wmu.Lock()
	defer s.wmu.Unlock()
	_, _ = s.tc.Write(b)
}

// serve: TLS handshake, the client preface, then every frame is recorded; SETTINGS are acknowledged and PINGs answered
func (s *poolSrv) serve(mcs int) {
	defer func() { s.mu.Lock(); s.gone = true; s.mu.Unlock() }()
	if err := s.tc.Handshake(); err != nil {
		return
	}
	pre := make([]byte, 24)
	if _, err := io.ReadFull(s.tc, pre); err != nil {
		return
	}
	if mcs > 0 {
		s.write(frameBytes(4, 0, 0, settingsPayload(3, uint32(mcs))))
	} else {
		s.write(frameBytes(4, 0, 0, nil))
	}
	s.mu.Lock()
	s.up = true
	s.mu.Unlock()
	dec := hpack.NewDecoder(4096, nil)
	var buf, block []byte
	tmp := make([]byte, 16384)
	for {
		n, err := s.tc.Read(tmp)
		buf = append(buf, tmp[:n]...)
		var frames []rawFrame
		frames, buf = parseFrames(buf)
		for _, fr := range frames {
			s.mu.Lock()
			s.nfr++
			s.mu.Unlock()
			switch fr.typ {
			case 4:
				if fr.flags&1 == 0 {
					s.write(frameBytes(4, 1, 0, nil))
				}
			case 6:
				if fr.flags&1 == 0 {
					s.write(frameBytes(6, 1, 0, fr.payload))
				}
			case 0:
				s.mu.Lock()
				s.data[fr.stream] += len(fr.payload)
				s.mu.Unlock()
			case 1, 9:
				if fr.typ == 1 {
					block = block[:0]
				}
				block = append(block, fr.payload...)
				if fr.flags&4 != 0 {
					path := "?"
					if hfs, err := dec.DecodeFull(block); err == nil {
						for _, hf := range hfs {
							if hf.Name == ":path" {
								path = hf.Value
							}
						}
					}
					s.mu.Lock()
					s.seen = append(s.seen, poolSeen{sid: fr.stream, path: path, es: fr.typ == 1 && fr.flags&1 != 0})
					s.mu.Unlock()
				}
			}
		}
		if err != nil {
			return
		}
	}
}

func (pc *poolClient) snap() string {
	pc.mu.Lock()
	srvs := append([]*poolSrv(nil), pc.srvs...)
	var fin []string
	for t, rt := range pc.rts {
		select {
		case <-rt.done:
			fin = append(fin, t)
		default:
		}
	}
	pc.mu.Unlock()
	sort.Strings(fin)
	var sb strings.Builder
	for _, s := range srvs {
		s.mu.Lock()
		fmt.Fprintf(&sb, "%d:%d:%v:%v;", s.k, s.nfr, s.gone, s.up)
		s.mu.Unlock()
	}
	return sb.String() + strings.Join(fin, ",")
}

// settle waits until nothing has moved for a few milliseconds
func (pc *poolClient) settle() {
	last, stable := pc.snap(), 0
	for i := 0; i < 20000 && stable < 40; i++ {
		nap()
		cur := pc.snap()
		// a connection being set up (TLS handshake, preface) shows no movement for a while: not settled
		if cur == last && (poolFast || !strings.Contains(cur, ":false:false;")) {
			stable++
		} else {
			stable = 0
		}
		last = cur
	}
}

// latest: the connection and stream on which <tag>'s HEADERS arrived last
func (pc *poolClient) latest(tag string) (*poolSrv, uint32) {
	pc.mu.Lock()
	srvs := append([]*poolSrv(nil), pc.srvs...)
	pc.mu.Unlock()
	for i := len(srvs) - 1; i >= 0; i-- {
		s := srvs[i]
		s.mu.Lock()
		for j := len(s.seen) - 1; j >= 0; j-- {
			if s.seen[j].path == "/"+tag {
				sid := s.seen[j].sid
				s.mu.Unlock()
				return s, sid
			}
		}
		s.mu.Unlock()
	}
	return nil, 0
}

func (s *poolSrv) block(fields ...string) []byte {
	s.wmu.Lock()
	defer s.wmu.Unlock()
	s.ebuf.Reset()
	for i := 0; i+1 < len(fields); i += 2 {
		_ = s.enc.WriteField(hpack.HeaderField{Name: fields[i], Value: fields[i+1]})
	}
	return append([]byte(nil), s.ebuf.Bytes()...)
}

func poolErrClass(err error) string {
	switch {
	case err == nil:
		return "ok"
	case errors.Is(err, http2.ErrConnectionClosed):
		return "conn-closed"
	case errors.Is(err, http2.ErrNotAvailableStreams):
		return "no-streams"
	case errors.Is(err, http2.ErrRequestCanceled):
		return "timeout"
	}
	if code, ga, ok := http2.VerifErrorInfo(err); ok {
		if ga {
			return fmt.Sprintf("goaway-%d", code)
		}
		return fmt.Sprintf("rst-%d", code)
	}
	return "other"
}

func (r *runner) runPool(f []string) (out string) {
	defer func() {
		if e := recover(); e != nil {
			out = fmt.Sprintf("panic %v", e)
		}
		// monitor-only lines: the model says `mon`, what follows ` ## ` is for the monitors
		if strings.HasPrefix(out, "mon ") {
			out = "mon ## " + out[4:]
		}
	}()
	if len(f) < 2 {
		return "bad-op"
	}
	if r.pool == nil {
		r.pool = map[string]*poolClient{}
	}
	op, id := f[0], f[1]
	if op == "pool.cl.new" {
		pc := &poolClient{rts: map[string]*poolRT{}}
		for _, a := range f[2:] {
			if strings.HasPrefix(a, "mcs=") {
				pc.mcs, _ = strconv.Atoi(a[4:])
			}
		}
		pc.hc = &fasthttp.HostClient{Addr: "pool.test:443", IsTLS: true, Dial: pc.dial,
			TLSConfig: &tls.Config{InsecureSkipVerify: true, ServerName: "pool.test"}}
		if err := http2.ConfigureClient(pc.hc, http2.ClientOpts{}); err != nil {
			return "mon new-failed " + poolErrClass(err)
		}
		r.pool[id] = pc
		pc.settle()
		return fmt.Sprintf("mon conns=%d", len(pc.srvs))
	}
	pc := r.pool[id]
	if pc == nil {
		return "bad-op"
	}
	switch op {
	case "pool.cl.rt":
		if len(f) != 5 {
			return "bad-op"
		}
		tag, method := f[2], f[3]
		n, _ := strconv.Atoi(f[4])
		rt := &poolRT{done: make(chan struct{})}
		pc.mu.Lock()
		pc.rts[tag] = rt
		pc.mu.Unlock()
		go func() {
			req, res := fasthttp.AcquireRequest(), fasthttp.AcquireResponse()
			req.Header.SetMethod(method)
			req.SetRequestURI("https://pool.test/" + tag)
			if n > 0 {
				req.SetBody(bytes.Repeat([]byte("b"), n))
			}
			retry, err := pc.hc.Transport.RoundTrip(pc.hc, req, res)
			rt.retry, rt.err, rt.status = retry, err, res.StatusCode()
			close(rt.done)
		}()
		pc.settle()
		s, sid := pc.latest(tag)
		if s == nil {
			return "mon started unseen"
		}
		return fmt.Sprintf("mon started conn=%d sid=%d", s.k, sid)
	case "pool.cl.answer", "pool.cl.partial", "pool.cl.refuse", "pool.cl.goaway", "pool.cl.goaway2", "pool.cl.hangup":
		if len(f) < 3 {
			return "bad-op"
		}
		s, sid := pc.latest(f[2])
		if s == nil {
			return "mon unseen"
		}
		what := ""
		switch op {
		case "pool.cl.answer":
			s.write(frameBytes(1, 5, sid, s.block(":status", f[3])))
			what = "status=" + f[3]
		case "pool.cl.partial":
			code, _ := strconv.Atoi(f[3])
			s.write(frameBytes(1, 4, sid, s.block(":status", "200")))
			s.write(frameBytes(3, 0, sid, u32(uint32(code))))
			what = "code=" + f[3]
		case "pool.cl.refuse":
			s.write(frameBytes(3, 0, sid, u32(7)))
		case "pool.cl.goaway", "pool.cl.goaway2":
			d, _ := strconv.Atoi(f[3])
			last := uint32(0)
			if int(sid)+d > 0 {
				last = uint32(int(sid) + d)
			}
			if op == "pool.cl.goaway2" {
				s.write(frameBytes(7, 0, 0, append(u32(1<<31-1), u32(0)...)))
				pc.settle()
			}
			s.write(frameBytes(7, 0, 0, append(u32(last), u32(0)...)))
			what = fmt.Sprintf("last=%d", last)
		case "pool.cl.hangup":
			_ = s.tc.Close()
		}
		pc.settle()
		return strings.TrimSpace(fmt.Sprintf("mon conn=%d sid=%d %s", s.k, sid, what))
	case "pool.cl.res":
		if len(f) != 3 {
			return "bad-op"
		}
		pc.mu.Lock()
		rt := pc.rts[f[2]]
		pc.mu.Unlock()
		if rt == nil {
			return "bad-op"
		}
		select {
		case <-rt.done:
			st := 0
			if rt.err == nil {
				st = rt.status
			}
			return fmt.Sprintf("mon done retry=%d err=%s st=%d", b2i(rt.retry), poolErrClass(rt.err), st)
		default:
			return "mon pending"
		}
	case "pool.cl.seen":
		pc.mu.Lock()
		srvs := append([]*poolSrv(nil), pc.srvs...)
		pc.mu.Unlock()
		var parts []string
		for _, s := range srvs {
			s.mu.Lock()
			var hs []string
			for _, h := range s.seen {
				hs = append(hs, fmt.Sprintf("%d:%s:%d", h.sid, h.path, s.data[h.sid]))
			}
			s.mu.Unlock()
			if len(hs) == 0 {
				hs = []string{"-"}
			}
			parts = append(parts, fmt.Sprintf("c%d=%s", s.k, strings.Join(hs, ",")))
		}
		return "mon " + strings.Join(parts, " ")
	case "pool.cl.stacks":
		buf := make([]byte, 1<<20)
		n := runtime.Stack(buf, true)
		os.Stderr.Write(buf[:n])
		return "mon"
	case "pool.cl.end":
		// the way fasthttp would let go of the transport: clientAdapter.CloseIdleConnections = Client.Close
		if cl, ok := pc.hc.Transport.(interface{ CloseIdleConnections() }); ok {
			cl.CloseIdleConnections()
		}
		pc.settle()
		// then the servers hang up, including any the client dialled meanwhile
		for closed := 0; ; {
			pc.mu.Lock()
			srvs := append([]*poolSrv(nil), pc.srvs...)
			pc.mu.Unlock()
			if closed == len(srvs) {
				break
			}
			for _, s := range srvs[closed:] {
				_ = s.tc.Close()
			}
			closed = len(srvs)
			pc.settle()
		}
		return "mon ended"
	}
	return "bad-op"
}

func b2i(b bool) int {
	if b {
		return 1
	}
	return 0
}
