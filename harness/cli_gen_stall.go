package main

// Family clistall (C12, C07): a peer that stops reading. Requests of every body
// kind are in flight, queued behind a blocked write or held by flow control when
// the server stops taking octets; it goes on sending frames that each ask for an
// answer (PING, SETTINGS, DATA on open streams: 0 to 300 of them, around the
// 128 entries of the client's control-frame queue), opens windows so that the
// write loop turns to a body, answers some requests; then the callers' timeouts
// fire in some order, each caller takes its result, and the connection is closed
// by the caller, dropped by the peer, half-closed, resumed, or left as it is.
// Everything after `stall` is reported in `mon` lines and judged by the monitors
// (area_client.py mon_stall): every request has its one result in time, nobody
// is left blocked, the loops are gone once the connection is.

import (
	"bufio"
	"fmt"
)

var stallBodies = []string{
	"none",
	"buf:1:100",
	"buf:2:70000", // more than the connection window lets out: the tail waits
	"str:3:300:100.200:eof",
	"str:4:-1:50.16384.10:eofw",
	"str:5:-1:16384.16384.16384.16384.16384:eof", // streamed and beyond the window
	"buf:6:20000",
	"str:7:-1:80.50.50:err", // the reader fails part way: the write loop resets the stream
	"str:8:-1:-:err",
}

var floodCounts = []int{0, 1, 100, 127, 128, 129, 300}

// stallFlood has the stalled server send n frames that each make the client queue a frame of its own.
func (s *scn) stallFlood(kind int, n int) {
	var unit []byte
	switch kind {
	case 0:
		unit = frPing(false, []byte("stalled!"))
	case 1:
		unit = frSettings()
	case 2:
		unit = frSettings(3, 100, 5, 16384)
	default:
		// DATA on a stream the client still waits on: every frame is credited with a WINDOW_UPDATE
		ids := s.openSids()
		if len(ids) == 0 {
			unit = frPing(false, []byte("stalled!"))
		} else {
			unit = frData(ids[s.p.intn(len(ids))], []byte("0123456789"), false, -1)
		}
	}
	s.op("flood %d %s", n, hexOrDash(unit))
}

func (s *scn) stallEnd(how string) {
	switch how {
	case "close", "cut", "halfcut", "unstall":
		s.op(how)
	}
	if how == "unstall" {
		s.op("close")
	}
	s.read(s.tags...)
	s.op("end")
}

func genCliStall(p *prng, thorough bool, w *bufio.Writer) {
	n := 110
	if thorough {
		n = 1500
	}
	endings := []string{"close", "cut", "unstall", "halfcut", "unstall", "none", "close", "cut", "unstall"}
	for i := 0; i < n; i++ {
		q := p.fork()
		st := []uint32{3, 100}
		switch q.intn(4) {
		case 0:
			st = []uint32{4, uint32(10 + q.intn(3000))} // small stream windows: bodies held by flow control
		case 1:
			st = []uint32{3, uint32(1 + q.intn(3))} // few streams: later requests are turned away
		}
		s := newScn(w, q, st...)
		// before the stall: requests of every body kind (these steps are compared with the model)
		k := q.intn(5)
		for j := 0; j < k; j++ {
			s.req(reqSpec{method: "POST", path: fmt.Sprintf("/b%d", j), body: stallBodies[(i+j)%len(stallBodies)]})
		}
		if k > 0 && q.chance(1, 4) {
			ids := s.openSids()
			s.frames(s.render(ids[0], s.randResp(40))...)
		}
		// the peer stops reading, at once or a few octets into the client's next frames
		after := []int{0, 0, 0, 0, 5, 9, 12, 30, 200}[q.intn(9)]
		if after == 0 {
			s.op("stall")
		} else {
			s.op("stall %d", after)
		}
		// requests that arrive while it is stalled: the first one is what the write loop blocks on
		// (its caller can only be let go when that write ends), the others queue up behind it
		late := []int{0, 0, 0, 1, 2, 3}[q.intn(6)]
		lateFirst := q.chance(1, 2)
		mkLate := func() {
			for j := 0; j < late; j++ {
				s.req(reqSpec{method: "PUT", path: fmt.Sprintf("/l%d", j), body: stallBodies[q.intn(len(stallBodies))]})
			}
		}
		if lateFirst {
			mkLate()
		}
		// the server goes on sending
		if q.chance(1, 3) {
			// one frame to block the write loop on, then open windows: the bodies held back are what it turns to
			// as soon as it can, with whatever has piled up in its queue by then
			s.stallFlood(0, 1)
			s.op("flood 1 %s", hexOrDash(append(frWindowUpdate(0, 1<<20), frSettings(4, 1<<20)...)))
		}
		rounds := 1 + q.intn(2)
		for r := 0; r < rounds; r++ {
			cnt := floodCounts[(i+r)%len(floodCounts)]
			if q.chance(1, 5) {
				cnt = floodCounts[q.intn(len(floodCounts))]
			}
			s.stallFlood(q.intn(4), cnt)
			if q.chance(1, 3) {
				// windows open: the write loop turns to the bodies it holds back
				s.op("flood 1 %s", hexOrDash(append(frWindowUpdate(0, 1<<20), frSettings(4, 1<<20)...)))
			}
			if q.chance(1, 4) {
				if ids := s.openSids(); len(ids) > 0 {
					// an answer still arrives: that request is over without its timeout
					sid := ids[q.intn(len(ids))]
					for _, f := range s.render(sid, s.randResp(30)) {
						s.op("flood 1 %s", hexOrDash(f))
					}
				}
			}
		}
		if !lateFirst {
			mkLate()
		}
		// the callers give up, in some order; some take their result right away
		order := append([]string(nil), s.tags...)
		for j := len(order) - 1; j > 0; j-- {
			x := q.intn(j + 1)
			order[j], order[x] = order[x], order[j]
		}
		all := q.chance(3, 4)
		var fired []string
		for _, t := range order {
			if all || q.chance(1, 2) {
				s.op("timeout %s", t)
				fired = append(fired, t)
				if q.chance(1, 2) {
					s.op("read %s", t)
				}
			}
		}
		for _, t := range fired {
			s.op("read %s", t)
		}
		s.stallEnd(endings[(i/3)%len(endings)])
	}
	// the peer reads again: whatever piled up while it did not (a full control-frame queue, window updates for
	// bodies held back, DATA for streams that are still uploading, bodies whose reader fails) must drain, with the
	// two loops taking the same requests' locks and feeding the same queue
	nr := 40
	if thorough {
		nr = 500
	}
	for i := 0; i < nr; i++ {
		q := p.fork()
		s := newScn(w, q, 4, uint32(10+q.intn(200)))
		k := 1 + q.intn(3)
		for j := 0; j < k; j++ {
			body := []string{"buf:3:5000", "str:4:-1:80.50.50:err", "str:5:-1:300.16384.20:eof", "buf:6:70000", "str:7:400:100.300:eofw", "none"}[(i+j+q.intn(2))%6]
			s.req(reqSpec{method: "POST", path: fmt.Sprintf("/u%d", j), body: body})
		}
		s.op("stall")
		// something for the write loop to block on
		s.stallFlood(q.intn(3), 1)
		// the windows open while it is blocked
		switch q.intn(3) {
		case 0:
			s.op("flood 1 %s", hexOrDash(frSettings(4, 1<<20)))
		case 1:
			var b []byte
			for _, sid := range s.openSids() {
				b = append(b, frWindowUpdate(sid, 1<<16)...)
			}
			s.op("flood 1 %s", hexOrDash(b))
		default:
			s.op("flood 1 %s", hexOrDash(append(frSettings(4, 1<<20), frWindowUpdate(0, 1<<20)...)))
		}
		// and the server sends on: DATA on the uploading streams (each frame credited), PINGs, SETTINGS
		cnt := []int{127, 128, 129, 200, 300, 100}[i%6]
		ids := s.openSids()
		if q.chance(2, 3) && len(ids) > 0 {
			sid := ids[q.intn(len(ids))]
			s.op("flood %d %s", cnt, hexOrDash(frData(sid, []byte("0123456789"), false, -1)))
		} else {
			s.stallFlood(q.intn(3), cnt)
		}
		early := ""
		if q.chance(1, 3) {
			early = s.tags[q.intn(len(s.tags))]
			s.op("timeout %s", early)
		}
		s.op("unstall")
		for _, t := range s.tags {
			if t != early && q.chance(1, 2) {
				s.op("timeout %s", t)
			}
		}
		s.stallEnd([]string{"close", "cut", "close"}[i%3])
	}
	// GOAWAY while a request's HEADERS are still on their way out (the peer is slow to read): the request is at or
	// below last-stream-id, the server goes on to answer it, so it completes (C11: requests the GOAWAY covers still
	// get their responses; the read loop stops only when none of them is left)
	ng := 8
	if thorough {
		ng = 80
	}
	for i := 0; i < ng; i++ {
		q := p.fork()
		s := newScn(w, q, 3, 100)
		var before []uint32
		for j := 0; j < 1+q.intn(2); j++ {
			_, sid := s.req(reqSpec{path: fmt.Sprintf("/before%d", j)})
			before = append(before, sid)
		}
		if q.chance(1, 2) {
			s.op("stall")
		} else {
			s.op("stall %d", 1+q.intn(12))
		}
		t2, sid2 := s.req(reqSpec{path: "/being-written"})
		last := uint32(1<<31 - 1)
		if q.chance(1, 2) {
			last = sid2
		}
		s.op("flood 1 %s", hexOrDash(frGoAway(last, 0, nil)))
		for _, sid := range before {
			s.op("flood 1 %s", hexOrDash(s.resp(sid, "200", nil, nil)))
		}
		s.op("unstall")
		s.op("flood 1 %s", hexOrDash(s.resp(sid2, "200", nil, []byte("late but promised"))))
		s.note("expect-ok %s %s", s.id, t2)
		s.op("unstall")
		s.read(s.tags...)
		s.op("end")
	}
	// the request queue itself fills up (128 entries) behind a blocked write
	nq := 1
	if thorough {
		nq = 3
	}
	for i := 0; i < nq; i++ {
		q := p.fork()
		s := newScn(w, q, 3, 1000)
		s.req(reqSpec{path: "/first"})
		s.op("stall")
		total := []int{130, 129, 128, 131}[i%4] // one being written and 128 queued: the 130th caller waits in Conn.Write
		for j := 0; j < total; j++ {
			s.req(reqSpec{path: fmt.Sprintf("/q%d", j)})
		}
		last := s.tags[len(s.tags)-1]
		s.op("timeout %s", last)
		s.op("read %s", last)
		s.op("timeout %s", s.tags[3])
		s.op("read %s", s.tags[3])
		s.stallEnd([]string{"cut", "close", "none"}[i%3])
	}
}

func init() {
	cliGens["clistall"] = genCliStall
}
