package main

// owned by the server area

type srvConn struct{}

func (r *runner) runSrv(f []string) string { return "bad-op" }
