package main

// Deterministic stepping of the real server (DESIGN.md section 4.4): one
// scripted event at a time over an in-memory connection; after each event the
// harness waits for quiescence using the verif progress counters, then reports
// what the server wrote (decoded with x/net's hpack, independent of the code
// under test) and which handlers it started.

import (
	"runtime"
	"bytes"
	"errors"
	"fmt"
	"io"
	"sort"
	"strconv"
	"strings"
	"sync"
	"time"

	http2 "github.com/dgrr/http2"
	"github.com/valyala/fasthttp"
	"golang.org/x/net/http2/hpack"
)

const clientPreface = "PRI * HTTP/2.0\r\n\r\nSM\r\n\r\n"

type respSpec struct {
	status  int
	hdr     [][2][]byte
	kind    string // none | buf | stream | panic
	body    []byte
	size    int   // declared size of a streamed body (-1 unknown)
	chunks  []int // sizes returned by successive reads
	tail    byte  // 'e' EOF on a read of its own, 'E' EOF with the last chunk, 'x' error after the chunks
	sid     uint32
	patBase int
}

type srvConn struct {
	mc        *memConn
	served    chan struct{}
	serveErr  error
	outBuf    []byte
	frames    int64
	dones     int64
	mu        sync.Mutex
	entered   int64
	parked    map[uint32]chan respSpec
	dispatch  []string
	dec       *hpack.Decoder
	decMax    uint32 // the SETTINGS_HEADER_TABLE_SIZE the peer announced last
	logMu     sync.Mutex
	logLines  []string
	inflight  int
	maxInfl   int
	returned  bool
	gaugeMaxS int64
	gaugeMaxR int64
	gaugeMaxH int64
	lt0, fw0  int64           // loop iterations / frames handed to the stream loop when the current op began
	loose     bool            // real time has passed (sleep): timers add loop iterations the counters cannot predict
	holding   map[uint32]bool // handlers that have built part of their response and are still running
	ownerViol []string        // something reached into a response its handler still owns
	hblock    map[uint32][]byte // fragments of the header block the server is writing on a stream, until END_HEADERS
}

// earlyStream is a response body a handler installs before it has finished. Until the handler returns the response is
// the handler's: anything else closing this reader is an ownership violation (C17, C19).
type earlyStream struct {
	s   *srvConn
	sid uint32
}

func (e *earlyStream) Read(p []byte) (int, error) { return 0, io.EOF }
func (e *earlyStream) Close() error {
	e.s.mu.Lock()
	if e.s.holding[e.sid] {
		e.s.ownerViol = append(e.s.ownerViol, fmt.Sprintf("response-closed-under-handler(%d)", e.sid))
	}
	e.s.mu.Unlock()
	return nil
}

type capLogger struct{ s *srvConn }

func (l capLogger) Printf(format string, args ...interface{}) {
	l.s.logMu.Lock()
	l.s.logLines = append(l.s.logLines, fmt.Sprintf(format, args...))
	l.s.logMu.Unlock()
}

// pattern bytes: the body of stream sid at offset i
func patByte(sid uint32, i int) byte { return byte((i*7 + int(sid)*13 + i/251) % 251) }

func patBytes(sid uint32, off, n int) []byte {
	b := make([]byte, n)
	for i := range b {
		b[i] = patByte(sid, off+i)
	}
	return b
}

// digest of a byte string: length, sum mod 65521, xor
func digest(b []byte) string {
	s, x := 0, 0
	for _, c := range b {
		s = (s + int(c)) % 65521
		x ^= int(c)
	}
	return fmt.Sprintf("%d:%d:%d", len(b), s, x)
}

type scriptReader struct {
	spec respSpec
	i    int
	off  int
	done bool
}

func (r *scriptReader) Read(p []byte) (int, error) {
	if r.i >= len(r.spec.chunks) {
		if r.spec.tail == 'x' {
			return 0, errors.New("scripted read error")
		}
		return 0, io.EOF
	}
	n := r.spec.chunks[r.i]
	if n > len(p) {
		n = len(p)
		r.spec.chunks[r.i] -= n
	} else {
		r.i++
	}
	copy(p, patBytes(r.spec.sid, r.off, n))
	r.off += n
	if r.i >= len(r.spec.chunks) && r.spec.tail == 'E' {
		return n, io.EOF
	}
	return n, nil
}

func parseKV(s string) (out [][2][]byte, ok bool) {
	if s == "" || s == "-" {
		return nil, true
	}
	for _, part := range strings.Split(s, ",") {
		kv := strings.SplitN(part, ":", 2)
		if len(kv) != 2 {
			return nil, false
		}
		k, ok1 := unhex(kv[0])
		v, ok2 := unhex(kv[1])
		if !ok1 || !ok2 {
			return nil, false
		}
		out = append(out, [2][]byte{k, v})
	}
	return out, true
}

func fmtKV(kvs [][2][]byte) string {
	if len(kvs) == 0 {
		return "-"
	}
	parts := make([]string, len(kvs))
	for i, kv := range kvs {
		parts[i] = hexOrDash(kv[0]) + ":" + hexOrDash(kv[1])
	}
	return strings.Join(parts, ",")
}

// parseResp: st=<n> hdr=<kv> body=<none|hex:<hex>|pat:<n>|stream:<size>:<n1.n2...>:<e|E|x>|panic>
func parseResp(sid uint32, f []string) (respSpec, bool) {
	sp := respSpec{status: 200, kind: "none", size: -1, sid: sid}
	for _, a := range f {
		switch {
		case strings.HasPrefix(a, "st="):
			sp.status, _ = strconv.Atoi(a[3:])
		case strings.HasPrefix(a, "hdr="):
			var ok bool
			if sp.hdr, ok = parseKV(a[4:]); !ok {
				return sp, false
			}
		case strings.HasPrefix(a, "view="):
		case a == "body=none":
			sp.kind = "none"
		case a == "body=panic":
			sp.kind = "panic"
		case strings.HasPrefix(a, "body=hex:"):
			b, ok := unhex(a[9:])
			if !ok {
				return sp, false
			}
			sp.kind, sp.body = "buf", b
		case strings.HasPrefix(a, "body=pat:"):
			n, _ := strconv.Atoi(a[9:])
			sp.kind, sp.body = "buf", patBytes(sid, 0, n)
		case strings.HasPrefix(a, "body=stream:"):
			parts := strings.Split(a[12:], ":")
			if len(parts) != 3 {
				return sp, false
			}
			sp.kind = "stream"
			sp.size, _ = strconv.Atoi(parts[0])
			if parts[1] != "" && parts[1] != "-" {
				for _, c := range strings.Split(parts[1], ".") {
					n, _ := strconv.Atoi(c)
					sp.chunks = append(sp.chunks, n)
				}
			}
			sp.tail = parts[2][0]
		default:
			return sp, false
		}
	}
	return sp, true
}

// applyResp builds the response the way the scripted handler does.
func applyResp(res *fasthttp.Response, sp respSpec) {
	res.SetStatusCode(sp.status)
	for _, kv := range sp.hdr {
		res.Header.AddBytesKV(kv[0], kv[1])
	}
	switch sp.kind {
	case "buf":
		res.SetBody(sp.body)
	case "stream":
		res.SetBodyStream(&scriptReader{spec: sp}, sp.size)
	}
}

// responseView is the list of fields fasthttp yields for a response built by
// applyResp, after the three adjustments fasthttpResponseHeaders makes (content
// length of a buffered body, Connection and Transfer-Encoding removed). It is
// the trusted abstraction of fasthttp's header storage (DESIGN.md C01).
func responseView(sp respSpec) [][2][]byte {
	var res fasthttp.Response
	applyResp(&res, sp)
	if !res.IsBodyStream() {
		res.Header.SetContentLength(len(res.Body()))
	}
	res.Header.Del("Connection")
	res.Header.Del("Transfer-Encoding")
	var out [][2][]byte
	for k, v := range res.Header.All() {
		out = append(out, [2][]byte{append([]byte(nil), k...), append([]byte(nil), v...)})
	}
	return out
}

func (s *srvConn) handler(ctx *fasthttp.RequestCtx) {
	sid, _ := http2.VerifStreamOf(ctx)
	var fields [][2][]byte
	for k, v := range ctx.Request.Header.All() {
		lk := bytes.ToLower(k)
		switch string(lk) {
		case "host", "content-length":
			continue
		}
		fields = append(fields, [2][]byte{lk, append([]byte(nil), v...)})
	}
	rec := fmt.Sprintf("dispatch(%d,m=%s,p=%s,a=%s,f=%s,b=%s)", sid,
		hexOrDash(ctx.Request.Header.Method()), hexOrDash(ctx.Request.Header.RequestURI()),
		hexOrDash(ctx.Request.Header.Host()), fmtKV(fields), digest(ctx.Request.Body()))
	s.mu.Lock()
	ch := s.parked[sid]
	if ch == nil {
		ch = make(chan respSpec, 1)
		s.parked[sid] = ch
	}
	s.dispatch = append(s.dispatch, rec)
	s.entered++
	s.inflight++
	if s.inflight > s.maxInfl {
		s.maxInfl = s.inflight
	}
	early := len(ctx.Request.Header.Peek("x-early")) > 0
	if early {
		s.holding[sid] = true
	}
	s.mu.Unlock()
	if early {
		// a handler that starts on its response and then takes its time
		ctx.Response.SetBodyStream(&earlyStream{s: s, sid: sid}, -1)
	}
	sp := <-ch
	s.mu.Lock()
	s.inflight--
	delete(s.holding, sid)
	s.mu.Unlock()
	if sp.kind == "panic" {
		panic("scripted handler panic")
	}
	if early {
		ctx.Response.Reset()
	}
	applyResp(&ctx.Response, sp)
}

// reqTimeoutMs, when > 0, is the ReadTimeout (per-request timeout) of the next connections (`new ... rt=<ms>`).
var reqTimeoutMs int

func newSrvConn(mcs, mhl, mrb int) *srvConn {
	http2.VerifResetCounters()
	s := &srvConn{mc: newMemConn(), served: make(chan struct{}), parked: map[uint32]chan respSpec{}, holding: map[uint32]bool{}}
	s.dec = hpack.NewDecoder(4096, nil)
	s.decMax = 4096
	fs := &fasthttp.Server{Handler: s.handler, Logger: capLogger{s}}
	if mrb > 0 {
		fs.MaxRequestBodySize = mrb
	}
	if reqTimeoutMs > 0 {
		fs.ReadTimeout = time.Duration(reqTimeoutMs) * time.Millisecond
	}
	srv := http2.VerifNewServer(fs, http2.ServerConfig{PingInterval: -1, MaxConcurrentStreams: mcs, MaxHeaderListSize: mhl})
	go func() {
		s.serveErr = srv.ServeConn(s.mc)
		close(s.served)
	}()
	s.mc.in.write([]byte(clientPreface))
	return s
}

var goAwaySites = []struct{ prefix, tag string }{
	{"connection has been idle", "idle"},
	{"extension frame inside a header block", "ext-in-block"},
	{"expected a CONTINUATION frame", "want-cont"},
	{"unexpected CONTINUATION frame", "stray-cont"},
	{"stream flow-control window exceeded maximum", "stream-win-max"},
	{"connection flow-control window exceeded maximum", "conn-win-max"},
	{"frame on closed stream", "closed-stream"},
	{"stream ID is lower than the latest", "lower-id"},
	{"wrong payload for settings", "frame-error"},
	{"settings with ack and payload", "frame-error"},
	{"wrong value for SETTINGS", "frame-error"},
	{"SETTINGS_INITIAL_WINDOW_SIZE above maximum", "frame-error"},
	{"invalid ping payload", "frame-error"},
	{"WINDOW_UPDATE frame must be", "frame-error"},
	{"RST_STREAM frame must be", "frame-error"},
	{"GOAWAY frame shorter", "frame-error"},
	{"PRIORITY frame must be", "frame-error"},
}

var codeTexts = []string{"No errors", "Protocol error", "Internal error", "Flow control error", "Settings timeout",
	"Stream have been closed", "FrameHeader size error", "Refused Stream", "Stream canceled", "Compression error",
	"Connection error", "Enhance your calm", "Inadequate security", "HTTP/1.1 required"}

// goAwayTag maps the debug text of a GOAWAY to a call-site tag. Text produced
// through writeError has the form "<code text>: <debug>".
func goAwayTag(code uint32, msg string) string {
	for _, ct := range codeTexts {
		if strings.HasPrefix(msg, ct+": ") {
			msg = msg[len(ct)+2:]
			break
		}
	}
	if code == 9 {
		return "compression"
	}
	for _, s := range goAwaySites {
		if strings.HasPrefix(msg, s.prefix) {
			return s.tag
		}
	}
	m := strings.Map(func(r rune) rune {
		if r == ' ' || r == '|' || r == '(' || r == ')' || r == ',' {
			return '_'
		}
		return r
	}, msg)
	if len(m) > 60 {
		m = m[:60]
	}
	return m
}

func (s *srvConn) fmtFrame(fr rawFrame) string {
	p := fr.payload
	switch fr.typ {
	case 0:
		d := p
		if fr.flags&8 != 0 && len(p) > 0 {
			pad := int(p[0])
			if pad+1 <= len(p) {
				d = p[1 : len(p)-pad]
			}
		}
		return fmt.Sprintf("D(%d,es=%d,len=%d,%s)", fr.stream, fr.flags&1, len(p), digest(d))
	case 1, 9:
		// a response header block may come as HEADERS + CONTINUATION... (the write loop cuts it at 16384 octets): the
		// fragments are kept per stream and decoded when END_HEADERS arrives; the decoded field list is printed on the
		// frame that carries END_HEADERS, the frames before it print no fields
		eh := (fr.flags >> 2) & 1
		if s.hblock == nil {
			s.hblock = map[uint32][]byte{}
		}
		if fr.typ == 1 {
			delete(s.hblock, fr.stream)
		}
		frag := append(s.hblock[fr.stream], p...)
		if eh == 0 {
			s.hblock[fr.stream] = frag
			if fr.typ == 1 {
				return fmt.Sprintf("H(%d,es=%d,eh=0,len=%d,-)", fr.stream, fr.flags&1, len(p))
			}
			return fmt.Sprintf("C(%d,eh=0,len=%d,-)", fr.stream, len(p))
		}
		delete(s.hblock, fr.stream)
		// up to two leading dynamic table size updates (RFC 7541 4.2: the smallest size since the last block,
		// then the final one) go to x/net's decoder one by one: it refuses a second one in the same block
		// unless its table is empty (see cliSizeUpdateLen in cli.go)
		for lead := 0; lead < 2; lead++ {
			n := cliSizeUpdateLen(frag)
			if n == 0 || n >= len(frag) {
				break
			}
			if _, err := s.dec.DecodeFull(frag[:n]); err != nil {
				break
			}
			frag = frag[n:]
		}
		hfs, err := s.dec.DecodeFull(frag)
		var kvs [][2][]byte
		for _, hf := range hfs {
			kvs = append(kvs, [2][]byte{[]byte(hf.Name), []byte(hf.Value)})
		}
		e := ""
		if err != nil {
			e = ",hpack-err"
		}
		if fr.typ == 9 {
			return fmt.Sprintf("C(%d,eh=1,len=%d,%s%s)", fr.stream, len(p), fmtKV(kvs), e)
		}
		return fmt.Sprintf("H(%d,es=%d,eh=%d,len=%d,%s%s)", fr.stream, fr.flags&1, eh, len(p), fmtKV(kvs), e)
	case 3:
		if len(p) == 4 {
			return fmt.Sprintf("RST(%d,%d)", fr.stream, uint32(p[0])<<24|uint32(p[1])<<16|uint32(p[2])<<8|uint32(p[3]))
		}
	case 4:
		if fr.flags&1 != 0 {
			return "S(ack)"
		}
		var parts []string
		for i := 0; i+6 <= len(p); i += 6 {
			parts = append(parts, fmt.Sprintf("%d=%d", int(p[i])<<8|int(p[i+1]), uint32(p[i+2])<<24|uint32(p[i+3])<<16|uint32(p[i+4])<<8|uint32(p[i+5])))
		}
		return "S(" + strings.Join(parts, ",") + ")"
	case 6:
		return fmt.Sprintf("PING(ack=%d,%x)", fr.flags&1, p)
	case 7:
		if len(p) >= 8 {
			last := (uint32(p[0])<<24 | uint32(p[1])<<16 | uint32(p[2])<<8 | uint32(p[3])) & 0x7fffffff
			code := uint32(p[4])<<24 | uint32(p[5])<<16 | uint32(p[6])<<8 | uint32(p[7])
			return fmt.Sprintf("GA(last=%d,code=%d,%s)", last, code, goAwayTag(code, string(p[8:])))
		}
	case 8:
		if len(p) == 4 {
			return fmt.Sprintf("WU(%d,%d)", fr.stream, (uint32(p[0])<<24|uint32(p[1])<<16|uint32(p[2])<<8|uint32(p[3]))&0x7fffffff)
		}
	}
	return fmt.Sprintf("F(t=%d,fl=%d,s=%d,len=%d,%x)", fr.typ, fr.flags, fr.stream, len(p), p)
}

// frameUnits counts what the server QUEUED for the frames it wrote: a header block is queued as one frame and
// written as HEADERS + CONTINUATION..., so CONTINUATION frames do not count; `open` = the last header block seen
// has not reached its END_HEADERS yet (the write loop is in the middle of it).
func frameUnits(frames []rawFrame) (n int64, open bool) {
	for _, fr := range frames {
		if fr.typ != 9 {
			n++
		}
		if fr.typ == 1 || fr.typ == 9 {
			open = fr.flags&4 == 0
		}
	}
	return n, open
}

func (s *srvConn) enteredN() int64 { s.mu.Lock(); defer s.mu.Unlock(); return s.entered }

func (s *srvConn) isServed() bool {
	select {
	case <-s.served:
		return true
	default:
		return false
	}
}

// quiesce waits until the server has nothing left to do for the events sent so
// far and returns the canonical output of the step.
func (s *srvConn) quiesce() string {
	deadline := time.Now().Add(8 * time.Second)
	stuck := false
	for {
		served := s.isServed()
		s.outBuf = append(s.outBuf, s.mc.out.take()...)
		frames, rest := parseFrames(s.outBuf)
		n, open := frameUnits(frames)
		nf := len(frames)
		loopGone := http2.VerifLoopExitN.Load() > 0
		// ServeConn can return a moment before the stream loop has drained what was forwarded to it: the
		// step is over only when the loop has gone too (it may still start a handler until then)
		ok := served && loopGone && s.enteredN() == http2.VerifDispatchedN.Load()
		if !ok && !loopGone && s.loose {
			// the loop has come round at least once for everything handed to it since the op began, and nothing moves
			a, b, c := http2.VerifLoopTopN.Load(), http2.VerifQueuedN.Load(), http2.VerifForwardedN.Load()
			ok = s.mc.in.idle() && a-s.lt0 >= c+s.dones-s.fw0 && s.enteredN() == http2.VerifDispatchedN.Load() && len(rest) == 0 && !open
			if ok {
				time.Sleep(3 * time.Millisecond)
				ok = a == http2.VerifLoopTopN.Load() && b == http2.VerifQueuedN.Load() && c == http2.VerifForwardedN.Load() && s.mc.in.idle()
				if ok {
					s.outBuf = append(s.outBuf, s.mc.out.take()...)
					frames, rest = parseFrames(s.outBuf)
					_, open = frameUnits(frames)
					ok = len(rest) == 0 && !open
				}
			}
		} else if !ok && !loopGone {
			ok = s.mc.in.idle() &&
				http2.VerifLoopTopN.Load() == 1+http2.VerifForwardedN.Load()+s.dones &&
				s.enteredN() == http2.VerifDispatchedN.Load() &&
				s.frames+n == 2+http2.VerifQueuedN.Load() && len(rest) == 0 && !open
			if ok { // re-check after a pause: the counters must be stable
				a, b, c := http2.VerifLoopTopN.Load(), http2.VerifQueuedN.Load(), http2.VerifForwardedN.Load()
				time.Sleep(20 * time.Microsecond)
				ok = a == http2.VerifLoopTopN.Load() && b == http2.VerifQueuedN.Load() && c == http2.VerifForwardedN.Load() && s.mc.in.idle()
				if ok {
					s.outBuf = append(s.outBuf, s.mc.out.take()...)
					frames, rest = parseFrames(s.outBuf)
					ok = len(frames) == nf && len(rest) == 0
				}
			}
		}
		if !ok && time.Now().After(deadline) {
			stuck, ok = true, true
		}
		if ok {
			if g := http2.VerifStrms.Load(); g > s.gaugeMaxS {
				s.gaugeMaxS = g
			}
			if g := http2.VerifRing.Load(); g > s.gaugeMaxR {
				s.gaugeMaxR = g
			}
			if g := http2.VerifHeld.Load(); g > s.gaugeMaxH {
				s.gaugeMaxH = g
			}
			var out []string
			for _, fr := range frames {
				out = append(out, s.fmtFrame(fr))
			}
			units, _ := frameUnits(frames)
			s.frames += units
			s.outBuf = rest
			s.mu.Lock()
			d := append([]string(nil), s.dispatch...)
			s.dispatch = nil
			s.mu.Unlock()
			sort.Strings(d)
			out = append(out, d...)
			s.logMu.Lock()
			for _, l := range s.logLines {
				if strings.Contains(l, "panicked") {
					out = append(out, "panic-logged")
				} else if strings.Contains(l, "panic in the handler") {
					out = append(out, "handler-panic-logged")
				}
			}
			s.logLines = nil
			s.logMu.Unlock()
			s.mu.Lock()
			out = append(out, s.ownerViol...)
			s.ownerViol = nil
			s.mu.Unlock()
			if len(rest) != 0 && (served || stuck) {
				out = append(out, fmt.Sprintf("partial(%d)", len(rest)))
			}
			if served && !s.returned {
				s.returned = true
				out = append(out, "returned")
			}
			if stuck {
				out = append(out, "stuck")
			}
			if len(out) == 0 {
				return "out -"
			}
			return "out " + strings.Join(out, " | ")
		}
		time.Sleep(30 * time.Microsecond)
	}
}

// noteSettings: the peer's own decoder may use what it announces in
// SETTINGS_HEADER_TABLE_SIZE (well-formed SETTINGS frames only), and shrinks its
// table at once when it announces less than before, value by value (RFC 7540
// 6.5.3: the values of a frame are processed in the order they appear): after
// 0 then 4096 its table is empty and stays at 0 octets until the server's
// encoder sends a size update (RFC 7541 4.2: the smallest size must be signalled).
func (s *srvConn) noteSettings(b []byte) {
	frames, _ := parseFrames(b)
	for _, fr := range frames {
		if fr.typ == 4 && fr.flags&1 == 0 && fr.stream == 0 && len(fr.payload)%6 == 0 {
			for i := 0; i+6 <= len(fr.payload); i += 6 {
				if int(fr.payload[i])<<8|int(fr.payload[i+1]) == 1 {
					v := uint32(fr.payload[i+2])<<24 | uint32(fr.payload[i+3])<<16 | uint32(fr.payload[i+4])<<8 | uint32(fr.payload[i+5])
					s.dec.SetAllowedMaxDynamicTableSize(v)
					if v < s.decMax {
						s.dec.SetMaxDynamicTableSize(v)
					}
					s.decMax = v
				}
			}
		}
	}
}

// settle waits until the counters have been stable for a while and summarises what the server wrote.
func (s *srvConn) settle() string {
	deadline := time.Now().Add(8 * time.Second)
	var last [4]int64
	stable := 0
	for time.Now().Before(deadline) && stable < 40 {
		cur := [4]int64{http2.VerifLoopTopN.Load(), http2.VerifQueuedN.Load(), http2.VerifForwardedN.Load(), s.enteredN()}
		s.outBuf = append(s.outBuf, s.mc.out.take()...)
		if cur == last && (s.mc.in.idle() || s.isServed()) {
			stable++
		} else {
			stable = 0
		}
		last = cur
		time.Sleep(100 * time.Microsecond)
	}
	frames, rest := parseFrames(s.outBuf)
	s.outBuf = rest
	units, _ := frameUnits(frames)
	s.frames += units
	counts := map[string]int{}
	// in wire order: frames seen between a HEADERS frame without END_HEADERS and the end of its block (RFC 7540 4.3)
	hbi, blocks := 0, 0
	var openBlk uint32
	for _, fr := range frames {
		if openBlk != 0 && !(fr.typ == 9 && fr.stream == openBlk) {
			hbi++
		}
		if fr.typ == 1 || (fr.typ == 9 && fr.stream == openBlk) {
			openBlk = 0
			if fr.flags&4 == 0 {
				openBlk = fr.stream
				if fr.typ == 1 {
					blocks++
				}
			}
		}
		item := s.fmtFrame(fr)
		counts[item[:strings.IndexAny(item+"(", "(")]]++
	}
	s.mu.Lock()
	nd := len(s.dispatch)
	s.dispatch = nil
	s.mu.Unlock()
	panicked := 0
	s.logMu.Lock()
	for _, l := range s.logLines {
		if strings.Contains(l, "panicked") {
			panicked++
		}
	}
	s.logLines = nil
	s.logMu.Unlock()
	return fmt.Sprintf("settled frames=%v dispatches=%d panicked=%d served=%v hbi=%d cutblocks=%d", counts, nd, panicked, s.isServed(), hbi, blocks)
}

func (s *srvConn) gauges() string {
	rwin, _ := http2.VerifRecvWindow()
	s.mu.Lock()
	infl := s.inflight
	s.mu.Unlock()
	return fmt.Sprintf("strms=%d open=%d ring=%d held=%d rwin=%d body=%d infl=%d rmem=%d", http2.VerifStrms.Load(), http2.VerifOpen.Load(), http2.VerifRing.Load(), http2.VerifHeld.Load(), rwin, http2.VerifBody.Load(), infl, http2.VerifRMem.Load())
}

func argInt(f []string, key string, def int) int {
	for _, a := range f {
		if strings.HasPrefix(a, key+"=") {
			n, err := strconv.Atoi(a[len(key)+1:])
			if err == nil {
				return n
			}
		}
	}
	return def
}

func (r *runner) runSrv(f []string) string {
	if len(f) < 3 {
		return "bad-op"
	}
	id, op := f[1], f[2]
	if op == "new" {
		if old := r.srv[id]; old != nil {
			old.shutdown()
		}
		reqTimeoutMs = argInt(f, "rt", 0)
		s := newSrvConn(argInt(f, "mcs", 100), argInt(f, "mhl", 0), argInt(f, "mrb", 0))
		r.srv[id] = s
		return s.quiesce()
	}
	s := r.srv[id]
	if s == nil {
		return "bad-op"
	}
	// where the loop counters stand when the op begins (used once timers may add iterations of their own)
	s.lt0, s.fw0 = http2.VerifLoopTopN.Load(), http2.VerifForwardedN.Load()+s.dones
	switch op {
	case "frame", "bytes":
		if len(f) != 4 {
			return "bad-op"
		}
		b, ok := unhex(f[3])
		if !ok {
			return "bad-op"
		}
		if s.returned {
			return "out gone"
		}
		s.noteSettings(b)
		s.mc.in.write(b)
		return s.quiesce()
	case "done":
		if len(f) < 4 {
			return "bad-op"
		}
		sid64, _ := strconv.ParseUint(f[3], 10, 32)
		sp, ok := parseResp(uint32(sid64), f[4:])
		if !ok {
			return "bad-op"
		}
		s.mu.Lock()
		ch := s.parked[uint32(sid64)]
		if ch != nil {
			delete(s.parked, uint32(sid64))
		}
		s.mu.Unlock()
		if ch == nil {
			return "out no-handler"
		}
		s.dones++
		ch <- sp
		return s.quiesce()
	case "burst": // bytes written without waiting: real interleavings of the three loops and the handlers
		if len(f) != 4 {
			return "bad-op"
		}
		b, ok := unhex(f[3])
		if !ok {
			return "bad-op"
		}
		s.noteSettings(b)
		s.mc.in.write(b)
		return "mon burst"
	case "doneall": // every parked handler is released at once, each completing on its own goroutine
		s.mu.Lock()
		n := 0
		for sid, ch := range s.parked {
			sp, _ := parseResp(sid, f[3:])
			ch <- sp
			delete(s.parked, sid)
			n++
		}
		s.mu.Unlock()
		s.dones += int64(n)
		return fmt.Sprintf("mon doneall %d", n)
	case "settle": // wait until nothing moves any more; the outputs are summarised, not compared
		return "mon " + s.settle()
	case "racega": // the idle timer's GOAWAY is held between reading lastID and queueing the frame while <hex> is dealt with
		if len(f) != 4 {
			return "bad-op"
		}
		b, ok := unhex(f[3])
		if !ok {
			return "bad-op"
		}
		return s.raceGoAway(b, nil)
	case "racega2": // as racega, in a forced order: <hex1> until the stream loop waits for the GOAWAY lock, then <hex2> until the read loop does
		if len(f) != 5 {
			return "bad-op"
		}
		b1, ok1 := unhex(f[3])
		b2, ok2 := unhex(f[4])
		if !ok1 || !ok2 {
			return "bad-op"
		}
		return s.raceGoAway(b1, b2)
	case "sleep": // real time passes (the request timeout of a connection made with rt=<ms> fires); what the server did meanwhile
		ms, _ := strconv.Atoi(f[3])
		time.Sleep(time.Duration(ms) * time.Millisecond)
		s.loose = true
		return "mon slept " + s.settle()
	case "stall": // the peer stops reading from here on; only burst, doneall and stallcut may follow
		s.mc.out.setStall(true)
		return "mon stalled"
	case "stallcut": // the peer stops reading, goes on sending, then disconnects: runtime behaviour the serial model has no words for
		n, _ := strconv.Atoi(f[3])
		return "mon " + s.stallCut(n)
	case "cut":
		s.mc.in.close()
		return s.quiesce()
	case "idle":
		if s.returned {
			return "out gone"
		}
		http2.VerifCloseIdle()
		return s.quiesce()
	case "gauges":
		if s.returned {
			return "ok gone"
		}
		return "ok " + s.gauges()
	case "end":
		return s.end()
	case "mon":
		return s.mon()
	}
	return "bad-op"
}

// shutdown releases every parked handler and closes the connection.
func (s *srvConn) shutdown() {
	s.mc.Close()
	s.mu.Lock()
	for sid, ch := range s.parked {
		ch <- respSpec{status: 200, kind: "none", sid: sid}
		delete(s.parked, sid)
	}
	s.mu.Unlock()
	select {
	case <-s.served:
	case <-time.After(3 * time.Second):
	}
}

// end: the peer goes away. Reports whether ServeConn returned, the largest
// number of handlers that ran at once, and pool-tracker anomalies.
func (s *srvConn) end() string {
	s.mc.in.close()
	ret := "returned"
	select {
	case <-s.served:
	case <-time.After(3 * time.Second):
		ret = "not-returned"
	}
	s.shutdown()
	if ret == "returned" {
		// nothing of this connection is left behind: no goroutine still runs (or is parked in) a serverConn method
		if n, where := leftBehind(); n > 0 {
			return fmt.Sprintf("ok returned left-behind=%d(%s)", n, where)
		}
	}
	return "ok " + ret
}

// leftBehind counts the goroutines that are still inside a method of the server connection, once the handlers have
// been released and ServeConn has returned. It waits a little for them to wind down.
func leftBehind() (int, string) {
	buf := make([]byte, 1<<22)
	n, where := 0, ""
	for try := 0; try < 100; try++ {
		n, where = 0, ""
		for _, g := range strings.Split(string(buf[:runtime.Stack(buf, true)]), "\n\n") {
			if i := strings.Index(g, "github.com/dgrr/http2.(*serverConn)."); i >= 0 {
				n++
				if where == "" {
					where = strings.SplitN(g[i+len("github.com/dgrr/http2.(*serverConn)."):], "(", 2)[0]
				}
			}
		}
		if n == 0 {
			return 0, ""
		}
		time.Sleep(5 * time.Millisecond)
	}
	return n, where
}

// raceGoAway forces the one interleaving the serial stepping never produces: the idle timer's goroutine has read
// lastID for its GOAWAY and has not queued the frame yet; meanwhile the stream loop deals with the frames in b (a
// new request, say). Then the timer goes on. What the peer sees is judged by the GOAWAY monitor.
// parkedOnMutex: some goroutine is waiting for a mutex inside the named method of the server connection
func parkedOnMutex(method string) bool {
	buf := make([]byte, 1<<20)
	for _, g := range strings.Split(string(buf[:runtime.Stack(buf, true)]), "\n\n") {
		if strings.Contains(g, "[sync.Mutex.Lock") && strings.Contains(g, "(*serverConn)."+method) {
			return true
		}
	}
	return false
}

func (s *srvConn) raceGoAway(b []byte, then []byte) string {
	if s.returned {
		return "out gone"
	}
	reached, release := make(chan struct{}), make(chan struct{})
	var once sync.Once
	fn := func(point string) {
		if point == "goaway-loaded-last" {
			once.Do(func() {
				close(reached)
				<-release
			})
		}
	}
	http2.VerifYieldFn.Store(&fn)
	go http2.VerifCloseIdle()
	select {
	case <-reached:
	case <-time.After(2 * time.Second):
	}
	before := s.enteredN()
	s.noteSettings(b)
	s.mc.in.write(b)
	// until a handler has been entered for it, or it is clear that none will be while the timer is held
	for i := 0; i < 300 && s.enteredN() == before; i++ {
		if then != nil && parkedOnMutex("handleStreams") {
			break
		}
		time.Sleep(time.Millisecond)
	}
	if then != nil {
		// the stream loop is first in line for the lock; now the read loop queues up behind it
		s.mc.in.write(then)
		for i := 0; i < 300 && !parkedOnMutex("readLoop"); i++ {
			time.Sleep(time.Millisecond)
		}
	}
	close(release)
	http2.VerifYieldFn.Store(nil)
	return s.quiesce()
}

// stallCut: the peer stops reading (writes to it block), sends n PING frames, each of which asks for an answer, and
// then drops the connection. ServeConn has to return and the stream loop has to end; the result is judged by the
// monitors only.
func (s *srvConn) stallCut(n int) string {
	if s.returned {
		return "stallcut gone"
	}
	s.mc.out.setStall(true)
	ping := frameBytes(6, 0, 0, []byte{1, 2, 3, 4, 5, 6, 7, 8})
	var b []byte
	for i := 0; i < n; i++ {
		b = append(b, ping...)
	}
	s.mc.in.write(b)
	var last [3]int64
	for i, stable := 0, 0; i < 2000 && stable < 20; i++ {
		cur := [3]int64{http2.VerifForwardedN.Load(), http2.VerifQueuedN.Load(), http2.VerifLoopTopN.Load()}
		if cur == last {
			stable++
		} else {
			stable = 0
		}
		last = cur
		time.Sleep(time.Millisecond)
	}
	blockedAt := fmt.Sprintf("forwarded=%d queued=%d", last[0], last[1])
	s.mc.Close() // the peer is gone: reads end, the blocked write fails
	served, looped := false, false
	deadline := time.Now().Add(4 * time.Second)
	for time.Now().Before(deadline) {
		served, looped = s.isServed(), http2.VerifLoopExitN.Load() > 0
		if served && looped {
			break
		}
		time.Sleep(2 * time.Millisecond)
	}
	s.returned = true
	return fmt.Sprintf("stallcut pings=%d %s served=%v looped=%v", n, blockedAt, served, looped)
}

// mon: monitor values the model does not predict (it answers "mon").
func (s *srvConn) mon() string {
	s.mu.Lock()
	defer s.mu.Unlock()
	return fmt.Sprintf("mon maxinflight=%d inflight=%d maxstrms=%d maxring=%d maxheld=%d", s.maxInfl, s.inflight, s.gaugeMaxS, s.gaugeMaxR, s.gaugeMaxH)
}
