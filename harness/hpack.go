package main

// HPACK area (C03, C04): operations on the real decoder/encoder of dgrr/http2.
//
//	hpack.int.dec <n> <hex>                      -> ok <v> rest=<k> | need-more | err
//	hpack.int.enc <n> <flags> <v>                -> ok <hex>          (dst = [flags], appendInt(dst, n, v))
//	hpack.str.dec <hex>                          -> ok <hex> rest=<k> | need-more | err
//	hpack.str.enc <huff> <dsthex> <hex>          -> ok <hex appended after dst>
//	hpack.dec <ctx> new                          -> ok
//	hpack.dec <ctx> limit <n>                    -> ok tbl=.. max=.. lim=..   (SetMaxTableSize on a decoder)
//	hpack.dec <ctx> field bs=<0|1> fp=<n> ks=<0|1> <hex>
//	        -> ok name=<hex> value=<hex> sens=<0|1> rest=<k> tbl=<tbl> max=<n>
//	         | none rest=<k> tbl=<tbl> max=<n> | need-more | err     (need-more/err: the context starts afresh)
//	           none: no field was produced — ErrUnexpectedSize with no octets handed back (the input ended behind
//	           a dynamic table size update), or no error and the caller's HeaderField untouched
//	hpack.dec <ctx> frame cont=<0|1> eh=<0|1> <hex>     the loop of handleHeaderFrame over one frame payload
//	        -> ok fields=<flds> carry=<k> tbl=<tbl> max=<n> | err fields=<flds>   (err: the context starts afresh)
//	hpack.enc <ctx> new dc=<0|1> dd=<0|1>        -> ok
//	hpack.enc <ctx> block                        -> ok                (marks the start of a header block)
//	hpack.enc <ctx> setmax <n>                   -> ok tbl=<tbl> max=<n> pending=<0|1>
//	hpack.enc <ctx> field store=<0|1> sens=<0|1> pre=<hex> <name> <value>
//	        -> ok <hex appended> tbl=<tbl> max=<n> pending=<0|1>
//	hpack.ref <ctx> new | limit <n> | block <hex>       reference decoder: x/net here, the Lean Spec in the driver
//	        -> ok fields=<flds> ... | err
//
// <tbl>: entries newest first, hex(name):hex(value), a trailing ! when the stored entry carries the
// never-indexed mark; "-" when empty. <flds>: hex(name):hex(value):<0|1>, comma separated, "-" when empty.

import (
	"bytes"
	"fmt"
	"strconv"
	"strings"

	http2 "github.com/dgrr/http2"
	xhpack "golang.org/x/net/http2/hpack"
)

type hpackCtx struct {
	hp   *http2.HPACK
	hf   *http2.HeaderField
	prev []byte
	seen bool // strm.fieldSeen

	ref *xhpack.Decoder
}

var hpSentinel = []byte{0xff, 's', 'e', 'n', 't'}

func newHpackCtx() *hpackCtx {
	return &hpackCtx{hp: http2.AcquireHPACK(), hf: &http2.HeaderField{}}
}

func tblString(hp *http2.HPACK) (string, uint32, uint32, bool) {
	tbl, max, lim, pend := http2.VerifHPACKDump(hp)
	if len(tbl) == 0 {
		return "-", max, lim, pend
	}
	var sb strings.Builder
	for i, e := range tbl {
		if i > 0 {
			sb.WriteByte(',')
		}
		fmt.Fprintf(&sb, "%x:%x", e.Key, e.Value)
		if e.Sensible {
			sb.WriteByte('!')
		}
	}
	return sb.String(), max, lim, pend
}

func b01(b bool) int {
	if b {
		return 1
	}
	return 0
}

func hpKV(s, key string) (string, bool) {
	if strings.HasPrefix(s, key+"=") {
		return s[len(key)+1:], true
	}
	return "", false
}

func kvInt(s, key string) (int, bool) {
	v, ok := hpKV(s, key)
	if !ok {
		return 0, false
	}
	n, err := strconv.Atoi(v)
	return n, err == nil
}

func fieldsString(fs [][3][]byte) string {
	if len(fs) == 0 {
		return "-"
	}
	var sb strings.Builder
	for i, f := range fs {
		if i > 0 {
			sb.WriteByte(',')
		}
		fmt.Fprintf(&sb, "%x:%x:%d", f[0], f[1], f[2][0])
	}
	return sb.String()
}

func (r *runner) runHpack(f []string) string {
	switch f[0] {
	case "hpack.int.dec":
		if len(f) != 3 {
			return "bad-op"
		}
		n, err := strconv.Atoi(f[1])
		b, ok := unhex(f[2])
		if err != nil || !ok {
			return "bad-op"
		}
		rest, v, e := http2.VerifReadInt(n, b)
		switch {
		case e == nil:
			return fmt.Sprintf("ok %d rest=%d", v, len(rest))
		case http2.VerifErrIsNeedMore(e):
			return "need-more"
		}
		return "err"
	case "hpack.int.enc":
		if len(f) != 4 {
			return "bad-op"
		}
		n, e1 := strconv.Atoi(f[1])
		fl, e2 := strconv.Atoi(f[2])
		v, e3 := strconv.ParseUint(f[3], 10, 64)
		if e1 != nil || e2 != nil || e3 != nil {
			return "bad-op"
		}
		return "ok " + hexOrDash(http2.VerifAppendInt([]byte{byte(fl)}, uint8(n), v))
	case "hpack.str.dec":
		if len(f) != 2 {
			return "bad-op"
		}
		b, ok := unhex(f[1])
		if !ok {
			return "bad-op"
		}
		rest, s, e := http2.VerifReadString(nil, b)
		switch {
		case e == nil:
			return fmt.Sprintf("ok %s rest=%d", hexOrDash(s), len(rest))
		case http2.VerifErrIsNeedMore(e):
			return "need-more"
		}
		return "err"
	case "hpack.str.enc":
		if len(f) != 4 {
			return "bad-op"
		}
		dst, ok1 := unhex(f[2])
		s, ok2 := unhex(f[3])
		if !ok1 || !ok2 {
			return "bad-op"
		}
		keep := append([]byte(nil), dst...)
		out := http2.VerifAppendString(dst, s, f[1] == "1")
		if len(out) < len(keep) || !bytes.Equal(out[:len(keep)], keep) {
			return "prefix-modified " + hexOrDash(out)
		}
		return "ok " + hexOrDash(out[len(keep):])
	case "hpack.dec":
		return r.runHpackDec(f)
	case "hpack.enc":
		return r.runHpackEnc(f)
	case "hpack.ref":
		return r.runHpackRef(f)
	}
	return "bad-op"
}

func (r *runner) runHpackDec(f []string) string {
	if len(f) < 3 {
		return "bad-op"
	}
	name := "d:" + f[1]
	if f[2] == "new" {
		r.hp[name] = newHpackCtx()
		return "ok"
	}
	c := r.hp[name]
	if c == nil {
		return "bad-op"
	}
	switch f[2] {
	case "limit":
		if len(f) != 4 {
			return "bad-op"
		}
		n, err := strconv.ParseUint(f[3], 10, 32)
		if err != nil {
			return "bad-op"
		}
		c.hp.SetMaxTableSize(uint32(n))
		t, max, lim, _ := tblString(c.hp)
		return fmt.Sprintf("ok tbl=%s max=%d lim=%d", t, max, lim)
	case "field":
		if len(f) != 7 {
			return "bad-op"
		}
		bs, ok1 := kvInt(f[3], "bs")
		fp, ok2 := kvInt(f[4], "fp")
		ks, ok3 := kvInt(f[5], "ks")
		b, ok4 := unhex(f[6])
		if !ok1 || !ok2 || !ok3 || !ok4 {
			return "bad-op"
		}
		// the caller's HeaderField is reused from field to field (as handleHeaderFrame and readHeader
		// do); name and value get a sentinel so that "no field was produced" is observable
		c.hf.SetKeyBytes(hpSentinel)
		c.hf.SetValueBytes(hpSentinel)
		if ks == 0 {
			http2.VerifSetSensible(c.hf, false)
		}
		rest, err := http2.VerifNextField(c.hp, c.hf, bs == 1, fp, b)
		if err != nil && http2.VerifErrIsNeedMore(err) && len(rest) == 0 && onlySizeUpdates(b) {
			// the input ended behind a size update: nothing is wrong, there is no field yet
			t, max, _, _ := tblString(c.hp)
			return fmt.Sprintf("none rest=0 tbl=%s max=%d", t, max)
		}
		if err != nil {
			r.hp[name] = newHpackCtx()
			if http2.VerifErrIsNeedMore(err) {
				return "need-more"
			}
			return "err"
		}
		t, max, _, _ := tblString(c.hp)
		if bytes.Equal(c.hf.KeyBytes(), hpSentinel) && bytes.Equal(c.hf.ValueBytes(), hpSentinel) {
			return fmt.Sprintf("none rest=%d tbl=%s max=%d", len(rest), t, max)
		}
		return fmt.Sprintf("ok name=%s value=%s sens=%d rest=%d tbl=%s max=%d", hexOrDash(c.hf.KeyBytes()),
			hexOrDash(c.hf.ValueBytes()), b01(c.hf.IsSensible()), len(rest), t, max)
	case "frame":
		if len(f) != 6 {
			return "bad-op"
		}
		cont, ok1 := kvInt(f[3], "cont")
		eh, ok2 := kvInt(f[4], "eh")
		b, ok3 := unhex(f[5])
		if !ok1 || !ok2 || !ok3 {
			return "bad-op"
		}
		fields, bad := c.headerFrame(cont == 1, eh == 1, b)
		if bad {
			r.hp[name] = newHpackCtx()
			return "err fields=" + fieldsString(fields)
		}
		t, max, _, _ := tblString(c.hp)
		return fmt.Sprintf("ok fields=%s carry=%d tbl=%s max=%d", fieldsString(fields), len(c.prev), t, max)
	}
	return "bad-op"
}

// onlySizeUpdates: b is a sequence of complete dynamic table size updates (001xxxxx, 5-bit prefix integer)
func onlySizeUpdates(b []byte) bool {
	for len(b) > 0 {
		if b[0]&0xe0 != 0x20 {
			return false
		}
		i := 1
		if b[0]&0x1f == 0x1f {
			for i < len(b) && b[i]&0x80 != 0 {
				i++
			}
			if i == len(b) {
				return false
			}
			i++
		}
		b = b[i:]
	}
	return true
}

// headerFrame is the HPACK part of serverConn.handleHeaderFrame, transcribed: the carry-over of an
// unfinished field in previousHeaderBytes (the octets nextField hands back with ErrUnexpectedSize),
// fieldSeen / blockStart, fieldsProcessed, and what END_HEADERS does to a field that is cut short. The
// message-level checks of that loop are not part of this area.
func (c *hpackCtx) headerFrame(continuation, endHeaders bool, payload []byte) (fields [][3][]byte, bad bool) {
	if !continuation {
		c.seen = false
	}

	blockStart := !c.seen

	b := append(c.prev, payload...)
	c.prev = b[:0]

	hf := http2.AcquireHeaderField()
	defer http2.ReleaseHeaderField(hf)

	var err error

	fieldsProcessed := 0

	for len(b) > 0 {
		b, err = http2.VerifNextField(c.hp, hf, blockStart, fieldsProcessed, b)
		if err != nil {
			if http2.VerifErrIsNeedMore(err) && (len(b) == 0 || !endHeaders) {
				err = nil
				c.prev = append(c.prev, b...)
			} else {
				bad = true
			}

			break
		}

		c.seen = true

		fields = append(fields, [3][]byte{append([]byte(nil), hf.KeyBytes()...), append([]byte(nil), hf.ValueBytes()...),
			{byte(b01(hf.IsSensible()))}})
		fieldsProcessed++
	}

	return fields, bad
}

func (r *runner) runHpackEnc(f []string) string {
	if len(f) < 3 {
		return "bad-op"
	}
	name := "e:" + f[1]
	if f[2] == "new" {
		if len(f) != 5 {
			return "bad-op"
		}
		dc, ok1 := kvInt(f[3], "dc")
		dd, ok2 := kvInt(f[4], "dd")
		if !ok1 || !ok2 {
			return "bad-op"
		}
		c := newHpackCtx()
		c.hp.DisableCompression = dc == 1
		c.hp.DisableDynamicTable = dd == 1
		r.hp[name] = c
		return "ok"
	}
	c := r.hp[name]
	if c == nil {
		return "bad-op"
	}
	switch f[2] {
	case "block": // start of a header block: a marker for the oracle, nothing happens in the encoder
		return "ok"
	case "setmax":
		if len(f) != 4 {
			return "bad-op"
		}
		n, err := strconv.ParseUint(f[3], 10, 32)
		if err != nil {
			return "bad-op"
		}
		c.hp.SetMaxTableSize(uint32(n))
		t, max, _, pend := tblString(c.hp)
		return fmt.Sprintf("ok tbl=%s max=%d pending=%d", t, max, b01(pend))
	case "field":
		if len(f) != 8 {
			return "bad-op"
		}
		store, ok1 := kvInt(f[3], "store")
		sens, ok2 := kvInt(f[4], "sens")
		pres, ok3 := hpKV(f[5], "pre")
		pre, ok4 := unhex(pres)
		n, ok5 := unhex(f[6])
		v, ok6 := unhex(f[7])
		if !ok1 || !ok2 || !ok3 || !ok4 || !ok5 || !ok6 {
			return "bad-op"
		}
		hf := &http2.HeaderField{}
		hf.SetBytes(n, v)
		http2.VerifSetSensible(hf, sens == 1)
		dst := append(make([]byte, 0, len(pre)+64), pre...)
		out := c.hp.AppendHeader(dst, hf, store == 1)
		if len(out) < len(pre) || !bytes.Equal(out[:len(pre)], pre) {
			return "prefix-modified " + hexOrDash(out)
		}
		t, max, _, pend := tblString(c.hp)
		return fmt.Sprintf("ok %s tbl=%s max=%d pending=%d", hexOrDash(out[len(pre):]), t, max, b01(pend))
	}
	return "bad-op"
}

// runHpackRef decodes with golang.org/x/net/http2/hpack: a sanity reference for the Lean Spec decoder,
// which answers the same operations in the model driver. It is never the oracle.
func (r *runner) runHpackRef(f []string) string {
	if len(f) < 3 {
		return "bad-op"
	}
	name := "r:" + f[1]
	if f[2] == "new" {
		r.hp[name] = &hpackCtx{ref: xhpack.NewDecoder(4096, nil)}
		return "ok"
	}
	c := r.hp[name]
	if c == nil || c.ref == nil {
		return "bad-op"
	}
	switch f[2] {
	case "limit":
		if len(f) != 4 {
			return "bad-op"
		}
		n, err := strconv.ParseUint(f[3], 10, 32)
		if err != nil {
			return "bad-op"
		}
		c.ref.SetAllowedMaxDynamicTableSize(uint32(n))
		return "ok"
	case "block":
		if len(f) != 4 {
			return "bad-op"
		}
		b, ok := unhex(f[3])
		if !ok {
			return "bad-op"
		}
		hfs, err := c.ref.DecodeFull(b)
		if err != nil {
			r.hp[name] = &hpackCtx{ref: xhpack.NewDecoder(4096, nil)}
			return "err"
		}
		var fs [][3][]byte
		for _, h := range hfs {
			fs = append(fs, [3][]byte{[]byte(h.Name), []byte(h.Value), {byte(b01(h.Sensitive))}})
		}
		return "ok fields=" + fieldsString(fs)
	}
	return "bad-op"
}
