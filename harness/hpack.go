package main

import "bufio"

// owned by the HPACK area (C03, C04)

type hpackCtx struct{}

func (r *runner) runHpack(f []string) string            { return "bad-op" }
func genHpackDec(p *prng, thorough bool, w *bufio.Writer) {}
func genHpackEnc(p *prng, thorough bool, w *bufio.Writer) {}
