// h2harness drives the real dgrr/http2 code (built with -tags verif from the
// working tree) through the line protocol shared with the Lean model driver.
//
//	h2harness gen <area> <tier> <seed>   op lines on stdout
//	h2harness run                        op lines on stdin, one result line each
package main

import (
	"bufio"
	"fmt"
	"os"
	"sort"
	"strconv"
	"strings"

	http2 "github.com/dgrr/http2"
)

func hexOrDash(b []byte) string {
	if len(b) == 0 {
		return "-"
	}
	return fmt.Sprintf("%x", b)
}

func unhex(s string) ([]byte, bool) {
	if s == "-" {
		return nil, true
	}
	if len(s)%2 != 0 {
		return nil, false
	}
	out := make([]byte, len(s)/2)
	for i := 0; i < len(out); i++ {
		v, err := strconv.ParseUint(s[2*i:2*i+2], 16, 8)
		if err != nil {
			return nil, false
		}
		out[i] = byte(v)
	}
	return out, true
}

type runner struct {
	hp  map[string]*hpackCtx
	srv map[string]*srvConn
	cli map[string]*cliConn
	pool map[string]*poolClient
}

func (r *runner) step(line string) (res string) {
	defer func() {
		if e := recover(); e != nil {
			res = "panic"
			if os.Getenv("H2_PANIC_TRACE") != "" {
				fmt.Fprintf(os.Stderr, "panic on %q: %v\n", line, e)
			}
		}
	}()
	f := strings.Split(line, " ")
	switch {
	case f[0] == "pool.on":
		http2.VerifPoolTrack(true)
		return "mon pool on"
	case f[0] == "pool.report":
		an, ev, acq, rel := http2.VerifPoolReport()
		sort.Strings(an)
		return fmt.Sprintf("mon pool events=%d anomalies=%s acquired=%v released=%v", ev, strings.Join(an, "|"), acq, rel)
	case strings.HasPrefix(f[0], "pool.cl."):
		return r.runPool(f)
	case strings.HasPrefix(f[0], "huff."):
		return runHuff(f)
	case strings.HasPrefix(f[0], "hpack."):
		return r.runHpack(f)
	case strings.HasPrefix(f[0], "frame."):
		return runFrame(f)
	case strings.HasPrefix(f[0], "msg."):
		return runMsg(f)
	case f[0] == "srv":
		return r.runSrv(f)
	case f[0] == "cli":
		return r.runCli(f)
	}
	return "bad-op"
}

func main() {
	if len(os.Args) < 2 {
		fmt.Fprintln(os.Stderr, "usage: h2harness gen <area> <tier> <seed> | run")
		os.Exit(2)
	}
	switch os.Args[1] {
	case "gen":
		if len(os.Args) != 5 {
			fmt.Fprintln(os.Stderr, "usage: h2harness gen <area> <tier> <seed>")
			os.Exit(2)
		}
		seed, _ := strconv.ParseUint(os.Args[4], 10, 64)
		w := bufio.NewWriterSize(os.Stdout, 1<<20)
		gen(os.Args[2], os.Args[3], seed, w)
		w.Flush()
	case "run":
		r := &runner{hp: map[string]*hpackCtx{}, srv: map[string]*srvConn{}, cli: map[string]*cliConn{}}
		sc := bufio.NewScanner(os.Stdin)
		sc.Buffer(make([]byte, 1<<20), 1<<26)
		w := bufio.NewWriterSize(os.Stdout, 1<<16)
		for sc.Scan() {
			line := sc.Text()
			if line == "" || strings.HasPrefix(line, "#") {
				fmt.Fprintln(w, "#")
				continue
			}
			fmt.Fprintln(w, r.step(line))
			w.Flush()
		}
	default:
		fmt.Fprintln(os.Stderr, "unknown command")
		os.Exit(2)
	}
}

func gen(area, tier string, seed uint64, w *bufio.Writer) {
	p := newPrng(seed)
	thorough := tier == "thorough"
	switch area {
	case "huff":
		genHuff(p, thorough, w)
	case "hpackdec":
		genHpackDec(p, thorough, w)
	case "hpackenc":
		genHpackEnc(p, thorough, w)
	case "frame":
		genFrame(p, thorough, w)
	case "msg":
		genMsg(p, thorough, w)
	default:
		if !genScripts(area, p, thorough, w) {
			fmt.Fprintln(os.Stderr, "unknown area", area)
			os.Exit(2)
		}
	}
}
