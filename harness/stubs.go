package main

import "bufio"

type hpackCtx struct{}
type srvConn struct{}
type cliConn struct{}

func (r *runner) runHpack(f []string) string { return "bad-op" }
func runFrame(f []string) string             { return "bad-op" }
func runMsg(f []string) string               { return "bad-op" }
func (r *runner) runSrv(f []string) string   { return "bad-op" }
func (r *runner) runCli(f []string) string   { return "bad-op" }

func genHpackDec(p *prng, thorough bool, w *bufio.Writer)                 {}
func genHpackEnc(p *prng, thorough bool, w *bufio.Writer)                 {}
func genFrame(p *prng, thorough bool, w *bufio.Writer)                    {}
func genMsg(p *prng, thorough bool, w *bufio.Writer)                      {}
func genScripts(area string, p *prng, thorough bool, w *bufio.Writer) bool { return false }
