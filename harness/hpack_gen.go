package main

// Generators of the HPACK area. The byte strings fed to the decoder are produced by a small
// reference serialiser written here (canonical RFC 7541 integers, Huffman by x/net), never by the
// code under test. A shadow table keeps indices mostly valid.

import (
	"bufio"
	"fmt"

	http2 "github.com/dgrr/http2"
	xhpack "golang.org/x/net/http2/hpack"
)

const (
	kIndexed = iota
	kIncremental
	kWithout
	kNever
	kSizeUpdate
)

type gRepr struct {
	kind        int
	idx         uint64 // index, name index (0: literal name) or new size
	name, value []byte
	nh, vh      bool
}

func refInt(dst []byte, n uint, flags byte, v uint64) []byte {
	m := uint64(1)<<n - 1
	if v < m {
		return append(dst, flags|byte(v))
	}
	dst = append(dst, flags|byte(m))
	v -= m
	for v >= 128 {
		dst = append(dst, byte(v%128)+128)
		v /= 128
	}
	return append(dst, byte(v))
}

func refStr(dst, s []byte, huff bool) []byte {
	if huff {
		e := xhpack.AppendHuffmanString(nil, string(s))
		dst = refInt(dst, 7, 128, uint64(len(e)))
		return append(dst, e...)
	}
	dst = refInt(dst, 7, 0, uint64(len(s)))
	return append(dst, s...)
}

func (g gRepr) ser(dst []byte) []byte {
	switch g.kind {
	case kIndexed:
		return refInt(dst, 7, 128, g.idx)
	case kSizeUpdate:
		return refInt(dst, 5, 32, g.idx)
	}
	n, fl := uint(6), byte(64)
	if g.kind == kWithout {
		n, fl = 4, 0
	} else if g.kind == kNever {
		n, fl = 4, 16
	}
	dst = refInt(dst, n, fl, g.idx)
	if g.idx == 0 {
		dst = refStr(dst, g.name, g.nh)
	}
	return refStr(dst, g.value, g.vh)
}

// shadow table of the generator (newest first)
type gTable struct {
	ents [][2][]byte
	max  int
}

func (t *gTable) size() int {
	n := 0
	for _, e := range t.ents {
		n += len(e[0]) + len(e[1]) + 32
	}
	return n
}

func (t *gTable) evict() {
	for len(t.ents) > 0 && t.size() > t.max {
		t.ents = t.ents[:len(t.ents)-1]
	}
}

func (t *gTable) add(n, v []byte) {
	t.ents = append([][2][]byte{{n, v}}, t.ents...)
	t.evict()
}

var gStaticNames = []string{":authority", ":method", ":method", ":path", ":path", ":scheme", ":scheme", ":status", ":status", ":status",
	":status", ":status", ":status", ":status", "accept-charset", "accept-encoding", "accept-language", "accept-ranges", "accept",
	"access-control-allow-origin", "age", "allow", "authorization", "cache-control", "content-disposition", "content-encoding",
	"content-language", "content-length", "content-location", "content-range", "content-type", "cookie", "date", "etag", "expect",
	"expires", "from", "host", "if-match", "if-modified-since", "if-none-match", "if-range", "if-unmodified-since", "last-modified",
	"link", "location", "max-forwards", "proxy-authenticate", "proxy-authorization", "range", "referer", "refresh", "retry-after",
	"server", "set-cookie", "strict-transport-security", "transfer-encoding", "user-agent", "vary", "via", "www-authenticate"}

var gStaticValues = map[int]string{2: "GET", 3: "POST", 4: "/", 5: "/index.html", 6: "http", 7: "https", 8: "200", 9: "204", 10: "206",
	11: "304", 12: "400", 13: "404", 14: "500", 16: "gzip, deflate"}

func (t *gTable) nameAt(i uint64) []byte {
	if i >= 1 && i <= 61 {
		return []byte(gStaticNames[i-1])
	}
	if i >= 62 && int(i-62) < len(t.ents) {
		return t.ents[i-62][0]
	}
	return nil
}

func repByte(b byte, n int) []byte {
	s := make([]byte, n)
	for i := range s {
		s[i] = b
	}
	return s
}

func gString(p *prng) []byte {
	switch p.intn(12) {
	case 0:
		return nil
	case 1:
		return []byte{0}
	case 2:
		return []byte("00000000") // Huffman form ends in 0x00
	case 3:
		return repByte('a', []int{1, 4, 15, 16, 30, 31, 32, 62, 63, 64, 126, 127, 128, 129, 255, 256}[p.intn(16)])
	case 4:
		return p.bytes(p.intn(6))
	case 5:
		s := p.bytes(1 + p.intn(20))
		s[len(s)-1] = 0
		return s
	case 6:
		return []byte(gStaticNames[p.intn(61)])
	case 7:
		return repByte(byte(p.intn(256)), p.intn(300))
	}
	s := p.bytes(p.intn(24))
	for j := range s {
		s[j] = 32 + s[j]%95
	}
	return s
}

var gLens = []int{0, 1, 2, 3, 4, 14, 15, 16, 17, 30, 31, 32, 33, 62, 63, 64, 65, 126, 127, 128, 129, 254, 255, 256, 257, 300}

// ------------------------------------------------------------------ decoder side

func genHpackDec(p *prng, thorough bool, w *bufio.Writer) {
	genIntDec(p, thorough, w)
	genStrDec(p, thorough, w)
	genFieldDec(p, thorough, w)
	genUpdateBlocks(w)
	n := 400
	if thorough {
		n = 6000
	}
	for i := 0; i < n; i++ {
		genDecHistory(p, fmt.Sprintf("h%d", i), w)
	}
}

func genIntDec(p *prng, thorough bool, w *bufio.Writer) {
	for n := uint(1); n <= 8; n++ {
		m := uint64(1)<<n - 1
		for a := 0; a < 256; a++ {
			fmt.Fprintf(w, "hpack.int.dec %d %02x\n", n, a)
			fmt.Fprintf(w, "hpack.int.dec %d %02x%02x\n", n, a, p.intn(256))
		}
		for b := 0; b < 256; b++ {
			fmt.Fprintf(w, "hpack.int.dec %d %02x%02x\n", n, m, b)
			fmt.Fprintf(w, "hpack.int.dec %d %02x%02x%02x\n", n, 0xff, b, p.intn(256))
		}
		vals := []uint64{0, 1, m - 1, m, m + 1, m + 126, m + 127, m + 128, m + 129, 16383, 16384, 16384 + m, 1<<21 - 1, 1 << 21, 1<<28 + 5,
			1<<32 - 1, 1 << 32, 1<<35 + 77, 1<<56 - 1, 1 << 56, 1<<63 - 1, 1 << 63, 1<<63 + m, ^uint64(0) - m, ^uint64(0) - m + 1, ^uint64(0) - 1, ^uint64(0)}
		for i := 0; i < 20; i++ {
			vals = append(vals, p.next()>>uint(p.intn(64)))
		}
		for _, v := range vals {
			fl := byte(p.intn(256)) &^ byte(m)
			e := refInt(nil, n, fl, v)
			for cut := 0; cut <= len(e); cut++ {
				fmt.Fprintf(w, "hpack.int.dec %d %s\n", n, hexOrDash(e[:cut]))
			}
			fmt.Fprintf(w, "hpack.int.dec %d %x\n", n, append(append([]byte(nil), e...), p.bytes(1+p.intn(3))...))
			// non-canonical: zero digits appended
			if v >= m {
				for pad := 1; pad <= 12; pad++ {
					x := append([]byte(nil), e...)
					x[len(x)-1] |= 128
					for k := 1; k < pad; k++ {
						x = append(x, 128)
					}
					x = append(x, 0)
					if len(x) <= 14 {
						fmt.Fprintf(w, "hpack.int.dec %d %x\n", n, x)
					}
				}
			}
		}
		// around the 64-bit boundary: 8..12 continuation octets, last digits varied
		for k := 8; k <= 12; k++ {
			for _, fill := range []byte{0x80, 0xff, 0x81} {
				for _, last := range []byte{0x00, 0x01, 0x02, 0x03, 0x7f, 0x80, 0xff} {
					x := []byte{byte(m)}
					for j := 0; j < k-1; j++ {
						x = append(x, fill)
					}
					x = append(x, last)
					fmt.Fprintf(w, "hpack.int.dec %d %x\n", n, x)
					fmt.Fprintf(w, "hpack.int.dec %d %x\n", n, append(x, 0x00))
				}
			}
		}
	}
}

func genStrDec(p *prng, thorough bool, w *bufio.Writer) {
	for _, l := range gLens {
		s := repByte('x', l)
		for _, h := range []bool{false, true} {
			e := refStr(nil, s, h)
			fmt.Fprintf(w, "hpack.str.dec %s\n", hexOrDash(e))
			fmt.Fprintf(w, "hpack.str.dec %x\n", append(append([]byte(nil), e...), 0x55, 0x66))
			for _, cut := range []int{0, 1, 2, len(e) / 2, len(e) - 1} {
				if cut >= 0 && cut < len(e) {
					fmt.Fprintf(w, "hpack.str.dec %s\n", hexOrDash(e[:cut]))
				}
			}
		}
	}
	for a := 0; a < 256; a++ {
		fmt.Fprintf(w, "hpack.str.dec %02x\n", a)
		fmt.Fprintf(w, "hpack.str.dec 81%02x\n", a)
		fmt.Fprintf(w, "hpack.str.dec 82%02x%02x\n", a, p.intn(256))
		fmt.Fprintf(w, "hpack.str.dec 82ff%02x\n", a)
		fmt.Fprintf(w, "hpack.str.dec 01%02x\n", a)
	}
	n := 600
	if thorough {
		n = 6000
	}
	for i := 0; i < n; i++ {
		s := gString(p)
		e := refStr(nil, s, p.chance(1, 2))
		if p.chance(1, 3) && len(e) > 1 {
			e[1+p.intn(len(e)-1)] ^= 1 << uint(p.intn(8))
		}
		if p.chance(1, 4) {
			e = append(e, p.bytes(p.intn(4))...)
		}
		fmt.Fprintf(w, "hpack.str.dec %s\n", hexOrDash(e))
	}
	// over-long and overflowing lengths
	fmt.Fprintf(w, "hpack.str.dec 7fffffffffffffffffff01\n")
	fmt.Fprintf(w, "hpack.str.dec 7f80808080808080808002\n")
	fmt.Fprintf(w, "hpack.str.dec ff80808080808080808001\n")
	fmt.Fprintf(w, "hpack.str.dec 7fffffffff0f6162\n")
}

var decCtxN int

func decCtx(w *bufio.Writer) string {
	decCtxN++
	c := fmt.Sprintf("f%d", decCtxN)
	fmt.Fprintf(w, "hpack.dec %s new\n", c)
	return c
}

func genFieldDec(p *prng, thorough bool, w *bufio.Writer) {
	field := func(c string, bs, fp, ks int, b []byte) {
		fmt.Fprintf(w, "hpack.dec %s field bs=%d fp=%d ks=%d %s\n", c, bs, fp, ks, hexOrDash(b))
	}
	// every first octet: alone, followed by 00, followed by a tail that completes it
	for a := 0; a < 256; a++ {
		c := decCtx(w)
		field(c, 1, 0, 0, []byte{byte(a)})
		c = decCtx(w)
		field(c, 1, 0, 0, []byte{byte(a), 0})
		c = decCtx(w)
		field(c, 1, 0, 0, []byte{byte(a), 0, 0})
		c = decCtx(w)
		field(c, 1, 0, 0, []byte{byte(a), 1, 'n', 1, 'v', 0x82})
		c = decCtx(w)
		field(c, 0, 3, 0, []byte{byte(a), 2, 'n', 'm', 0})
	}
	// literal representations whose value length octet equals the first octet, and neighbours
	for a := 0; a < 128; a++ {
		if a >= 32 && a < 64 {
			continue
		}
		k := kWithout
		n := uint64(a & 15)
		if a >= 64 {
			k, n = kIncremental, uint64(a&63)
		} else if a >= 16 {
			k = kNever
		}
		if n > 61 || (k != kIncremental && n == 15) || (k == kIncremental && n == 63) {
			continue
		}
		for _, l := range []int{a, a + 1, 0, 1} {
			g := gRepr{kind: k, idx: n, name: []byte("nm"), value: repByte('v', l)}
			c := decCtx(w)
			field(c, 1, 0, 0, append(g.ser(nil), 0x82))
			if n == 0 {
				g.name = nil
				c = decCtx(w)
				field(c, 1, 0, 0, g.ser(nil))
				g.name = repByte('k', a)
				c = decCtx(w)
				field(c, 1, 0, 0, g.ser(nil))
			}
		}
	}
	// all prefixes of sample fields
	samples := []gRepr{
		{kind: kIndexed, idx: 2}, {kind: kIndexed, idx: 61}, {kind: kIndexed, idx: 62}, {kind: kIndexed, idx: 127}, {kind: kIndexed, idx: 300},
		{kind: kIncremental, idx: 0, name: []byte("custom-key"), value: []byte("custom-header")},
		{kind: kIncremental, idx: 0, name: []byte("custom-key"), value: []byte("custom-header"), nh: true, vh: true},
		{kind: kWithout, idx: 4, value: []byte("/sample/path")},
		{kind: kNever, idx: 0, name: []byte("password"), value: []byte("secret")},
		{kind: kNever, idx: 23, value: []byte("basic xyz"), vh: true},
		{kind: kIncremental, idx: 1, value: repByte('a', 130)},
		{kind: kWithout, idx: 0, name: repByte('n', 127), value: repByte('v', 128), nh: false},
		{kind: kSizeUpdate, idx: 0}, {kind: kSizeUpdate, idx: 30}, {kind: kSizeUpdate, idx: 31}, {kind: kSizeUpdate, idx: 4096},
	}
	for _, g := range samples {
		e := g.ser(nil)
		for cut := 0; cut <= len(e); cut++ {
			c := decCtx(w)
			if g.kind == kIndexed && g.idx >= 62 {
				field(c, 1, 0, 0, gRepr{kind: kIncremental, idx: 0, name: []byte("a"), value: []byte("b")}.ser(nil))
			}
			field(c, 1, 0, 0, e[:cut])
		}
		c := decCtx(w)
		field(c, 1, 0, 0, append(append([]byte(nil), e...), 0x82, 0x84))
	}
	// index boundaries
	for _, fill := range []int{0, 1, 2, 3} {
		for _, idx := range []uint64{0, 1, 61, 62, 63, 64, 65, 66, 100, 1 << 20, 1<<32 + 62, 1<<63 + 61, ^uint64(0)} {
			for _, k := range []int{kIndexed, kIncremental, kWithout, kNever} {
				c := decCtx(w)
				for i := 0; i < fill; i++ {
					field(c, 1, i, 0, gRepr{kind: kIncremental, idx: 0, name: []byte{byte('a' + i)}, value: []byte{byte('A' + i)}}.ser(nil))
				}
				field(c, 1, fill, 0, gRepr{kind: k, idx: idx, name: []byte("n"), value: []byte("v")}.ser(nil))
			}
		}
	}
	// the caller's field is reused: never-indexed, then others, then an insertion, then a reference to it
	{
		c := decCtx(w)
		field(c, 1, 0, 1, gRepr{kind: kNever, idx: 0, name: []byte("a"), value: []byte("b")}.ser(nil))
		field(c, 1, 1, 1, gRepr{kind: kIndexed, idx: 2}.ser(nil))
		field(c, 1, 2, 1, gRepr{kind: kWithout, idx: 0, name: []byte("c"), value: []byte("d")}.ser(nil))
		field(c, 1, 3, 1, gRepr{kind: kIncremental, idx: 0, name: []byte("e"), value: []byte("f")}.ser(nil))
		field(c, 1, 4, 0, gRepr{kind: kIndexed, idx: 62}.ser(nil))
		field(c, 1, 5, 1, gRepr{kind: kNever, idx: 62, value: []byte("g")}.ser(nil))
		field(c, 1, 6, 1, gRepr{kind: kIndexed, idx: 62}.ser(nil))
		c = decCtx(w)
		field(c, 1, 0, 1, []byte{0x10, 0x01, 0x61, 0x01, 0x62, 0x00, 0x01, 0x63, 0x01, 0x64})
		field(c, 1, 0, 1, []byte{0x00, 0x01, 0x63, 0x01, 0x64})
	}
	// size updates
	for _, upd := range []uint64{0, 1, 30, 31, 32, 33, 100, 4095, 4096, 4097, 65536, 1 << 32, 1<<32 + 5} {
		for _, cfg := range [][2]int{{1, 0}, {0, 0}, {1, 1}, {0, 2}} {
			c := decCtx(w)
			field(c, 1, 0, 0, gRepr{kind: kIncremental, idx: 0, name: []byte("aa"), value: []byte("bb")}.ser(nil))
			field(c, 1, 1, 0, gRepr{kind: kIncremental, idx: 0, name: []byte("cc"), value: []byte("dd")}.ser(nil))
			u := gRepr{kind: kSizeUpdate, idx: upd}.ser(nil)
			field(c, cfg[0], cfg[1], 0, u)
			field(c, cfg[0], cfg[1], 0, append(append([]byte(nil), u...), 0xbe))
			field(c, cfg[0], cfg[1], 0, append(append(append([]byte(nil), u...), gRepr{kind: kSizeUpdate, idx: 36}.ser(nil)...), 0xbe, 0x82))
			field(c, 1, 0, 0, gRepr{kind: kIncremental, idx: 0, name: []byte("ee"), value: []byte("ff")}.ser(nil))
			field(c, 1, 1, 0, []byte{0xbe})
		}
	}
	for _, lim := range []int{0, 40, 4096, 8192} {
		c := decCtx(w)
		field(c, 1, 0, 0, gRepr{kind: kIncremental, idx: 0, name: []byte("aa"), value: []byte("bb")}.ser(nil))
		fmt.Fprintf(w, "hpack.dec %s limit %d\n", c, lim)
		field(c, 1, 0, 0, gRepr{kind: kSizeUpdate, idx: uint64(lim)}.ser(nil))
		field(c, 1, 0, 0, gRepr{kind: kSizeUpdate, idx: uint64(lim) + 1}.ser(nil))
		field(c, 1, 0, 0, gRepr{kind: kIncremental, idx: 0, name: []byte("cc"), value: []byte("dd")}.ser(nil))
		field(c, 1, 1, 0, []byte{0xbe})
	}
}

// genUpdateBlocks: header blocks that open with dynamic table size updates (or consist of them), after a
// block that filled the table: delivered whole, cut in two at every octet, cut in three at every pair of
// octets up to the end of the first field, with an empty frame at every cut of the opening, truncated; then
// a block that needs the table the first one left. The same for every seed: these are the shapes of the
// repaired findings F04 (cut before the first field ends) and F05 (a frame of size updates only).
func genUpdateBlocks(w *bufio.Writer) {
	lit := gRepr{kind: kIncremental, idx: 0, name: []byte("ab"), value: []byte("cde")}
	hlit := gRepr{kind: kWithout, idx: 0, name: []byte("www"), value: []byte("example"), nh: true, vh: true}
	prefixes := [][]uint64{{0}, {4096}, {31}, {0, 4096}, {100, 32}, {4096, 0, 64}}
	tails := [][]gRepr{
		{lit, {kind: kIndexed, idx: 62}},
		{{kind: kIndexed, idx: 2}, lit},
		{hlit},
		{{kind: kNever, idx: 62, value: []byte("v")}},
		{},
	}
	n := 0
	deliver := func(blk []byte, cuts []int, empty bool) {
		c := fmt.Sprintf("hu%d", n)
		n++
		fmt.Fprintf(w, "hpack.dec %s new\n", c)
		fmt.Fprintf(w, "hpack.dec %s frame cont=0 eh=1 %s\n", c, hexOrDash(gRepr{kind: kIncremental, idx: 0, name: []byte("p"), value: []byte("q")}.ser(nil)))
		start, cont := 0, 0
		for _, k := range append(append([]int(nil), cuts...), len(blk)) {
			eh := 0
			if k == len(blk) {
				eh = 1
			}
			fmt.Fprintf(w, "hpack.dec %s frame cont=%d eh=%d %s\n", c, cont, eh, hexOrDash(blk[start:k]))
			if empty && eh == 0 {
				fmt.Fprintf(w, "hpack.dec %s frame cont=1 eh=0 -\n", c)
			}
			start, cont = k, 1
		}
		fmt.Fprintf(w, "hpack.dec %s frame cont=0 eh=1 be\n", c)
	}
	for _, pre := range prefixes {
		for _, tail := range tails {
			var blk []byte
			for _, u := range pre {
				blk = gRepr{kind: kSizeUpdate, idx: u}.ser(blk)
			}
			opening := len(blk)
			first := opening
			for i, g := range tail {
				blk = g.ser(blk)
				if i == 0 {
					first = len(blk)
				}
			}
			deliver(blk, nil, false)
			for k := 1; k < len(blk); k++ {
				deliver(blk, []int{k}, false)
				if k <= opening {
					deliver(blk, []int{k}, true)
				}
			}
			for k1 := 1; k1 < len(blk) && k1 <= first; k1++ {
				for k2 := k1 + 1; k2 < len(blk) && k2 <= first+1; k2++ {
					deliver(blk, []int{k1, k2}, false)
				}
			}
			// the block ends one octet early
			deliver(blk[:len(blk)-1], nil, false)
			if opening < len(blk)-1 {
				deliver(blk[:len(blk)-1], []int{opening}, false)
			}
		}
	}
}

// genBlock: representations a conforming encoder could emit next, kept valid against the shadow table
func genBlock(p *prng, t *gTable, limit int, first bool) []gRepr {
	var out []gRepr
	if first && p.chance(1, 5) {
		k := 1 + p.intn(2)
		for i := 0; i < k; i++ {
			sz := []int{0, 31, 32, 64, 100, 200, limit, limit / 2}[p.intn(8)]
			if sz > limit {
				sz = limit
			}
			out = append(out, gRepr{kind: kSizeUpdate, idx: uint64(sz)})
			t.max = sz
			t.evict()
		}
	}
	n := p.intn(7)
	if p.chance(1, 10) {
		n = 0
	}
	for i := 0; i < n; i++ {
		g := gRepr{nh: p.chance(1, 2), vh: p.chance(1, 2)}
		total := uint64(61 + len(t.ents))
		switch p.intn(6) {
		case 0, 1:
			g.kind = kIndexed
			g.idx = 1 + uint64(p.intn(int(total)))
			if len(t.ents) > 0 && p.chance(1, 2) {
				g.idx = 62 + uint64(p.intn(len(t.ents)))
			}
		default:
			g.kind = []int{kIncremental, kIncremental, kWithout, kNever}[p.intn(4)]
			if p.chance(1, 2) {
				g.idx = 1 + uint64(p.intn(int(total)))
				g.name = t.nameAt(g.idx)
			} else {
				g.name = gString(p)
			}
			g.value = gString(p)
			if p.chance(1, 6) {
				g.value = repByte('v', int(g.ser(nil)[0])&127) // value length = first octet
			}
			if g.kind == kIncremental {
				t.add(g.name, g.value)
			}
		}
		out = append(out, g)
	}
	return out
}

func genDecHistory(p *prng, c string, w *bufio.Writer) {
	fmt.Fprintf(w, "hpack.dec %s new\n", c)
	t := &gTable{max: 4096}
	limit := 4096
	nb := 1 + p.intn(5)
	asFields := p.chance(1, 4)
	for bi := 0; bi < nb; bi++ {
		reprs := genBlock(p, t, limit, true)
		var blk []byte
		var ends []int
		for _, g := range reprs {
			blk = g.ser(blk)
			ends = append(ends, len(blk))
		}
		bad := false
		if p.chance(1, 12) { // malformed tail
			bad = true
			switch p.intn(6) {
			case 0:
				blk = append(blk, 0x80)
			case 1:
				blk = refInt(blk, 7, 128, uint64(62+len(t.ents)+p.intn(3)))
			case 2:
				blk = append(blk, gRepr{kind: kSizeUpdate, idx: uint64(p.intn(8000))}.ser(nil)...)
			case 3:
				if len(blk) > 0 {
					blk = blk[:len(blk)-1]
				}
			case 4:
				blk = append(blk, 0x00, 0x81, 0xff, 0x00)
			case 5:
				blk = append(blk, 0xff, 0xff, 0xff, 0xff, 0xff, 0xff, 0xff, 0xff, 0xff, 0xff, 0xff, 0x01)
			}
		}
		if asFields {
			// one nextField call per representation, the caller's field kept across calls
			start, fp := 0, 0
			for i, e := range ends {
				if reprs[i].kind == kSizeUpdate && i+1 < len(ends) {
					continue // a size update is consumed by the call that decodes the field after it
				}
				fmt.Fprintf(w, "hpack.dec %s field bs=1 fp=%d ks=1 %s\n", c, fp, hexOrDash(blk[start:e]))
				start = e
				fp++
			}
			if start < len(blk) {
				fmt.Fprintf(w, "hpack.dec %s field bs=1 fp=%d ks=1 %s\n", c, fp, hexOrDash(blk[start:]))
			}
		} else {
			// frames: whole, random cuts, or a cut at every octet
			var cuts []int
			switch p.intn(4) {
			case 0:
			case 1, 2:
				for k := p.intn(4); k > 0 && len(blk) > 1; k-- {
					cuts = append(cuts, 1+p.intn(len(blk)-1))
				}
			case 3:
				if len(blk) <= 40 {
					for k := 1; k < len(blk); k++ {
						cuts = append(cuts, k)
					}
				} else {
					cuts = append(cuts, len(blk)/2)
				}
			}
			if p.chance(1, 8) && len(ends) > 0 { // a cut on a representation boundary
				cuts = append(cuts, ends[p.intn(len(ends))])
			}
			marks := make([]bool, len(blk)+1)
			for _, k := range cuts {
				if k > 0 && k < len(blk) {
					marks[k] = true
				}
			}
			start, cont := 0, 0
			for k := 1; k <= len(blk); k++ {
				if marks[k] || k == len(blk) {
					eh := 0
					if k == len(blk) {
						eh = 1
					}
					fmt.Fprintf(w, "hpack.dec %s frame cont=%d eh=%d %s\n", c, cont, eh, hexOrDash(blk[start:k]))
					start, cont = k, 1
				}
			}
			if len(blk) == 0 {
				fmt.Fprintf(w, "hpack.dec %s frame cont=0 eh=1 -\n", c)
			}
		}
		if bad {
			return
		}
	}
}

// ------------------------------------------------------------------ encoder side

var encCtxN int

func encCtx(w *bufio.Writer, dc, dd int) string {
	encCtxN++
	c := fmt.Sprintf("e%d", encCtxN)
	fmt.Fprintf(w, "hpack.enc %s new dc=%d dd=%d\n", c, dc, dd)
	return c
}

func encField(w *bufio.Writer, c string, store, sens int, pre, n, v []byte) {
	fmt.Fprintf(w, "hpack.enc %s field store=%d sens=%d pre=%s %s %s\n", c, store, sens, hexOrDash(pre), hexOrDash(n), hexOrDash(v))
}

func genHpackEnc(p *prng, thorough bool, w *bufio.Writer) {
	// integers
	for n := uint(1); n <= 8; n++ {
		m := uint64(1)<<n - 1
		vals := []uint64{0, 1, m - 1, m, m + 1, m + 127, m + 128, m + 129, 16383, 16384, 16384 + m, 1 << 21, 1<<32 - 1, 1 << 32, 1 << 63, ^uint64(0)}
		for i := 0; i < 10; i++ {
			vals = append(vals, p.next()>>uint(p.intn(64)))
		}
		for _, v := range vals {
			for _, fl := range []int{0, (256 - int(m) - 1) & 0xff, (0x80 >> (8 - n)) << n & 0xff} {
				fmt.Fprintf(w, "hpack.int.enc %d %d %d\n", n, fl&^int(m)&0xff, v)
			}
		}
	}
	// strings
	for _, l := range gLens {
		for _, dst := range []string{"-", "00", "40", "0000", "10", "6100", "ff"} {
			for h := 0; h < 2; h++ {
				fmt.Fprintf(w, "hpack.str.enc %d %s %s\n", h, dst, hexOrDash(repByte('x', l)))
				fmt.Fprintf(w, "hpack.str.enc %d %s %s\n", h, dst, hexOrDash(repByte('0', l)))
			}
		}
	}
	for i := 0; i < 300; i++ {
		fmt.Fprintf(w, "hpack.str.enc %d %s %s\n", p.intn(2), hexOrDash(p.bytes(p.intn(3))), hexOrDash(gString(p)))
	}
	// fields: every static entry and name under every flag combination
	for dc := 0; dc < 2; dc++ {
		for dd := 0; dd < 2; dd++ {
			for store := 0; store < 2; store++ {
				for sens := 0; sens < 2; sens++ {
					c := encCtx(w, dc, dd)
					for i := 1; i <= 61; i++ {
						fmt.Fprintf(w, "hpack.enc %s block\n", c)
						encField(w, c, store, sens, nil, []byte(gStaticNames[i-1]), []byte(gStaticValues[i]))
						fmt.Fprintf(w, "hpack.enc %s block\n", c)
						encField(w, c, store, sens, nil, []byte(gStaticNames[i-1]), []byte("other"))
					}
				}
			}
		}
	}
	// the static entries as the implementation has them (read through its own decoder, used as input
	// only): an entry that differs from RFC 7541 Appendix A then goes out under an index that means
	// something else
	{
		c := encCtx(w, 0, 0)
		hp := http2.AcquireHPACK()
		for i := 1; i <= 61; i++ {
			hf := &http2.HeaderField{}
			if _, err := hp.Next(hf, []byte{byte(0x80 | i)}); err == nil {
				fmt.Fprintf(w, "hpack.enc %s block\n", c)
				encField(w, c, 0, 0, nil, hf.KeyBytes(), hf.ValueBytes())
			}
		}
	}
	// special strings as name and as value
	special := [][]byte{nil, {0}, []byte("00000000"), []byte("a\x00"), repByte('a', 126), repByte('a', 127), repByte('a', 128), repByte('0', 127),
		repByte('a', 255), repByte(0xff, 40), []byte("x-custom"), repByte('z', 200)}
	for dc := 0; dc < 2; dc++ {
		for store := 0; store < 2; store++ {
			for sens := 0; sens < 2; sens++ {
				c := encCtx(w, dc, 0)
				for _, n := range special {
					for _, v := range special {
						fmt.Fprintf(w, "hpack.enc %s block\n", c)
						encField(w, c, store, sens, nil, n, v)
					}
				}
				c = encCtx(w, dc, 0)
				for _, v := range special {
					fmt.Fprintf(w, "hpack.enc %s block\n", c)
					encField(w, c, store, sens, []byte{0}, []byte(":path"), v)
					encField(w, c, store, sens, []byte{0x61, 0}, []byte("accept-charset"), v)
				}
			}
		}
	}
	// many small entries: dynamic indices past 127
	{
		c := encCtx(w, 1, 0)
		fmt.Fprintf(w, "hpack.enc %s block\n", c)
		for i := 0; i < 72; i++ {
			encField(w, c, 1, 0, nil, []byte{byte('a' + i%26), byte('a' + i/26)}, []byte{byte('0' + i%10)})
		}
		fmt.Fprintf(w, "hpack.enc %s block\n", c)
		for i := 0; i < 72; i++ {
			encField(w, c, 1, i%5/4, nil, []byte{byte('a' + i%26), byte('a' + i/26)}, []byte{byte('0' + i%10)})
		}
	}
	// table size schedules between blocks
	scheds := [][]int{{0}, {31}, {32}, {30}, {4096}, {65536}, {0, 4096}, {100, 4096}, {4096, 0}, {0, 0}, {50, 100, 20, 4096}, {8192, 100}, {31, 31}, {4095}, {1 << 20}}
	for _, s := range scheds {
		for store := 0; store < 2; store++ {
			c := encCtx(w, 0, 0)
			fmt.Fprintf(w, "hpack.enc %s block\n", c)
			encField(w, c, 1, 0, nil, []byte("k1"), []byte("v1"))
			encField(w, c, 1, 0, nil, []byte("k2"), []byte("v2"))
			for _, n := range s {
				fmt.Fprintf(w, "hpack.enc %s setmax %d\n", c, n)
			}
			fmt.Fprintf(w, "hpack.enc %s block\n", c)
			encField(w, c, store, 0, nil, []byte("k1"), []byte("v1"))
			encField(w, c, 1, 0, nil, []byte("k3"), []byte("v3"))
			fmt.Fprintf(w, "hpack.enc %s block\n", c)
			encField(w, c, 1, 0, nil, []byte("k2"), []byte("v2"))
			encField(w, c, 1, 0, nil, []byte("k3"), []byte("v3"))
			encField(w, c, 1, 0, nil, []byte("k1"), []byte("v1"))
		}
	}
	// random histories
	n := 300
	if thorough {
		n = 5000
	}
	for i := 0; i < n; i++ {
		c := encCtx(w, p.intn(2), b01(p.chance(1, 5)))
		var pool [][2][]byte
		nb := 1 + p.intn(6)
		for bi := 0; bi < nb; bi++ {
			if p.chance(1, 4) {
				for k := 1 + p.intn(3); k > 0; k-- {
					fmt.Fprintf(w, "hpack.enc %s setmax %d\n", c, []int{0, 31, 32, 40, 64, 100, 200, 1000, 4096, 5000, 65536}[p.intn(11)])
				}
			}
			fmt.Fprintf(w, "hpack.enc %s block\n", c)
			for k := p.intn(8); k > 0; k-- {
				var nm, v []byte
				switch {
				case len(pool) > 0 && p.chance(1, 3):
					e := pool[p.intn(len(pool))]
					nm, v = e[0], e[1]
				case p.chance(1, 3):
					i := 1 + p.intn(61)
					nm, v = []byte(gStaticNames[i-1]), []byte(gStaticValues[i])
					if p.chance(1, 2) {
						v = gString(p)
					}
				default:
					nm, v = gString(p), gString(p)
				}
				pool = append(pool, [2][]byte{nm, v})
				var pre []byte
				if p.chance(1, 6) {
					pre = p.bytes(1 + p.intn(3))
					if p.chance(1, 2) {
						pre[len(pre)-1] = 0
					}
				}
				encField(w, c, b01(p.chance(2, 3)), b01(p.chance(1, 6)), pre, nm, v)
			}
		}
	}
}
