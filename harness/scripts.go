package main

import "bufio"

// genScripts dispatches the script generators of the server and client areas.
func genScripts(area string, p *prng, thorough bool, w *bufio.Writer) bool {
	if g, ok := srvGens[area]; ok {
		g(p, thorough, w)
		return true
	}
	if g, ok := cliGens[area]; ok {
		g(p, thorough, w)
		return true
	}
	return false
}

var srvGens = map[string]func(p *prng, thorough bool, w *bufio.Writer){}
var cliGens = map[string]func(p *prng, thorough bool, w *bufio.Writer){}
