package main

// srv-acct: boundary schedules for the accounting models (C13 limits, C14
// receive credit, C10 closing, C17 context ownership). The other families reach
// the limits from a distance; these sit exactly on them: a body of max-1, max
// and max+1 octets, a header list of max-1, max and max+1, the connection
// window at exactly half, the concurrency limit with cancelled streams holding
// slots, more closed streams than the closed-id ring remembers, and a GOAWAY
// whose promised streams finish in every way a stream can finish.

import (
	"fmt"
	"bufio"
	"strings"
)

// header list size of a request as RFC 7540 6.5.2 counts it
func listSize(fs []kv) int {
	n := 0
	for _, f := range fs {
		n += len(f.k) + len(f.v) + 32
	}
	return n
}

func (g *sgen) acctHeaders(sid uint32, fs []kv, endStream bool, split int) {
	b := g.enc.block(nil, fs)
	fl := byte(0)
	if endStream {
		fl |= 1
	}
	if split <= 0 || split >= len(b) {
		g.frame(frameBytes(1, fl|4, sid, b))
		return
	}
	g.frame(frameBytes(1, fl, sid, b[:split]))
	rest := b[split:]
	for len(rest) > 0 {
		l := 1 + g.p.intn(len(rest))
		cfl := byte(0)
		if l == len(rest) {
			cfl = 4
		}
		g.frame(frameBytes(9, cfl, sid, rest[:l]))
		rest = rest[l:]
	}
}

// a complete GET request in one HEADERS frame, static-table entries only: a
// refused stream's block is not decoded by the server (F22), and a request that
// added entries to the peer's dynamic table would take later ones down with it.
func (g *sgen) acctGet(sid uint32) {
	g.frame(frameBytes(1, 5, sid, g.enc.block(nil, []kv{{k: ":method", v: "GET"}, {k: ":scheme", v: "https"}, {k: ":path", v: "/"}})))
}

func genSrvAcct(p *prng, thorough bool, w *bufio.Writer) {
	g := newSgen(p, w)
	rounds := 6
	if thorough {
		rounds = 60
	}
	base := []kv{{k: ":method", v: "POST"}, {k: ":scheme", v: "https"}, {k: ":path", v: "/"}, {k: ":authority", v: "a"}}

	for c := 0; c < rounds; c++ {
		// 1. body exactly at / one under / one over the limit, any chunking, padding, empty frames
		maxBody := 50 + p.intn(600)
		g.newConn(8, 0, maxBody)
		g.settings()
		g.gaugeEach = true // the monitor looks at the octets buffered per stream after every frame
		for _, d := range []int{-1, 0, 1, 0, 1 + p.intn(300)} {
			sid := g.sid()
			total := maxBody + d
			// declared length: none, the truth, the limit (allowed by itself, whatever follows), less than the truth
			switch p.intn(4) {
			case 0:
				g.frame(frameBytes(1, 4, sid, g.hdrBlock(false)))
			case 1:
				g.frame(frameBytes(1, 4, sid, g.enc.block(nil, append(append([]kv(nil), base...), kv{k: "content-length", v: fmt.Sprint(total)}))))
			case 2:
				g.frame(frameBytes(1, 4, sid, g.enc.block(nil, append(append([]kv(nil), base...), kv{k: "content-length", v: fmt.Sprint(maxBody)}))))
			default:
				g.frame(frameBytes(1, 4, sid, g.enc.block(nil, append(append([]kv(nil), base...), kv{k: "content-length", v: fmt.Sprint(p.intn(maxBody))}))))
			}
			sent := 0
			ended := false
			for sent < total {
				l := 1 + p.intn(200)
				if sent+l > total {
					l = total - sent
				}
				fl := byte(0)
				payload := patBytes(sid, sent, l)
				if p.chance(1, 3) {
					fl |= 8
					payload = padded(payload, p.intn(20))
				}
				sent += l
				if sent == total && p.chance(1, 2) {
					fl |= 1
				}
				g.frame(frameBytes(0, fl, sid, payload))
				if fl&1 != 0 {
					ended = true
					break
				}
				if p.chance(1, 6) {
					g.frame(frameBytes(0, 8, sid, padded(nil, 1+p.intn(9)))) // padding only
				}
				if p.chance(1, 10) {
					g.frame(frameBytes(0, 0, sid, nil)) // empty
				}
			}
			// END_STREAM on an empty frame when the last chunk did not carry it
			if !ended {
				g.frame(frameBytes(0, 1, sid, nil))
			}
			if p.chance(2, 3) {
				g.done(sid, respGen{status: 200, body: "none"})
			}
			g.gauges()
		}

		// 2. header list exactly at / one under / one over the limit, whole or in CONTINUATION frames
		maxHdr := 300 + p.intn(900)
		g.newConn(8, maxHdr, 0)
		g.settings()
		for _, d := range []int{-1, 0, 1} {
			sid := g.sid()
			fs := append([]kv(nil), base...)
			fs[0].v = "GET"
			room := maxHdr + d - listSize(fs)
			// two filler fields; the second makes the total come out exactly
			a := (room - 2*(32+6)) / 2
			fs = append(fs, kv{k: "x-fill", v: strings.Repeat("a", a)})
			fs = append(fs, kv{k: "x-last", v: strings.Repeat("b", maxHdr+d-listSize(fs)-32-6)})
			split := 0
			if p.chance(1, 2) {
				split = 1 + p.intn(40)
			}
			g.acctHeaders(sid, fs, true, split)
			if d <= 0 {
				g.done(sid, respGen{status: 200, body: "none"})
			}
			g.gauges()
		}
		// 2b. the same three sizes reached by the pseudo-header fields alone (a long :path, nothing after it): the limit
		// is on the whole list, whichever kind of field the octets are in
		g.newConn(8, maxHdr, 0)
		g.settings()
		for _, d := range []int{-1, 0, 1, 200} {
			sid := g.sid()
			fs := []kv{{k: ":method", v: "GET"}, {k: ":scheme", v: "https"}, {k: ":authority", v: "a"}, {k: ":path", v: "/"}}
			fs[3].v = "/" + strings.Repeat("p", maxHdr+d-listSize(fs))
			split := 0
			if p.chance(1, 2) {
				split = 1 + p.intn(40)
			}
			g.acctHeaders(sid, fs, true, split)
			if d <= 0 {
				g.done(sid, respGen{status: 200, body: "none"})
			}
			g.gauges()
		}

		// 2c. the limit is on the whole request: header block and trailer block together (each alone within it)
		g.newConn(8, maxHdr, 0)
		g.settings()
		for _, d := range []int{-1, 0, 1, 300} {
			sid := g.sid()
			fs := append([]kv(nil), base...)
			half := (maxHdr + d) / 2
			if n := half - listSize(fs) - 32 - 6; n > 0 { // (a small limit is half used up by the pseudo-headers alone)
				fs = append(fs, kv{k: "x-head", v: strings.Repeat("h", n)})
			}
			tr := []kv{{k: "x-tail", v: ""}}
			tr[0].v = strings.Repeat("t", maxHdr+d-listSize(fs)-32-6)
			g.acctHeaders(sid, fs, false, 0)
			g.frame(frameBytes(0, 0, sid, []byte("body")))
			split := 0
			if p.chance(1, 2) {
				split = 1 + p.intn(40)
			}
			g.acctHeaders(sid, tr, true, split)
			if d <= 0 {
				g.done(sid, respGen{status: 200, body: "none"})
			}
			g.gauges()
		}

		// 3. the concurrency limit with cancelled streams holding their slots
		mcs := 1 + p.intn(3)
		g.newConn(mcs, 0, 0)
		g.settings()
		var running []uint32
		for i := 0; i < mcs; i++ {
			sid := g.sid()
			g.acctGet(sid)
			running = append(running, sid)
		}
		skipped := g.sid() // never used by the peer, but used up once a higher id has been refused
		over := g.sid()
		g.acctGet(over) // refused
		g.rst(running[0], 8)           // cancelled: the handler still runs, the slot is kept
		g.gauges()
		over = g.sid()
		g.acctGet(over) // still refused
		g.done(running[0], respGen{status: 200, body: "none"})
		g.gauges()
		switch p.intn(3) {
		case 0:
			g.acctGet(over) // the refused id again, a slot is free now: it has been used up (GOAWAY)
		case 1:
			g.acctGet(skipped) // below a refused id, above lastID, never seen before: used up all the same (GOAWAY)
		}
		ok := g.sid()
		g.acctGet(ok) // accepted now
		g.done(ok, respGen{status: 200, body: "pat:10"})
		for _, sid := range running[1:] {
			if p.chance(1, 2) {
				g.rst(sid, 8)
			}
			g.done(sid, respGen{status: 200, body: "pat:3"})
		}
		g.gauges()
		if p.chance(1, 2) {
			g.acctGet(over) // the refused id again, now below the limit: it has been used up (GOAWAY)
		} else {
			g.acctGet(skipped) // an id below a refused one that was never opened itself
		}
		g.gauges()

		// 4. GOAWAY with promised streams that finish in different ways
		g.newConn(8, 0, 0)
		g.settings(4, uint32(5+p.intn(20))) // small initial window: responses block
		var prom []uint32
		for i := 0; i < 1+p.intn(3); i++ {
			sid := g.sid()
			g.acctGet(sid)
			prom = append(prom, sid)
		}
		switch p.intn(3) {
		case 0:
			g.rst(g.next+10, 8) // RST_STREAM on an idle stream: GOAWAY, goes on
		case 1:
			g.next += 4
			g.acctGet(g.next - 2) // opens a higher id, dispatched
			prom = append(prom, g.next-2)
			g.acctGet(g.next - 4) // HEADERS on a lower id that was never opened: GOAWAY, goes on
		case 2:
			g.frame(frameBytes(0, 0, g.next+20, []byte("x"))) // DATA on an idle stream: GOAWAY, stops
		}
		late := g.sid()
		g.acctGet(late) // refused while closing (or the connection is gone)
		for _, sid := range prom {
			switch p.intn(4) {
			case 0:
				g.done(sid, respGen{status: 200, body: "none"})
			case 1:
				g.done(sid, respGen{status: 200, body: "pat:100"})
				g.windowUpdate(sid, 1000) // finishes on a stream WINDOW_UPDATE
			case 2:
				g.done(sid, respGen{status: 200, body: "pat:100"})
				g.settings(4, 70000) // finishes on the SETTINGS delta
			case 3:
				g.rst(sid, 8)
				g.done(sid, respGen{status: 200, body: "none"})
			}
			g.gauges()
		}
		g.ping(1)
		g.gauges()
	}

	// 5. more closed streams than the ring remembers, then frames on forgotten and remembered ids
	g.newConn(4, 0, 0)
	g.settings()
	n := 270
	if thorough {
		n = 600
	}
	for i := 0; i < n; i++ {
		sid := g.sid()
		g.acctGet(sid)
		if i%3 == 0 {
			g.rst(sid, 8)
		}
		g.done(sid, respGen{status: 200, body: "none"})
		if i%50 == 0 {
			g.gauges()
		}
	}
	g.gauges()
	g.windowUpdate(1, 5)        // forgotten id: ignored
	g.windowUpdate(g.next-2, 5) // remembered id: ignored
	g.priority(3, 0, 1)
	g.gauges()
	g.frame(frameBytes(0, 0, 1, []byte("late"))) // DATA on a forgotten id: GOAWAY(STREAM_CLOSED)
	g.gauges()

	// 6. the connection window at exactly half, then one octet more
	g.newConn(8, 0, 0)
	g.settings()
	sid := g.sid()
	g.frame(frameBytes(1, 4, sid, g.hdrBlock(false)))
	sent := 0
	for i := 0; i < 128; i++ { // 128 * 16384 = 2097152 = half of 4194304
		g.frame(frameBytes(0, 0, sid, patBytes(sid, sent, 16384)))
		sent += 16384
	}
	g.gauges()
	g.frame(frameBytes(0, 0, sid, patBytes(sid, sent, 1)))
	g.frame(frameBytes(0, 9, sid, padded(nil, 5))) // padding only, END_STREAM
	g.done(sid, respGen{status: 200, body: "none"})
	g.gauges()

	// 7. a header field that never ends: the octets held at 4*MaxHeaderListSize - 1, exactly there, one more (F68)
	genHeldFields(g, thorough, true)

	// 8. response header blocks longer than a frame (F33): HEADERS + CONTINUATION, gauges after every frame
	g.newConn(8, 0, 0)
	g.settings()
	g.gaugeEach = true
	g.bigBlocks(false)
	g.line("srv %s end", g.id)
}

func init() {
	srvGens["srv-acct"] = genSrvAcct
}
