package main

import "bufio"

// srv-tabledip (C18): the peer changes SETTINGS_HEADER_TABLE_SIZE while the server's encoder has entries in its
// dynamic table. Responses carry a :status that is not in the static table (201, 418, 503), which the server
// encodes with incremental indexing, so the next response with the same status is sent as an index into the
// dynamic table. Between two responses the peer sends 1-2 SETTINGS frames with 1-3 table sizes each, other
// settings mixed in, over {0, 41, 42 (one :status entry fits exactly), 100, 4096, 65536}. The scripted peer's
// decoder follows its own announcements value by value (srv.go noteSettings): every size that dips below what
// the encoder uses has to be announced at the start of the next response's header block, or the block is
// undecodable (mon_settings: encoder-table-above-peer-limit). The first connections are the shapes of the
// repaired finding F09s, the same for every seed: "0, 4096" and "41, 4096" in one frame, "4096, 0, 4096" in one
// frame, "0" and "4096" in two frames.
func genSrvTableDip(p *prng, thorough bool, w *bufio.Writer) {
	g := newSgen(p, w)
	statuses := []int{201, 418, 503, 200}
	sizes := []uint32{0, 41, 42, 100, 4096, 65536}
	exchange := func(status int) {
		sid := g.sid()
		g.simpleReq(sid, "GET", nil)
		g.done(sid, respGen{status: status, body: "none"})
	}
	open := func() {
		g.newConn(8, 0, 0)
		g.settings()
		g.settingsAck()
	}
	for _, shape := range [][][]uint32{{{1, 0, 1, 4096}}, {{1, 41, 1, 4096}}, {{1, 4096, 1, 0, 1, 4096}}, {{1, 0}, {1, 4096}},
		{{1, 0, 3, 100, 1, 4096}}, {{1, 65536, 1, 0, 1, 65536}}} {
		open()
		exchange(201)
		for _, pairs := range shape {
			g.settings(pairs...)
		}
		exchange(201)
		exchange(201)
	}
	rounds := 60
	if thorough {
		rounds = 600
	}
	for c := 0; c < rounds; c++ {
		open()
		if p.chance(1, 3) {
			g.settings(1, sizes[p.intn(len(sizes))])
		}
		for q := 0; q < 3+p.intn(4); q++ {
			exchange(statuses[p.intn(len(statuses))])
			if p.chance(1, 4) {
				continue
			}
			for f := 0; f < 1+p.intn(2); f++ {
				var pairs []uint32
				for i := 0; i < 1+p.intn(3); i++ {
					if p.chance(1, 5) {
						pairs = append(pairs, []uint32{3, 100, 4, 65535, 6, 0, 0xff, 1}[2*p.intn(4):][:2]...)
					}
					pairs = append(pairs, 1, sizes[p.intn(len(sizes))])
				}
				g.settings(pairs...)
			}
		}
	}
	g.line("srv %s end", g.id)
}

func init() { srvGens["srv-tabledip"] = genSrvTableDip }
