package main

// The header field that never ends (F68): a literal whose value length prefix
// announces L octets, begun in a HEADERS frame without END_HEADERS and fed in
// CONTINUATION frames. MaxHeaderListSize counts decoded fields, so until the
// field ends only the bound on the carried-over octets (4 * limit) protects the
// server. L is 100 (the field ends and fits), limit-1 / limit+1 (it ends and the
// list check decides), 4*limit-1 / 4*limit+1, 2^22 and 2^40 (it cannot end
// before the bound is passed); once with MaxHeaderListSize < 0 (no limit, the
// octets are kept). Appended to srv-limits (random chunking, frames
// up to 16384 octets) and to srv-acct (the octets held brought to 4*limit-1,
// 4*limit and 4*limit+1 one frame each). Gauges after every frame.

// HPACK integer with an n-bit prefix; `first` holds the bits above the prefix
func hpackVarint(first byte, n uint, v uint64) []byte {
	max := uint64(1)<<n - 1
	if v < max {
		return []byte{first | byte(v)}
	}
	b := []byte{first | byte(max)}
	v -= max
	for v >= 128 {
		b = append(b, byte(v&127)|128)
		v >>= 7
	}
	return append(b, byte(v))
}

// one connection: an ordinary request, then the long field on a new stream
func (g *sgen) heldField(limit int, L uint64, exact bool) {
	p := g.p
	g.newConn(4, limit, 0)
	g.settings()
	if p.chance(1, 2) {
		sid := g.sid()
		g.acctGet(sid)
		g.done(sid, respGen{status: 200, body: "none"})
	}
	g.gaugeEach = true
	sid := g.sid()
	pseudo := g.enc.block(nil, []kv{{k: ":method", v: "GET"}, {k: ":scheme", v: "https"}, {k: ":path", v: "/"}})
	// the literal up to and including the value's length prefix: what the server carries over starts here
	first := byte(0x00) // without indexing
	if p.chance(1, 3) {
		first = 0x10 // never indexed
	}
	name := "x-long"
	lit := append([]byte{first, byte(len(name))}, name...)
	hbit := byte(0)
	if L >= 1<<22 && p.chance(1, 2) {
		hbit = 0x80 // announced as Huffman coded: not decoded before it is complete
	}
	lit = append(lit, hpackVarint(hbit, 7, L)...)
	es := byte(0)
	if p.chance(1, 2) {
		es = 1
	}
	bound := 4 * limit
	if limit < 0 {
		bound = 500 + p.intn(3000) // MaxHeaderListSize < 0: the checks are off, the octets are kept
	}
	held := 0       // octets of the unfinished field sent so far
	sent := uint64(0) // value octets sent
	value := func(n int) []byte {
		if uint64(n) > L-sent {
			n = int(L - sent)
		}
		b := make([]byte, n) // letters: a field value the request record shows as it was sent
		for i := range b {
			b[i] = 'a' + byte((sent+uint64(i))%26)
		}
		sent += uint64(n)
		held += n
		return b
	}
	// HEADERS: sometimes cut inside the literal's own prefix, sometimes with the first value octets
	cut := len(lit)
	if p.chance(1, 4) {
		cut = 1 + p.intn(len(lit)-1)
	}
	payload := append(append([]byte(nil), pseudo...), lit[:cut]...)
	held = cut
	if cut == len(lit) && p.chance(1, 2) {
		payload = append(payload, value(p.intn(50))...)
	}
	g.frame(frameBytes(1, es, sid, payload))
	if cut < len(lit) {
		held = len(lit)
		g.frame(frameBytes(9, 0, sid, append(append([]byte(nil), lit[cut:]...), value(p.intn(20))...)))
	}
	// CONTINUATION frames until the field is complete or the bound has been passed by a margin
	stop := bound + 2 + p.intn(40)
	if !exact {
		stop = bound + 16384 + p.intn(20000)
	}
	for sent < L && held < stop {
		n := 1 + p.intn(300)
		if !exact && p.chance(1, 3) {
			n = 16384 - p.intn(3)
		}
		if exact {
			// land on bound-1, then go one octet at a time
			switch {
			case held < bound-1 && held+n > bound-1:
				n = bound - 1 - held
			case held >= bound-1:
				n = 1
			}
		}
		if p.chance(1, 12) {
			g.frame(frameBytes(9, 0, sid, nil)) // an empty CONTINUATION changes nothing
		}
		g.frame(frameBytes(9, 0, sid, value(n)))
	}
	if sent == L {
		// the field is complete: the block ends, the list-size check has had its say
		g.frame(frameBytes(9, 4, sid, nil))
		if es == 0 {
			g.frame(frameBytes(0, 1, sid, nil))
		}
		g.done(sid, respGen{status: 200, body: "none"})
	}
	g.ping(1)
	g.gaugeEach = false
	g.gauges()
}

func genHeldFields(g *sgen, thorough, exact bool) {
	p := g.p
	rounds := 1
	if thorough {
		rounds = 6
	}
	for c := 0; c < rounds; c++ {
		limit := 200 + p.intn(700)
		if !exact {
			limit = 1000 + p.intn(3000)
		}
		l := uint64(limit)
		for _, L := range []uint64{100, l - 1, l + 1, 4*l - 1, 4*l + 1, 1 << 22, 1 << 40} {
			g.heldField(limit, L, exact)
		}
		// the field ends and the list is exactly at the limit / one over it (three pseudo-header fields come first)
		room := l - uint64(listSize([]kv{{k: ":method", v: "GET"}, {k: ":scheme", v: "https"}, {k: ":path", v: "/"}})) - 6 - 32
		g.heldField(limit, room, exact)
		g.heldField(limit, room+1, exact)
		// limits switched off: nothing is refused
		g.heldField(-1, 1<<22, exact)
	}
}
