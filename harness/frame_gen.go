package main

// Generators of the frame area. Section markers `#sec <props>` tell checklib/area_frame.py which
// property an operation belongs to (c05: well-formed frames in both directions; c16: everything the
// reader can be fed).

import (
	"bufio"
	"bytes"
	"fmt"

	xh2 "golang.org/x/net/http2"
)

type frameGen struct {
	p *prng
	w *bufio.Writer
	n int
}

func (g *frameGen) sec(s string) { fmt.Fprintf(g.w, "#sec %s\n", s) }

func (g *frameGen) parse(max string, b []byte) {
	fmt.Fprintf(g.w, "frame.parse max=%s %s\n", max, hexOrDash(b))
	g.n++
}

func (g *frameGen) reuse(max string, b []byte) {
	fmt.Fprintf(g.w, "frame.reuse max=%s %s\n", max, hexOrDash(b))
}

func frMkFrame(length int, typ, flags byte, stream uint32, payload []byte) []byte {
	b := []byte{byte(length >> 16), byte(length >> 8), byte(length), typ, flags,
		byte(stream >> 24), byte(stream >> 16), byte(stream >> 8), byte(stream)}
	return append(b, payload...)
}

var frFixedSize = map[byte]int{2: 5, 3: 4, 6: 8, 7: 8, 8: 4}

func (g *frameGen) stream() uint32 {
	p := g.p
	var s uint32
	switch p.intn(6) {
	case 0:
		s = 0
	case 1:
		s = 1
	case 2:
		s = 1<<31 - 1
	default:
		s = uint32(p.next()) & (1<<31 - 1)
	}
	if p.chance(1, 2) {
		s |= 1 << 31 // reserved bit: ignored on receipt
	}
	return s
}

// payload of n octets; for padded types the first octet (pad length) is steered around n
func (g *frameGen) payload(n int, padded bool) []byte {
	b := g.p.bytes(n)
	if padded && n > 0 {
		switch g.p.intn(8) {
		case 0:
			b[0] = 0
		case 1:
			b[0] = byte(n - 1)
		case 2:
			b[0] = byte(n)
		case 3:
			b[0] = byte(n - 2)
		case 4:
			b[0] = byte(n + 1)
		case 5:
			b[0] = 255
		case 6:
			b[0] = byte(g.p.intn(n))
		}
	}
	return b
}

// grid: every type (and unknown ones) × every flags octet × payload sizes around the fixed sizes
func (g *frameGen) grid(thorough bool) {
	types := []byte{0, 1, 2, 3, 4, 5, 6, 7, 8, 9, 10, 11, 16, 0x7f, 0x80, 0x81, 0xf0, 0xff}
	for _, t := range types {
		sizes := []int{0, 1, 3, 4, 5, 6, 7, 8, 9, 12, 13, 18, 5 + g.p.intn(40)}
		if thorough {
			sizes = append(sizes, 2, 10, 11, 14, 24, 30, 64, 255, 256, 257)
		}
		for fl := 0; fl < 256; fl++ {
			for _, n := range sizes {
				if !thorough && t > 9 && n > 6 && fl%16 != 0 {
					continue
				}
				padded := fl&8 != 0 && (t == 0 || t == 1 || t == 5)
				pl := g.payload(n, padded)
				b := frMkFrame(n, t, byte(fl), g.stream(), pl)
				if g.p.chance(1, 4) {
					b = append(b, g.p.bytes(1+g.p.intn(12))...) // start of the next frame
				}
				g.parse("16384", b)
			}
		}
	}
}

// padSweep: pad length 0…255 against payload lengths around it, for the three padded types
func (g *frameGen) padSweep(thorough bool) {
	for _, t := range []byte{0, 1, 5} {
		for pad := 0; pad < 256; pad++ {
			for _, extra := range []int{-1, 0, 1, 4, 5, 6, 9} {
				n := pad + 1 + extra // payload length: pad octet + pad + extra content
				if n < 1 {
					continue
				}
				for _, fl := range []byte{0x8, 0x28, 0x2d, 0x9} {
					if fl&0x20 != 0 && t != 1 {
						continue
					}
					if !thorough && fl == 0x2d && pad%8 != 0 {
						continue
					}
					pl := g.p.bytes(n)
					pl[0] = byte(pad)
					if g.p.chance(1, 2) {
						for i := n - pad; i >= 0 && i < n; i++ { // zero padding as a conforming sender writes it
							if i > 0 {
								pl[i] = 0
							}
						}
					}
					g.parse("16384", frMkFrame(n, t, fl, g.stream(), pl))
				}
			}
		}
	}
}

// limits: length against the limit, payload present or cut
func (g *frameGen) limits(thorough bool) {
	maxes := []int{0, 1, 5, 100, 16384, 16385, 65536, 1<<24 - 1}
	for _, max := range maxes {
		for _, d := range []int{-1, 0, 1, 2} {
			l := max + d
			if max == 0 {
				l = []int{0, 1, 20000, 70000}[d+1]
			}
			if l < 0 || l > 1<<24-1 {
				continue
			}
			if l > 200000 {
				// the header decides; the payload is cut short (the list-based model driver is not fed 16 MiB lines)
				for _, t := range []byte{0, 1, 4, 9, 0x20} {
					g.parse(fmt.Sprint(max), frMkFrame(l, t, 0, 1, g.p.bytes(10)))
				}
				continue
			}
			for _, t := range []byte{0, 1, 2, 3, 4, 5, 6, 7, 8, 9, 0x20, 0x90} {
				fl := byte(0)
				if g.p.chance(1, 3) {
					fl = byte(g.p.next())
				}
				pl := g.p.bytes(l)
				if t == 4 {
					for i := 0; i+6 <= l; i += 6 { // harmless unknown identifiers
						pl[i], pl[i+1] = 0x7f, 0x01
					}
				}
				g.parse(fmt.Sprint(max), frMkFrame(l, t, fl, 1, pl))
				g.parse(fmt.Sprint(max), frMkFrame(l, t, fl, 1, pl[:l/2])) // cut
			}
		}
	}
	// ReadFrameFrom: the default limit
	for _, l := range []int{16383, 16384, 16385, 20000} {
		for _, t := range []byte{0, 1, 9, 0x42} {
			g.parse("d", frMkFrame(l, t, 0, 3, g.p.bytes(l)))
		}
	}
}

// settings: identifiers × boundary values, sequences, ack with payload, broken lengths
func (g *frameGen) settings(thorough bool) {
	ids := []uint16{0, 1, 2, 3, 4, 5, 6, 7, 8, 0x10, 0xffff}
	vals := []uint32{0, 1, 2, 100, 4096, 1<<14 - 1, 1 << 14, 1<<14 + 1, 65535, 1<<24 - 1, 1 << 24, 1<<31 - 1, 1 << 31, 1<<32 - 1}
	pair := func(id uint16, v uint32) []byte {
		return []byte{byte(id >> 8), byte(id), byte(v >> 24), byte(v >> 16), byte(v >> 8), byte(v)}
	}
	for _, id := range ids {
		for _, v := range vals {
			for _, fl := range []byte{0, 1, 0xfe} {
				g.parse("16384", frMkFrame(6, 4, fl, 0, pair(id, v)))
			}
		}
	}
	n := 1500
	if thorough {
		n = 15000
	}
	for i := 0; i < n; i++ {
		k := g.p.intn(7)
		var pl []byte
		for j := 0; j < k; j++ {
			id := ids[g.p.intn(len(ids))]
			v := vals[g.p.intn(len(vals))]
			if g.p.chance(3, 4) { // mostly valid values
				switch id {
				case 2:
					v = uint32(g.p.intn(2))
				case 4:
					v &= 1<<31 - 1
				case 5:
					v = 1<<14 + uint32(g.p.intn(1<<24-1<<14))
				}
			}
			pl = append(pl, pair(id, v)...)
		}
		if g.p.chance(1, 10) {
			pl = append(pl, g.p.bytes(1+g.p.intn(5))...)
		}
		fl := byte(0)
		if g.p.chance(1, 8) {
			fl = byte(g.p.next())
		}
		g.parse("16384", frMkFrame(len(pl), 4, fl, g.stream()&1, pl))
	}
}

type frXW struct {
	buf bytes.Buffer
	f   *xh2.Framer
}

func frNewXW() *frXW {
	x := &frXW{}
	x.f = xh2.NewFramer(&x.buf, nil)
	x.f.AllowIllegalWrites = true
	return x
}

func (x *frXW) take() []byte {
	b := append([]byte(nil), x.buf.Bytes()...)
	x.buf.Reset()
	return b
}

// oneValid writes one well-formed frame of a random type with x/net's writer.
func (g *frameGen) oneValid(x *frXW) []byte {
	p := g.p
	sid := uint32(1 + 2*p.intn(1000))
	if p.chance(1, 10) {
		sid = 1<<31 - 1
	}
	frag := p.bytes(p.intn(40))
	pad := []byte(nil)
	if p.chance(1, 2) {
		pad = make([]byte, p.intn(256))
	}
	switch p.intn(10) {
	case 0:
		if pad != nil {
			x.f.WriteDataPadded(sid, p.chance(1, 2), frag, pad)
		} else {
			x.f.WriteData(sid, p.chance(1, 2), frag)
		}
	case 1:
		hp := xh2.HeadersFrameParam{StreamID: sid, BlockFragment: frag, EndStream: p.chance(1, 2), EndHeaders: p.chance(1, 2)}
		if pad != nil {
			hp.PadLength = uint8(len(pad))
		}
		if p.chance(1, 2) {
			hp.Priority = xh2.PriorityParam{StreamDep: uint32(p.next()) & (1<<31 - 1), Exclusive: p.chance(1, 2), Weight: uint8(p.next())}
			if hp.Priority.IsZero() {
				hp.Priority.Weight = 1
			}
		}
		x.f.WriteHeaders(hp)
	case 2:
		x.f.WritePriority(sid, xh2.PriorityParam{StreamDep: uint32(p.next()) & (1<<31 - 1), Exclusive: p.chance(1, 2), Weight: uint8(p.next())})
	case 3:
		x.f.WriteRSTStream(sid, xh2.ErrCode(p.next()))
	case 4:
		if p.chance(1, 4) {
			x.f.WriteSettingsAck()
		} else {
			var ss []xh2.Setting
			for i := p.intn(7); i > 0; i-- {
				id := xh2.SettingID(1 + p.intn(8))
				v := uint32(p.next())
				switch id {
				case 2:
					v &= 1
				case 4:
					v &= 1<<31 - 1
				case 5:
					v = 1<<14 + v%(1<<24-1<<14)
				}
				ss = append(ss, xh2.Setting{ID: id, Val: v})
			}
			x.f.WriteSettings(ss...)
		}
	case 5:
		pp := xh2.PushPromiseParam{StreamID: sid, PromiseID: uint32(2 + 2*p.intn(1<<29)), BlockFragment: frag, EndHeaders: p.chance(1, 2)}
		if pad != nil {
			pp.PadLength = uint8(len(pad))
		}
		x.f.WritePushPromise(pp)
	case 6:
		var d [8]byte
		copy(d[:], p.bytes(8))
		x.f.WritePing(p.chance(1, 2), d)
	case 7:
		x.f.WriteGoAway(uint32(p.next())&(1<<31-1), xh2.ErrCode(p.next()), p.bytes(p.intn(30)))
	case 8:
		s := sid
		if p.chance(1, 2) {
			s = 0
		}
		x.f.WriteWindowUpdate(s, 1+uint32(p.next())%(1<<31-1))
	case 9:
		x.f.WriteContinuation(sid, p.chance(1, 2), frag)
	}
	return x.take()
}

// valid: frames an independent writer (x/net) produces, followed by more frames; reserved bits set
// at random afterwards (they must be ignored)
func (g *frameGen) valid(n int) {
	x := frNewXW()
	for i := 0; i < n; i++ {
		b := g.oneValid(x)
		if g.p.chance(1, 3) {
			b[5] |= 0x80 // R of the stream identifier
		}
		t := b[3]
		if (t == 7 || t == 8) && len(b) > 9 && g.p.chance(1, 2) {
			b[9] |= 0x80 // R of last-stream-id / increment
		}
		if t == 5 && b[4]&8 == 0 && len(b) > 9 && g.p.chance(1, 2) {
			b[9] |= 0x80
		}
		for k := g.p.intn(3); k > 0; k-- {
			b = append(b, g.oneValid(x)...)
		}
		max := "16384"
		switch g.p.intn(6) {
		case 0:
			max = "d"
		case 1:
			max = "0"
		case 2:
			max = "65536"
		}
		g.parse(max, b)
	}
}

// truncations: every cut point of valid frame streams
func (g *frameGen) truncations(n int) {
	x := frNewXW()
	for i := 0; i < n; i++ {
		b := g.oneValid(x)
		for len(b) > 120 {
			b = g.oneValid(x)
		}
		full := append(append([]byte(nil), b...), g.oneValid(x)...)
		for cut := 0; cut <= len(b)+1 && cut <= len(full); cut++ {
			g.parse("16384", full[:cut])
		}
		// the pool after a cut inside the payload
		if len(b) > 10 {
			g.reuse("16384", b[:9+g.p.intn(len(b)-9)])
		}
		g.reuse("16384", full)
	}
}

func (g *frameGen) random(n int) {
	for i := 0; i < n; i++ {
		l := g.p.intn(40)
		b := g.p.bytes(l)
		if l >= 9 && g.p.chance(3, 4) {
			b[0], b[1] = 0, 0
			b[2] = byte(g.p.intn(l - 8 + 3))
			if g.p.chance(3, 4) {
				b[3] = byte(g.p.intn(10))
			}
		}
		max := "16384"
		if g.p.chance(1, 5) {
			max = fmt.Sprint(g.p.intn(20))
		}
		g.parse(max, b)
		if g.p.chance(1, 10) {
			g.reuse(max, b)
		}
	}
}

func (g *frameGen) wr(t string, s uint32, fl int, pad int, kv string) {
	// one write in five goes through SetFlags first with an arbitrary octet (all 256 values, undefined bits and the
	// top bit included): whatever the caller puts there, the nine header octets keep their layout
	if fl == 0 && g.p.chance(1, 5) {
		fl = g.p.intn(256)
	}
	fmt.Fprintf(g.w, "frame.write %s s=%d fl=%d pad=%d %s\n", t, s, fl, pad, kv)
	g.n++
}

// writes: frame values built through the public setters
func (g *frameGen) writes(thorough bool) {
	p := g.p
	u31 := func() uint32 {
		switch p.intn(5) {
		case 0:
			return 0
		case 1:
			return 1<<31 - 1
		case 2:
			return uint32(1 + p.intn(300))
		}
		return uint32(p.next()) & (1<<31 - 1)
	}
	u32 := func() uint32 {
		switch p.intn(5) {
		case 0:
			return 0
		case 1:
			return 1<<32 - 1
		case 2:
			return uint32(p.intn(14))
		}
		return uint32(p.next())
	}
	sid := func() uint32 {
		if p.chance(1, 8) {
			return 1<<31 - 1
		}
		return uint32(1 + p.intn(1<<20))
	}
	blob := func() string {
		switch p.intn(6) {
		case 0:
			return "-"
		case 1:
			return hexOrDash(p.bytes(1))
		case 2:
			return hexOrDash(p.bytes(200 + p.intn(2000)))
		}
		return hexOrDash(p.bytes(1 + p.intn(40)))
	}
	pads := []int{0, 0, 0, 9, 10, 100, 254, 255}
	// PUSH_PROMISE fields (promised id, END_HEADERS, padding, short blocks) come from a stream of their own, so that
	// the operations of every other type are the ones a seed has always produced
	q := newPrng(p.s ^ 0xf14)
	promised := func() uint32 {
		switch q.intn(8) {
		case 0:
			return 0
		case 1:
			return 1
		case 2:
			return 1<<31 - 1
		case 3:
			return 1 << 31 // reserved bit alone: must not reach the wire
		case 4:
			return 1<<32 - 1
		case 5:
			return uint32(2 + 2*q.intn(500))
		}
		return uint32(q.next())
	}
	n := 400
	if thorough {
		n = 4000
	}
	for i := 0; i < n; i++ {
		pad := pads[p.intn(len(pads))]
		if pad != 0 && p.chance(1, 2) {
			pad = 9 + p.intn(247)
		}
		g.wr("DATA", sid(), 0, pad, fmt.Sprintf("es=%d data=%s", p.intn(2), blob()))
		pad = pads[p.intn(len(pads))]
		prio := p.intn(2)
		g.wr("HEADERS", sid(), 0, pad, fmt.Sprintf("es=%d eh=%d prio=%d dep=%d w=%d frag=%s", p.intn(2), p.intn(2), prio, u31()*uint32(prio), p.intn(256)*prio, blob()))
		g.wr("PRIORITY", sid(), 0, 0, fmt.Sprintf("dep=%d w=%d", u31(), p.intn(256)))
		g.wr("RST_STREAM", sid(), 0, 0, fmt.Sprintf("code=%d", u32()))
		ppSid, ppFrag := sid(), blob()
		if q.chance(1, 2) {
			// header blocks of 0..5 octets: around the four octets of the promised id in front of them
			ppFrag = hexOrDash(q.bytes(q.intn(6)))
		}
		ppPad := pads[q.intn(len(pads))]
		if ppPad != 0 && q.chance(1, 2) {
			ppPad = 9 + q.intn(247)
		}
		g.wr("PUSH_PROMISE", ppSid, 0, ppPad, fmt.Sprintf("promised=%d eh=%d frag=%s", promised(), q.intn(2), ppFrag))
		g.wr("PING", 0, 0, 0, fmt.Sprintf("ack=%d data=%s", p.intn(2), hexOrDash(p.bytes(8))))
		g.wr("GOAWAY", 0, 0, 0, fmt.Sprintf("last=%d code=%d debug=%s", u31(), u32()&(1<<31-1), blob()))
		ws := uint32(0)
		if p.chance(1, 2) {
			ws = sid()
		}
		g.wr("WINDOW_UPDATE", ws, 0, 0, fmt.Sprintf("inc=%d", 1+u31()%(1<<31-1)))
		g.wr("CONTINUATION", sid(), 0, 0, fmt.Sprintf("eh=%d frag=%s", p.intn(2), blob()))
		// SETTINGS: values a peer may legitimately announce, zero included
		val := func(def uint32) uint32 {
			switch p.intn(4) {
			case 0:
				return 0
			case 1:
				return def
			}
			return 1 + uint32(p.next())%(1<<31-1)
		}
		fs := uint32(1<<14) + uint32(p.next())%(1<<24-1<<14)
		if p.chance(1, 3) {
			fs = 1 << 14
		}
		g.wr("SETTINGS", 0, 0, 0, fmt.Sprintf("ack=%d ts=%d push=%d mcs=%d ws=%d fs=%d hs=%d", frB2i(p.chance(1, 6)), val(4096), p.intn(2), val(100), val(65535), fs, val(0)))
	}
}

func frB2i(b bool) int {
	if b {
		return 1
	}
	return 0
}

func genFrame(p *prng, thorough bool, w *bufio.Writer) {
	g := &frameGen{p: p, w: w}
	k := 1
	if thorough {
		k = 10
	}
	g.sec("c05 c16")
	g.valid(4000 * k)
	g.sec("c05")
	g.writes(thorough)
	g.sec("c05 c16")
	g.padSweep(thorough)
	g.settings(thorough)
	g.sec("c16")
	g.grid(thorough)
	g.limits(thorough)
	g.truncations(150 * k)
	g.random(6000 * k)
}
