package main

// splitmix64: every random choice of a run derives from one seed.
type prng struct{ s uint64 }

func newPrng(seed uint64) *prng { return &prng{s: seed*0x9E3779B97F4A7C15 + 0x1234567} }

func (p *prng) next() uint64 {
	p.s += 0x9E3779B97F4A7C15
	z := p.s
	z = (z ^ (z >> 30)) * 0xBF58476D1CE4E5B9
	z = (z ^ (z >> 27)) * 0x94D049BB133111EB
	return z ^ (z >> 31)
}

func (p *prng) intn(n int) int {
	if n <= 0 {
		return 0
	}
	return int(p.next() % uint64(n))
}

func (p *prng) chance(num, den int) bool { return p.intn(den) < num }

func (p *prng) bytes(n int) []byte {
	b := make([]byte, n)
	for i := range b {
		b[i] = byte(p.next())
	}
	return b
}

func (p *prng) pick(xs []string) string { return xs[p.intn(len(xs))] }

func (p *prng) fork() *prng { return newPrng(p.next()) }
