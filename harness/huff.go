package main

import (
	"bufio"
	"fmt"

	http2 "github.com/dgrr/http2"
)

func runHuff(f []string) string {
	if len(f) != 2 {
		return "bad-op"
	}
	b, ok := unhex(f[1])
	if !ok {
		return "bad-op"
	}
	switch f[0] {
	case "huff.enc":
		return "ok " + hexOrDash(http2.HuffmanEncode(nil, b))
	case "huff.dec":
		out, err := http2.HuffmanDecode(nil, b)
		if err != nil {
			return "err"
		}
		return "ok " + hexOrDash(out)
	}
	return "bad-op"
}

// genHuff: every string of length <= 1, all 65 536 symbol pairs, every byte
// string of length <= 2 as decoder input, encodings of random strings with tail
// mutations, random strings up to 4 KiB. Thorough adds all 3-byte decoder
// inputs.
func genHuff(p *prng, thorough bool, w *bufio.Writer) {
	fmt.Fprintln(w, "huff.enc -")
	fmt.Fprintln(w, "huff.dec -")
	for a := 0; a < 256; a++ {
		fmt.Fprintf(w, "huff.enc %02x\n", a)
		fmt.Fprintf(w, "huff.dec %02x\n", a)
	}
	for a := 0; a < 256; a++ {
		for b := 0; b < 256; b++ {
			fmt.Fprintf(w, "huff.enc %02x%02x\n", a, b)
			fmt.Fprintf(w, "huff.dec %02x%02x\n", a, b)
		}
	}
	n := 3000
	if thorough {
		n = 30000
	}
	for i := 0; i < n; i++ {
		l := p.intn(12)
		if p.chance(1, 10) {
			l = p.intn(4096)
		}
		s := p.bytes(l)
		if p.chance(1, 2) { // mostly printable
			for j := range s {
				s[j] = 32 + s[j]%95
			}
		}
		fmt.Fprintf(w, "huff.enc %s\n", hexOrDash(s))
		e := http2.HuffmanEncode(nil, s) // mutation base only; the result is not trusted
		fmt.Fprintf(w, "huff.dec %s\n", hexOrDash(e))
		if len(e) > 0 {
			m := append([]byte(nil), e...)
			switch p.intn(5) {
			case 0:
				m = append(m, 0xff)
			case 1:
				m[len(m)-1] &= byte(0xff << uint(1+p.intn(7)))
			case 2:
				m = m[:len(m)-1]
			case 3:
				m[p.intn(len(m))] ^= 1 << uint(p.intn(8))
			case 4:
				m = append(m, 0xff, 0xff, 0xff, byte(0xfc|p.intn(4)))
			}
			fmt.Fprintf(w, "huff.dec %s\n", hexOrDash(m))
		}
		fmt.Fprintf(w, "huff.dec %s\n", hexOrDash(p.bytes(p.intn(8))))
	}
	if thorough {
		for a := 0; a < 256; a++ {
			for b := 0; b < 256; b++ {
				for c := 0; c < 256; c += 1 {
					fmt.Fprintf(w, "huff.dec %02x%02x%02x\n", a, b, c)
				}
			}
		}
	}
}
