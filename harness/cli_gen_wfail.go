package main

// Write failures (C12, also C02/C07/C11): `cli <id> failwrite <n>` makes the
// client's transport take n more octets and then fail every write, while reads
// stay open. A scripted exchange is a list of events; the failure is injected at
// every position of it, with budgets that let it hit the HEADERS of a request,
// the DATA of a buffered or streamed body (in writeRequest's own sendPending and
// in flushPending), a RST_STREAM, a WINDOW_UPDATE, a SETTINGS or PING
// acknowledgement, or the GOAWAY of Close. Every script ends with the callers
// giving up / the connection being closed or cut, in some order, and every
// request being read: each must have exactly one result.

import "bufio"

// an exchange is built against a fresh scn every time it is replayed
type wfExchange struct {
	name     string
	settings []uint32
	events   func(s *scn) []func()
}

func wfResp(body int, emptyLast bool) cli_respSpec {
	r := cli_respSpec{status: "200", hdrs: []cli_kv{{k: "x-a", v: "1"}}, padH: -1, padD: -1, emptyLast: emptyLast}
	if body > 0 {
		r.body = cli_patBytes(9, body)
		for n := body; n > 16000; n -= 16000 {
			r.chunks = append(r.chunks, 16000)
		}
	}
	return r
}

// answer sends a response on a stream the shadow still has open, one event per frame
func (s *scn) answer(sid uint32, r cli_respSpec) {
	if sid != 0 && s.open[sid] != "" {
		s.frames(s.render(sid, r)...)
	}
}

var wfExchanges = []wfExchange{
	// every body kind on default windows; the large upload exhausts the connection window, so the
	// streamed ones after it wait for the WINDOW_UPDATE
	{"bodies", []uint32{3, 100}, func(s *scn) []func() {
		var t [6]string
		var sid [6]uint32
		return []func(){
			func() { t[0], sid[0] = s.req(reqSpec{path: "/none"}) },
			func() { t[1], sid[1] = s.req(reqSpec{method: "POST", path: "/small", body: "buf:3:100"}) },
			func() { t[2], sid[2] = s.req(reqSpec{method: "POST", path: "/large", body: "buf:5:70000"}) },
			func() { t[3], sid[3] = s.req(reqSpec{method: "PUT", path: "/declared", body: "str:7:300:100.200:eof"}) },
			func() { t[4], sid[4] = s.req(reqSpec{method: "PUT", path: "/unknown", body: "str:11:-1:50.16384.10:eofw"}) },
			func() { s.frame(frWindowUpdate(0, 1<<20)) },
			func() { s.frame(frWindowUpdate(5, 10000)) },
			func() { s.frame(frPing(false, []byte("abcdefgh"))) },
			func() { s.frame(frSettings(4, 100000, 5, 20000)) },
			func() { s.answer(sid[0], wfResp(0, false)) },
			func() { s.answer(sid[1], wfResp(40000, true)) },
			func() { s.timeout(t[3]) },
			func() { t[5], sid[5] = s.req(reqSpec{path: "/again", hdrs: []cli_kv{{k: "X-Foo", v: "bar"}}}) },
			func() { s.answer(sid[5], wfResp(20, false)) },
		}
	}},
	// uploads blocked by a tiny initial window; the server opens it bit by bit, resets one stream,
	// answers another before its upload is over, the caller gives up on a third
	{"blocked", []uint32{4, 10}, func(s *scn) []func() {
		var t [6]string
		return []func(){
			func() { t[0], _ = s.req(reqSpec{method: "POST", path: "/b1", body: "buf:1:500"}) },
			func() { t[1], _ = s.req(reqSpec{method: "POST", path: "/s3", body: "str:2:-1:100.200:eof"}) },
			func() { t[2], _ = s.req(reqSpec{method: "POST", path: "/s5", body: "str:3:300:100.200:eof"}) },
			func() { t[3], _ = s.req(reqSpec{method: "POST", path: "/b7", body: "buf:4:40000"}) },
			func() { s.frame(frWindowUpdate(1, 100)) },
			func() { s.frame(frWindowUpdate(3, 1000)) },
			func() { s.frame(frSettings(4, 200)) },
			func() { s.frame(frRst(1, 8)); delete(s.open, 1) },
			func() { s.answer(5, wfResp(0, false)) },
			func() { s.timeout(t[3]) },
			func() { t[4], _ = s.req(reqSpec{method: "POST", path: "/s9", body: "str:5:-1:-:eof"}) },
			func() { s.frame(frWindowUpdate(3, 1<<20)) },
			func() { s.answer(3, wfResp(5, true)) },
		}
	}},
	// more requests than the server allows: some are turned away without a write; a body whose
	// reader fails makes the write loop queue a RST_STREAM of its own
	{"limits", []uint32{3, 2}, func(s *scn) []func() {
		var t [6]string
		var sid [6]uint32
		return []func(){
			func() { t[0], sid[0] = s.req(reqSpec{path: "/a"}) },
			func() { t[1], _ = s.req(reqSpec{method: "POST", path: "/readerr", body: "str:2:-1:100:err"}) },
			func() { t[2], _ = s.req(reqSpec{path: "/turned-away"}) },
			func() { s.answer(sid[0], wfResp(0, false)) },
			func() { t[3], _ = s.req(reqSpec{method: "POST", path: "/zero", body: "str:2:-1:10:zero"}) },
			func() { s.frame(frSettings(3, 10)); s.maxStr = 10 },
			func() { t[4], sid[4] = s.req(reqSpec{method: "POST", path: "/empty-stream", body: "str:2:0:-:eof"}) },
			func() { t[5], sid[5] = s.req(reqSpec{method: "POST", path: "/big", body: "buf:6:20000"}) },
			func() { s.answer(sid[4], wfResp(70000, true)) },
		}
	}},
}

var wfBudgets = []int{0, 1, 9, 17, 40, 120, 700, 16393, 20000, 70000}

var wfFinales = [][]string{
	{"read", "close"},
	{"timeout", "read", "cut"},
	{"close"},
	{"cut", "timeout"},
	{"read", "timeout", "read", "close"},
	{"timeout", "close"},
}

// wfFinale: the callers and the owner of the connection do their part in the given order, then every
// request is read once more: none may be left without a result.
func (s *scn) wfFinale(order []string) {
	for _, a := range order {
		switch a {
		case "read":
			s.read(s.tags...)
		case "timeout":
			for _, t := range s.tags {
				s.op("timeout %s", t)
			}
		default:
			s.op(a)
			s.dead = true
		}
	}
	s.read(s.tags...)
	if !s.dead {
		s.op("close")
		s.read(s.tags...)
	}
}

// wfPlay replays an exchange with the failure injected before event number at (len(events) = after
// the last one).
func wfPlay(w *bufio.Writer, p *prng, x wfExchange, at, budget int, finale []string) {
	s := newScn(w, p, x.settings...)
	s.note("wfail %s exchange=%s at=%d budget=%d", s.id, x.name, at, budget)
	ev := x.events(s)
	for i, e := range ev {
		if i == at {
			s.op("failwrite %d", budget)
		}
		e()
	}
	if at >= len(ev) {
		s.op("failwrite %d", budget)
	}
	s.wfFinale(finale)
}

// wfCount: number of events of an exchange
func wfCount(x wfExchange) int { return len(x.events(nil)) }

// wfSystematic: every position of every exchange. Quick tier: budget 0 everywhere plus a rotating
// pair of budgets; thorough (or all): every budget at every position.
func wfSystematic(p *prng, all bool, w *bufio.Writer) {
	n := 0
	for _, x := range wfExchanges {
		cnt := wfCount(x)
		for at := 0; at <= cnt; at++ {
			var bs []int
			if all {
				bs = wfBudgets
			} else {
				bs = []int{0, wfBudgets[1+(at*2)%(len(wfBudgets)-1)], wfBudgets[1+(at*2+5)%(len(wfBudgets)-1)]}
			}
			for _, b := range bs {
				wfPlay(w, p.fork(), x, at, b, wfFinales[n%len(wfFinales)])
				n++
			}
		}
	}
}

// wfRandom: random traffic (requests of random shape, window updates, settings, pings, responses,
// resets, timeouts) with the failure at a random point and a random budget.
func wfRandom(p *prng, n int, w *bufio.Writer) {
	wins := []uint32{0, 10, 1000, 16384, 65535, 200000}
	for i := 0; i < n; i++ {
		q := p.fork()
		st := []uint32{3, uint32(2 + q.intn(6))}
		if q.chance(1, 2) {
			st = append(st, 4, wins[q.intn(len(wins))])
		}
		s := newScn(w, q, st...)
		steps := 3 + q.intn(10)
		at := q.intn(steps + 1)
		budget := wfBudgets[q.intn(len(wfBudgets))]
		if q.chance(1, 3) {
			budget = q.intn(400)
		}
		s.note("wfail %s exchange=random at=%d budget=%d", s.id, at, budget)
		for j := 0; j < steps; j++ {
			if j == at {
				s.op("failwrite %d", budget)
			}
			ids := s.openSids()
			var sid uint32
			if len(ids) > 0 {
				sid = ids[q.intn(len(ids))]
			}
			switch k := q.intn(12); {
			case k < 4 || sid == 0:
				max := 300
				if q.chance(1, 3) {
					max = 80000
				}
				body, _ := s.randBody(max)
				s.req(s.randReq(body))
			case k == 4:
				s.frame(frWindowUpdate(sid, uint32(1+q.intn(50000))))
			case k == 5:
				s.frame(frWindowUpdate(0, uint32(1<<20+q.intn(1000))))
			case k == 6:
				s.frame(frSettings(4, wins[q.intn(len(wins))]))
			case k == 7:
				s.frame(frPing(false, q.bytes(8)))
			case k == 8:
				s.frame(frRst(sid, uint32(q.intn(9))))
				delete(s.open, sid)
			case k == 9:
				s.timeout(s.open[sid])
			default:
				r := s.randResp(3000)
				if q.chance(2, 3) {
					r.emptyLast = true
				}
				s.answer(sid, r)
			}
		}
		if at >= steps {
			s.op("failwrite %d", budget)
		}
		s.wfFinale(wfFinales[q.intn(len(wfFinales))])
	}
}

func genCliWFail(p *prng, thorough bool, w *bufio.Writer) {
	wfSystematic(p.fork(), thorough, w)
	n := 120
	if thorough {
		n = 1500
	}
	wfRandom(p.fork(), n, w)
}

func init() {
	cliGens["cliwfail"] = genCliWFail
}
