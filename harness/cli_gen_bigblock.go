package main

// Requests whose header block does not fit one frame (finding F33, repaired: writeRequest cuts the block at the server's
// SETTINGS_MAX_FRAME_SIZE into HEADERS + CONTINUATION, under bwLck). Appended to clisettings (C18c: every frame within
// the server's MAX_FRAME_SIZE, which persists), cliresp (C02: the request on the wire is the request given) and, with
// real interleavings, clirace.

import (
	"bufio"
	"fmt"
)

// cliBigFixed: the octets of a request header block apart from the octets of the X-Big value and its length prefix:
// :authority example.com, :method GET, :path /big, :scheme https, user-agent (empty), x-big (name), x-z: 2; first request
// of a connection (the five fixed fields are added to the dynamic table). Measured against the code; the targets are
// swept +-3 around it.
const cliBigFixed = 31

func cliBigValueLen(total int) int {
	for _, pre := range []int{1, 2, 3, 4} {
		l := total - cliBigFixed - pre
		var need int
		switch {
		case l < 127:
			need = 1
		case l < 127+128:
			need = 2
		case l < 127+16384:
			need = 3
		default:
			need = 4
		}
		if need == pre {
			return l
		}
	}
	return total - cliBigFixed - 4
}

// cliBigBlocks: one connection per announced MAX_FRAME_SIZE (none = 16384, 16384, 20000, 65536, 2^20), each with one
// request per block size around one and two frames of that size, a 40000-octet block and one of two and a half
// frames; without body (END_STREAM on the HEADERS frame), with a buffered and a streamed body. Every request is the first
// of its connection, so the fixed part of the block is the same.
func cliBigBlocks(p *prng, thorough bool, w *bufio.Writer) {
	for _, mfs := range []uint32{0, 16384, 20000, 65536, 1 << 20} {
		step := int(mfs)
		if step == 0 {
			step = 16384
		}
		var totals []int
		for _, t := range []int{step, 2 * step} {
			for d := -3; d <= 3; d++ {
				if thorough || d >= -1 && d <= 1 {
					totals = append(totals, t+d)
				}
			}
		}
		totals = append(totals, 40000, step*5/2)
		if mfs >= 65536 && !thorough {
			totals = []int{step - 1, step, step + 1, 40000}
		}
		for i, t := range totals {
			var st []uint32
			if mfs != 0 {
				st = append(st, 5, mfs)
			}
			s := newScn(w, p.fork(), st...)
			body := []string{"none", "buf:3:5", "none", "str:3:-1:100.200:eof"}[i%4]
			hd := []cli_kv{{k: "X-Big", v: bigValue(s.p, cliBigValueLen(t))}, {k: "x-z", v: "2"}}
			tag, sid := s.req(reqSpec{path: "/big", hdrs: hd, body: body})
			s.frame(s.resp(sid, "200", nil, nil))
			s.read(tag)
			// a second request: its block indexes the fixed fields (shorter by a few octets), same value
			tag, sid = s.req(reqSpec{path: "/big", hdrs: hd})
			s.frame(s.resp(sid, "200", nil, nil))
			s.read(tag)
			s.finale("close")
		}
	}
	// the server raises, then lowers, MAX_FRAME_SIZE between requests: the latest value is the one obeyed
	s := newScn(w, p.fork())
	hd := []cli_kv{{k: "X-Big", v: bigValue(s.p, 45000)}, {k: "x-f2", v: bigValue(s.p, 5000)}}
	for _, mfs := range []uint32{0, 32768, 0, 16384, 1 << 20, 20000} {
		if mfs != 0 {
			s.note("settings %s %v", s.id, []uint32{5, mfs})
			s.frame(frSettings(5, mfs))
		} else {
			s.frame(frSettings(4, 70000)) // does not mention MAX_FRAME_SIZE: what was announced before persists
		}
		tag, sid := s.req(reqSpec{path: "/big", hdrs: hd, body: "buf:3:40000"})
		s.frame(s.resp(sid, "200", nil, nil))
		s.read(tag)
	}
	s.finale("close")
}

// cliBigRace: Write calls with three-frame header blocks started without waiting while the read loop is given
// WINDOW_UPDATE frames that make it flush a blocked upload (DATA frames written under bwLck from another goroutine), PING
// and SETTINGS to answer, and finally Close writes its GOAWAY: whatever the interleaving, nothing may come between the
// frames of a block (the harness reports hbi= when it sees it).
func cliBigRace(p *prng, w *bufio.Writer) {
	for rep := 0; rep < 6; rep++ {
		s := newScn(w, p.fork())
		s.req(reqSpec{method: "POST", path: "/up", body: "buf:7:200000"}) // blocked by the 65535-octet windows
		var feed []byte
		for i := 0; i < 4; i++ {
			s.ntag++
			tag := fmt.Sprintf("t%d", s.ntag)
			s.tags = append(s.tags, tag)
			s.op("reqnow %s GET https %s %s - %s none", tag, hexOrDash([]byte("example.com")), hexOrDash([]byte("/"+tag)),
				hexOrDash([]byte("X-Big"))+"="+hexOrDash([]byte(bigValue(s.p, 38000+s.p.intn(4000)))))
			feed = append(feed, frWindowUpdate(0, 20000)...)
			feed = append(feed, frWindowUpdate(1, 20000)...)
			feed = append(feed, frSettings(4, uint32(70000+i))...)
			s.op("feed %s", hexOrDash(feed))
			feed = nil
		}
		if rep%2 == 1 {
			s.op("closego")
		}
		s.op("settle")
		s.op("close")
		s.read(s.tags...)
	}
}
