package main

// Client area, runtime behaviour the serial model has no words for: a peer that
// stops reading. From `stall` on the client's writes block (as a TCP write does
// once the peer's receive window and the local send buffer are full), nothing on
// the connection reaches quiescence any more, and every operation is run on a
// goroutine of its own, guarded by a deadline. Their result lines are `mon ##
// <report>`: the model driver answers `mon`, the monitors (area_client.py,
// mon_stall) judge the reports: every request gets its one result, in time, and
// nobody is left stuck.
//
//	cli <id> stall [n]         the peer reads n more octets (default 0) and then stops reading
//	cli <id> flood <n> <hex>   the peer sends the octets n times over, without waiting for anything
//	cli <id> req ...           Conn.Write on a goroutine: did it return?
//	cli <id> timeout <tag>     the request's MaxResponseTime timer fires (on its own goroutine, as timers do)
//	cli <id> read <tag>        what RoundTrip does next: take the result, take the request back
//	cli <id> close             Conn.Close on a goroutine: did it return, did the loops exit?
//	cli <id> cut               the peer disconnects (both directions): did the loops exit?
//	cli <id> halfcut           the peer ends its own sending and still does not read
//	cli <id> unstall           the peer reads again: does the connection settle?
//	cli <id> end               who is still running, which requests have no result or more than one

import (
	"fmt"
	"io"
	"runtime"
	"sort"
	"strconv"
	"strings"
	"time"

	http2 "github.com/dgrr/http2"
)

type cliStall struct {
	fired  map[string]chan struct{} // tag -> closed when fireTimeout has returned
	writes map[string]chan struct{} // tag -> closed when Conn.Write has returned
	closes []chan struct{}          // Close calls started
	ended  bool                     // close or cut has been run
}

// cliHungSeen counts the verdicts "did not come back" of this run. The first ones wait long enough to
// be beyond doubt on a loaded machine; once a run is failing anyway the later ones cost less.
var cliHungSeen int

func stallDeadline() time.Duration {
	switch {
	case cliHungSeen < 4:
		return 1500 * time.Millisecond
	case cliHungSeen < 16:
		return 400 * time.Millisecond
	}
	return 120 * time.Millisecond
}

// waitFor polls cond until it holds or the deadline passes. Time is the script's: a write deadline the client
// has set on a blocked write passes only when nothing else can happen any more (nothing has moved for a few
// milliseconds and cond still does not hold); the number of deadlines that had to pass is reported (ff), so that
// the monitors can tell "came at once" from "came when the connection gave up writing".
func (cc *cliConn) waitFor(cond func() bool, minFF time.Duration) (ok bool, ms int64, ff int) {
	start := time.Now()
	deadline := start.Add(stallDeadline())
	last, stable := cc.stallSnap(), 0
	for i := 0; ; i++ {
		if cond() {
			return true, time.Since(start).Milliseconds(), ff
		}
		if i < 100 {
			runtime.Gosched()
			continue
		}
		if time.Now().After(deadline) {
			cliHungSeen++
			return false, time.Since(start).Milliseconds(), ff
		}
		nap()
		if cur := cc.stallSnap(); cur == last {
			stable++
		} else {
			last, stable = cur, 0
		}
		if stable >= 40 && ff < 6 && time.Since(start) >= minFF && cc.mc.out.pendingDeadline() {
			cc.mc.out.expire()
			ff++
			stable = 0
		}
	}
}

type stallSnapT struct {
	enq, deq, exits int64
	unread, out     int
	total           int64
	idle            bool
	blocked         int
	ready           string
}

func (cc *cliConn) stallSnap() stallSnapT {
	nb, _ := cc.mc.out.blockedOn()
	return stallSnapT{http2.VerifClientEnqN.Load(), http2.VerifClientDeqN.Load(), http2.VerifClientLoopExits.Load(),
		cc.mc.in.unread(), cc.mc.out.unread(), cc.mc.out.written(), cc.mc.in.idle(), nb, cc.ready()}
}

// nap yields for about 150 microseconds (time.Sleep rounds up to a millisecond or more on this kind of machine).
func nap() {
	t := time.Now()
	for time.Since(t) < 150*time.Microsecond {
		runtime.Gosched()
	}
}

func chClosed(c chan struct{}) bool {
	select {
	case <-c:
		return true
	default:
		return false
	}
}

// settleStalled waits until nothing moves any more: the counters of both loops, the octets the read
// loop has left unread and the results waiting have been the same for a few milliseconds.
func (cc *cliConn) settleStalled() {
	last, stable := cc.stallSnap(), 0
	for i := 0; i < 3000 && stable < 20; i++ {
		nap()
		cur := cc.stallSnap()
		if cur == last {
			stable++
		} else {
			stable = 0
		}
		last = cur
	}
}

func (cc *cliConn) stallState() string {
	return fmt.Sprintf("unread=%d rdidle=%d enq=%d deq=%d loops=%d ready=%s", cc.mc.in.unread(), b01(cc.mc.in.idle()),
		http2.VerifClientEnqN.Load(), http2.VerifClientDeqN.Load(), http2.VerifClientLoopExits.Load(), cc.ready())
}

func (cc *cliConn) runStalled(op string, f []string) string {
	st := cc.st
	mon := func(format string, a ...interface{}) string { return "mon ## " + fmt.Sprintf(format, a...) }
	switch op {
	case "stall":
		n := int64(0)
		if len(f) > 3 {
			n, _ = strconv.ParseInt(f[3], 10, 64)
		}
		if st == nil {
			cc.st = &cliStall{fired: map[string]chan struct{}{}, writes: map[string]chan struct{}{}}
			cc.stalled = true
		}
		cc.mc.out.setManualTime(true)
		cc.mc.out.setStallAt(n)
		return mon("stalled after=%d", n)
	case "unstall":
		cc.mc.out.setStallAt(-1)
		quiet, ms, _ := cc.waitFor(func() bool {
			if http2.VerifClientLoopExits.Load() >= 2 {
				return true
			}
			e, d := http2.VerifClientEnqN.Load(), http2.VerifClientDeqN.Load()
			return http2.VerifClientLoopExits.Load() == 0 && cc.readIdle() && e == d
		}, 0)
		cc.settleStalled()
		return mon("unstall quiet=%d ms=%d %s out=%s", b01(quiet), ms, cc.stallState(), cc.stallOut())
	case "flood", "frame":
		n, hexs := 1, ""
		if op == "flood" && len(f) == 5 {
			n, _ = strconv.Atoi(f[3])
			hexs = f[4]
		} else if op == "frame" && len(f) == 4 {
			hexs = f[3]
		} else {
			return "bad-op"
		}
		b, ok := unhex(hexs)
		if !ok {
			return "bad-op"
		}
		all := make([]byte, 0, n*len(b))
		for i := 0; i < n; i++ {
			all = append(all, b...)
		}
		cc.mc.in.write(all)
		cc.settleStalled()
		return mon("flood fed=%d %s", len(all), cc.stallState())
	case "req":
		q, bad := cc.buildReq(f[3:])
		if bad != "" {
			return bad
		}
		done := make(chan struct{})
		st.writes[q.tag] = done
		go func() { cc.c.Write(q.ctx); close(done) }()
		written, ms, ff := cc.waitFor(func() bool { return chClosed(done) }, 0)
		cc.settleStalled()
		if sid := http2.VerifCtxStreamID(q.ctx); sid != 0 {
			cc.bySid[sid] = q
		}
		return mon("req %s written=%d ms=%d ff=%d sid=%d %s", q.tag, b01(written), ms, ff, http2.VerifCtxStreamID(q.ctx), cc.stallState())
	case "timeout":
		q := cc.reqs[f[3]]
		if q == nil {
			return "bad-op"
		}
		if st.fired[q.tag] != nil {
			return mon("timeout %s again", q.tag)
		}
		done := make(chan struct{})
		st.fired[q.tag] = done
		go func() { http2.VerifCtxFireTimeout(q.ctx); close(done) }()
		got, ms, ff := cc.waitFor(func() bool { return q.read || len(q.ctx.Err) > 0 }, 25*time.Millisecond)
		// the timer's goroutine may stay behind (it queues a RST_STREAM): that is reported, and judged at `end`
		time.Sleep(200 * time.Microsecond)
		return mon("timeout %s result=%d ms=%d ff=%d fired=%d", q.tag, b01(got), ms, ff, b01(chClosed(done)))
	case "read":
		q := cc.reqs[f[3]]
		if q == nil {
			return mon("read %s unknown", f[3])
		}
		if q.read {
			return mon("read %s again", q.tag)
		}
		if w := st.writes[q.tag]; w != nil && !chClosed(w) {
			// RoundTrip is still inside Conn.Write: whatever has been put into Err, its caller has nothing
			return mon("read %s in-write result=%d wblocked=%s", q.tag, len(q.ctx.Err), cc.writerBlockedOn())
		}
		select {
		case err := <-q.ctx.Err:
			q.read = true
			q.nres++
			q.err = err
			q.said = cliGoAwayDetail(err)
			wb := cc.writerBlockedOn()
			back, ms, ff := cc.waitFor2(func() { http2.VerifCtxTakeBack(q.ctx) })
			if !back {
				// what the writer is blocked on now that the caller has been found stuck (on a loaded machine the look
				// before the wait can come a moment before the writer reaches the write it blocks in)
				wb = cc.writerBlockedOn()
			}
			return mon("read %s %s retry=%d sid=%d hung=%d ms=%d ff=%d wblocked=%s%s", q.tag, cliErrName(err), b01(http2.VerifRetryable(err)),
				http2.VerifCtxStreamID(q.ctx), b01(!back), ms, ff, wb, cliErrDetail(err))
		default:
			return mon("read %s none", q.tag)
		}
	case "close":
		done := make(chan struct{})
		st.closes = append(st.closes, done)
		st.ended = true
		resC := make(chan string, 1)
		go func() {
			if err := cc.c.Close(); err == io.EOF {
				resC <- "again"
			} else {
				resC <- "first"
			}
			close(done)
		}()
		wb := cc.writerBlockedOn()
		ret, ms, ff := cc.waitFor(func() bool { return chClosed(done) }, 0)
		loops, _, ff2 := cc.waitFor(func() bool { return http2.VerifClientLoopExits.Load() >= 2 }, 0)
		res := "-"
		if ret {
			res = <-resC
		}
		cc.settleStalled()
		return mon("close returned=%d %s ms=%d ff=%d exited=%d wblocked=%s %s", b01(ret), res, ms, ff+ff2, b01(loops), wb, cc.stallState())
	case "cut", "halfcut":
		st.ended = true
		if op == "cut" {
			cc.mc.Close()
		} else {
			cc.mc.in.close()
		}
		loops, ms, ff := cc.waitFor(func() bool { return http2.VerifClientLoopExits.Load() >= 2 }, 0)
		cc.settleStalled()
		return mon("%s exited=%d ms=%d ff=%d %s", op, b01(loops), ms, ff, cc.stallState())
	case "end":
		return mon("end %s", cc.stallEnd())
	case "gauges":
		return mon("gauges")
	}
	return "bad-op"
}

// waitFor2 runs fn on a goroutine and waits for it to come back.
func (cc *cliConn) waitFor2(fn func()) (bool, int64, int) {
	done := make(chan struct{})
	go func() { fn(); close(done) }()
	return cc.waitFor(func() bool { return chClosed(done) }, 0)
}

// writerBlockedOn: the frame (type:stream) a blocked write of the client starts with, "-" if no write is blocked.
func (cc *cliConn) writerBlockedOn() string {
	n, head := cc.mc.out.blockedOn()
	if n == 0 {
		return "-"
	}
	if len(head) < 9 {
		return "?"
	}
	return fmt.Sprintf("%d:%d", head[3], (uint32(head[5])<<24|uint32(head[6])<<16|uint32(head[7])<<8|uint32(head[8]))&0x7fffffff)
}

// stallOut: the frames the client has got out since the last look, in wire order.
func (cc *cliConn) stallOut() string {
	var d []string
	for _, t := range cc.collect() {
		d = append(d, t.diag)
	}
	if len(d) == 0 {
		return "-"
	}
	return strings.Join(d, ",")
}

// stallEnd reports who is still running and which requests have no result, or more than one.
func (cc *cliConn) stallEnd() string {
	st := cc.st
	pending := func(m map[string]chan struct{}) string {
		var p []string
		for t, c := range m {
			if !chClosed(c) {
				p = append(p, t)
			}
		}
		sort.Strings(p)
		if len(p) == 0 {
			return "-"
		}
		return strings.Join(p, ",")
	}
	if st.ended {
		// what the end of the connection has set free needs a moment to get off the processor on a loaded machine; a
		// goroutine that is really left behind is still there after two seconds
		for i := 0; i < 2000 && (pending(st.fired) != "-" || pending(st.writes) != "-"); i++ {
			time.Sleep(time.Millisecond)
		}
	}
	closes := 0
	for _, c := range st.closes {
		if !chClosed(c) {
			closes++
		}
	}
	var none, dup, unread []string
	for _, t := range cc.order {
		q := cc.reqs[t]
		n := q.nres + len(q.ctx.Err)
		switch {
		case n == 0:
			none = append(none, t)
		case n > 1:
			dup = append(dup, t)
		case !q.read:
			unread = append(unread, t)
		}
	}
	j := func(l []string) string {
		if len(l) == 0 {
			return "-"
		}
		return strings.Join(l, ",")
	}
	pool := ""
	if an, _, _, _ := http2.VerifPoolReport(); len(an) > cc.poolSeen {
		pool = " pool=" + strings.Join(an[cc.poolSeen:], ",")
		cc.poolSeen = len(an)
	}
	return fmt.Sprintf("ended=%d loops=%d timers=%s writes=%s closes=%d noresult=%s dup=%s unread=%s%s", b01(st.ended),
		http2.VerifClientLoopExits.Load(), pending(st.fired), pending(st.writes), closes, j(none), j(dup), j(unread), pool)
}

// stallCleanup takes a stalled connection apart before the next one starts: the counters are global, so
// nothing of the old one may still be running when they are reset.
func (cc *cliConn) stallCleanup() {
	cc.mc.out.setManualTime(false)
	cc.mc.out.setStallAt(-1)
	cc.mc.Close()
	go func() { _ = cc.c.Close() }()
	deadline := time.Now().Add(2 * time.Second)
	for time.Now().Before(deadline) {
		busy := http2.VerifClientLoopExits.Load() < 2
		for _, m := range []map[string]chan struct{}{cc.st.fired, cc.st.writes} {
			for _, c := range m {
				if !chClosed(c) {
					busy = true
				}
			}
		}
		if !busy {
			return
		}
		time.Sleep(200 * time.Microsecond)
	}
}

// cliErrDetail: what an error that carries a frame's contents says (see cli.go doRead).
func cliErrDetail(err error) string {
	if d := cliGoAwayDetail(err); d != "" {
		return " " + d
	}
	return ""
}
