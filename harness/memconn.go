package main

import (
	"errors"
	"io"
	"net"
	"os"
	"sync"
	"time"
)

// halfPipe is one direction of an in-memory connection with an unbounded
// buffer. It can tell whether a reader is parked on an empty buffer, be cut
// after a number of octets, and be made to fail or block writes.
type halfPipe struct {
	mu        sync.Mutex
	cond      *sync.Cond
	buf       []byte
	closed    bool      // no more data will arrive; reads drain then return EOF
	waiting   bool      // a reader is blocked on an empty buffer
	total     int64     // octets ever written
	failAfter int64     // writes fail once total reaches this (-1 = never)
	stall     bool      // writes block (peer stopped reading)
	stallAt   int64     // writes block once total reaches this (-1 = never): the peer reads that much and then stops
	wdl       time.Time // write deadline; it only matters to a write that is blocked
	manual    bool      // deadlines pass when expire is called, not with the clock
	expireGen int       // number of expire calls that found a deadline set
	wdlGen    int       // expireGen when the current deadline was set
	blocked   int       // writers blocked right now
	// the first octets of the write that blocked first
	blockedHead []byte
}

func newHalf() *halfPipe {
	h := &halfPipe{failAfter: -1, stallAt: -1}
	h.cond = sync.NewCond(&h.mu)
	return h
}

var errPipeClosed = errors.New("memconn: closed")

func (h *halfPipe) write(p []byte) (int, error) {
	h.mu.Lock()
	defer h.mu.Unlock()
	taken := 0
	head := p[:minInt(len(p), 9)]
	for !h.closed && (h.stall || (h.stallAt >= 0 && h.total+int64(len(p)) > h.stallAt)) {
		if !h.stall && h.total < h.stallAt {
			// the peer still reads this much
			n := int(h.stallAt - h.total)
			h.buf = append(h.buf, p[:n]...)
			h.total += int64(n)
			taken += n
			p = p[n:]
			h.cond.Broadcast()
		}
		if h.deadlinePassed() {
			return taken, os.ErrDeadlineExceeded
		}
		h.blockedHead = append(h.blockedHead[:0], head...)
		h.blocked++
		h.cond.Wait()
		h.blocked--
	}
	if h.closed {
		return taken, errPipeClosed
	}
	if taken > 0 {
		h.buf = append(h.buf, p...)
		h.total += int64(len(p))
		h.cond.Broadcast()
		return taken + len(p), nil
	}
	if h.failAfter >= 0 && h.total+int64(len(p)) > h.failAfter {
		n := h.failAfter - h.total
		if n < 0 {
			n = 0
		}
		h.buf = append(h.buf, p[:n]...)
		h.total += n
		h.cond.Broadcast()
		return int(n), errors.New("memconn: write failed")
	}
	h.buf = append(h.buf, p...)
	h.total += int64(len(p))
	h.cond.Broadcast()
	return len(p), nil
}

// deadlinePassed: a write deadline only matters to a write that is blocked. With manual time (the scripted
// client runs: timeouts are events of the script, not of the clock) it passes when the script says so (expire);
// otherwise when the clock says so.
func (h *halfPipe) deadlinePassed() bool {
	if h.wdl.IsZero() {
		return false
	}
	if h.manual {
		return h.expireGen > h.wdlGen
	}
	return !time.Now().Before(h.wdl)
}

// pendingDeadline: somebody is blocked in a write that has a deadline which has not passed yet.
func (h *halfPipe) pendingDeadline() bool {
	h.mu.Lock()
	defer h.mu.Unlock()
	return h.blocked > 0 && !h.wdl.IsZero() && !h.deadlinePassed()
}

// expire lets the current write deadline pass (manual time).
func (h *halfPipe) expire() {
	h.mu.Lock()
	if !h.wdl.IsZero() {
		h.expireGen++
	}
	h.cond.Broadcast()
	h.mu.Unlock()
}

func (h *halfPipe) setManualTime(v bool) {
	h.mu.Lock()
	h.manual = v
	h.mu.Unlock()
}

// blockedOn: how many writers are blocked, and the first octets (a frame header) of what the first of them
// was trying to write.
func (h *halfPipe) blockedOn() (int, []byte) {
	h.mu.Lock()
	defer h.mu.Unlock()
	return h.blocked, append([]byte(nil), h.blockedHead...)
}

func (h *halfPipe) read(p []byte) (int, error) {
	h.mu.Lock()
	defer h.mu.Unlock()
	for len(h.buf) == 0 && !h.closed {
		h.waiting = true
		h.cond.Wait()
	}
	h.waiting = false
	if len(h.buf) == 0 {
		return 0, io.EOF
	}
	n := copy(p, h.buf)
	h.buf = h.buf[n:]
	return n, nil
}

// idle: a reader is parked and there is nothing for it to read.
func (h *halfPipe) idle() bool {
	h.mu.Lock()
	defer h.mu.Unlock()
	return h.waiting && len(h.buf) == 0 && !h.closed
}

func (h *halfPipe) close() {
	h.mu.Lock()
	h.closed = true
	h.cond.Broadcast()
	h.mu.Unlock()
}

func (h *halfPipe) isClosed() bool {
	h.mu.Lock()
	defer h.mu.Unlock()
	return h.closed
}

func (h *halfPipe) setStall(v bool) {
	h.mu.Lock()
	h.stall = v
	h.cond.Broadcast()
	h.mu.Unlock()
}

// setStallAt: the peer reads n more octets and then stops reading (n < 0: it reads again).
func (h *halfPipe) setStallAt(n int64) {
	h.mu.Lock()
	if n < 0 {
		h.stallAt, h.stall = -1, false
	} else {
		h.stallAt = h.total + n
	}
	h.cond.Broadcast()
	h.mu.Unlock()
}

// blockedWriters is not known to the pipe; stalled reports whether a write would block now.
func (h *halfPipe) stalled() bool {
	h.mu.Lock()
	defer h.mu.Unlock()
	return !h.closed && (h.stall || (h.stallAt >= 0 && h.total >= h.stallAt))
}

// setWriteDeadline wakes the blocked writers up when the deadline passes.
func (h *halfPipe) setWriteDeadline(t time.Time) {
	h.mu.Lock()
	h.wdl = t
	h.wdlGen = h.expireGen
	h.cond.Broadcast()
	h.mu.Unlock()
	if !t.IsZero() {
		if d := time.Until(t); d > 0 {
			time.AfterFunc(d+time.Millisecond, func() {
				h.mu.Lock()
				h.cond.Broadcast()
				h.mu.Unlock()
			})
		}
	}
}

func (h *halfPipe) unread() int {
	h.mu.Lock()
	defer h.mu.Unlock()
	return len(h.buf)
}

// written is the number of octets this half has taken so far
func (h *halfPipe) written() int64 {
	h.mu.Lock()
	defer h.mu.Unlock()
	return h.total
}

func (h *halfPipe) setFailAfter(n int64) {
	h.mu.Lock()
	h.failAfter = n
	h.mu.Unlock()
}

// take removes and returns everything buffered.
func (h *halfPipe) take() []byte {
	h.mu.Lock()
	defer h.mu.Unlock()
	b := h.buf
	h.buf = nil
	return b
}

// memConn is the code under test's end of the connection: it reads from in
// and writes to out.
type memConn struct {
	in, out *halfPipe
	once    sync.Once
	closedC chan struct{}
}

func newMemConn() *memConn {
	return &memConn{in: newHalf(), out: newHalf(), closedC: make(chan struct{})}
}

func (c *memConn) Read(p []byte) (int, error)  { return c.in.read(p) }
func (c *memConn) Write(p []byte) (int, error) { return c.out.write(p) }
func (c *memConn) Close() error {
	c.once.Do(func() { close(c.closedC) })
	c.in.close()
	c.out.close()
	return nil
}
func (c *memConn) LocalAddr() net.Addr  { return &net.TCPAddr{IP: net.IPv4(127, 0, 0, 1), Port: 1} }
func (c *memConn) RemoteAddr() net.Addr { return &net.TCPAddr{IP: net.IPv4(127, 0, 0, 1), Port: 2} }
func (c *memConn) SetDeadline(t time.Time) error {
	c.out.setWriteDeadline(t)
	return nil
}
func (c *memConn) SetReadDeadline(time.Time) error { return nil }
func (c *memConn) SetWriteDeadline(t time.Time) error {
	c.out.setWriteDeadline(t)
	return nil
}

// parseFrames splits complete frames off the front of b.
type rawFrame struct {
	typ, flags byte
	stream     uint32
	payload    []byte
}

func parseFrames(b []byte) (frames []rawFrame, rest []byte) {
	for len(b) >= 9 {
		l := int(b[0])<<16 | int(b[1])<<8 | int(b[2])
		if len(b) < 9+l {
			break
		}
		frames = append(frames, rawFrame{
			typ: b[3], flags: b[4],
			stream:  (uint32(b[5])<<24 | uint32(b[6])<<16 | uint32(b[7])<<8 | uint32(b[8])) & 0x7fffffff,
			payload: append([]byte(nil), b[9:9+l]...),
		})
		b = b[9+l:]
	}
	return frames, b
}
