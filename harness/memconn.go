package main

import (
	"errors"
	"io"
	"net"
	"sync"
	"time"
)

// halfPipe is one direction of an in-memory connection with an unbounded
// buffer. It can tell whether a reader is parked on an empty buffer, be cut
// after a number of octets, and be made to fail or block writes.
type halfPipe struct {
	mu        sync.Mutex
	cond      *sync.Cond
	buf       []byte
	closed    bool  // no more data will arrive; reads drain then return EOF
	waiting   bool  // a reader is blocked on an empty buffer
	total     int64 // octets ever written
	failAfter int64 // writes fail once total reaches this (-1 = never)
	stall     bool  // writes block (peer stopped reading)
}

func newHalf() *halfPipe {
	h := &halfPipe{failAfter: -1}
	h.cond = sync.NewCond(&h.mu)
	return h
}

var errPipeClosed = errors.New("memconn: closed")

func (h *halfPipe) write(p []byte) (int, error) {
	h.mu.Lock()
	defer h.mu.Unlock()
	for h.stall && !h.closed {
		h.cond.Wait()
	}
	if h.closed {
		return 0, errPipeClosed
	}
	if h.failAfter >= 0 && h.total+int64(len(p)) > h.failAfter {
		n := h.failAfter - h.total
		if n < 0 {
			n = 0
		}
		h.buf = append(h.buf, p[:n]...)
		h.total += n
		h.cond.Broadcast()
		return int(n), errors.New("memconn: write failed")
	}
	h.buf = append(h.buf, p...)
	h.total += int64(len(p))
	h.cond.Broadcast()
	return len(p), nil
}

func (h *halfPipe) read(p []byte) (int, error) {
	h.mu.Lock()
	defer h.mu.Unlock()
	for len(h.buf) == 0 && !h.closed {
		h.waiting = true
		h.cond.Wait()
	}
	h.waiting = false
	if len(h.buf) == 0 {
		return 0, io.EOF
	}
	n := copy(p, h.buf)
	h.buf = h.buf[n:]
	return n, nil
}

// idle: a reader is parked and there is nothing for it to read.
func (h *halfPipe) idle() bool {
	h.mu.Lock()
	defer h.mu.Unlock()
	return h.waiting && len(h.buf) == 0 && !h.closed
}

func (h *halfPipe) close() {
	h.mu.Lock()
	h.closed = true
	h.cond.Broadcast()
	h.mu.Unlock()
}

func (h *halfPipe) isClosed() bool {
	h.mu.Lock()
	defer h.mu.Unlock()
	return h.closed
}

func (h *halfPipe) setStall(v bool) {
	h.mu.Lock()
	h.stall = v
	h.cond.Broadcast()
	h.mu.Unlock()
}

func (h *halfPipe) setFailAfter(n int64) {
	h.mu.Lock()
	h.failAfter = n
	h.mu.Unlock()
}

// take removes and returns everything buffered.
func (h *halfPipe) take() []byte {
	h.mu.Lock()
	defer h.mu.Unlock()
	b := h.buf
	h.buf = nil
	return b
}

// memConn is the code under test's end of the connection: it reads from in
// and writes to out.
type memConn struct {
	in, out *halfPipe
	once    sync.Once
	closedC chan struct{}
}

func newMemConn() *memConn {
	return &memConn{in: newHalf(), out: newHalf(), closedC: make(chan struct{})}
}

func (c *memConn) Read(p []byte) (int, error)  { return c.in.read(p) }
func (c *memConn) Write(p []byte) (int, error) { return c.out.write(p) }
func (c *memConn) Close() error {
	c.once.Do(func() { close(c.closedC) })
	c.in.close()
	c.out.close()
	return nil
}
func (c *memConn) LocalAddr() net.Addr              { return &net.TCPAddr{IP: net.IPv4(127, 0, 0, 1), Port: 1} }
func (c *memConn) RemoteAddr() net.Addr             { return &net.TCPAddr{IP: net.IPv4(127, 0, 0, 1), Port: 2} }
func (c *memConn) SetDeadline(time.Time) error      { return nil }
func (c *memConn) SetReadDeadline(time.Time) error  { return nil }
func (c *memConn) SetWriteDeadline(time.Time) error { return nil }

// parseFrames splits complete frames off the front of b.
type rawFrame struct {
	typ, flags byte
	stream     uint32
	payload    []byte
}

func parseFrames(b []byte) (frames []rawFrame, rest []byte) {
	for len(b) >= 9 {
		l := int(b[0])<<16 | int(b[1])<<8 | int(b[2])
		if len(b) < 9+l {
			break
		}
		frames = append(frames, rawFrame{
			typ: b[3], flags: b[4],
			stream:  (uint32(b[5])<<24 | uint32(b[6])<<16 | uint32(b[7])<<8 | uint32(b[8])) & 0x7fffffff,
			payload: append([]byte(nil), b[9:9+l]...),
		})
		b = b[9+l:]
	}
	return frames, b
}
