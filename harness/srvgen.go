package main

// Script generators for the server area. Scripts are line-protocol ops; every
// random choice comes from the prng handed in.

import (
	"bufio"
	"fmt"
	"sort"
	"strings"
)

type sgen struct {
	w     *bufio.Writer
	p     *prng
	id    string
	enc   *peerEnc
	next  uint32
	conns int
	// sample the gauges after every frame and handler completion (closing scenarios: the monitor wants to see,
	// step by step, whether anything promised is still open)
	gaugeEach bool
}

func newSgen(p *prng, w *bufio.Writer) *sgen { return &sgen{w: w, p: p, id: "s0"} }

func (g *sgen) line(format string, a ...interface{}) { fmt.Fprintf(g.w, format+"\n", a...) }

func (g *sgen) newConn(mcs, mhl, mrb int) {
	if g.conns > 0 {
		g.line("srv %s end", g.id)
	}
	g.conns++
	g.enc = newPeerEnc()
	g.next = 1
	g.gaugeEach = false
	g.line("# connection %d", g.conns)
	g.line("srv %s new mcs=%d mhl=%d mrb=%d", g.id, mcs, mhl, mrb)
}

func (g *sgen) frame(b []byte) {
	g.line("srv %s frame %s", g.id, hexOrDash(b))
	if g.gaugeEach {
		g.gauges()
	}
}
func (g *sgen) bytes(b []byte)  { g.line("srv %s bytes %s", g.id, hexOrDash(b)) }
func (g *sgen) gauges()         { g.line("srv %s gauges", g.id) }
func (g *sgen) mon()            { g.line("srv %s mon", g.id) }
func (g *sgen) settings(pairs ...uint32) {
	g.frame(frameBytes(4, 0, 0, settingsPayload(pairs...)))
}
func (g *sgen) settingsAck()             { g.frame(frameBytes(4, 1, 0, nil)) }
func (g *sgen) windowUpdate(sid uint32, inc uint32) { g.frame(frameBytes(8, 0, sid, u32(inc))) }
func (g *sgen) rst(sid uint32, code uint32)         { g.frame(frameBytes(3, 0, sid, u32(code))) }
func (g *sgen) ping(b byte)                         { g.frame(frameBytes(6, 0, 0, []byte{b, 1, 2, 3, 4, 5, 6, 7})) }
func (g *sgen) priority(sid, dep uint32, w byte)    { g.frame(frameBytes(2, 0, sid, append(u32(dep), w))) }

func (g *sgen) sid() uint32 {
	s := g.next
	g.next += 2
	return s
}

// response description → "done" line
type respGen struct {
	status int
	hdr    []kv
	body   string // none | pat:N | hex:.. | stream:size:chunks:tail | panic
}

func (g *sgen) done(sid uint32, r respGen) {
	sp, _ := parseResp(sid, []string{fmt.Sprintf("st=%d", r.status), "hdr=" + kvHex(r.hdr), "body=" + r.body})
	view := responseView(sp)
	g.line("srv %s done %d st=%d hdr=%s view=%s body=%s", g.id, sid, r.status, kvHex(r.hdr), fmtKV(view), r.body)
	if g.gaugeEach {
		g.gauges()
	}
}

func kvHex(fs []kv) string {
	if len(fs) == 0 {
		return "-"
	}
	parts := make([]string, len(fs))
	for i, f := range fs {
		parts[i] = hexOrDash([]byte(f.k)) + ":" + hexOrDash([]byte(f.v))
	}
	return strings.Join(parts, ",")
}

// request description
type reqGen struct {
	sid      uint32
	method   string
	scheme   string
	path     string
	auth     string
	fields   []kv
	body     []byte
	trailers []kv
	noAuth   bool
}

func (r reqGen) headerList() []kv {
	hs := []kv{{k: ":method", v: r.method}, {k: ":scheme", v: r.scheme}, {k: ":path", v: r.path}}
	if !r.noAuth {
		hs = append(hs, kv{k: ":authority", v: r.auth})
	}
	return append(hs, r.fields...)
}

// expectLine: what the handler must see for this request (ground truth for the monitors).
func (g *sgen) expectLine(r reqGen) {
	var slots, rest []kv
	var ct, ua *kv
	for i := range r.fields {
		f := r.fields[i]
		switch f.k {
		case "content-length":
		case "content-type":
			ct = &r.fields[i]
		case "user-agent":
			ua = &r.fields[i]
		default:
			rest = append(rest, f)
		}
	}
	if ct != nil {
		slots = append(slots, *ct)
	}
	if ua != nil {
		slots = append(slots, *ua)
	}
	all := append(slots, rest...)
	all = append(all, r.trailers...)
	auth := r.auth
	if r.noAuth {
		auth = ""
	}
	g.line("#expect dispatch(%d,m=%s,p=%s,a=%s,f=%s,b=%s)", r.sid, hexOrDash([]byte(r.method)), hexOrDash([]byte(r.path)),
		hexOrDash([]byte(auth)), kvHex(all), digest(r.body))
}

// rendering choices
type render struct {
	splits    int  // number of CONTINUATION frames the header block is cut into
	padHdr    int  // -1 none, else pad length
	prio      bool // priority section on HEADERS
	chunk     int  // DATA chunk size (0 = one frame)
	padData   int  // -1 none
	emptyData bool // sprinkle empty DATA frames
	plain     bool // representation: literal without indexing only
}

func (g *sgen) randRender() render {
	p := g.p
	r := render{padHdr: -1, padData: -1}
	if p.chance(1, 3) {
		r.splits = 1 + p.intn(3)
	}
	if p.chance(1, 4) {
		r.padHdr = p.intn(20)
	}
	r.prio = p.chance(1, 4)
	if p.chance(1, 2) {
		r.chunk = 1 + p.intn(40)
	}
	if p.chance(1, 4) {
		r.padData = p.intn(10)
	}
	r.emptyData = p.chance(1, 5)
	return r
}

// headerFrames cuts an encoded block into HEADERS + CONTINUATION frames.
func headerFrames(p *prng, e *peerEnc, sid uint32, block []byte, endStream bool, rd render) [][]byte {
	cuts := []int{}
	for i := 0; i < rd.splits && len(block) > 0; i++ {
		c := p.intn(len(block) + 1)
		if e != nil && e.badCut(block, c) {
			c--
		}
		cuts = append(cuts, c)
	}
	// sort cuts
	for i := range cuts {
		for j := i + 1; j < len(cuts); j++ {
			if cuts[j] < cuts[i] {
				cuts[i], cuts[j] = cuts[j], cuts[i]
			}
		}
	}
	parts := [][]byte{}
	prev := 0
	for _, c := range cuts {
		parts = append(parts, block[prev:c])
		prev = c
	}
	parts = append(parts, block[prev:])
	var out [][]byte
	for i, part := range parts {
		last := i == len(parts)-1
		if i == 0 {
			flags := byte(0)
			if endStream {
				flags |= 1
			}
			if last {
				flags |= 4
			}
			payload := append([]byte(nil), part...)
			if rd.prio {
				flags |= 0x20
				dep := uint32(p.intn(5)) * 2
				if dep == sid {
					dep = 0
				}
				payload = append(append(u32(dep|uint32(p.intn(2))<<31), byte(p.intn(256))), payload...)
			}
			if rd.padHdr >= 0 {
				flags |= 8
				payload = padded(payload, rd.padHdr)
			}
			out = append(out, frameBytes(1, flags, sid, payload))
		} else {
			flags := byte(0)
			if last {
				flags |= 4
			}
			out = append(out, frameBytes(9, flags, sid, part))
		}
	}
	return out
}

// unit: a group of frames that must stay contiguous on the wire; built when it
// is placed, because HPACK state follows wire order.
type unit func() [][]byte

// requestUnits renders a request as an ordered list of units.
func (g *sgen) requestUnits(r reqGen, rd render) []unit {
	p := g.p
	hasBody := len(r.body) > 0
	hasTrailers := len(r.trailers) > 0
	var us []unit
	us = append(us, func() [][]byte {
		g.expectLine(r)
		var ep *prng
		if !rd.plain {
			ep = p
		}
		block := g.enc.block(ep, r.headerList())
		return headerFrames(p, g.enc, r.sid, block, !hasBody && !hasTrailers, rd)
	})
	if hasBody {
		chunk := rd.chunk
		if chunk <= 0 {
			chunk = len(r.body)
		}
		for off := 0; off < len(r.body); off += chunk {
			end := off + chunk
			if end > len(r.body) {
				end = len(r.body)
			}
			last := end == len(r.body)
			piece := r.body[off:end]
			if rd.emptyData && p.chance(1, 3) {
				sid := r.sid
				us = append(us, func() [][]byte { return [][]byte{frameBytes(0, 0, sid, nil)} })
			}
			flags := byte(0)
			if last && !hasTrailers {
				flags |= 1
			}
			payload := piece
			if rd.padData >= 0 {
				flags |= 8
				payload = padded(piece, rd.padData)
			}
			fb := frameBytes(0, flags, r.sid, payload)
			us = append(us, func() [][]byte { return [][]byte{fb} })
		}
	}
	if hasTrailers {
		us = append(us, func() [][]byte {
			var ep *prng
			if !rd.plain {
				ep = p
			}
			block := g.enc.block(ep, r.trailers)
			rd2 := rd
			rd2.prio = false
			return headerFrames(p, g.enc, r.sid, block, true, rd2)
		})
	}
	return us
}

// interleave merges the unit lists of several requests, keeping each list's
// order, and emits the frames one op per frame.
func (g *sgen) interleave(lists [][]unit, inOrder bool) {
	idx := make([]int, len(lists))
	for {
		var live []int
		for i := range lists {
			if idx[i] < len(lists[i]) {
				live = append(live, i)
			}
		}
		if len(live) == 0 {
			return
		}
		pick := live[0]
		if !inOrder {
			pick = live[g.p.intn(len(live))]
		}
		for _, fr := range lists[pick][idx[pick]]() {
			g.frame(fr)
		}
		idx[pick]++
	}
}

// multiplex opens n requests and interleaves their units; request i's units are
// built by mk once its stream id is known (ids increase in opening order).
func (g *sgen) multiplex(n int, mk func(sid uint32) []unit, inOrder bool) []uint32 {
	var sids []uint32
	lists := make([][]unit, 0, n)
	idx := []int{}
	unopened := n
	for {
		var live []int
		for i := range lists {
			if idx[i] < len(lists[i]) {
				live = append(live, i)
			}
		}
		if len(live) == 0 && unopened == 0 {
			return sids
		}
		openNew := unopened > 0 && (len(live) == 0 || (!inOrder && g.p.chance(1, 3)))
		if inOrder && len(live) > 0 {
			openNew = false
		}
		if openNew {
			sid := g.sid()
			sids = append(sids, sid)
			lists = append(lists, mk(sid))
			idx = append(idx, 0)
			unopened--
			live = []int{len(lists) - 1}
		}
		pick := live[0]
		if !inOrder && !openNew {
			pick = live[g.p.intn(len(live))]
		}
		for _, fr := range lists[pick][idx[pick]]() {
			g.frame(fr)
		}
		idx[pick]++
	}
}

var safeNames = []string{"x-a", "x-b", "x-long-header-name", "accept", "accept-encoding", "cache-control", "x-id", "referer", "if-none-match", "via", "x-empty"}
var safeValues = []string{"", "1", "gzip, deflate", "a value with spaces", "v", "0123456789abcdef0123456789abcdef", "no-cache", "*/*"}

func (g *sgen) randFields(n int) []kv {
	var fs []kv
	for i := 0; i < n; i++ {
		f := kv{k: g.p.pick(safeNames), v: g.p.pick(safeValues)}
		if g.p.chance(1, 8) {
			f.v = string(g.p.bytes(1 + g.p.intn(6)))
			b := []byte(f.v)
			for j := range b {
				b[j] = 33 + b[j]%90
			}
			f.v = string(b)
		}
		if g.p.chance(1, 10) {
			f.sens = true
		}
		fs = append(fs, f)
	}
	if g.p.chance(1, 4) {
		fs = append(fs, kv{k: "user-agent", v: "ua/" + fmt.Sprint(g.p.intn(3))})
	}
	if g.p.chance(1, 4) {
		fs = append(fs, kv{k: "content-type", v: "text/x" + fmt.Sprint(g.p.intn(3))})
	}
	return fs
}

func (g *sgen) randRequest(sid uint32) reqGen {
	p := g.p
	r := reqGen{sid: sid, method: p.pick([]string{"GET", "POST", "PUT", "DELETE", "HEAD"}), scheme: p.pick([]string{"https", "http"}),
		path: p.pick([]string{"/", "/index.html", "/a/b?c=d", "/x"}), auth: p.pick([]string{"example.com", "h:8443", "a"})}
	r.fields = g.randFields(p.intn(5))
	if p.chance(1, 2) {
		n := p.intn(60)
		if p.chance(1, 6) {
			n = 200 + p.intn(3000)
		}
		r.body = p.bytes(n)
		if p.chance(1, 3) && n > 0 {
			r.fields = append(r.fields, kv{k: "content-length", v: fmt.Sprint(n)})
		}
		if p.chance(1, 4) {
			r.trailers = []kv{{k: "x-trailer", v: "t"}}
		}
	}
	return r
}

func (g *sgen) randResp() respGen {
	p := g.p
	r := respGen{status: []int{200, 200, 204, 404, 500, 201, 302}[p.intn(7)], body: "none"}
	if r.status == 204 { // a 204 has no body: fasthttp ignores its length, the handler contract excludes it
		return r
	}
	for i := p.intn(3); i > 0; i-- {
		r.hdr = append(r.hdr, kv{k: p.pick([]string{"x-r", "cache-control", "x-resp-long-name", "etag", "vary", "x_under_score", "X-Caret^Name", "x-tilde~1"}), v: p.pick(safeValues)})
	}
	switch p.intn(6) {
	case 0:
	case 1, 2:
		r.body = fmt.Sprintf("pat:%d", 1+p.intn(200))
	case 3:
		r.body = fmt.Sprintf("pat:%d", 1+p.intn(40000))
	case 4: // streamed, declared length
		n1, n2 := 1+p.intn(300), 1+p.intn(300)
		r.body = fmt.Sprintf("stream:%d:%d.%d:%s", n1+n2, n1, n2, p.pick([]string{"e", "E"}))
	case 5: // streamed, unknown length
		n1 := 1 + p.intn(300)
		r.body = fmt.Sprintf("stream:-1:%d:%s", n1, p.pick([]string{"e", "E"}))
	}
	return r
}

// ---- families ----------------------------------------------------------

// srv-basic (C01): sets of well-formed requests under every rendering choice,
// any interleaving, any completion order, every response shape.
func genSrvBasic(p *prng, thorough bool, w *bufio.Writer) {
	g := newSgen(p, w)
	rounds := 60
	if thorough {
		rounds = 600
	}
	for c := 0; c < rounds; c++ {
		mcs := 2 + p.intn(6)
		g.newConn(mcs, 0, 0)
		g.settings()
		g.settingsAck()
		if p.chance(1, 2) {
			g.windowUpdate(0, 1<<20)
		}
		for batch := 0; batch < 1+p.intn(3); batch++ {
			n := 1 + p.intn(mcs)
			// stream ids must increase in the order the streams are opened, so the
			// requests are numbered in the order their first frame goes out
			sids := g.multiplex(n, func(sid uint32) []unit { return g.requestUnits(g.randRequest(sid), g.randRender()) }, p.chance(1, 4))
			// completion in any order
			for len(sids) > 0 {
				i := p.intn(len(sids))
				g.done(sids[i], g.randResp())
				if p.chance(1, 3) {
					g.windowUpdate(sids[i], 70000)
				}
				sids = append(sids[:i], sids[i+1:]...)
			}
			g.windowUpdate(0, 200000)
			g.gauges()
		}
	}
	// header blocks longer than a frame (F33): the peer reassembles HEADERS + CONTINUATION and must read the handler's fields
	g.newConn(4, 0, 0)
	g.settings()
	g.bigBlocks(thorough)
	g.newConn(8, 0, 0)
	g.settings()
	g.bigBlockBurst(3)
	g.line("srv %s end", g.id)
}

func init() {
	srvGens["srv-basic"] = genSrvBasic
}

// ---- more families -----------------------------------------------------

func (g *sgen) simpleReq(sid uint32, method string, body []byte, extra ...kv) {
	if g.p.chance(1, 3) {
		// the handler starts on its response (installs a body stream) before it is told how to finish: until it
		// returns the response is the handler's alone
		extra = append(append([]kv(nil), extra...), kv{k: "x-early", v: "1"})
	}
	r := reqGen{sid: sid, method: method, scheme: "https", path: "/", auth: "a", fields: extra, body: body}
	for _, u := range g.requestUnits(r, render{padHdr: -1, padData: -1}) {
		for _, fr := range u() {
			g.frame(fr)
		}
	}
}

// srv-flow (C06): response size vectors x buffered/streamed x window schedules.
func genSrvFlow(p *prng, thorough bool, w *bufio.Writer) {
	g := newSgen(p, w)
	rounds := 80
	if thorough {
		rounds = 800
	}
	for c := 0; c < rounds; c++ {
		g.newConn(32, 0, 0) // at most 4+19 streams per connection: none is refused
		iw := uint32([]int{0, 1, 10, 100, 1000, 16384, 65535, 70000, 200000}[p.intn(9)])
		if p.chance(1, 5) {
			g.settings()
			iw = 65535
		} else {
			g.settings(4, iw)
		}
		n := 1 + p.intn(4)
		var open []uint32
		for i := 0; i < n; i++ {
			sid := g.sid()
			g.simpleReq(sid, "GET", nil)
			open = append(open, sid)
		}
		pendingDone := append([]uint32(nil), open...)
		steps := 6 + p.intn(14)
		for s := 0; s < steps; s++ {
			switch k := p.intn(10); {
			case k < 3 && len(pendingDone) > 0:
				i := p.intn(len(pendingDone))
				sid := pendingDone[i]
				pendingDone = append(pendingDone[:i], pendingDone[i+1:]...)
				sz := []int{0, 1, 9, 10, 11, 100, 16383, 16384, 16385, 40000, 65535, 65536, 100000}[p.intn(13)]
				if iw > 0 && iw <= 200000 && p.chance(1, 3) {
					// exactly what the stream window allows, one less, one more: the last octet takes the window to 0
					sz = int(iw) + p.intn(3) - 1
				}
				body := fmt.Sprintf("pat:%d", sz)
				if sz == 0 {
					body = "none"
				} else if p.chance(1, 3) {
					a := 1 + p.intn(sz)
					decl := sz
					if p.chance(1, 3) {
						decl = -1 // length not known in advance
					}
					tail := p.pick([]string{"e", "E", "e", "E", "e", "E", "e", "x"}) // x: the reader fails after its chunks (the response is cut short with RST_STREAM)
					if a == sz {
						body = fmt.Sprintf("stream:%d:%d:%s", decl, sz, tail)
					} else {
						body = fmt.Sprintf("stream:%d:%d.%d:%s", decl, a, sz-a, tail)
					}
				}
				g.done(sid, respGen{status: 200, body: body})
			case k < 5:
				g.windowUpdate(open[p.intn(len(open))], uint32([]int{1, 5, 10, 100, 16384, 65535, 100000}[p.intn(7)]))
			case k < 7:
				g.windowUpdate(0, uint32([]int{1, 10, 100, 16384, 65535, 1 << 20}[p.intn(6)]))
			case k < 8:
				iw = uint32([]int{0, 1, 10, 100, 5000, 65535, 100000}[p.intn(7)])
				g.settings(4, iw)
			case k < 9:
				sid := g.sid()
				g.simpleReq(sid, "GET", nil)
				open = append(open, sid)
				pendingDone = append(pendingDone, sid)
			default:
				g.ping(byte(s))
			}
		}
		// grant plenty at the end: every response must complete
		g.windowUpdate(0, 1<<22)
		for _, sid := range pendingDone {
			g.done(sid, respGen{status: 200, body: fmt.Sprintf("pat:%d", 1+p.intn(3000))})
		}
		g.settings(4, 1<<22)
		for _, sid := range open {
			g.windowUpdate(sid, 1<<20)
		}
		g.gauges()
	}
	g.line("srv %s end", g.id)
}

// one symbol of the C08 alphabet
type sym struct {
	name string
	f    func(g *sgen, sid uint32)
}

func (g *sgen) hdrBlock(end bool) []byte {
	return g.enc.block(nil, []kv{{k: ":method", v: "POST"}, {k: ":scheme", v: "https"}, {k: ":path", v: "/"}, {k: ":authority", v: "a"}})
}

var stateAlphabet = []sym{
	{"H", func(g *sgen, sid uint32) { g.frame(frameBytes(1, 4, sid, g.hdrBlock(false))) }},
	{"HE", func(g *sgen, sid uint32) { g.frame(frameBytes(1, 5, sid, g.hdrBlock(true))) }},
	{"Hc", func(g *sgen, sid uint32) { b := g.hdrBlock(false); g.frame(frameBytes(1, 0, sid, b[:2])); g.frame(frameBytes(9, 4, sid, b[2:])) }},
	{"HEc", func(g *sgen, sid uint32) { b := g.hdrBlock(true); g.frame(frameBytes(1, 1, sid, b[:2])); g.frame(frameBytes(9, 4, sid, b[2:])) }},
	{"Hopen", func(g *sgen, sid uint32) { b := g.hdrBlock(false); g.frame(frameBytes(1, 0, sid, b[:2])) }},
	{"C", func(g *sgen, sid uint32) { g.frame(frameBytes(9, 4, sid, nil)) }},
	{"D", func(g *sgen, sid uint32) { g.frame(frameBytes(0, 0, sid, []byte("abc"))) }},
	{"DE", func(g *sgen, sid uint32) { g.frame(frameBytes(0, 1, sid, []byte("xy"))) }},
	{"T", func(g *sgen, sid uint32) { g.frame(frameBytes(1, 5, sid, g.enc.block(nil, []kv{{k: "x-t", v: "1"}}))) }},
	{"Tc", func(g *sgen, sid uint32) { b := g.enc.block(nil, []kv{{k: "x-t", v: "1"}}); g.frame(frameBytes(1, 1, sid, b[:3])); g.frame(frameBytes(9, 4, sid, b[3:])) }},
	// a trailer section that does not end the stream: complete in its frame (a stream error), going on in CONTINUATION
	{"Tn", func(g *sgen, sid uint32) { g.frame(frameBytes(1, 4, sid, g.enc.block(nil, []kv{{k: "x-t", v: "1"}}))) }},
	{"Tnc", func(g *sgen, sid uint32) { b := g.enc.block(nil, []kv{{k: "x-t", v: "1"}}); g.frame(frameBytes(1, 0, sid, b[:3])); g.frame(frameBytes(9, 4, sid, b[3:])) }},
	{"R", func(g *sgen, sid uint32) { g.rst(sid, 8) }},
	{"W", func(g *sgen, sid uint32) { g.windowUpdate(sid, 100) }},
	{"W0", func(g *sgen, sid uint32) { g.windowUpdate(sid, 0) }},
	{"Wmax", func(g *sgen, sid uint32) { g.windowUpdate(sid, 0x7fffffff-65535) }},
	{"Wover", func(g *sgen, sid uint32) { g.windowUpdate(sid, 0x7fffffff) }},
	{"P", func(g *sgen, sid uint32) { g.priority(sid, 0, 10) }},
	{"Pself", func(g *sgen, sid uint32) { g.priority(sid, sid, 10) }},
	{"Wfl", func(g *sgen, sid uint32) { g.frame(frameBytes(8, 1, sid, u32(10))) }},
	{"done", func(g *sgen, sid uint32) { g.done(sid, respGen{status: 200, body: "pat:5"}) }},
	{"ping", func(g *sgen, sid uint32) { g.ping(1) }},
	{"wu0", func(g *sgen, sid uint32) { g.windowUpdate(0, 10) }},
}

// stream selectors: which id a symbol applies to
var selectors = []string{"cur", "new", "low", "even", "prev"}

// selector "prev": the stream that was current before the latest "new" (an older stream next to a newer one)

func (g *sgen) runSeq(seq [][2]int) {
	g.newConn(3, 0, 0)
	g.settings()
	cur, prev := uint32(0), uint32(0)
	g.next = 5 // ids 1 and 3 stay unused: "lower than the latest, never opened"
	var names []string
	for _, s := range seq {
		sy, sel := stateAlphabet[s[0]], selectors[s[1]]
		var sid uint32
		switch sel {
		case "cur":
			if cur == 0 {
				cur = g.sid()
			}
			sid = cur
		case "prev":
			if cur == 0 {
				cur = g.sid()
			}
			sid = prev
			if sid == 0 {
				sid = cur
			}
		case "new":
			if cur != 0 {
				prev = cur
			}
			cur = g.sid()
			sid = cur
		case "low":
			sid = 3
		case "even":
			sid = 4
		}
		names = append(names, sy.name+"@"+sel)
		g.line("# %s", strings.Join(names, " "))
		sy.f(g, sid)
	}
	g.gauges()
}

// srv-state (C08): bounded-exhaustive frame sequences over the alphabet and the
// stream selectors, plus seeded longer ones.
func genSrvState(p *prng, thorough bool, w *bufio.Writer) {
	g := newSgen(p, w)
	na, ns := len(stateAlphabet), len(selectors)
	var all [][2]int
	for a := 0; a < na; a++ {
		for s := 0; s < 4; s++ { // "prev" needs a history: it comes in below
			all = append(all, [2]int{a, s})
		}
	}
	symIdx := func(name string) int {
		for i, sy := range stateAlphabet {
			if sy.name == name {
				return i
			}
		}
		panic("no symbol " + name)
	}
	for _, x := range all {
		g.runSeq([][2]int{x})
	}
	for _, x := range all {
		for _, y := range all {
			if y[1] == 3 && x[1] == 3 {
				continue
			}
			g.runSeq([][2]int{x, y})
		}
	}
	// two streams side by side, one finished and one not: every frame on the one, then every frame on the other
	// (a frame must be attributed to the stream it names, whatever else is in the table)
	const selCur, selNew, selPrev = 0, 1, 4
	for x := 0; x < na; x++ {
		for y := 0; y < na; y++ {
			if !thorough && (x*na+y)%3 != int(p.next()%3) {
				continue
			}
			// older stream open, newer one answered and closed
			g.runSeq([][2]int{{symIdx("H"), selCur}, {symIdx("HE"), selNew}, {symIdx("done"), selCur}, {x, selCur}, {y, selPrev}})
			// older stream answered and closed, newer one open
			g.runSeq([][2]int{{symIdx("HE"), selCur}, {symIdx("done"), selCur}, {symIdx("H"), selNew}, {x, selPrev}, {y, selCur}})
		}
	}
	// a stream refused at the concurrency limit, then every frame (and every pair) a peer that has not seen the
	// refusal yet may still send on it
	for x := 0; x < na; x++ {
		for y := -1; y < na; y++ {
			if y >= 0 && !thorough && p.intn(4) != 0 {
				continue
			}
			g.newConn(1, 0, 0)
			g.settings()
			g.next = 5
			a := g.sid()
			g.line("# HE@cur")
			stateAlphabet[symIdx("HE")].f(g, a) // dispatched: the only slot is taken
			b := g.sid()
			g.line("# HE@cur HE@new")
			stateAlphabet[symIdx("HE")].f(g, b) // refused
			g.line("# HE@cur HE@new %s@cur", stateAlphabet[x].name)
			stateAlphabet[x].f(g, b)
			if y >= 0 {
				g.line("# HE@cur HE@new %s@cur %s@cur", stateAlphabet[x].name, stateAlphabet[y].name)
				stateAlphabet[y].f(g, b)
			}
			g.gauges()
		}
	}
	// stream-id watermark scenarios (RFC 7540 5.1.1: identifiers only ever increase)
	// (a) the newest stream, once it has left the closed-stream memory, must not be re-opened
	g.newConn(300, 0, 0)
	g.settings()
	g.next = 1
	var opened []uint32
	for i := 0; i < 257; i++ {
		sid := g.sid()
		opened = append(opened, sid)
		g.frame(frameBytes(1, 4, sid, g.hdrBlock(false)))
	}
	last := opened[len(opened)-1]
	g.rst(last, 8) // the newest closes first ...
	for _, sid := range opened[:256] {
		g.rst(sid, 8) // ... and 256 later closes push it out of the memory
	}
	g.frame(frameBytes(1, 5, last, g.hdrBlock(true)))
	g.gauges()
	// (b) a refused stream still uses up its identifier
	g.newConn(1, 0, 0)
	g.settings()
	g.next = 1
	g.frame(frameBytes(1, 5, 1, g.hdrBlock(true))) // dispatched, fills the only slot
	g.frame(frameBytes(1, 5, 5, g.hdrBlock(true))) // refused
	g.done(1, respGen{status: 200, body: "none"})
	g.frame(frameBytes(1, 5, 3, g.hdrBlock(true))) // below the refused id: not a new stream
	g.gauges()

	n := 1500
	if thorough {
		n = 40000
	}
	for i := 0; i < n; i++ {
		l := 3 + p.intn(5)
		var seq [][2]int
		for j := 0; j < l; j++ {
			sel := 0
			if p.chance(1, 3) {
				sel = p.intn(ns)
			}
			seq = append(seq, [2]int{p.intn(na), sel})
		}
		g.runSeq(seq)
	}
	g.line("srv %s end", g.id)
}

// offences of one stream (C09 catalogue)
func (g *sgen) offence(kind int, sid uint32) (dispatched bool) {
	switch kind {
	case 0: // uppercase name
		g.frame(frameBytes(1, 5, sid, g.enc.block(g.p, []kv{{k: ":method", v: "GET"}, {k: ":scheme", v: "https"}, {k: ":path", v: "/"}, {k: "X-Bad", v: "1"}, {k: "x-after", v: "later"}})))
	case 1: // pseudo after regular
		g.frame(frameBytes(1, 5, sid, g.enc.block(g.p, []kv{{k: ":method", v: "GET"}, {k: "x-a", v: "1"}, {k: ":scheme", v: "https"}, {k: ":path", v: "/"}, {k: "x-new-entry", v: "zz"}})))
	case 2: // missing :path
		g.frame(frameBytes(1, 5, sid, g.enc.block(g.p, []kv{{k: ":method", v: "GET"}, {k: ":scheme", v: "https"}, {k: "x-q", v: "qq"}})))
	case 3: // peer resets right after HEADERS
		g.frame(frameBytes(1, 4, sid, g.enc.block(g.p, []kv{{k: ":method", v: "POST"}, {k: ":scheme", v: "https"}, {k: ":path", v: "/"}, {k: "x-r", v: "reset"}})))
		g.rst(sid, 8)
	case 4: // peer resets while the handler runs
		g.simpleReq(sid, "GET", nil, kv{k: "x-h", v: "run"})
		g.rst(sid, 8)
		return true
	case 5: // handler panics
		g.simpleReq(sid, "GET", nil)
		g.done(sid, respGen{status: 200, body: "panic"})
	case 6: // stream window overflow
		g.simpleReq(sid, "GET", nil)
		g.windowUpdate(sid, 0x7fffffff)
		return true
	case 7: // content-length mismatch
		g.simpleReq(sid, "POST", []byte("abc"), kv{k: "content-length", v: "5"})
	case 8: // connection-specific field
		g.frame(frameBytes(1, 5, sid, g.enc.block(g.p, []kv{{k: ":method", v: "GET"}, {k: ":scheme", v: "https"}, {k: ":path", v: "/"}, {k: "connection", v: "close"}, {k: "x-tail", v: "t"}})))
	case 9: // DATA still in flight after the server reset the stream
		g.frame(frameBytes(1, 4, sid, g.enc.block(g.p, []kv{{k: ":method", v: "POST"}, {k: ":scheme", v: "https"}, {k: ":path", v: "/"}, {k: "X-Up", v: "1"}})))
		g.frame(frameBytes(0, 0, sid, []byte("in flight")))
		g.frame(frameBytes(0, 1, sid, []byte("more")))
	case 10: // zero increment on a stream
		g.simpleReq(sid, "GET", nil)
		g.windowUpdate(sid, 0)
		return true
	case 11: // a trailer section that does not end the stream: a malformed request (RFC 7540 8.1), with table insertions
		g.frame(frameBytes(1, 4, sid, g.enc.block(g.p, []kv{{k: ":method", v: "POST"}, {k: ":scheme", v: "https"}, {k: ":path", v: "/"}, {k: "x-t", v: "open"}})))
		g.frame(frameBytes(0, 0, sid, []byte("body")))
		g.frame(frameBytes(1, 4, sid, g.enc.block(g.p, []kv{{k: "x-trailer", v: "not the end"}, {k: "x-after-t", v: "later"}})))
	}
	return false
}

// srv-err (C09): offending streams placed among well-formed ones.
func genSrvErr(p *prng, thorough bool, w *bufio.Writer) {
	g := newSgen(p, w)
	rounds := 150
	if thorough {
		rounds = 1500
	}
	for c := 0; c < rounds; c++ {
		mcs := 3 + p.intn(4)
		g.newConn(mcs, 0, 4000) // above the largest body randRequest produces
		g.settings()
		var parked []uint32
		for i := 0; i < 2+p.intn(6); i++ {
			if len(parked) >= mcs-1 {
				j := p.intn(len(parked))
				g.done(parked[j], g.randResp())
				parked = append(parked[:j], parked[j+1:]...)
			}
			sid := g.sid()
			if p.chance(2, 5) {
				kind := p.intn(10)
				if p.chance(1, 8) {
					kind = 11
				}
				g.line("#offence %d %d", kind, sid)
				if g.offence(kind, sid) {
					parked = append(parked, sid)
				}
			} else if p.chance(1, 6) && len(parked) > 0 {
				// refused stream: fill the slots first
				for len(parked) < mcs {
					s2 := sid
					g.simpleReq(s2, "GET", nil)
					parked = append(parked, s2)
					sid = g.sid()
				}
				g.line("#refused %d", sid)
				g.frame(frameBytes(1, 5, sid, g.enc.block(p, []kv{{k: ":method", v: "GET"}, {k: ":scheme", v: "https"}, {k: ":path", v: "/"}, {k: "x-refused", v: "entry"}})))
				// what a peer that has not seen the refusal yet may still send on that stream
				switch p.intn(4) {
				case 0:
					g.rst(sid, 8)
				case 1:
					g.windowUpdate(sid, 100)
				case 2:
					g.priority(sid, 0, 5)
				}
			} else {
				r := g.randRequest(sid)
				for _, u := range g.requestUnits(r, g.randRender()) {
					for _, fr := range u() {
						g.frame(fr)
					}
				}
				parked = append(parked, sid)
			}
		}
		for _, sid := range parked {
			g.done(sid, g.randResp())
		}
		g.windowUpdate(0, 1<<20)
		g.gauges()
	}
	g.line("srv %s end", g.id)
}

// connection-scoped offences (C10 catalogue)
func (g *sgen) connOffence(kind int) {
	switch kind {
	case 0:
		g.frame(frameBytes(6, 0, 0, []byte{1, 2, 3})) // PING length
	case 1:
		g.frame(frameBytes(4, 0, 0, []byte{0, 1, 0, 0})) // SETTINGS length
	case 2:
		g.frame(frameBytes(9, 4, g.next, nil)) // stray CONTINUATION
	case 3:
		sid := g.sid()
		b := g.hdrBlock(false)
		g.frame(frameBytes(1, 0, sid, b[:2]))
		g.ping(9) // non-CONTINUATION inside a block
	case 4:
		g.frame(frameBytes(1, 5, 2, g.hdrBlock(true))) // even stream id
	case 5:
		g.settings(2, 2) // ENABLE_PUSH = 2
	case 6:
		g.settings(4, 0x80000000) // INITIAL_WINDOW_SIZE too large
	case 7:
		g.settings(5, 100) // MAX_FRAME_SIZE too small
	case 8:
		g.windowUpdate(0, 0)
	case 9:
		g.windowUpdate(0, 0x7fffffff)
	case 10:
		sid := g.sid()
		g.frame(frameBytes(1, 5, sid, []byte{0xff, 0xff, 0xff, 0xff, 0xff})) // index past the table
	case 11:
		g.frame(frameBytes(0, 0, g.sid(), []byte("x"))) // DATA on idle
	case 12:
		g.rst(g.sid(), 8) // RST on idle
	case 13:
		g.frame(frameBytes(0, 0, 0, []byte("x"))) // DATA on stream 0
	case 14:
		g.frame(frameBytes(4, 1, 0, []byte{0, 1, 0, 0, 0, 0})) // ACK with payload
	case 15:
		g.frame(frameBytes(6, 0, 1, []byte{1, 2, 3, 4, 5, 6, 7, 8})) // PING with stream id
	case 16:
		g.frame(frameBytes(8, 0, g.sid(), u32(10))) // WINDOW_UPDATE on idle
	case 17:
		g.line("srv %s idle", g.id)
	case 18:
		if g.next > 3 {
			g.frame(frameBytes(1, 5, g.next-4, g.hdrBlock(true))) // HEADERS on an id lower than the latest
		} else {
			g.frame(frameBytes(5, 4, 1, []byte{0, 0, 0, 2})) // PUSH_PROMISE from a client
		}
	case 19:
		// a trailer section without END_STREAM that goes on in CONTINUATION: the server cannot answer on the stream
		// alone (the block would have to be decoded after the stream is gone: F23's obstacle), it stays a connection error
		sid := g.sid()
		g.frame(frameBytes(1, 4, sid, g.enc.block(g.p, []kv{{k: ":method", v: "POST"}, {k: ":scheme", v: "https"}, {k: ":path", v: "/"}, {k: "x-t", v: "open"}})))
		g.frame(frameBytes(0, 0, sid, []byte("body")))
		b := g.enc.block(g.p, []kv{{k: "x-trailer", v: "goes on"}})
		g.frame(frameBytes(1, 0, sid, b[:3]))
		g.frame(frameBytes(9, 4, sid, b[3:]))
	case 20:
		// a trailer section without END_STREAM whose block cannot be decoded: the decoding error comes first
		sid := g.sid()
		g.frame(frameBytes(1, 4, sid, g.enc.block(g.p, []kv{{k: ":method", v: "POST"}, {k: ":scheme", v: "https"}, {k: ":path", v: "/"}})))
		g.frame(frameBytes(1, 4, sid, []byte{0xff, 0xff, 0xff, 0xff, 0xff})) // index past the table
	case 21:
		// SETTINGS_INITIAL_WINDOW_SIZE raised while a stream's send window is already at the top (RFC 7540 6.9.2: a
		// change that makes any stream window exceed 2^31-1 is a connection error FLOW_CONTROL_ERROR). Every frame
		// but the last is legal: the window is set to 1000, a stream WINDOW_UPDATE takes it to 2^31-2, a first
		// SETTINGS change to exactly 2^31-1 (still fine), the second one beyond
		g.settings(4, 1000)
		sid := g.sid()
		g.frame(frameBytes(1, 4, sid, g.enc.block(g.p, []kv{{k: ":method", v: "POST"}, {k: ":scheme", v: "https"}, {k: ":path", v: "/top"}})))
		g.windowUpdate(sid, 1<<31-1-1000-1)
		g.settings(4, 1001)
		g.ping(5)
		g.settings(4, 1002)
	}
}

// srv-goaway (C10): a connection-scoped offence inside multiplexed traffic.
func genSrvGoAway(p *prng, thorough bool, w *bufio.Writer) {
	g := newSgen(p, w)
	rounds := 200
	if thorough {
		rounds = 2000
	}
	for c := 0; c < rounds; c++ {
		g.newConn(6, 0, 0)
		small := c%3 == 0 // responses blocked by flow control when the offence happens (every third connection)
		if small {
			g.settings(4, 10)
		} else {
			g.settings()
		}
		var parked []uint32
		before := p.intn(4)
		for i := 0; i < before; i++ {
			sid := g.sid()
			g.simpleReq(sid, "GET", nil)
			if p.chance(1, 2) {
				g.done(sid, g.randResp())
			} else {
				parked = append(parked, sid)
			}
		}
		// some of the running requests are cancelled by the peer first: their handlers go on running, holding their
		// slots, and come back after the GOAWAY
		if c%5 == 2 {
			// every fifth connection for certain (the rest by chance): one running request, cancelled before the GOAWAY
			if len(parked) == 0 {
				sid := g.sid()
				g.simpleReq(sid, "GET", nil)
				parked = append(parked, sid)
			}
			g.rst(parked[0], 8)
		} else {
			for _, sid := range parked {
				if p.chance(1, 4) {
					g.rst(sid, 8)
				}
			}
		}
		kind := p.intn(22)
		if c%5 == 2 {
			// … and an offence that is reported about a stream (the GOAWAY then records which streams it promises)
			kind = []int{18, 11, 12, 16, 10}[(c/5)%5]
		}
		g.line("#connoffence %d", kind)
		g.gaugeEach = true
		g.connOffence(kind)
		// trailing traffic
		for i := 0; i < p.intn(4); i++ {
			switch p.intn(3) {
			case 0:
				sid := g.sid()
				g.simpleReq(sid, "GET", nil)
				parked = append(parked, sid)
			case 1:
				g.ping(3)
			case 2:
				if len(parked) > 0 {
					g.windowUpdate(parked[0], 10)
				}
			}
		}
		for _, sid := range parked {
			g.done(sid, g.randResp())
		}
		if small {
			// the promised streams finish only now, through a connection-level frame: SETTINGS alone, or WINDOW_UPDATEs
			if (c/3)%2 == 0 {
				g.settings(4, 1<<20)
			} else {
				for _, sid := range parked {
					g.windowUpdate(sid, 1<<20)
				}
				g.settings(4, 1<<20)
			}
			g.windowUpdate(0, 1<<20)
		} else if p.chance(3, 4) {
			g.windowUpdate(0, 1<<20) // large responses need connection window to finish; now and then the peer never gives it
		}
		g.ping(4)
	}
	// idle-timeout shutdown racing new requests: the timer's GOAWAY is held between reading lastID and queueing the
	// frame while the stream loop deals with a new request (an interleaving the serial stepping never produces; the
	// result is judged by the GOAWAY monitor, the model answers `mon`)
	races := 12
	if thorough {
		races = 120
	}
	for c := 0; c < races; c++ {
		g.newConn(6, 0, 0)
		g.settings()
		for i := p.intn(3); i > 0; i-- {
			sid := g.sid()
			g.simpleReq(sid, "GET", nil)
			if p.chance(1, 2) {
				g.done(sid, g.randResp())
			}
		}
		var b []byte
		for i := 1 + p.intn(3); i > 0; i-- {
			sid := g.sid()
			b = append(b, frameBytes(1, 5, sid, g.enc.block(nil, []kv{{k: ":method", v: "GET"}, {k: ":scheme", v: "https"}, {k: ":path", v: "/"}, {k: ":authority", v: "a"}}))...)
		}
		if c%2 == 1 {
			// … and behind them an offence of the peer's own: the read loop wants a GOAWAY too while the timer's is held
			// and the stream loop waits, first in line, to admit the new requests. All three must come through and
			// ServeConn must return (`end` says whether it did)
			off := [][]byte{frameBytes(8, 0, 0, u32(0)), frameBytes(6, 0, 0, []byte{1, 2, 3}), frameBytes(9, 4, g.next, nil)}[(c/2)%3]
			g.line("srv %s racega2 %s %s", g.id, hexOrDash(b), hexOrDash(off))
		} else {
			g.line("srv %s racega %s", g.id, hexOrDash(b))
		}
		if c%2 == 1 {
			g.line("srv %s end", g.id)
		}
	}
	g.line("srv %s end", g.id)
}

// srv-limits (C13): adversarial schedules with parked handlers.
func genSrvLimits(p *prng, thorough bool, w *bufio.Writer) {
	g := newSgen(p, w)
	rounds := 40
	if thorough {
		rounds = 300
	}
	for c := 0; c < rounds; c++ {
		mcs := 1 + p.intn(4)
		g.newConn(mcs, 2000, 500)
		g.settings()
		var running []uint32
		steps := 30 + p.intn(60)
		for s := 0; s < steps; s++ {
			switch p.intn(11) {
			case 0, 1: // HEADERS + RST (rapid reset)
				sid := g.sid()
				g.simpleReq(sid, "GET", nil)
				running = append(running, sid)
				g.rst(sid, 8)
			case 2: // half-open stream
				sid := g.sid()
				g.frame(frameBytes(1, 4, sid, g.hdrBlock(false)))
			case 3: // WINDOW_UPDATE on a recently closed id
				if g.next > 1 {
					g.windowUpdate(g.next-2, 5)
				}
			case 4: // endless CONTINUATION on one block
				sid := g.sid()
				b := g.enc.block(nil, []kv{{k: ":method", v: "GET"}, {k: ":scheme", v: "https"}, {k: ":path", v: "/"}})
				g.frame(frameBytes(1, 1, sid, b))
				for i := 0; i < 3+p.intn(20); i++ {
					g.frame(frameBytes(9, 0, sid, g.enc.block(nil, []kv{{k: "x-fill", v: strings.Repeat("f", 50)}})))
				}
				if p.chance(1, 2) {
					g.frame(frameBytes(9, 4, sid, nil))
					running = append(running, sid)
				}
			case 5: // oversized body
				sid := g.sid()
				g.frame(frameBytes(1, 4, sid, g.hdrBlock(false)))
				for i := 0; i < 3; i++ {
					g.frame(frameBytes(0, 0, sid, p.bytes(300)))
				}
			case 6: // handler completes
				if len(running) > 0 {
					i := p.intn(len(running))
					g.done(running[i], respGen{status: 200, body: "none"})
					running = append(running[:i], running[i+1:]...)
				}
			case 7:
				g.ping(1)
				g.settings()
			case 8: // mis-declared body
				sid := g.sid()
				g.simpleReq(sid, "POST", []byte("abcd"), kv{k: "content-length", v: "9"})
			case 9: // PRIORITY on ever-new idle ids
				for i := 0; i < 1+p.intn(6); i++ {
					g.priority(g.sid(), 0, 5)
				}
			case 10: // a request on an id that PRIORITY mentioned first
				sid := g.sid()
				g.priority(sid, 0, 5)
				next := g.sid()
				g.simpleReq(next, "GET", nil)
				running = append(running, next)
				g.simpleReq(sid, "GET", nil)
				running = append(running, sid)
			}
			if s%10 == 0 {
				g.gauges()
				g.mon()
			}
		}
		g.gauges()
		g.mon()
		for _, sid := range running {
			g.done(sid, respGen{status: 200, body: "none"})
		}
	}
	// every slot held by a handler that does not come back, then requests on ever new ids: each is refused, and the
	// memory of the ids this side reset must stay within its bound although no stream closes meanwhile (also with rapid
	// resets of the peer's own in between, and with streams closing in between)
	for variant := 0; variant < 3; variant++ {
		mcs := 1 + variant
		g.newConn(mcs, 2000, 500)
		g.settings()
		var running []uint32
		for i := 0; i < mcs; i++ {
			sid := g.sid()
			g.simpleReq(sid, "GET", nil)
			running = append(running, sid)
		}
		n := 300
		if thorough {
			n = 700
		}
		for i := 0; i < n; i++ {
			sid := g.sid()
			g.frame(frameBytes(1, 5, sid, g.enc.block(nil, []kv{{k: ":method", v: "GET"}, {k: ":scheme", v: "https"}, {k: ":path", v: "/"}, {k: ":authority", v: "a"}})))
			if variant == 1 && i%3 == 0 {
				g.rst(sid, 8)
			}
			if variant == 2 && i == n/2 {
				g.done(running[0], respGen{status: 200, body: "none"})
				running = running[1:]
			}
			if i%50 == 49 || i > n-4 {
				g.gauges()
			}
		}
		g.mon()
		for _, sid := range running {
			g.done(sid, respGen{status: 200, body: "none"})
		}
		g.gauges()
	}
	// the CONTINUATION frames above carry fields that end; these carry one that does not (F68)
	genHeldFields(g, thorough, false)
	g.line("srv %s end", g.id)
}

// srv-recv (C14): uploads within the windows, any chunking and padding, some
// ending in stream errors.
func genSrvRecv(p *prng, thorough bool, w *bufio.Writer) {
	g := newSgen(p, w)
	rounds := 12
	if thorough {
		rounds = 100
	}
	for c := 0; c < rounds; c++ {
		g.newConn(8, 0, 3000000)
		g.settings()
		big := c%4 == 0
		n := 1 + p.intn(3)
		for i := 0; i < n; i++ {
			sid := g.sid()
			g.frame(frameBytes(1, 4, sid, g.hdrBlock(false)))
			total := 50 + p.intn(5000)
			if big {
				total = 2200000 + p.intn(100000)
			}
			sent := 0
			for sent < total {
				l := 1 + p.intn(1200)
				if big {
					l = 16384 - p.intn(3)*1000
				}
				if sent+l > total {
					l = total - sent
				}
				flags := byte(0)
				payload := patBytes(sid, sent, l)
				if p.chance(1, 5) && !big {
					flags |= 8
					payload = padded(payload, p.intn(40))
				}
				sent += l
				if sent == total {
					flags |= 1
				}
				g.frame(frameBytes(0, flags, sid, payload))
				if p.chance(1, 30) {
					g.frame(frameBytes(0, 8, sid, padded(nil, p.intn(30)))) // padded empty DATA
				}
			}
			if p.chance(1, 2) {
				g.done(sid, respGen{status: 200, body: "none"})
			}
		}
		// a body that is cut off by a stream error (too large for the limit)
		if p.chance(1, 2) {
			sid := g.sid()
			g.frame(frameBytes(1, 4, sid, g.hdrBlock(false)))
			for i := 0; i < 200; i++ {
				g.frame(frameBytes(0, 0, sid, patBytes(sid, i*16384, 16384)))
			}
		}
		g.ping(1)
	}
	// many streams, each with one DATA frame the body limit drops; the peer stops
	// at the RST_STREAM, as a polite sender does. The octets still count against
	// the connection window.
	g.newConn(8, 0, 500)
	g.settings()
	n := 290
	if thorough {
		n = 600
	}
	for i := 0; i < n; i++ {
		sid := g.sid()
		g.frame(frameBytes(1, 4, sid, g.hdrBlock(false)))
		g.frame(frameBytes(0, 0, sid, patBytes(sid, 0, 16384)))
	}
	g.ping(1)
	g.line("srv %s end", g.id)
}

// srv-settings (C18)
func genSrvSettings(p *prng, thorough bool, w *bufio.Writer) {
	g := newSgen(p, w)
	rounds := 150
	if thorough {
		rounds = 1500
	}
	vals := map[uint32][]uint32{
		1: {0, 1, 31, 32, 100, 4096, 4097, 65536},
		2: {0, 1},
		3: {0, 1, 100, 0xffffffff},
		4: {0, 1, 65535, 0x7fffffff},
		5: {16384, 16385, 1 << 20, 0xffffff},
		6: {0, 100, 0xffffffff},
		7: {0, 5}, 0xff: {1},
	}
	ids := []uint32{1, 2, 3, 4, 5, 6, 7, 0xff}
	for c := 0; c < rounds; c++ {
		g.newConn(4, 0, 0)
		for s := 0; s < 1+p.intn(4); s++ {
			var pairs []uint32
			for i := 0; i < p.intn(4); i++ {
				id := ids[p.intn(len(ids))]
				v := vals[id][p.intn(len(vals[id]))]
				pairs = append(pairs, id, v)
			}
			g.settings(pairs...)
			sid := g.sid()
			g.simpleReq(sid, "GET", nil)
			big := p.bytes([]int{1, 100, 5000, 17000}[p.intn(4)])
			for i := range big {
				big[i] = 33 + big[i]%90 // incompressible enough that 17000 octets exceed a 16384 frame
			}
			hdr := []kv{{k: "x-big", v: string(big)}, {k: "x-r", v: "1"}}
			g.done(sid, respGen{status: 200, hdr: hdr, body: fmt.Sprintf("pat:%d", []int{1, 20000, 70000}[p.intn(3)])})
			g.windowUpdate(0, 1<<20)
			g.windowUpdate(sid, 1<<20)
			if p.chance(1, 4) {
				g.settingsAck()
			}
		}
		// the server advertises MAX_FRAME_SIZE 16384 and must hold the peer to it,
		// whatever the peer has announced for itself
		if c%3 == 0 {
			if p.chance(1, 2) {
				g.settings(5, 1<<20)
			}
			sid := g.sid()
			g.frame(frameBytes(1, 4, sid, g.hdrBlock(false)))
			g.frame(frameBytes(0, 0, sid, patBytes(sid, 0, 16385+p.intn(30000))))
			g.ping(1)
		}
	}
	// before any SETTINGS from the peer
	g.newConn(4, 0, 0)
	g.frame(frameBytes(6, 0, 0, make([]byte, 20000)))
	g.ping(1)
	// header blocks longer than a frame (F33): towards a peer that left MAX_FRAME_SIZE at 16384, one that announced
	// more (the server still cuts at the size every peer accepts), one that announced exactly 16384
	for i, mfs := range []uint32{0, 1 << 20, 16384} {
		g.newConn(4, 0, 0)
		if mfs == 0 {
			g.settings()
		} else {
			g.settings(5, mfs)
		}
		g.bigBlocks(i == 0 || thorough)
	}
	for n := 1; n <= 4; n++ {
		g.newConn(8, 0, 0)
		g.settings()
		g.bigBlockBurst(n)
	}
	g.line("srv %s end", g.id)
}

// srv-msg (C20): header lists over a vocabulary of valid and invalid names,
// values, orders and duplications, with and without bodies and trailers.
func genSrvMsg(p *prng, thorough bool, w *bufio.Writer) {
	g := newSgen(p, w)
	rounds := 60
	if thorough {
		rounds = 600
	}
	pseudo := []kv{{k: ":method", v: "GET"}, {k: ":method", v: "POST"}, {k: ":scheme", v: "https"}, {k: ":path", v: "/"}, {k: ":path", v: ""},
		{k: ":authority", v: "a"}, {k: ":status", v: "200"}, {k: ":foo", v: "x"}, {k: ":", v: "x"}}
	regular := []kv{{k: "x-a", v: "1"}, {k: "X-Upper", v: "1"}, {k: "x-Mixed", v: "1"}, {k: "connection", v: "close"}, {k: "keep-alive", v: "1"},
		{k: "proxy-connection", v: "x"}, {k: "transfer-encoding", v: "chunked"}, {k: "upgrade", v: "h2c"}, {k: "te", v: "trailers"},
		{k: "te", v: "gzip"}, {k: "te", v: "trailers, deflate"}, {k: "content-length", v: "3"}, {k: "content-length", v: "0"},
		{k: "content-length", v: "abc"}, {k: "content-length", v: ""}, {k: "content-length", v: "18446744073709551619"},
		{k: "content-length", v: "-3"}, {k: "content-length", v: "+3"}, {k: "accept", v: "*/*"}, {k: "user-agent", v: "u"}}
	for c := 0; c < rounds; c++ {
		g.newConn(100, 0, 0)
		g.settings()
		if c%3 != 0 {
			g.line("#enc plain")
		} else {
			g.line("#enc indexed")
		}
		if c%3 == 0 {
			// a field name in upper case, first as a literal that enters the dynamic table (last field of its block, so
			// that nothing is left undecoded behind it and the two tables stay in step), then as a reference to that
			// entry: malformed both times, however the field is represented (RFC 7540 8.1.2)
			up := []kv{{k: ":method", v: "POST"}, {k: ":scheme", v: "https"}, {k: ":path", v: "/"}, {k: ":authority", v: "a"}, {k: "X-Upper", v: "1"}}
			head := []byte{0x83, 0x87, 0x84, 0x01, 0x01, 'a'}
			sid := g.sid()
			g.line("#msg %d hs=%s body=0 trailers=-", sid, kvHex(up))
			g.frame(frameBytes(1, 5, sid, append(append([]byte{}, head...), append([]byte{0x40, 0x07}, []byte("X-Upper\x011")...)...)))
			g.done(sid, respGen{status: 200, body: "none"})
			sid = g.sid()
			g.line("#msg %d hs=%s body=0 trailers=-", sid, kvHex(up))
			g.frame(frameBytes(1, 5, sid, append(append([]byte{}, head...), 0xbe)))
			g.done(sid, respGen{status: 200, body: "none"})
			g.enc.insert("X-Upper", "1")
		}
		for q := 0; q < 30; q++ {
			sid := g.sid()
			var hs []kv
			if p.chance(3, 4) { // mostly valid skeleton, then perturb
				hs = []kv{{k: ":method", v: "POST"}, {k: ":scheme", v: "https"}, {k: ":path", v: "/p"}, {k: ":authority", v: "a"}}
				for i := p.intn(3); i > 0; i-- {
					hs = append(hs, regular[p.intn(len(regular))])
				}
				switch p.intn(8) {
				case 0:
					hs = append(hs, pseudo[p.intn(len(pseudo))])
				case 1:
					i := p.intn(4)
					hs = append(hs[:i], hs[i+1:]...)
				case 2:
					hs = append([]kv{pseudo[p.intn(len(pseudo))]}, hs...)
				case 3:
					i, j := p.intn(len(hs)), p.intn(len(hs))
					hs[i], hs[j] = hs[j], hs[i]
				case 4:
					hs[2].v = "" // :path present but empty
				}
			} else {
				for i := 1 + p.intn(6); i > 0; i-- {
					if p.chance(1, 2) {
						hs = append(hs, pseudo[p.intn(len(pseudo))])
					} else {
						hs = append(hs, regular[p.intn(len(regular))])
					}
				}
			}
			bodyLen := []int{0, 0, 3, 3, 5}[p.intn(5)]
			var trailers []kv
			if q%10 == 7 { // two content-length fields that disagree
				hs = []kv{{k: ":method", v: "POST"}, {k: ":scheme", v: "https"}, {k: ":path", v: "/p"}, {k: ":authority", v: "a"},
					{k: "content-length", v: p.pick([]string{"5", "3", "4"})}, {k: "content-length", v: p.pick([]string{"3", "5"})}}
				bodyLen = 3
			}
			if q%10 == 8 { // pseudo-header in the trailers of a request that has no regular field
				hs = []kv{{k: ":method", v: "POST"}, {k: ":scheme", v: "https"}, {k: ":path", v: "/p"}}
				trailers = []kv{{k: ":authority", v: "evil"}}
				bodyLen = 3
			} else if p.chance(1, 5) {
				trailers = []kv{[]kv{{k: "x-t", v: "1"}, {k: ":path", v: "/"}, {k: "X-T", v: "1"}, {k: "connection", v: "x"}, {k: "te", v: "gzip"}}[p.intn(5)]}
			}
			ep := p
			if c%3 != 0 {
				ep = nil // literals without indexing: the verdict does not depend on the dynamic table (F23)
			}
			// the block is encoded field by field (the same octets as in one go), so that it can be cut at field boundaries:
			// whether a message is well-formed does not depend on how its block is spread over HEADERS and CONTINUATION
			blockOf := func(fields []kv) ([]byte, []int) {
				var block []byte
				var bounds []int
				for _, h := range fields {
					block = append(block, g.enc.block(ep, []kv{h})...)
					bounds = append(bounds, len(block))
				}
				return block, bounds
			}
			// sendBlock writes a block as HEADERS [+ CONTINUATION…]: whole (half of the time), cut at some field boundaries
			// (possibly with an empty first or last fragment), or cut at arbitrary offsets
			sendBlock := func(fl byte, block []byte, bounds []int) {
				var cuts []int
				mode := p.intn(4)
				if ep != nil {
					// with an indexing encoder every field a refused block leaves undecoded puts the tables out of step
					// (F23), and a cut block leaves more of them undecoded: those connections would be over before the
					// repetitions they are there for (indexed references to earlier fields) come round
					mode = 0
				}
				switch mode {
				case 2:
					for _, b := range append([]int{0}, bounds...) {
						if p.chance(1, 2) {
							cuts = append(cuts, b)
						}
					}
					if len(cuts) == 0 && len(bounds) > 1 {
						cuts = []int{bounds[p.intn(len(bounds)-1)]}
					}
				case 3:
					for i := 1 + p.intn(3); i > 0 && len(block) > 0; i-- {
						cuts = append(cuts, p.intn(len(block)+1))
					}
					sort.Ints(cuts)
				}
				if len(cuts) == 0 {
					g.frame(frameBytes(1, fl|4, sid, block))
					return
				}
				prev := 0
				for i, c := range cuts {
					if i == 0 {
						g.frame(frameBytes(1, fl, sid, block[:c]))
					} else {
						g.frame(frameBytes(9, 0, sid, block[prev:c]))
					}
					prev = c
				}
				g.frame(frameBytes(9, 4, sid, block[prev:]))
			}
			block, bounds := blockOf(hs)
			es := bodyLen == 0 && trailers == nil
			fl := byte(0)
			if es {
				fl |= 1
			}
			g.line("#msg %d hs=%s body=%d trailers=%s", sid, kvHex(hs), bodyLen, kvHex(trailers))
			sendBlock(fl, block, bounds)
			if bodyLen > 0 {
				fl := byte(0)
				if trailers == nil {
					fl = 1
				}
				g.frame(frameBytes(0, fl, sid, []byte("abcde")[:bodyLen]))
			}
			if trailers != nil {
				tb, tbounds := blockOf(trailers)
				sendBlock(1, tb, tbounds)
			}
			g.done(sid, respGen{status: 200, body: "none"})
		}
	}
	g.line("srv %s end", g.id)
}

// srv-soup (C17): random frame soups, mutations of a well-formed byte stream, and
// every truncation of it.
func genSrvSoup(p *prng, thorough bool, w *bufio.Writer) {
	g := newSgen(p, w)
	// a recorded well-formed client byte stream
	rec := func() [][]byte {
		e := newPeerEnc()
		var fr [][]byte
		fr = append(fr, frameBytes(4, 0, 0, settingsPayload(3, 100, 4, 65535)))
		fr = append(fr, frameBytes(4, 1, 0, nil))
		b := e.block(nil, []kv{{k: ":method", v: "POST"}, {k: ":scheme", v: "https"}, {k: ":path", v: "/up"}, {k: ":authority", v: "a"}, {k: "x-a", v: "1"}})
		fr = append(fr, frameBytes(1, 0, 1, b[:7]), frameBytes(9, 4, 1, b[7:]))
		fr = append(fr, frameBytes(0, 0, 1, []byte("hello ")), frameBytes(0, 9, 1, padded([]byte("world"), 3)))
		fr = append(fr, frameBytes(1, 0x25, 3, append(append(u32(1), 7), e.block(nil, []kv{{k: ":method", v: "GET"}, {k: ":scheme", v: "https"}, {k: ":path", v: "/"}})...)))
		fr = append(fr, frameBytes(8, 0, 0, u32(1000)), frameBytes(6, 0, 0, []byte("12345678")), frameBytes(2, 0, 5, append(u32(0), 3)))
		fr = append(fr, frameBytes(3, 0, 3, u32(8)), frameBytes(7, 0, 0, append(append(u32(0), u32(0)...), []byte("bye")...)))
		return fr
	}
	frames := rec()
	var stream []byte
	for _, f := range frames {
		stream = append(stream, f...)
	}
	// every truncation offset
	stepCut := 1
	if !thorough {
		stepCut = 3
	}
	for cut := 0; cut <= len(stream); cut += stepCut {
		g.newConn(4, 0, 0)
		g.bytes(stream[:cut])
		g.line("srv %s cut", g.id)
	}
	// structure-aware mutations
	n := 300
	if thorough {
		n = 5000
	}
	for i := 0; i < n; i++ {
		g.newConn(4, 0, 0)
		fs := rec()
		switch p.intn(5) {
		case 0: // delete
			j := p.intn(len(fs))
			fs = append(fs[:j], fs[j+1:]...)
		case 1: // duplicate
			j := p.intn(len(fs))
			fs = append(fs[:j+1], fs[j:]...)
		case 2: // insert random frame
			j := p.intn(len(fs))
			rf := frameBytes(byte(p.intn(12)), byte(p.intn(256)), uint32(p.intn(8)), p.bytes(p.intn(12)))
			fs = append(fs[:j], append([][]byte{rf}, fs[j:]...)...)
		case 3: // flip a header field
			j := p.intn(len(fs))
			f := append([]byte(nil), fs[j]...)
			k := p.intn(9)
			f[k] ^= byte(1 << uint(p.intn(8)))
			fs[j] = f
		case 4: // flip a payload octet
			j := p.intn(len(fs))
			f := append([]byte(nil), fs[j]...)
			if len(f) > 9 {
				f[9+p.intn(len(f)-9)] ^= byte(1 << uint(p.intn(8)))
			}
			fs[j] = f
		}
		for _, f := range fs {
			g.bytes(f)
		}
		if p.chance(1, 2) {
			g.done(1, respGen{status: 200, body: "pat:10"})
		}
		g.line("srv %s cut", g.id)
	}
	// boundary frames through the whole server: every short length x every pad length x the flag combinations that
	// decide which sections a payload has (PADDED, PRIORITY), for the three padded frame types, on a fresh connection
	// or on an open stream
	for _, typ := range []byte{0, 1, 5} {
		for _, fl := range []byte{0x8, 0x28, 0x20, 0x2c, 0xc, 0x9, 0x2d} {
			for l := 0; l <= 10; l++ {
				for pad := 0; pad <= l+1 && pad < 256; pad++ {
					if !thorough && p.intn(6) != 0 {
						continue
					}
					g.newConn(4, 0, 0)
					g.settings()
					sid := uint32(1)
					if typ == 0 || p.chance(1, 3) { // DATA needs an open stream; HEADERS on one are trailers
						g.frame(frameBytes(1, 4, 1, g.hdrBlock(false)))
						if typ != 0 && p.chance(1, 2) {
							sid = 3
						}
					}
					payload := make([]byte, l)
					if l > 0 {
						payload[0] = byte(pad)
					}
					for k := 1; k < l; k++ {
						payload[k] = byte(p.intn(256))
					}
					g.frame(frameBytes(typ, fl, sid, payload))
					g.ping(1)
					g.line("srv %s cut", g.id)
				}
			}
		}
	}
	// the per-request timeout (ReadTimeout) fires while requests are in every stage: handler running, request half
	// received, response held back by flow control. Afterwards the stream loop must still be alive: a later request is
	// served, the connection ends cleanly. (The model has no timer: after `sleep` only the monitors speak. The timeout is 400 ms
	// so that no step before the `sleep` takes that long even on a loaded machine: with 25 ms the thorough tier once saw the
	// timer fire inside a `done` step.)
	timeouts := 6
	if thorough {
		timeouts = 40
	}
	for i := 0; i < timeouts; i++ {
		g.line("# connection with request timeout")
		if g.conns > 0 {
			g.line("srv %s end", g.id)
		}
		g.conns++
		g.enc = newPeerEnc()
		g.next = 1
		g.gaugeEach = false
		g.line("srv %s new mcs=8 mhl=0 mrb=0 rt=400", g.id)
		g.settings()
		var running []uint32
		for k := 1 + p.intn(3); k > 0; k-- {
			sid := g.sid()
			switch p.intn(3) {
			case 0: // complete request, handler running
				g.frame(frameBytes(1, 5, sid, g.hdrBlock(true)))
				running = append(running, sid)
			case 1: // request half received
				g.frame(frameBytes(1, 4, sid, g.hdrBlock(false)))
			default: // handler done, response blocked by a zero window
				g.frame(frameBytes(4, 0, 0, settingsPayload(4, 0)))
				g.frame(frameBytes(1, 5, sid, g.hdrBlock(true)))
				g.done(sid, respGen{status: 200, body: "pat:500"})
			}
		}
		g.line("srv %s sleep 900", g.id)
		// life goes on
		sid := g.sid()
		g.frame(frameBytes(1, 5, sid, g.hdrBlock(true)))
		g.done(sid, respGen{status: 200, body: "none"})
		for _, r := range running {
			if p.chance(1, 2) {
				g.done(r, respGen{status: 200, body: "none"})
			}
		}
		g.ping(9)
	}
	// teardown with many handlers still running (the handlerDone channel holds 128): the peer hangs up, or commits a
	// connection error first; then the handlers return. Nothing of the connection may be left behind.
	crowds := 4
	if thorough {
		crowds = 30
	}
	for i := 0; i < crowds; i++ {
		g.newConn(400, 0, 0)
		g.settings()
		n := []int{1, 100, 128, 129, 140, 300}[p.intn(6)]
		var b []byte
		for k := 0; k < n; k++ {
			b = append(b, frameBytes(1, 5, g.sid(), g.enc.block(nil, []kv{{k: ":method", v: "GET"}, {k: ":scheme", v: "https"}, {k: ":path", v: "/"}, {k: ":authority", v: "a"}}))...)
		}
		g.line("srv %s burst %s", g.id, hexOrDash(b))
		g.line("srv %s settle", g.id)
		switch p.intn(3) {
		case 0:
			g.line("srv %s burst %s", g.id, hexOrDash(frameBytes(8, 0, 0, u32(0)))) // connection error from the read loop
			g.line("srv %s settle", g.id)
		case 1:
			g.line("srv %s burst %s", g.id, hexOrDash(frameBytes(3, 0, 100001, u32(8)))) // connection error from the stream loop
			g.line("srv %s settle", g.id)
		}
		// the next `new` (or the final `end`) hangs up and releases the handlers
	}
	// a peer that goes on sending after a connection error: whichever loop raised it, the octets that keep arriving
	// must not park anything for good (the reader channel holds 128 frames); the connection handler returns
	floods := 8
	if thorough {
		floods = 60
	}
	for i := 0; i < floods; i++ {
		g.newConn(8, 0, 0)
		g.settings()
		var b []byte
		switch p.intn(5) {
		case 0: // PRIORITY depending on itself (stream loop)
			b = frameBytes(2, 0, 1, append(u32(1), 10))
		case 1: // DATA on an idle stream (stream loop)
			b = frameBytes(0, 0, 7, []byte("x"))
		case 2: // WINDOW_UPDATE of 0 on the connection (read loop)
			b = frameBytes(8, 0, 0, u32(0))
		case 3: // HEADERS on an even id (read loop)
			b = frameBytes(1, 5, 2, g.hdrBlock(true))
		case 4: // a request, then RST_STREAM on an idle id (stream loop), with the request still running
			b = append(frameBytes(1, 5, 1, g.hdrBlock(true)), frameBytes(3, 0, 9, u32(8))...)
		}
		n := []int{0, 100, 129, 140, 300, 1000}[p.intn(6)]
		for k := 0; k < n; k++ {
			switch p.intn(3) {
			case 0:
				b = append(b, frameBytes(2, 0, uint32(11+2*k), append(u32(0), 10))...)
			case 1:
				b = append(b, frameBytes(8, 0, 1, u32(1))...)
			default:
				b = append(b, frameBytes(6, 0, 0, []byte{1, 2, 3, 4, 5, 6, 7, 8})...)
			}
		}
		g.line("srv %s burst %s", g.id, hexOrDash(b))
		g.line("srv %s settle", g.id)
		if p.chance(1, 2) {
			g.line("srv %s doneall st=200 hdr=- body=pat:10", g.id)
			g.line("srv %s settle", g.id)
		}
	}
	// a peer that stops reading, goes on sending and then disconnects, with responses and control replies queued
	// for it: the write loop is parked in a write, the writer queue fills, the read loop and the stream loop park on
	// it; when the peer goes every loop has to end and ServeConn has to return (judged by the monitors: `mon` lines)
	stalls := 10
	if thorough {
		stalls = 80
	}
	for i := 0; i < stalls; i++ {
		g.newConn(8, 0, 0)
		g.settings()
		var parked []uint32
		for j := p.intn(5); j > 0; j-- {
			sid := g.sid()
			g.simpleReq(sid, "GET", nil)
			parked = append(parked, sid)
		}
		if p.chance(1, 2) {
			g.line("srv %s stall", g.id)
			// many small requests: their responses and the replies to the control frames fill the writer queue from
			// the stream loop's side
			var b []byte
			for j := p.intn(200); j > 0; j-- {
				sid := g.sid()
				b = append(b, frameBytes(1, 5, sid, g.enc.block(nil, []kv{{k: ":method", v: "GET"}, {k: ":scheme", v: "https"}, {k: ":path", v: "/"}, {k: ":authority", v: "a"}}))...)
				b = append(b, frameBytes(3, 0, sid, u32(8))...)
				if p.chance(1, 3) {
					b = append(b, frameBytes(4, 0, 0, nil)...)
				}
			}
			if len(b) > 0 {
				g.line("srv %s burst %s", g.id, hexOrDash(b))
			}
			if len(parked) > 0 && p.chance(2, 3) {
				g.line("srv %s doneall st=200 hdr=- body=pat:%d", g.id, p.intn(200000))
			}
		}
		g.line("srv %s stallcut %d", g.id, []int{0, 1, 100, 127, 128, 129, 140, 300, 2000}[p.intn(9)])
	}
	// random soups
	for i := 0; i < n; i++ {
		g.newConn(4, 0, 0)
		if p.chance(1, 2) {
			g.settings()
		}
		for j := 0; j < 1+p.intn(10); j++ {
			l := p.intn(20)
			typ := byte(p.intn(11))
			if p.chance(1, 10) {
				typ = byte(p.intn(256))
			}
			g.bytes(frameBytes(typ, byte(p.intn(256)), uint32(p.intn(6)), p.bytes(l)))
		}
		g.line("srv %s cut", g.id)
	}
	g.line("srv %s end", g.id)
}

func init() {
	srvGens["srv-flow"] = genSrvFlow
	srvGens["srv-state"] = genSrvState
	srvGens["srv-err"] = genSrvErr
	srvGens["srv-goaway"] = genSrvGoAway
	srvGens["srv-limits"] = genSrvLimits
	srvGens["srv-recv"] = genSrvRecv
	srvGens["srv-settings"] = genSrvSettings
	srvGens["srv-msg"] = genSrvMsg
	srvGens["srv-soup"] = genSrvSoup
}

// srv-burst (C19, C17): the same kinds of traffic written in bursts, with handlers completing concurrently, so the
// read loop, the stream loop, the write loop, handler goroutines and SETTINGS handling really interleave. Nothing
// here is compared with the model (the results are `mon` lines): it feeds the pool tracker, the panic monitor and,
// in the race-detector build, the race detector.
func genSrvBurst(p *prng, thorough bool, w *bufio.Writer) {
	g := newSgen(p, w)
	rounds := 25
	if thorough {
		rounds = 250
	}
	for c := 0; c < rounds; c++ {
		mcs := 4 + p.intn(20)
		g.newConn(mcs, 0, 0)
		var burst []byte
		flush := func() {
			if len(burst) > 0 {
				g.line("srv %s burst %s", g.id, hexOrDash(burst))
				burst = nil
			}
		}
		burst = append(burst, frameBytes(4, 0, 0, settingsPayload(4, uint32(1000+p.intn(100000))))...)
		for round := 0; round < 3+p.intn(4); round++ {
			n := 1 + p.intn(mcs)
			for i := 0; i < n; i++ {
				sid := g.sid()
				r := g.randRequest(sid)
				for _, u := range g.requestUnits(r, g.randRender()) {
					for _, fr := range u() {
						burst = append(burst, fr...)
					}
				}
				switch p.intn(6) {
				case 0:
					burst = append(burst, frameBytes(3, 0, sid, u32(8))...)
				case 1:
					burst = append(burst, frameBytes(8, 0, sid, u32(uint32(1+p.intn(50000))))...)
				case 2:
					burst = append(burst, frameBytes(4, 0, 0, settingsPayload(1, uint32(p.intn(5000)), 4, uint32(p.intn(200000))))...)
				case 3:
					burst = append(burst, frameBytes(6, 0, 0, []byte("abcdefgh"))...)
				}
				if p.chance(1, 3) {
					flush()
				}
			}
			flush()
			g.line("srv %s settle", g.id)
			// handlers finish all at once while more SETTINGS and window updates arrive
			burst = append(burst, frameBytes(4, 0, 0, settingsPayload(1, uint32(p.intn(8000))))...)
			burst = append(burst, frameBytes(8, 0, 0, u32(1<<20))...)
			g.line("srv %s doneall st=200 body=pat:%d", g.id, 1+p.intn(60000))
			flush()
			g.line("srv %s settle", g.id)
		}
		if p.chance(1, 2) {
			g.line("srv %s cut", g.id)
		}
	}
	g.line("srv %s end", g.id)
}

func init() { srvGens["srv-burst"] = genSrvBurst }
