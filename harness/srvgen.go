package main

// Script generators for the server area. Scripts are line-protocol ops; every
// random choice comes from the prng handed in.

import (
	"bufio"
	"fmt"
	"strings"
)

type sgen struct {
	w     *bufio.Writer
	p     *prng
	id    string
	enc   *peerEnc
	next  uint32
	conns int
}

func newSgen(p *prng, w *bufio.Writer) *sgen { return &sgen{w: w, p: p, id: "s0"} }

func (g *sgen) line(format string, a ...interface{}) { fmt.Fprintf(g.w, format+"\n", a...) }

func (g *sgen) newConn(mcs, mhl, mrb int) {
	if g.conns > 0 {
		g.line("srv %s end", g.id)
	}
	g.conns++
	g.enc = newPeerEnc()
	g.next = 1
	g.line("# connection %d", g.conns)
	g.line("srv %s new mcs=%d mhl=%d mrb=%d", g.id, mcs, mhl, mrb)
}

func (g *sgen) frame(b []byte)  { g.line("srv %s frame %s", g.id, hexOrDash(b)) }
func (g *sgen) bytes(b []byte)  { g.line("srv %s bytes %s", g.id, hexOrDash(b)) }
func (g *sgen) gauges()         { g.line("srv %s gauges", g.id) }
func (g *sgen) mon()            { g.line("srv %s mon", g.id) }
func (g *sgen) settings(pairs ...uint32) {
	g.frame(frameBytes(4, 0, 0, settingsPayload(pairs...)))
}
func (g *sgen) settingsAck()             { g.frame(frameBytes(4, 1, 0, nil)) }
func (g *sgen) windowUpdate(sid uint32, inc uint32) { g.frame(frameBytes(8, 0, sid, u32(inc))) }
func (g *sgen) rst(sid uint32, code uint32)         { g.frame(frameBytes(3, 0, sid, u32(code))) }
func (g *sgen) ping(b byte)                         { g.frame(frameBytes(6, 0, 0, []byte{b, 1, 2, 3, 4, 5, 6, 7})) }
func (g *sgen) priority(sid, dep uint32, w byte)    { g.frame(frameBytes(2, 0, sid, append(u32(dep), w))) }

func (g *sgen) sid() uint32 {
	s := g.next
	g.next += 2
	return s
}

// response description → "done" line
type respGen struct {
	status int
	hdr    []kv
	body   string // none | pat:N | hex:.. | stream:size:chunks:tail | panic
}

func (g *sgen) done(sid uint32, r respGen) {
	sp, _ := parseResp(sid, []string{fmt.Sprintf("st=%d", r.status), "hdr=" + kvHex(r.hdr), "body=" + r.body})
	view := responseView(sp)
	g.line("srv %s done %d st=%d hdr=%s view=%s body=%s", g.id, sid, r.status, kvHex(r.hdr), fmtKV(view), r.body)
}

func kvHex(fs []kv) string {
	if len(fs) == 0 {
		return "-"
	}
	parts := make([]string, len(fs))
	for i, f := range fs {
		parts[i] = hexOrDash([]byte(f.k)) + ":" + hexOrDash([]byte(f.v))
	}
	return strings.Join(parts, ",")
}

// request description
type reqGen struct {
	sid      uint32
	method   string
	scheme   string
	path     string
	auth     string
	fields   []kv
	body     []byte
	trailers []kv
	noAuth   bool
}

func (r reqGen) headerList() []kv {
	hs := []kv{{k: ":method", v: r.method}, {k: ":scheme", v: r.scheme}, {k: ":path", v: r.path}}
	if !r.noAuth {
		hs = append(hs, kv{k: ":authority", v: r.auth})
	}
	return append(hs, r.fields...)
}

// rendering choices
type render struct {
	splits    int  // number of CONTINUATION frames the header block is cut into
	padHdr    int  // -1 none, else pad length
	prio      bool // priority section on HEADERS
	chunk     int  // DATA chunk size (0 = one frame)
	padData   int  // -1 none
	emptyData bool // sprinkle empty DATA frames
	plain     bool // representation: literal without indexing only
}

func (g *sgen) randRender() render {
	p := g.p
	r := render{padHdr: -1, padData: -1}
	if p.chance(1, 3) {
		r.splits = 1 + p.intn(3)
	}
	if p.chance(1, 4) {
		r.padHdr = p.intn(20)
	}
	r.prio = p.chance(1, 4)
	if p.chance(1, 2) {
		r.chunk = 1 + p.intn(40)
	}
	if p.chance(1, 4) {
		r.padData = p.intn(10)
	}
	r.emptyData = p.chance(1, 5)
	return r
}

// headerFrames cuts an encoded block into HEADERS + CONTINUATION frames.
func headerFrames(p *prng, e *peerEnc, sid uint32, block []byte, endStream bool, rd render) [][]byte {
	cuts := []int{}
	for i := 0; i < rd.splits && len(block) > 0; i++ {
		c := p.intn(len(block) + 1)
		if e != nil && e.badCut(block, c) {
			c--
		}
		cuts = append(cuts, c)
	}
	// sort cuts
	for i := range cuts {
		for j := i + 1; j < len(cuts); j++ {
			if cuts[j] < cuts[i] {
				cuts[i], cuts[j] = cuts[j], cuts[i]
			}
		}
	}
	parts := [][]byte{}
	prev := 0
	for _, c := range cuts {
		parts = append(parts, block[prev:c])
		prev = c
	}
	parts = append(parts, block[prev:])
	var out [][]byte
	for i, part := range parts {
		last := i == len(parts)-1
		if i == 0 {
			flags := byte(0)
			if endStream {
				flags |= 1
			}
			if last {
				flags |= 4
			}
			payload := append([]byte(nil), part...)
			if rd.prio {
				flags |= 0x20
				dep := uint32(p.intn(5)) * 2
				if dep == sid {
					dep = 0
				}
				payload = append(append(u32(dep|uint32(p.intn(2))<<31), byte(p.intn(256))), payload...)
			}
			if rd.padHdr >= 0 {
				flags |= 8
				payload = padded(payload, rd.padHdr)
			}
			out = append(out, frameBytes(1, flags, sid, payload))
		} else {
			flags := byte(0)
			if last {
				flags |= 4
			}
			out = append(out, frameBytes(9, flags, sid, part))
		}
	}
	return out
}

// unit: a group of frames that must stay contiguous on the wire; built when it
// is placed, because HPACK state follows wire order.
type unit func() [][]byte

// requestUnits renders a request as an ordered list of units.
func (g *sgen) requestUnits(r reqGen, rd render) []unit {
	p := g.p
	hasBody := len(r.body) > 0
	hasTrailers := len(r.trailers) > 0
	var us []unit
	us = append(us, func() [][]byte {
		var ep *prng
		if !rd.plain {
			ep = p
		}
		block := g.enc.block(ep, r.headerList())
		return headerFrames(p, g.enc, r.sid, block, !hasBody && !hasTrailers, rd)
	})
	if hasBody {
		chunk := rd.chunk
		if chunk <= 0 {
			chunk = len(r.body)
		}
		for off := 0; off < len(r.body); off += chunk {
			end := off + chunk
			if end > len(r.body) {
				end = len(r.body)
			}
			last := end == len(r.body)
			piece := r.body[off:end]
			if rd.emptyData && p.chance(1, 3) {
				sid := r.sid
				us = append(us, func() [][]byte { return [][]byte{frameBytes(0, 0, sid, nil)} })
			}
			flags := byte(0)
			if last && !hasTrailers {
				flags |= 1
			}
			payload := piece
			if rd.padData >= 0 {
				flags |= 8
				payload = padded(piece, rd.padData)
			}
			fb := frameBytes(0, flags, r.sid, payload)
			us = append(us, func() [][]byte { return [][]byte{fb} })
		}
	}
	if hasTrailers {
		us = append(us, func() [][]byte {
			var ep *prng
			if !rd.plain {
				ep = p
			}
			block := g.enc.block(ep, r.trailers)
			rd2 := rd
			rd2.splits = 0 // trailers in one frame (continued trailers: see srv-state)
			rd2.prio = false
			return headerFrames(p, g.enc, r.sid, block, true, rd2)
		})
	}
	return us
}

// interleave merges the unit lists of several requests, keeping each list's
// order, and emits the frames one op per frame.
func (g *sgen) interleave(lists [][]unit, inOrder bool) {
	idx := make([]int, len(lists))
	for {
		var live []int
		for i := range lists {
			if idx[i] < len(lists[i]) {
				live = append(live, i)
			}
		}
		if len(live) == 0 {
			return
		}
		pick := live[0]
		if !inOrder {
			pick = live[g.p.intn(len(live))]
		}
		for _, fr := range lists[pick][idx[pick]]() {
			g.frame(fr)
		}
		idx[pick]++
	}
}

// multiplex opens n requests and interleaves their units; request i's units are
// built by mk once its stream id is known (ids increase in opening order).
func (g *sgen) multiplex(n int, mk func(sid uint32) []unit, inOrder bool) []uint32 {
	var sids []uint32
	lists := make([][]unit, 0, n)
	idx := []int{}
	unopened := n
	for {
		var live []int
		for i := range lists {
			if idx[i] < len(lists[i]) {
				live = append(live, i)
			}
		}
		if len(live) == 0 && unopened == 0 {
			return sids
		}
		openNew := unopened > 0 && (len(live) == 0 || (!inOrder && g.p.chance(1, 3)))
		if inOrder && len(live) > 0 {
			openNew = false
		}
		if openNew {
			sid := g.sid()
			sids = append(sids, sid)
			lists = append(lists, mk(sid))
			idx = append(idx, 0)
			unopened--
			live = []int{len(lists) - 1}
		}
		pick := live[0]
		if !inOrder && !openNew {
			pick = live[g.p.intn(len(live))]
		}
		for _, fr := range lists[pick][idx[pick]]() {
			g.frame(fr)
		}
		idx[pick]++
	}
}

var safeNames = []string{"x-a", "x-b", "x-long-header-name", "accept", "accept-encoding", "cache-control", "x-id", "referer", "if-none-match", "via", "x-empty"}
var safeValues = []string{"", "1", "gzip, deflate", "a value with spaces", "v", "0123456789abcdef0123456789abcdef", "no-cache", "*/*"}

func (g *sgen) randFields(n int) []kv {
	var fs []kv
	for i := 0; i < n; i++ {
		f := kv{k: g.p.pick(safeNames), v: g.p.pick(safeValues)}
		if g.p.chance(1, 8) {
			f.v = string(g.p.bytes(1 + g.p.intn(6)))
			b := []byte(f.v)
			for j := range b {
				b[j] = 33 + b[j]%90
			}
			f.v = string(b)
		}
		if g.p.chance(1, 10) {
			f.sens = true
		}
		fs = append(fs, f)
	}
	if g.p.chance(1, 4) {
		fs = append(fs, kv{k: "user-agent", v: "ua/" + fmt.Sprint(g.p.intn(3))})
	}
	if g.p.chance(1, 4) {
		fs = append(fs, kv{k: "content-type", v: "text/x" + fmt.Sprint(g.p.intn(3))})
	}
	return fs
}

func (g *sgen) randRequest(sid uint32) reqGen {
	p := g.p
	r := reqGen{sid: sid, method: p.pick([]string{"GET", "POST", "PUT", "DELETE", "HEAD"}), scheme: p.pick([]string{"https", "http"}),
		path: p.pick([]string{"/", "/index.html", "/a/b?c=d", "/x"}), auth: p.pick([]string{"example.com", "h:8443", "a"})}
	r.fields = g.randFields(p.intn(5))
	if p.chance(1, 2) {
		n := p.intn(60)
		if p.chance(1, 6) {
			n = 200 + p.intn(3000)
		}
		r.body = p.bytes(n)
		if p.chance(1, 3) && n > 0 {
			r.fields = append(r.fields, kv{k: "content-length", v: fmt.Sprint(n)})
		}
		if p.chance(1, 4) {
			r.trailers = []kv{{k: "x-trailer", v: "t"}}
		}
	}
	return r
}

func (g *sgen) randResp() respGen {
	p := g.p
	r := respGen{status: []int{200, 200, 204, 404, 500, 201, 302}[p.intn(7)], body: "none"}
	if r.status == 204 { // a 204 has no body: fasthttp ignores its length, the handler contract excludes it
		return r
	}
	for i := p.intn(3); i > 0; i-- {
		r.hdr = append(r.hdr, kv{k: p.pick([]string{"x-r", "cache-control", "x-resp-long-name", "etag", "vary"}), v: p.pick(safeValues)})
	}
	switch p.intn(6) {
	case 0:
	case 1, 2:
		r.body = fmt.Sprintf("pat:%d", 1+p.intn(200))
	case 3:
		r.body = fmt.Sprintf("pat:%d", 1+p.intn(40000))
	case 4: // streamed, declared length
		n1, n2 := 1+p.intn(300), 1+p.intn(300)
		r.body = fmt.Sprintf("stream:%d:%d.%d:%s", n1+n2, n1, n2, p.pick([]string{"e", "E"}))
	case 5: // streamed, unknown length
		n1 := 1 + p.intn(300)
		r.body = fmt.Sprintf("stream:-1:%d:%s", n1, p.pick([]string{"e", "E"}))
	}
	return r
}

// ---- families ----------------------------------------------------------

// srv-basic (C01): sets of well-formed requests under every rendering choice,
// any interleaving, any completion order, every response shape.
func genSrvBasic(p *prng, thorough bool, w *bufio.Writer) {
	g := newSgen(p, w)
	rounds := 60
	if thorough {
		rounds = 600
	}
	for c := 0; c < rounds; c++ {
		mcs := 2 + p.intn(6)
		g.newConn(mcs, 0, 0)
		g.settings()
		g.settingsAck()
		if p.chance(1, 2) {
			g.windowUpdate(0, 1<<20)
		}
		for batch := 0; batch < 1+p.intn(3); batch++ {
			n := 1 + p.intn(mcs)
			// stream ids must increase in the order the streams are opened, so the
			// requests are numbered in the order their first frame goes out
			sids := g.multiplex(n, func(sid uint32) []unit { return g.requestUnits(g.randRequest(sid), g.randRender()) }, p.chance(1, 4))
			// completion in any order
			for len(sids) > 0 {
				i := p.intn(len(sids))
				g.done(sids[i], g.randResp())
				if p.chance(1, 3) {
					g.windowUpdate(sids[i], 70000)
				}
				sids = append(sids[:i], sids[i+1:]...)
			}
			g.windowUpdate(0, 200000)
			g.gauges()
		}
	}
	g.line("srv %s end", g.id)
}

func init() {
	srvGens["srv-basic"] = genSrvBasic
}
