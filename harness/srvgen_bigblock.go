package main

// Responses whose header block does not fit one frame (finding F33, repaired: the write loop cuts a block at 16384
// octets into HEADERS + CONTINUATION). Appended to srv-settings (C18: every frame within the peer's MAX_FRAME_SIZE),
// srv-basic (C01: the fields the peer decodes from the reassembled block are the handler's) and srv-acct.

import "fmt"

// bigValue: n octets over characters whose Huffman code is 8 bits long (RFC 7541 Appendix B: & * X Z), so the encoder
// gains nothing by Huffman coding and the block grows by exactly one octet per octet of value; the content varies, so
// fragments that were lost, repeated or swapped would decode to another value.
func bigValue(p *prng, n int) string {
	const cs = "XZ*&"
	b := make([]byte, n)
	for i := range b {
		b[i] = cs[p.intn(len(cs))]
	}
	return string(b)
}

// bigValueLen: the length of the x-big value that makes the response block (":status 200", content-length of one digit,
// the default content-type, x-a: 1, x-big, x-z: 2) `total` octets long: 46 octets for everything else plus the length
// prefix of the value (7-bit prefix integer); `fixed` is that 46, or 49 with a content-length of five digits. Measured against the code; the targets are swept +-3 around it, so a small
// change of the fixed part still leaves the boundaries covered (the coverage record lists the block sizes seen).
func bigValueLen(total, fixed int) int {
	for _, pre := range []int{1, 2, 3, 4} {
		l := total - fixed - pre
		var need int
		switch {
		case l < 127:
			need = 1
		case l < 127+128:
			need = 2
		case l < 127+16384:
			need = 3
		default:
			need = 4
		}
		if need == pre {
			return l
		}
	}
	return total - fixed - 4
}

// bigBlockResp: one request answered with a header block of `total` octets; body none (END_STREAM on the HEADERS frame,
// which the CONTINUATION frames follow) or a body
func (g *sgen) bigBlockResp(total int, body string) {
	sid := g.sid()
	g.simpleReq(sid, "GET", nil)
	fixed := 46
	if body == "pat:20000" {
		fixed = 49 // content-length of five digits instead of one
	}
	hdr := []kv{{k: "x-a", v: "1"}, {k: "x-big", v: bigValue(g.p, bigValueLen(total, fixed))}, {k: "x-z", v: "2"}}
	g.done(sid, respGen{status: 200, hdr: hdr, body: body})
	if body != "none" {
		g.windowUpdate(0, 1<<20)
		g.windowUpdate(sid, 1<<20)
	}
}

// bigBlocks: block sizes around one and two frames and a three-frame block, with and without a body, then blocks made of
// several large fields (the cuts fall inside different fields)
func (g *sgen) bigBlocks(full bool) {
	targets := []int{16383, 16384, 16385, 32768, 32769, 40000}
	if full {
		targets = nil
		for _, t := range []int{16384, 32768} {
			for d := -3; d <= 3; d++ {
				targets = append(targets, t+d)
			}
		}
		targets = append(targets, 40000, 49152, 49153)
	}
	for i, t := range targets {
		body := []string{"none", "pat:5", "none", "pat:20000"}[i%4]
		if t >= 40000 {
			body = []string{"pat:20000", "none"}[i%2]
		}
		g.bigBlockResp(t, body)
	}
	for _, n := range []int{4, 9} {
		sid := g.sid()
		g.simpleReq(sid, "GET", nil)
		var hdr []kv
		for i := 0; i < n; i++ {
			hdr = append(hdr, kv{k: fmt.Sprintf("x-f%d", i), v: bigValue(g.p, 4400+g.p.intn(300))})
		}
		g.done(sid, respGen{status: 201, hdr: hdr, body: []string{"none", "pat:70000"}[n%2]})
		g.windowUpdate(0, 1<<20)
		g.windowUpdate(sid, 1<<20)
	}
}

// bigBlockBurst: several handlers parked, then released all at once with a three-frame header block each while PING
// and SETTINGS frames arrive without waiting (their answers are queued by the read loop, the responses by the stream
// loop): the frames of each block must still be contiguous on the wire. Not compared with the model (`burst`): the
// summary of `settle` carries the number of frames seen inside a block (hbi=) for the monitor.
func (g *sgen) bigBlockBurst(n int) {
	var sids []uint32
	for i := 0; i < n; i++ {
		sid := g.sid()
		g.frame(frameBytes(1, 5, sid, g.hdrBlock(true)))
		sids = append(sids, sid)
	}
	var burst []byte
	for i := 0; i < 6; i++ {
		burst = append(burst, frameBytes(6, 0, 0, []byte{byte(i), 1, 2, 3, 4, 5, 6, 7})...)
		if i%2 == 0 {
			burst = append(burst, frameBytes(4, 0, 0, settingsPayload(4, uint32(70000+i)))...)
		}
	}
	g.line("srv %s burst %s", g.id, hexOrDash(burst))
	g.line("srv %s doneall st=200 hdr=%s body=%s", g.id, kvHex([]kv{{k: "x-big", v: bigValue(g.p, 39000+g.p.intn(2000))}}), []string{"none", "pat:3000"}[n%2])
	g.line("srv %s burst %s", g.id, hexOrDash(burst))
	g.line("srv %s settle", g.id)
}
