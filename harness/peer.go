package main

// The scripted peer's own HPACK encoder and frame writer. They are written
// from RFC 7541 / RFC 7540 and share nothing with the code under test (the
// Huffman coder is x/net's).

import (
	"golang.org/x/net/http2/hpack"
)

type kv struct {
	k, v string
	sens bool
}

var staticTbl = [][2]string{
	{":authority", ""}, {":method", "GET"}, {":method", "POST"}, {":path", "/"}, {":path", "/index.html"},
	{":scheme", "http"}, {":scheme", "https"}, {":status", "200"}, {":status", "204"}, {":status", "206"},
	{":status", "304"}, {":status", "400"}, {":status", "404"}, {":status", "500"}, {"accept-charset", ""},
	{"accept-encoding", "gzip, deflate"}, {"accept-language", ""}, {"accept-ranges", ""}, {"accept", ""},
	{"access-control-allow-origin", ""}, {"age", ""}, {"allow", ""}, {"authorization", ""}, {"cache-control", ""},
	{"content-disposition", ""}, {"content-encoding", ""}, {"content-language", ""}, {"content-length", ""},
	{"content-location", ""}, {"content-range", ""}, {"content-type", ""}, {"cookie", ""}, {"date", ""}, {"etag", ""},
	{"expect", ""}, {"expires", ""}, {"from", ""}, {"host", ""}, {"if-match", ""}, {"if-modified-since", ""},
	{"if-none-match", ""}, {"if-range", ""}, {"if-unmodified-since", ""}, {"last-modified", ""}, {"link", ""},
	{"location", ""}, {"max-forwards", ""}, {"proxy-authenticate", ""}, {"proxy-authorization", ""}, {"range", ""},
	{"referer", ""}, {"refresh", ""}, {"retry-after", ""}, {"server", ""}, {"set-cookie", ""},
	{"strict-transport-security", ""}, {"transfer-encoding", ""}, {"user-agent", ""}, {"vary", ""}, {"via", ""},
	{"www-authenticate", ""},
}

type peerEnc struct {
	dyn     [][2]string // newest first
	maxSize int
	starts  []int // offsets at which the representations of the last block start
}

func newPeerEnc() *peerEnc { return &peerEnc{maxSize: 4096} }

func (e *peerEnc) size() int {
	n := 0
	for _, x := range e.dyn {
		n += len(x[0]) + len(x[1]) + 32
	}
	return n
}

func (e *peerEnc) evict() {
	for e.size() > e.maxSize && len(e.dyn) > 0 {
		e.dyn = e.dyn[:len(e.dyn)-1]
	}
}

func (e *peerEnc) insert(k, v string) {
	e.dyn = append([][2]string{{k, v}}, e.dyn...)
	e.evict()
}

func appendVarint(dst []byte, n uint, first byte, v uint64) []byte {
	max := uint64(1)<<n - 1
	if v < max {
		return append(dst, first|byte(v))
	}
	dst = append(dst, first|byte(max))
	v -= max
	for v >= 128 {
		dst = append(dst, byte(v&127)|128)
		v >>= 7
	}
	return append(dst, byte(v))
}

func appendStr(dst []byte, s string, huff bool) []byte {
	if huff {
		dst = appendVarint(dst, 7, 0x80, hpack.HuffmanEncodeLength(s))
		return hpack.AppendHuffmanString(dst, s)
	}
	dst = appendVarint(dst, 7, 0, uint64(len(s)))
	return append(dst, s...)
}

// find returns (index of a full match, index of a name match); 0 = none.
func (e *peerEnc) find(k, v string) (full, name int) {
	for i, x := range staticTbl {
		if x[0] == k {
			if name == 0 {
				name = i + 1
			}
			if x[1] == v && full == 0 {
				full = i + 1
			}
		}
	}
	for i, x := range e.dyn {
		if x[0] == k {
			if name == 0 {
				name = 62 + i
			}
			if x[1] == v && full == 0 {
				full = 62 + i
			}
		}
	}
	return
}

// sizeUpdate emits a dynamic table size update (must be at the start of a block).
func (e *peerEnc) sizeUpdate(dst []byte, n int) []byte {
	e.maxSize = n
	e.evict()
	return appendVarint(dst, 5, 0x20, uint64(n))
}

// field encodes one field with a representation chosen by p (nil = plain
// literal without indexing, raw strings).
func (e *peerEnc) field(dst []byte, p *prng, f kv) []byte {
	start := len(dst)
	dst = e.field1(dst, p, f, false)
	if avoidF01 && isF01(dst[start:]) {
		// undo the table insertion a literal with incremental indexing made
		if len(e.dyn) > 0 && dst[start]&0xc0 == 0x40 {
			e.dyn = e.dyn[1:]
		}
		dst = e.field1(dst[:start], p, f, true)
	}
	return dst
}

// avoidF01 keeps the peer from emitting literals whose value-length octet equals
// their first octet (known decoder defect F01) in scripts that are not about it.
var avoidF01 = false

// isF01 reports whether a literal representation has a value-length octet equal
// to its first octet.
func isF01(rep []byte) bool {
	if len(rep) == 0 || rep[0]&0x80 != 0 || rep[0]&0xe0 == 0x20 {
		return false
	}
	c := rep[0]
	n := uint(4)
	if c&0xc0 == 0x40 {
		n = 6
	}
	rest := rep[1:]
	if c&(1<<n-1) == 0 { // literal name: skip the string
		l, r, ok := readVarint(7, rest)
		if !ok || uint64(len(r)) < l {
			return false
		}
		rest = r[l:]
	} else if c&(1<<n-1) == 1<<n-1 {
		_, r, ok := readVarint(n, rep)
		if !ok {
			return false
		}
		rest = r
	}
	return len(rest) > 0 && rest[0] == c
}

func readVarint(n uint, b []byte) (uint64, []byte, bool) {
	if len(b) == 0 {
		return 0, nil, false
	}
	max := uint64(1)<<n - 1
	v := uint64(b[0]) & max
	b = b[1:]
	if v < max {
		return v, b, true
	}
	shift := uint(0)
	for len(b) > 0 {
		c := b[0]
		b = b[1:]
		v += uint64(c&127) << shift
		shift += 7
		if c&128 == 0 {
			return v, b, true
		}
	}
	return 0, nil, false
}

func (e *peerEnc) field1(dst []byte, p *prng, f kv, forceHuffV bool) []byte {
	full, name := e.find(f.k, f.v)
	mode := 1 // 0 indexed, 1 without indexing, 2 incremental, 3 never
	useName, huffK, huffV := false, false, false
	if p != nil {
		huffK, huffV = p.chance(1, 2), p.chance(1, 2)
		useName = name != 0 && p.chance(3, 4)
		if forceHuffV {
			huffV = true
		}
		switch {
		case f.sens:
			mode = 3
		case full != 0 && p.chance(2, 3):
			mode = 0
		default:
			mode = []int{1, 2, 2, 3}[p.intn(4)]
		}
	} else if f.sens {
		mode = 3
	}
	if p == nil && forceHuffV {
		huffV = true
	}
	switch mode {
	case 0:
		return appendVarint(dst, 7, 0x80, uint64(full))
	case 2:
		if useName {
			dst = appendVarint(dst, 6, 0x40, uint64(name))
		} else {
			dst = append(dst, 0x40)
			dst = appendStr(dst, f.k, huffK)
		}
		dst = appendStr(dst, f.v, huffV)
		e.insert(f.k, f.v)
		return dst
	}
	first := byte(0)
	if mode == 3 {
		first = 0x10
	}
	if useName {
		dst = appendVarint(dst, 4, first, uint64(name))
	} else {
		dst = append(dst, first)
		dst = appendStr(dst, f.k, huffK)
	}
	return appendStr(dst, f.v, huffV)
}

func (e *peerEnc) block(p *prng, fs []kv) []byte {
	var b []byte
	e.starts = e.starts[:0]
	for _, f := range fs {
		e.starts = append(e.starts, len(b))
		b = e.field(b, p, f)
	}
	return b
}

// avoidF48 keeps header-block cuts away from the octet after a literal-name
// representation octet (known decoder defect: the block is then rejected).
var avoidF48 = false

func (e *peerEnc) badCut(block []byte, c int) bool {
	if !avoidF48 {
		return false
	}
	for _, s := range e.starts {
		if c == s+1 && (block[s] == 0x00 || block[s] == 0x10 || block[s] == 0x40) {
			return true
		}
	}
	return false
}

// frame writer
func frameBytes(typ, flags byte, sid uint32, payload []byte) []byte {
	l := len(payload)
	b := []byte{byte(l >> 16), byte(l >> 8), byte(l), typ, flags, byte(sid >> 24), byte(sid >> 16), byte(sid >> 8), byte(sid)}
	return append(b, payload...)
}

func u32(v uint32) []byte { return []byte{byte(v >> 24), byte(v >> 16), byte(v >> 8), byte(v)} }

func settingsPayload(pairs ...uint32) []byte {
	var b []byte
	for i := 0; i+1 < len(pairs); i += 2 {
		b = append(b, byte(pairs[i]>>8), byte(pairs[i]))
		b = append(b, u32(pairs[i+1])...)
	}
	return b
}

// padded wraps a payload with a pad-length octet and zero padding.
func padded(payload []byte, pad int) []byte {
	b := append([]byte{byte(pad)}, payload...)
	return append(b, make([]byte, pad)...)
}
