package main

// owned by the frame area (C05, C16)
//
//	frame.parse max=<n|d> <hex>   read one frame with ReadFrameFromWithSize (max=d: ReadFrameFrom)
//	    → ok <frame> consumed=<n> pool=<counts> anom=<list> :: xnet=<x/net's reading of the same octets>
//	frame.reuse max=<n|d> <hex>   read, then acquire two bodies of that type: same object twice?
//	frame.spec max=<n> <hex>      x/net's reading only (the Lean side answers with the RFC grammar)
//	frame.write <TYPE> s= fl= pad= k=v…   build through the setters, WriteTo → ok <hex> :: xnet=<reading>
//	    pad=<n>: 0 no padding, 9..255 SetPadding(true) and the pad length AddPadding is to draw (DATA, HEADERS,
//	    PUSH_PROMISE); PUSH_PROMISE: promised=<id> eh=<0|1> frag=<hex>

import (
	"bufio"
	"bytes"
	"errors"
	"fmt"
	"io"
	"strconv"
	"strings"

	http2 "github.com/dgrr/http2"
	xh2 "golang.org/x/net/http2"
)

func frB01(b bool) string {
	if b {
		return "1"
	}
	return "0"
}

type frSettingsCanon struct {
	ts, mcs, ws, fs, hs uint32
	push                bool
}

func frDefaultSettingsCanon() frSettingsCanon {
	return frSettingsCanon{ts: 4096, mcs: 100, ws: 65535, fs: 16384}
}

func (s frSettingsCanon) String(ack bool) string {
	return fmt.Sprintf("SETTINGS ack=%s ts=%d push=%s mcs=%d ws=%d fs=%d hs=%d", frB01(ack), s.ts, frB01(s.push), s.mcs, s.ws, s.fs, s.hs)
}

// canonImpl prints a frame read (or built) by the code under test.
func frCanonImpl(fr *http2.FrameHeader) string {
	var s string
	switch b := fr.Body().(type) {
	case *http2.Data:
		s = fmt.Sprintf("DATA es=%s data=%s", frB01(b.EndStream()), hexOrDash(b.Data()))
	case *http2.Headers:
		has, dep, w := http2.VerifHeadersPriority(b)
		p := "-"
		if has {
			p = fmt.Sprintf("%d/%d", dep, w)
		}
		s = fmt.Sprintf("HEADERS es=%s eh=%s prio=%s frag=%s", frB01(b.EndStream()), frB01(b.EndHeaders()), p, hexOrDash(b.Headers()))
	case *http2.Priority:
		s = fmt.Sprintf("PRIORITY dep=%d w=%d", b.Stream(), b.Weight())
	case *http2.RstStream:
		s = fmt.Sprintf("RST_STREAM code=%d", uint32(b.Code()))
	case *http2.Settings:
		c := frSettingsCanon{ts: b.HeaderTableSize(), push: b.Push(), mcs: b.MaxConcurrentStreams(), ws: b.MaxWindowSize(), fs: b.MaxFrameSize(), hs: b.MaxHeaderListSize()}
		s = c.String(b.IsAck())
	case *http2.PushPromise:
		st, ended, h := http2.VerifPushPromise(b)
		s = fmt.Sprintf("PUSH_PROMISE promised=%d eh=%s frag=%s", st, frB01(ended), hexOrDash(h))
	case *http2.Ping:
		s = fmt.Sprintf("PING ack=%s data=%s", frB01(b.IsAck()), hexOrDash(b.Data()))
	case *http2.GoAway:
		s = fmt.Sprintf("GOAWAY last=%d code=%d debug=%s", b.Stream(), uint32(b.Code()), hexOrDash(b.Data()))
	case *http2.WindowUpdate:
		s = fmt.Sprintf("WINDOW_UPDATE inc=%d", b.Increment())
	case *http2.Continuation:
		s = fmt.Sprintf("CONTINUATION eh=%s frag=%s", frB01(b.EndHeaders()), hexOrDash(b.Headers()))
	default:
		s = "NOBODY"
	}
	return fmt.Sprintf("%s s=%d fl=%d len=%d", s, fr.Stream(), uint8(fr.Flags()), fr.Len())
}

// canonX prints x/net's reading of b in the same form.
func frCanonX(max uint32, b []byte) string {
	rd := bytes.NewReader(b)
	var src io.Reader = rd
	cont := len(b) >= 9 && b[3] == 9 && (b[5]&0x7f != 0 || b[6] != 0 || b[7] != 0 || b[8] != 0)
	if cont {
		// x/net's reader tracks the frame order: open a header block on that stream first
		src = io.MultiReader(bytes.NewReader([]byte{0, 0, 0, 1, 0, b[5] & 0x7f, b[6], b[7], b[8]}), rd)
	}
	f := xh2.NewFramer(io.Discard, src)
	if max == 0 || max > 1<<24-1 {
		max = 1<<24 - 1
	}
	f.SetMaxReadFrameSize(max)
	fr, err := f.ReadFrame()
	if cont && err == nil {
		fr, err = f.ReadFrame()
	}
	if err != nil {
		var ce xh2.ConnectionError
		var se xh2.StreamError
		switch {
		case errors.Is(err, xh2.ErrFrameTooLarge):
			return "malformed code=6"
		case errors.As(err, &ce):
			return fmt.Sprintf("malformed code=%d", uint32(ce))
		case errors.As(err, &se):
			return fmt.Sprintf("malformed code=%d", uint32(se.Code))
		}
		if len(b) >= 9 {
			l := int(b[0])<<16 | int(b[1])<<8 | int(b[2])
			if len(b) >= 9+l {
				return "malformed code=x"
			}
		}
		return "incomplete"
	}
	h := fr.Header()
	var s string
	switch x := fr.(type) {
	case *xh2.DataFrame:
		s = fmt.Sprintf("DATA es=%s data=%s", frB01(x.StreamEnded()), hexOrDash(x.Data()))
	case *xh2.HeadersFrame:
		p := "-"
		if x.HasPriority() {
			p = fmt.Sprintf("%d/%d", x.Priority.StreamDep, x.Priority.Weight)
		}
		s = fmt.Sprintf("HEADERS es=%s eh=%s prio=%s frag=%s", frB01(x.StreamEnded()), frB01(x.HeadersEnded()), p, hexOrDash(x.HeaderBlockFragment()))
	case *xh2.PriorityFrame:
		s = fmt.Sprintf("PRIORITY dep=%d w=%d", x.StreamDep, x.Weight)
	case *xh2.RSTStreamFrame:
		s = fmt.Sprintf("RST_STREAM code=%d", uint32(x.ErrCode))
	case *xh2.SettingsFrame:
		c := frDefaultSettingsCanon()
		for i := 0; i < x.NumSettings(); i++ {
			st := x.Setting(i)
			switch st.ID {
			case 1:
				c.ts = st.Val
			case 2:
				c.push = st.Val != 0
			case 3:
				c.mcs = st.Val
			case 4:
				c.ws = st.Val
			case 5:
				c.fs = st.Val
			case 6:
				c.hs = st.Val
			}
		}
		s = c.String(x.IsAck())
	case *xh2.PushPromiseFrame:
		s = fmt.Sprintf("PUSH_PROMISE promised=%d eh=%s frag=%s", x.PromiseID, frB01(x.HeadersEnded()), hexOrDash(x.HeaderBlockFragment()))
	case *xh2.PingFrame:
		s = fmt.Sprintf("PING ack=%s data=%s", frB01(x.IsAck()), hexOrDash(x.Data[:]))
	case *xh2.GoAwayFrame:
		s = fmt.Sprintf("GOAWAY last=%d code=%d debug=%s", x.LastStreamID, uint32(x.ErrCode), hexOrDash(x.DebugData()))
	case *xh2.WindowUpdateFrame:
		s = fmt.Sprintf("WINDOW_UPDATE inc=%d", x.Increment)
	case *xh2.ContinuationFrame:
		s = fmt.Sprintf("CONTINUATION eh=%s frag=%s", frB01(x.HeadersEnded()), hexOrDash(x.HeaderBlockFragment()))
	default:
		return fmt.Sprintf("ignored t=%d len=%d rest=%d", uint8(h.Type), h.Length, rd.Len())
	}
	return fmt.Sprintf("frame %s s=%d fl=%d len=%d rest=%d", s, h.StreamID, uint8(h.Flags), h.Length, rd.Len())
}

func frParseMax(tok string) (max uint32, useFrom bool, ok bool) {
	if !strings.HasPrefix(tok, "max=") {
		return 0, false, false
	}
	v := tok[4:]
	if v == "d" {
		return 1 << 14, true, true
	}
	n, err := strconv.ParseUint(v, 10, 32)
	if err != nil {
		return 0, false, false
	}
	return uint32(n), false, true
}

func frErrKind(err error) string {
	if err == http2.ErrPayloadExceeds {
		return "too-large"
	}
	if code, goAway, ok := http2.VerifErrorInfo(err); ok {
		if goAway {
			return fmt.Sprintf("goaway:%d", uint32(code))
		}
		return fmt.Sprintf("stream:%d", uint32(code))
	}
	if errors.Is(err, io.EOF) || errors.Is(err, io.ErrUnexpectedEOF) || errors.Is(err, bufio.ErrBufferFull) {
		return "io"
	}
	return "plain"
}

func frPoolString(extra []string) string {
	an, _, acq, rel := http2.VerifPoolReport()
	all := append([]string(nil), extra...)
	for _, a := range an {
		all = append(all, strings.ReplaceAll(a, " ", "-"))
	}
	s := "-"
	if len(all) > 0 {
		s = strings.Join(all, ",")
	}
	return fmt.Sprintf("pool=%d.%d.%d.%d anom=%s", acq["frameHeader"], acq["frame"], rel["frameHeader"], rel["frame"], s)
}

func frReadOne(max uint32, useFrom bool, b []byte) (fr *http2.FrameHeader, err error, consumed int) {
	cr := bytes.NewReader(b)
	br := bufio.NewReaderSize(cr, 4096)
	if useFrom {
		fr, err = http2.ReadFrameFrom(br)
	} else {
		fr, err = http2.ReadFrameFromWithSize(br, max)
	}
	return fr, err, len(b) - cr.Len() - br.Buffered()
}

func runFrameParse(f []string) (res string) {
	max, useFrom, ok := frParseMax(f[1])
	b, ok2 := unhex(f[2])
	if !ok || !ok2 {
		return "bad-op"
	}
	http2.VerifPoolTrack(true)
	defer http2.VerifPoolTrack(false)
	fr, err, consumed := frReadOne(max, useFrom, b)
	var main string
	switch {
	case err == nil && fr != nil:
		main = fmt.Sprintf("ok %s consumed=%d", frCanonImpl(fr), consumed)
	case err == nil:
		main = "nil-nil"
	case errors.Is(err, http2.ErrUnknownFrameType):
		main = fmt.Sprintf("unknown consumed=%d", consumed)
	default:
		main = fmt.Sprintf("err %s consumed=%d", frErrKind(err), consumed)
	}
	pool := frPoolString(nil)
	if fr != nil {
		// what every consumer does with a frame it was handed
		an0, _, _, _ := http2.VerifPoolReport()
		http2.ReleaseFrameHeader(fr)
		an1, _, _, _ := http2.VerifPoolReport()
		if len(an1) > len(an0) {
			var late []string
			for _, a := range an1[len(an0):] {
				late = append(late, "late:"+strings.ReplaceAll(a, " ", "-"))
			}
			if strings.HasSuffix(pool, "anom=-") {
				pool = strings.TrimSuffix(pool, "-") + strings.Join(late, ",")
			} else {
				pool += "," + strings.Join(late, ",")
			}
		}
	}
	xmax := max
	return main + " " + pool + " :: xnet=" + frCanonX(xmax, b)
}

func runFrameReuse(f []string) string {
	max, useFrom, ok := frParseMax(f[1])
	b, ok2 := unhex(f[2])
	if !ok || !ok2 {
		return "bad-op"
	}
	http2.VerifPoolTrack(true)
	defer http2.VerifPoolTrack(false)
	fr, _, _ := frReadOne(max, useFrom, b)
	if fr != nil {
		http2.ReleaseFrameHeader(fr)
	}
	if len(b) < 9 || b[3] > 9 {
		return "reuse=0"
	}
	t := http2.FrameType(b[3])
	x := http2.AcquireFrame(t)
	y := http2.AcquireFrame(t)
	same := x == y
	an, _, _, _ := http2.VerifPoolReport()
	for _, a := range an {
		if strings.HasPrefix(a, "two-owners") {
			same = true
		}
	}
	// hand back fresh objects so that the duplicate does not linger for later operations
	http2.VerifPoolTrack(false)
	if !same {
		http2.ReleaseFrame(x)
		http2.ReleaseFrame(y)
	}
	return "reuse=" + frB01(same)
}

func frKvGet(a []string, k string) (string, bool) {
	for _, x := range a {
		if strings.HasPrefix(x, k+"=") {
			return x[len(k)+1:], true
		}
	}
	return "", false
}

func frKvNat(a []string, k string) uint64 {
	v, ok := frKvGet(a, k)
	if !ok {
		return 0
	}
	n, _ := strconv.ParseUint(v, 10, 64)
	return n
}

func frKvHex(a []string, k string) []byte {
	v, ok := frKvGet(a, k)
	if !ok {
		return nil
	}
	b, _ := unhex(v)
	return b
}

// frPPSetters: the setters of PushPromise are looked up on the value, so that the harness also builds against a
// library whose PushPromise has none of them (the frame is then written with whatever could be set, and the
// comparison with the model and the monitors report what is missing on the wire).
type frPPStream interface{ SetStream(uint32) }
type frPPEndHeaders interface{ SetEndHeaders(bool) }
type frPPPadding interface{ SetPadding(bool) }

// buildAndWrite builds the frame through the public setters and writes it. settable=false: a field the operation
// asks for has no setter, rebuilding will not change the outcome.
func frBuildAndWrite(t string, a []string, padded bool) (out []byte, ok bool, settable bool) {
	settable = true
	fr := http2.AcquireFrameHeader()
	defer http2.ReleaseFrameHeader(fr)
	fr.SetStream(uint32(frKvNat(a, "s")))
	fr.SetFlags(http2.FrameFlags(uint8(frKvNat(a, "fl"))))
	switch t {
	case "DATA":
		d := http2.AcquireFrame(http2.FrameData).(*http2.Data)
		d.SetEndStream(frKvNat(a, "es") != 0)
		d.SetData(frKvHex(a, "data"))
		d.SetPadding(padded)
		fr.SetBody(d)
	case "HEADERS":
		h := http2.AcquireFrame(http2.FrameHeaders).(*http2.Headers)
		h.SetEndStream(frKvNat(a, "es") != 0)
		h.SetEndHeaders(frKvNat(a, "eh") != 0)
		h.SetHeaders(frKvHex(a, "frag"))
		if frKvNat(a, "prio") != 0 {
			http2.VerifSetHeadersPriority(h, true)
			h.SetStream(uint32(frKvNat(a, "dep")))
			h.SetWeight(uint8(frKvNat(a, "w")))
		}
		h.SetPadding(padded)
		fr.SetBody(h)
	case "PRIORITY":
		p := http2.AcquireFrame(http2.FramePriority).(*http2.Priority)
		p.SetStream(uint32(frKvNat(a, "dep")))
		p.SetWeight(uint8(frKvNat(a, "w")))
		fr.SetBody(p)
	case "RST_STREAM":
		r := http2.AcquireFrame(http2.FrameResetStream).(*http2.RstStream)
		r.SetCode(http2.ErrorCode(frKvNat(a, "code")))
		fr.SetBody(r)
	case "SETTINGS":
		st := http2.AcquireFrame(http2.FrameSettings).(*http2.Settings)
		st.SetAck(frKvNat(a, "ack") != 0)
		st.SetHeaderTableSize(uint32(frKvNat(a, "ts")))
		st.SetPush(frKvNat(a, "push") != 0)
		st.SetMaxConcurrentStreams(uint32(frKvNat(a, "mcs")))
		st.SetMaxWindowSize(uint32(frKvNat(a, "ws")))
		st.SetMaxFrameSize(uint32(frKvNat(a, "fs")))
		st.SetMaxHeaderListSize(uint32(frKvNat(a, "hs")))
		fr.SetBody(st)
	case "PUSH_PROMISE":
		pp := http2.AcquireFrame(http2.FramePushPromise).(*http2.PushPromise)
		var ppv interface{} = pp
		if x, has := ppv.(frPPStream); has {
			x.SetStream(uint32(frKvNat(a, "promised")))
		} else if frKvNat(a, "promised") != 0 {
			settable = false
		}
		if x, has := ppv.(frPPEndHeaders); has {
			x.SetEndHeaders(frKvNat(a, "eh") != 0)
		} else if frKvNat(a, "eh") != 0 {
			settable = false
		}
		if x, has := ppv.(frPPPadding); has {
			x.SetPadding(padded)
		} else if padded {
			settable = false
		}
		pp.SetHeader(frKvHex(a, "frag"))
		fr.SetBody(pp)
	case "PING":
		p := http2.AcquireFrame(http2.FramePing).(*http2.Ping)
		p.SetAck(frKvNat(a, "ack") != 0)
		p.SetData(frKvHex(a, "data"))
		fr.SetBody(p)
	case "GOAWAY":
		g := http2.AcquireFrame(http2.FrameGoAway).(*http2.GoAway)
		g.SetStream(uint32(frKvNat(a, "last")))
		g.SetCode(http2.ErrorCode(frKvNat(a, "code")))
		g.SetData(frKvHex(a, "debug"))
		fr.SetBody(g)
	case "WINDOW_UPDATE":
		wu := http2.AcquireFrame(http2.FrameWindowUpdate).(*http2.WindowUpdate)
		wu.SetIncrement(int(frKvNat(a, "inc")))
		fr.SetBody(wu)
	case "CONTINUATION":
		c := http2.AcquireFrame(http2.FrameContinuation).(*http2.Continuation)
		c.SetEndHeaders(frKvNat(a, "eh") != 0)
		c.SetHeader(frKvHex(a, "frag"))
		fr.SetBody(c)
	default:
		return nil, false, settable
	}
	var buf bytes.Buffer
	bw := bufio.NewWriter(&buf)
	if _, err := fr.WriteTo(bw); err != nil {
		return nil, false, settable
	}
	bw.Flush()
	return buf.Bytes(), true, settable
}

func runFrameWrite(f []string) string {
	if len(f) < 2 {
		return "bad-op"
	}
	t, a := f[1], f[2:]
	pad := int(frKvNat(a, "pad"))
	var out []byte
	var ok bool
	if pad == 0 || (t != "DATA" && t != "HEADERS" && t != "PUSH_PROMISE") {
		out, ok, _ = frBuildAndWrite(t, a, false)
	} else {
		// AddPadding draws the pad length at random; rebuild until the requested one comes up
		for try := 0; try < 200000; try++ {
			var settable bool
			out, ok, settable = frBuildAndWrite(t, a, true)
			if !ok || !settable || (len(out) > 9 && int(out[9]) == pad) {
				break
			}
			ok = false
		}
		if !ok {
			return "giveup"
		}
	}
	if !ok {
		return "bad-op"
	}
	return "ok " + hexOrDash(out) + " :: xnet=" + frCanonX(0, out)
}

func runFrame(f []string) string {
	switch f[0] {
	case "frame.parse":
		if len(f) == 3 {
			return runFrameParse(f)
		}
	case "frame.reuse":
		if len(f) == 3 {
			return runFrameReuse(f)
		}
	case "frame.spec":
		if len(f) == 3 {
			max, _, ok := frParseMax(f[1])
			b, ok2 := unhex(f[2])
			if ok && ok2 {
				return frCanonX(max, b)
			}
		}
	case "frame.write":
		return runFrameWrite(f)
	}
	return "bad-op"
}
