package main

import "bufio"

// owned by the frame area (C05, C16)

func runFrame(f []string) string                      { return "bad-op" }
func genFrame(p *prng, thorough bool, w *bufio.Writer) {}
