package main

import (
	"bufio"
	"fmt"
)

// srv-hpackupd (C01): requests whose header block, or trailer block, opens with dynamic table size updates,
// cut into HEADERS + CONTINUATION at every octet of the opening and of the first fields behind it (14 octets at
// least), in three
// frames at every pair of octets of the opening, and with a frame of size updates only followed by an empty
// CONTINUATION. The shapes of the repaired findings F04 (the CONTINUATION was read from the size update
// again: GOAWAY(COMPRESSION_ERROR)) and F05 (a frame of size updates only handed on a field with an empty
// name), through the real serverConn. The same shapes for every seed; the representations of the fields are
// the seeded choice of the peer's encoder.
func genSrvHpackUpd(p *prng, thorough bool, w *bufio.Writer) {
	g := newSgen(p, w)
	prefixes := [][]int{{0}, {4096}, {0, 4096}, {100, 31}, {4096, 0, 64}}
	lateVariant := 0
	for _, pre := range prefixes {
		for _, inTrailers := range []bool{false, true} {
			g.newConn(4, 0, 0)
			g.settings()
			g.settingsAck()
			g.windowUpdate(0, 1<<20)
			// fill the table, so that the updates have something to evict
			g.simpleReq(g.sid(), "GET", nil, kv{k: "x-fill", v: "some-value"}, kv{k: "x-fill-2", v: "another"})
			g.done(g.next-2, respGen{status: 200, body: "none"})
			// one request per way of cutting; `cuts(opening, first, n)` lists the cut positions to try
			deliver := func(tag string, cutsOf func(opening, first, n int) []int) bool {
				sid := g.sid()
				r := reqGen{sid: sid, method: "GET", scheme: "https", path: "/u", auth: "a",
					fields: []kv{{k: "x-cut", v: tag}, {k: "x-a", v: "b"}}}
				if inTrailers {
					r.method = "POST"
					r.body = []byte("xyz")
					r.trailers = []kv{{k: "x-trailer", v: tag}, {k: "x-t2", v: "u"}}
				}
				g.expectLine(r)
				var block []byte
				list := r.headerList()
				if inTrailers {
					// the request's own block and body go out plainly; the trailer block is the one under test
					hb := g.enc.block(p, list)
					g.frame(frameBytes(1, 4, sid, hb))
					g.frame(frameBytes(0, 0, sid, r.body))
					list = r.trailers
				}
				for _, n := range pre {
					block = g.enc.sizeUpdate(block, n)
				}
				opening := len(block)
				fb := g.enc.block(p, list)
				first := opening + len(fb)
				if len(g.enc.starts) > 1 {
					first = opening + g.enc.starts[1]
				}
				block = append(block, fb...)
				cuts := cutsOf(opening, first, len(block))
				start, typ := 0, byte(1)
				for _, k := range append(cuts, len(block)) {
					flags := byte(0)
					if typ == 1 {
						flags |= 1 // END_STREAM
					}
					if k == len(block) {
						flags |= 4
					}
					g.frame(frameBytes(typ, flags, sid, block[start:k]))
					start, typ = k, 9
				}
				g.done(sid, respGen{status: 200, body: "none"})
				return cuts != nil
			}
			deliver("whole", func(o, f, n int) []int { return []int{} })
			for k := 1; ; k++ {
				kk := k
				if !deliver(fmt.Sprintf("c%d", k), func(o, f, n int) []int {
					if (kk > f+1 && kk > o+14) || kk >= n {
						return nil
					}
					return []int{kk}
				}) {
					break
				}
			}
			o := 0
			for _, n := range pre {
				o += len(appendVarint(nil, 5, 0x20, uint64(n)))
			}
			for k1 := 1; k1 <= o+2; k1++ {
				for k2 := k1; k2 <= o+2; k2++ {
					a, b := k1, k2
					// both cuts within the opening and the two octets behind it; k1 == k2: an empty CONTINUATION
					deliver(fmt.Sprintf("p%d-%d", k1, k2), func(_, _, n int) []int {
						if b >= n {
							return []int{}
						}
						return []int{a, b}
					})
				}
			}
			if inTrailers {
				// a trailer block that is size updates and nothing else: whole, and cut behind the first octet
				for _, cut := range []int{0, 1} {
					sid := g.sid()
					r := reqGen{sid: sid, method: "POST", scheme: "https", path: "/u", auth: "a", body: []byte("xyz"),
						fields: []kv{{k: "x-cut", v: fmt.Sprintf("e%d", cut)}}}
					g.expectLine(r)
					g.frame(frameBytes(1, 4, sid, g.enc.block(p, r.headerList())))
					g.frame(frameBytes(0, 0, sid, r.body))
					var block []byte
					for _, n := range pre {
						block = g.enc.sizeUpdate(block, n)
					}
					if cut == 0 || len(block) < 2 {
						g.frame(frameBytes(1, 5, sid, block))
					} else {
						g.frame(frameBytes(1, 1, sid, block[:cut]))
						g.frame(frameBytes(9, 4, sid, block[cut:]))
					}
					g.done(sid, respGen{status: 200, body: "none"})
				}
			}
			// last on the connection: a size update behind the block's first field, at the head of a CONTINUATION,
			// is not at the start of the block (connection error COMPRESSION_ERROR, no dispatch)
			{
				sid := g.sid()
				r := reqGen{sid: sid, method: "GET", scheme: "https", path: "/late", auth: "a"}
				g.line("#invalid-block %d", sid) // RFC 7541 4.2: a decoding error; the request must not reach the handler
				list := r.headerList()
				head := g.enc.block(p, list[:1])
				var mid []byte
				if lateVariant%4 == 3 {
					mid = g.enc.block(p, list[1:2])
					list = append(list[:1:1], list[2:]...)
				}
				tail := g.enc.sizeUpdate(nil, 4096)
				tail = append(tail, g.enc.block(p, list[1:])...)
				g.frame(frameBytes(1, 1, sid, head))
				// ... also when frames that complete no field, or another whole field, lie in between
				switch lateVariant % 4 {
				case 1:
					g.frame(frameBytes(9, 0, sid, nil)) // an empty CONTINUATION
				case 2:
					g.frame(frameBytes(9, 0, sid, nil))
					g.frame(frameBytes(9, 0, sid, nil))
				case 3:
					g.frame(frameBytes(9, 0, sid, mid)) // a CONTINUATION holding one whole field
				}
				lateVariant++
				g.frame(frameBytes(9, 4, sid, tail))
			}
			g.gauges()
		}
	}
	g.line("srv %s end", g.id)
}

func init() { srvGens["srv-hpackupd"] = genSrvHpackUpd }
