package main

import (
	"bufio"
	"fmt"
)

// clipool (C11, C12, C18, C02): requests through the pooling client's RoundTrip while the scripted servers answer,
// disclaim (GOAWAY below the stream, REFUSED_STREAM), fail half way (partial response then RST_STREAM), or hang up.
func genCliPool(p *prng, thorough bool, w *bufio.Writer) {
	n := 60
	if thorough {
		n = 600
	}
	line := func(format string, a ...interface{}) { fmt.Fprintf(w, format+"\n", a...) }
	for i := 0; i < n; i++ {
		q := p.fork()
		id := fmt.Sprintf("p%d", i)
		mcs := []int{0, 0, 1, 2, 0}[i%5]
		if mcs > 0 {
			line("pool.cl.new %s mcs=%d", id, mcs)
		} else {
			line("pool.cl.new %s", id)
		}
		var tags, open []string
		nreq := 1 + q.intn(4)
		newReq := func() {
			t := fmt.Sprintf("t%dx%d", i, len(tags))
			tags = append(tags, t)
			open = append(open, t)
			method := q.pick([]string{"GET", "POST", "PUT", "GET"})
			body := 0
			if method != "GET" && q.chance(1, 2) {
				body = 1 + q.intn(300)
			}
			line("pool.cl.rt %s %s %s %d", id, t, method, body)
		}
		for j := 0; j < nreq; j++ {
			newReq()
		}
		steps := 2 + q.intn(6)
		if i < 8 {
			steps = 0 // the fixed openings below
		}
		act := func(kind int, t string) {
			switch kind {
			case 0:
				line("pool.cl.answer %s %s %d", id, t, 200+q.intn(5))
			case 1:
				// the newest request of the connection is disclaimed (and, with it, nothing else, or everything above)
				line("pool.cl.goaway %s %s -2", id, t)
			case 2:
				line("pool.cl.goaway %s %s 0", id, t)
			case 3:
				line("pool.cl.refuse %s %s", id, t)
			case 4:
				line("pool.cl.partial %s %s %d", id, t, []int{2, 8, 11, 1}[q.intn(4)])
			case 5:
				line("pool.cl.hangup %s %s", id, t)
			case 6:
				line("pool.cl.goaway2 %s %s -2", id, t)
			}
		}
		switch i {
		case 0: // disclaimed by GOAWAY, re-sent on a new connection, which then fails it half way: not to be sent a third time
			act(1, tags[len(tags)-1])
			act(4, tags[len(tags)-1])
		case 1:
			act(3, tags[0])
			act(4, tags[0])
		case 2:
			act(5, tags[0])
		case 3:
			act(6, tags[len(tags)-1])
			act(0, tags[len(tags)-1])
		case 4:
			act(1, tags[len(tags)-1])
			act(1, tags[len(tags)-1])
			act(1, tags[len(tags)-1])
			act(1, tags[len(tags)-1])
			act(1, tags[len(tags)-1])
		case 5:
			act(2, tags[0])
			act(0, tags[0])
		case 6:
			act(1, tags[len(tags)-1])
			act(5, tags[len(tags)-1])
		case 7:
			act(4, tags[0])
			newReq()
		}
		for s := 0; s < steps; s++ {
			if q.chance(1, 5) && len(tags) < 8 {
				newReq()
				continue
			}
			t := tags[q.intn(len(tags))]
			act(q.intn(7), t)
		}
		line("pool.cl.seen %s", id)
		// everything still waiting is answered by whoever holds it now; then the outcomes
		for _, t := range tags {
			line("pool.cl.res %s %s", id, t)
		}
		for r := 0; r < 3; r++ {
			for _, t := range tags {
				line("pool.cl.answer %s %s 299", id, t)
			}
		}
		line("pool.cl.seen %s", id)
		for _, t := range tags {
			line("pool.cl.res %s %s", id, t)
		}
		line("pool.cl.end %s", id)
		for _, t := range tags {
			line("pool.cl.res %s %s", id, t)
		}
	}
}

func init() { cliGens["clipool"] = genCliPool }
