package main

// Script generators of the client area. A script is one connection: `new`,
// then requests, server frames, caller actions. The generator keeps a small
// shadow of which request went out on which stream so that the frames it writes
// land on live streams; expectations for the Spec monitors are emitted as
// comment lines (`# srv <conn> <sid> ...` = the complete response the scripted
// server sent on a stream, `# class <conn> <name>` = the script enters a
// known-finding class).

import (
	"bufio"
	"fmt"
	"sort"
	"strings"
)

type scn struct {
	w      *bufio.Writer
	id     string
	enc    *srvEnc
	p      *prng
	ntag   int
	nextID uint32
	maxStr int
	goAway bool
	open   map[uint32]string // sid -> tag, requests the client still waits on
	tags   []string
	sidOf  map[string]uint32
	upl    map[uint32]int // sid -> body length still to be granted (buffered)
	dead   bool
}

var scnCounter int

func newScn(w *bufio.Writer, p *prng, settings ...uint32) *scn {
	scnCounter++
	s := &scn{w: w, id: fmt.Sprintf("c%d", scnCounter), enc: newSrvEnc(), p: p, nextID: 1, maxStr: 100,
		open: map[uint32]string{}, sidOf: map[string]uint32{}, upl: map[uint32]int{}}
	for i := 0; i+1 < len(settings); i += 2 {
		if settings[i] == 3 {
			s.maxStr = int(settings[i+1])
		}
	}
	fmt.Fprintf(w, "cli %s new %s\n", s.id, hexOrDash(frSettings(settings...)))
	return s
}

func (s *scn) note(format string, a ...interface{}) {
	fmt.Fprintf(s.w, "# %s\n", fmt.Sprintf(format, a...))
}

func (s *scn) frame(b ...[]byte) {
	var all []byte
	for _, x := range b {
		all = append(all, x...)
	}
	fmt.Fprintf(s.w, "cli %s frame %s\n", s.id, hexOrDash(all))
}

// frames sends each piece as its own event.
func (s *scn) frames(b ...[]byte) {
	for _, x := range b {
		s.frame(x)
	}
}

type reqSpec struct {
	method, scheme, host, path, ua string
	hdrs                           []cli_kv
	body                           string
}

// req issues a request; it returns the tag and the stream the shadow expects
// it to use (0 = it will be turned away).
func (s *scn) req(r reqSpec) (string, uint32) {
	s.ntag++
	tag := fmt.Sprintf("t%d", s.ntag)
	if r.method == "" {
		r.method = "GET"
	}
	if r.scheme == "" {
		r.scheme = "https"
	}
	if r.host == "" {
		r.host = "example.com"
	}
	if r.path == "" {
		r.path = "/"
	}
	if r.body == "" {
		r.body = "none"
	}
	var hs []string
	for _, h := range r.hdrs {
		hs = append(hs, hexOrDash([]byte(h.k))+"="+hexOrDash([]byte(h.v)))
	}
	h := "-"
	if len(hs) > 0 {
		h = strings.Join(hs, ",")
	}
	fmt.Fprintf(s.w, "cli %s req %s %s %s %s %s %s %s %s\n", s.id, tag, r.method, r.scheme, hexOrDash([]byte(r.host)),
		hexOrDash([]byte(r.path)), hexOrDash([]byte(r.ua)), h, r.body)
	s.tags = append(s.tags, tag)
	var sid uint32
	if !s.dead && !s.goAway && len(s.open) < s.maxStr {
		sid = s.nextID
		s.nextID += 2
		s.open[sid] = tag
		s.sidOf[tag] = sid
	}
	return tag, sid
}

func (s *scn) op(format string, a ...interface{}) {
	fmt.Fprintf(s.w, "cli %s %s\n", s.id, fmt.Sprintf(format, a...))
}

func (s *scn) read(tags ...string) {
	for _, t := range tags {
		s.op("read %s", t)
	}
}

func (s *scn) timeout(tag string) {
	s.op("timeout %s", tag)
	delete(s.open, s.sidOf[tag])
}

// finale: make sure the connection ends, then every caller reads its result.
func (s *scn) finale(how string) {
	if how != "" {
		s.op(how)
		s.dead = true
	}
	s.read(s.tags...)
}

func (s *scn) openSids() []uint32 {
	var ids []uint32
	for id := range s.open {
		ids = append(ids, id)
	}
	sort.Slice(ids, func(i, j int) bool { return ids[i] < ids[j] })
	return ids
}

// ---------------------------------------------------------------- responses

var respNames = []string{"x-a", "x-b", "etag", "cache-control", "vary", "location", "age", "x-long-name-for-a-header", "accept-ranges", "last-modified"}
var respValues = []string{"1", "b", "W/\"abc\"", "no-cache", "max-age=3600", "accept-encoding", "/index.html", "0", "bytes", "Tue, 01 Jan 2030 00:00:00 GMT",
	"v", "value-with-UPPER", "a,b;c=d", "0123456789012345678901234567890123456789012345678901234"}
var statuses = []string{"200", "204", "301", "404", "500", "100", "999", "418"}

type cli_respSpec struct {
	status string
	hdrs   []cli_kv
	body   []byte
	// rendering choices
	cuts      []int // header block split offsets (CONTINUATION)
	chunks    []int // DATA chunking
	padH      int
	padD      int
	emptyLast bool // END_STREAM on an empty DATA frame
	// dynamic table size updates written by hand (4096, the size the table has anyway)
	lateUpdate    bool // behind the last field of the block: a decoding error, the response must not be delivered
	trailerUpdate bool // the stream ends with a trailer block that holds the update and nothing else
	// a trailer section (fields, after the body, END_STREAM on its HEADERS frame), cut like the first block; only in scripts
	// that send their responses one after the other (the block is encoded when the response is rendered)
	trailers []cli_kv
	tcuts    []int
}

var rawSizeUpdate = []byte{0x3f, 0xe1, 0x1f}

func (s *scn) randResp(bodyMax int) cli_respSpec {
	p := s.p
	r := cli_respSpec{status: p.pick(statuses), padH: -1, padD: -1}
	if p.chance(3, 4) {
		r.status = "200"
	}
	n := p.intn(5)
	for i := 0; i < n; i++ {
		r.hdrs = append(r.hdrs, cli_kv{k: p.pick(respNames), v: p.pick(respValues), sens: p.chance(1, 12)})
	}
	if p.chance(1, 3) {
		r.hdrs = append(r.hdrs, cli_kv{k: "content-type", v: p.pick([]string{"text/html", "application/json", "x/y"})})
	}
	if bodyMax > 0 && p.chance(3, 4) {
		l := p.intn(bodyMax + 1)
		if p.chance(1, 2) {
			l = p.intn(20)
		}
		r.body = cli_patBytes(p.intn(250), l)
		if p.chance(1, 2) {
			r.hdrs = append(r.hdrs, cli_kv{k: "content-length", v: fmt.Sprint(l)})
		}
		rem := l
		for rem > 0 && p.chance(1, 2) {
			c := 1 + p.intn(rem)
			r.chunks = append(r.chunks, c)
			rem -= c
		}
		if p.chance(1, 6) {
			r.padD = p.intn(20)
		}
		r.emptyLast = p.chance(1, 5)
	}
	if p.chance(1, 8) {
		r.padH = p.intn(30)
	}
	return r
}

// render gives the response as a list of frames (each a separate event
// candidate) and emits the expectation record.
func (s *scn) render(sid uint32, r cli_respSpec) [][]byte {
	fields := append([]cli_kv{{k: ":status", v: r.status}}, r.hdrs...)
	block := s.enc.block(fields)
	r.hdrs = fields[1:]
	var frames [][]byte
	endOnHeaders := len(r.body) == 0 && !r.emptyLast && !r.trailerUpdate && len(r.trailers) == 0
	if r.lateUpdate {
		block = append(block, rawSizeUpdate...)
	}
	hb := frHeaderBlock(sid, block, endOnHeaders, r.cuts, r.padH)
	// HEADERS and its CONTINUATIONs must be contiguous: one event
	frames = append(frames, hb)
	if !endOnHeaders {
		rem := r.body
		for _, c := range r.chunks {
			if c >= len(rem) {
				break
			}
			frames = append(frames, frData(sid, rem[:c], false, r.padD))
			rem = rem[c:]
		}
		if r.trailerUpdate {
			if len(rem) > 0 {
				frames = append(frames, frData(sid, rem, false, r.padD))
			}
			frames = append(frames, frHeaderBlock(sid, rawSizeUpdate, true, nil, -1))
		} else if len(r.trailers) > 0 {
			if len(rem) > 0 {
				frames = append(frames, frData(sid, rem, false, r.padD))
			}
			frames = append(frames, frHeaderBlock(sid, s.enc.block(r.trailers), true, r.tcuts, -1))
		} else if r.emptyLast {
			if len(rem) > 0 {
				frames = append(frames, frData(sid, rem, false, -1))
			}
			frames = append(frames, frData(sid, nil, true, -1))
		} else {
			frames = append(frames, frData(sid, rem, true, r.padD))
		}
	}
	if r.lateUpdate {
		// no expectation record: whatever the client makes of this stream, it is not a response the server sent
		s.note("late-update %s %d", s.id, sid)
		delete(s.open, sid)
		return frames
	}
	// expectation: what a conforming client hands to the caller
	var hs []string
	cl, ct := "0", hexOrDash([]byte("text/plain; charset=utf-8"))
	for _, h := range append(append([]cli_kv{}, r.hdrs...), r.trailers...) {
		switch h.k {
		case "content-length":
			cl = h.v
		case "content-type":
			ct = hexOrDash([]byte(h.v))
		default:
			hs = append(hs, hexOrDash([]byte(h.k))+"="+hexOrDash([]byte(h.v)))
		}
	}
	sort.Strings(hs)
	h := "-"
	if len(hs) > 0 {
		h = strings.Join(hs, ",")
	}
	cont := 0
	if len(r.cuts) > 0 && len(hb) > 9+len(block)+1+maxInt(r.padH, 0) {
		cont = 1
	}
	_ = cl
	s.note("srv %s %d cont=%d st=%s ct=%s h=%s body=%d:%d", s.id, sid, cont, r.status, ct, h, len(r.body), sum32(r.body))
	delete(s.open, sid)
	return frames
}

func maxInt(a, b int) int {
	if a > b {
		return a
	}
	return b
}

// resp renders a complete plain response as one event's bytes.
func (s *scn) resp(sid uint32, status string, hdrs []cli_kv, body []byte) []byte {
	fr := s.render(sid, cli_respSpec{status: status, hdrs: hdrs, body: body, padH: -1, padD: -1})
	var all []byte
	for _, f := range fr {
		all = append(all, f...)
	}
	return all
}

// interleave sends several responses with their frames mixed, keeping each
// stream's own order. A header block is encoded at the moment its HEADERS frame
// is sent: the HPACK context is shared by the whole connection.
func (s *scn) interleave(sids []uint32, specs []cli_respSpec) {
	lists := make([][][]byte, len(sids))
	started := make([]bool, len(sids))
	for {
		var live []int
		for i := range sids {
			if !started[i] || len(lists[i]) > 0 {
				live = append(live, i)
			}
		}
		if len(live) == 0 {
			return
		}
		i := live[s.p.intn(len(live))]
		if !started[i] {
			started[i] = true
			lists[i] = s.render(sids[i], specs[i])
		}
		s.frame(lists[i][0])
		lists[i] = lists[i][1:]
	}
}

// ---------------------------------------------------------------- requests

var reqHdrNames = []string{"Accept", "accept-language", "X-Foo", "x-bar-baz", "Authorization", "X-UPPER", "Cache-Control", "Referer"}
var reqConnSpecific = []string{"Connection", "Keep-Alive", "Proxy-Connection", "Upgrade"}
var reqValues = []string{"*/*", "en", "bar", "Basic QWxhZGRpbjpvcGVuIHNlc2FtZQ==", "1", "no-cache", "https://example.com/x?y=z", "v1, v2"}
var methods = []string{"GET", "POST", "PUT", "DELETE", "HEAD", "OPTIONS", "PATCH"}
var paths = []string{"/", "/a", "/a/b/c", "/index.html?x=1&y=2", "/q?k", "/0123456789/abcdefghijklmnopqrstuvwxyz"}
var hosts = []string{"example.com", "a.b", "localhost:8443", "h"}

func (s *scn) randReq(body string) reqSpec {
	p := s.p
	r := reqSpec{method: p.pick(methods), host: p.pick(hosts), path: p.pick(paths), body: body}
	if p.chance(1, 2) {
		r.ua = p.pick([]string{"ua/1.0", "Mozilla/5.0 (X11)", "x"})
	}
	if p.chance(1, 8) {
		r.scheme = "http"
	}
	n := p.intn(4)
	for i := 0; i < n; i++ {
		r.hdrs = append(r.hdrs, cli_kv{k: p.pick(reqHdrNames), v: p.pick(reqValues)})
	}
	if p.chance(1, 4) {
		r.hdrs = append(r.hdrs, cli_kv{k: p.pick(reqConnSpecific), v: p.pick([]string{"keep-alive", "timeout=5", "h2c", "x"})})
	}
	if p.chance(1, 5) {
		r.hdrs = append(r.hdrs, cli_kv{k: "Content-Type", v: "application/x-www-form-urlencoded"})
	}
	return r
}

func (s *scn) randBody(max int) (spec string, length int) {
	p := s.p
	switch p.intn(6) {
	case 0:
		return "none", 0
	case 1, 2:
		l := 1 + p.intn(max)
		return fmt.Sprintf("buf:%d:%d", p.intn(250), l), l
	default:
		var chunks []string
		total := 0
		n := p.intn(4)
		for i := 0; i < n; i++ {
			c := 1 + p.intn(max/2+1)
			if p.chance(1, 5) {
				c = 16384 + p.intn(3) - 1
			}
			chunks = append(chunks, fmt.Sprint(c))
			total += c
		}
		decl := -1
		if p.chance(1, 2) {
			decl = total
		}
		term := p.pick([]string{"eof", "eof", "eofw"})
		if n == 0 {
			term = "eof"
		}
		ch := "-"
		if len(chunks) > 0 {
			ch = strings.Join(chunks, ".")
		}
		return fmt.Sprintf("str:%d:%d:%s:%s", p.intn(250), decl, ch, term), total
	}
}

// ---------------------------------------------------------------- C02: requests out, responses back

func genCliResp(p *prng, thorough bool, w *bufio.Writer) {
	n := 120
	if thorough {
		n = 1200
	}
	for i := 0; i < n; i++ {
		s := newScn(w, p.fork(), 3, 100, 4, 1<<20)
		k := 1 + s.p.intn(4)
		var sids []uint32
		var specs []cli_respSpec
		for j := 0; j < k; j++ {
			body, _ := s.randBody(3000)
			_, sid := s.req(s.randReq(body))
			sids = append(sids, sid)
			specs = append(specs, s.randResp(2000))
		}
		s.interleave(sids, specs)
		// a second round on the same connection: the HPACK contexts carry over
		if s.p.chance(1, 2) {
			_, sid := s.req(s.randReq("none"))
			s.frames(s.render(sid, s.randResp(100))...)
		}
		s.finale("")
		s.op("gauges")
		s.finale("close")
	}
	// header blocks continued in CONTINUATION (ledger F36): split at every offset of a short block
	for cut := 0; cut < 40; cut++ {
		s := newScn(w, p.fork(), 3, 100)
		s.note("class %s F36", s.id)
		t1, sid1 := s.req(reqSpec{path: "/one"})
		t2, sid2 := s.req(reqSpec{path: "/two"})
		r := cli_respSpec{status: "200", hdrs: []cli_kv{{k: "x-a", v: "first"}, {k: "etag", v: "tagtagtag"}}, body: []byte("abc"), padH: -1, padD: -1, cuts: []int{cut}}
		s.frames(s.render(sid1, r)...)
		s.frames(s.render(sid2, cli_respSpec{status: "200", hdrs: []cli_kv{{k: "x-a", v: "first"}, {k: "x-b", v: "second"}}, padH: -1, padD: -1})...)
		s.read(t1, t2)
		s.finale("close")
	}
	// a trailer section, whole and cut at every offset (0: an empty HEADERS fragment; the block's length: an empty last
	// CONTINUATION with nothing but END_HEADERS), with and without a body; its fields reach the caller with the others and
	// its table insertions count for the response after it
	for cut := -1; cut < 24; cut++ {
		for _, body := range []string{"", "abc"} {
			s := newScn(w, p.fork(), 3, 100)
			t1, sid1 := s.req(reqSpec{path: "/one"})
			t2, sid2 := s.req(reqSpec{path: "/two"})
			r := cli_respSpec{status: "200", hdrs: []cli_kv{{k: "x-a", v: "first"}}, body: []byte(body), padH: -1, padD: -1,
				trailers: []cli_kv{{k: "x-t", v: "trailing"}, {k: "etag", v: "tagtag"}}}
			if cut >= 0 {
				r.tcuts = []int{cut}
			}
			s.frames(s.render(sid1, r)...)
			s.frames(s.render(sid2, cli_respSpec{status: "200", hdrs: []cli_kv{{k: "x-t", v: "trailing"}, {k: "x-a", v: "first"}}, padH: -1, padD: -1})...)
			s.read(t1, t2)
			s.finale("close")
		}
	}
	// a response that arrives for a request its caller has given up (the timeout resets the stream and the client forgets
	// it) — whole or continued in CONTINUATION frames, with and without body and trailers: its header blocks still count
	// for the connection's HPACK context, so the response after it, which refers to the entries they inserted, must be
	// delivered intact (F85: such blocks used to be dropped undecoded)
	for cut := -1; cut < 12; cut += 2 {
		for _, withBody := range []bool{false, true} {
			s := newScn(w, p.fork(), 3, 100)
			t1, sid1 := s.req(reqSpec{path: "/given-up"})
			t2, sid2 := s.req(reqSpec{path: "/kept"})
			s.timeout(t1)
			s.read(t1)
			r := cli_respSpec{status: "200", hdrs: []cli_kv{{k: "x-late", v: "inserted by a response nobody reads"}, {k: "etag", v: "late"}}, padH: -1, padD: -1}
			if withBody {
				r.body = []byte("late")
				r.trailers = []cli_kv{{k: "x-late-t", v: "a trailer entry"}}
			}
			if cut >= 0 {
				r.cuts, r.tcuts = []int{cut}, []int{cut / 2}
			}
			s.frames(s.render(sid1, r)...)
			s.frames(s.render(sid2, cli_respSpec{status: "200", hdrs: []cli_kv{{k: "x-late", v: "inserted by a response nobody reads"}, {k: "etag", v: "late"}, {k: "x-late-t", v: "a trailer entry"}}, padH: -1, padD: -1})...)
			s.read(t2)
			s.finale("close")
		}
	}
	// ... and cut twice or three times (HEADERS + several CONTINUATION frames), on a response with a body (the stream ends on
	// DATA) and on one without (END_STREAM rides on the HEADERS frame and takes effect with the block's last frame)
	for c1 := 1; c1 < 22; c1 += 3 {
		for c2 := c1 + 1; c2 < 24; c2 += 4 {
			for _, body := range []string{"", "abc"} {
				s := newScn(w, p.fork(), 3, 100)
				t1, sid1 := s.req(reqSpec{path: "/one"})
				t2, sid2 := s.req(reqSpec{path: "/two"})
				cuts := []int{c1, c2}
				if (c1+c2)%3 == 0 {
					cuts = append(cuts, c2+1) // a third CONTINUATION of one octet
				}
				if (c1+c2)%5 == 0 {
					cuts = []int{c1, c1, c2} // an empty CONTINUATION in between
				}
				r := cli_respSpec{status: "200", hdrs: []cli_kv{{k: "x-a", v: "first"}, {k: "etag", v: "tagtagtag"}}, body: []byte(body), padH: -1, padD: -1, cuts: cuts}
				s.frames(s.render(sid1, r)...)
				s.frames(s.render(sid2, cli_respSpec{status: "200", hdrs: []cli_kv{{k: "x-a", v: "first"}, {k: "x-b", v: "second"}}, padH: -1, padD: -1})...)
				s.read(t1, t2)
				s.finale("close")
			}
		}
	}
	// dynamic table size updates in response blocks (RFC 7541 4.2). In front of the first field of a block they are in
	// place, also when the block is cut anywhere across HEADERS and CONTINUATION, and a trailer block may hold one and
	// nothing else. Behind a field of the block an update is a decoding error: that response must not be delivered,
	// and the one after it must (the tables are still in step).
	plain := func(extra string) cli_respSpec {
		return cli_respSpec{status: "200", hdrs: []cli_kv{{k: "x-a", v: "first"}, {k: "x-b", v: extra}}, padH: -1, padD: -1}
	}
	for _, size := range []uint32{0, 100, 4096} {
		for cut := 0; cut < 7; cut++ {
			s := newScn(w, p.fork(), 3, 100)
			t1, sid1 := s.req(reqSpec{path: "/one"})
			t2, sid2 := s.req(reqSpec{path: "/two"})
			t3, sid3 := s.req(reqSpec{path: "/three"})
			s.frames(s.render(sid1, plain("fills the table"))...)
			s.enc.setTableSize(size)
			r := plain("after the update")
			if cut > 0 {
				r.cuts = []int{cut}
			}
			s.frames(s.render(sid2, r)...)
			s.frames(s.render(sid3, plain("after the update"))...)
			s.read(t1, t2, t3)
			s.finale("close")
		}
	}
	for _, body := range []string{"", "abc"} {
		s := newScn(w, p.fork(), 3, 100)
		t1, sid1 := s.req(reqSpec{path: "/one"})
		t2, sid2 := s.req(reqSpec{path: "/two"})
		r := plain("trailers are an update")
		r.body, r.trailerUpdate = []byte(body), true
		s.frames(s.render(sid1, r)...)
		s.frames(s.render(sid2, plain("next"))...)
		s.read(t1, t2)
		s.finale("close")
	}
	for _, cut := range []int{0, 2, 9} {
		s := newScn(w, p.fork(), 3, 100)
		t1, sid1 := s.req(reqSpec{path: "/one"})
		t2, sid2 := s.req(reqSpec{path: "/two"})
		r := plain("then an update")
		r.lateUpdate = true
		if cut > 0 {
			r.cuts = []int{cut}
		}
		s.frames(s.render(sid1, r)...)
		s.frames(s.render(sid2, plain("next"))...)
		s.read(t1, t2)
		s.finale("close")
	}
	// request header blocks longer than the server's MAX_FRAME_SIZE (F33): the request on the wire, reassembled from
	// HEADERS + CONTINUATION, is the request given
	cliBigBlocks(p, false, w)
}

// ---------------------------------------------------------------- C07: uploads against window schedules

func genCliFlow(p *prng, thorough bool, w *bufio.Writer) {
	n := 150
	if thorough {
		n = 1500
	}
	wins := []uint32{0, 1, 10, 100, 1000, 16383, 16384, 16385, 65535, 70000, 200000}
	fsz := []uint32{16384, 16385, 20000, 65536, 1 << 20, 1<<24 - 1}
	for i := 0; i < n; i++ {
		q := p.fork()
		st := []uint32{4, wins[q.intn(len(wins))]}
		if q.chance(1, 2) {
			st = append(st, 5, fsz[q.intn(len(fsz))])
		}
		if q.chance(1, 4) {
			st = st[2:]
		}
		s := newScn(w, q, st...)
		k := 1 + q.intn(3)
		if q.chance(1, 2) {
			k = 1
		}
		for j := 0; j < k; j++ {
			max := 300
			switch q.intn(4) {
			case 0:
				max = 40000
			case 1:
				max = 150000
			}
			body, _ := s.randBody(max)
			s.req(reqSpec{method: "POST", path: "/up", body: body})
		}
		steps := 2 + q.intn(8)
		for j := 0; j < steps && len(s.open) > 0; j++ {
			ids := s.openSids()
			sid := ids[q.intn(len(ids))]
			switch q.intn(10) {
			case 0, 1, 2:
				s.frame(frWindowUpdate(sid, uint32(1+q.intn(50000))))
			case 3, 4:
				s.frame(frWindowUpdate(0, uint32(1+q.intn(100000))))
			case 5:
				s.frame(frSettings(4, wins[q.intn(len(wins))]))
			case 6:
				s.frame(frSettings(5, fsz[q.intn(len(fsz))]))
			case 7:
				s.frame(frSettings(4, wins[q.intn(len(wins))], 5, fsz[q.intn(len(fsz))]))
			case 8:
				switch q.intn(4) {
				case 0:
					s.frame(frRst(sid, uint32(q.pick([]string{"0", "8", "7", "2"})[0]-'0')))
					delete(s.open, sid)
				case 1:
					s.timeout(s.open[sid])
				case 2:
					body, _ := s.randBody(30000)
					s.req(reqSpec{method: "PUT", path: "/more", body: body})
				default:
					s.frame(frSettings(3, 100)) // a SETTINGS frame that says nothing about windows or frame size
				}
			case 9:
				s.frame(frWindowUpdate(sid, 1))
			}
		}
		// open everything up: every upload must now complete
		s.note("grant-all %s", s.id)
		s.frame(frSettings(4, 1<<30))
		s.frame(frWindowUpdate(0, 1<<30))
		s.note("uploads-complete %s", s.id)
		for _, sid := range s.openSids() {
			s.frame(s.resp(sid, "200", nil, nil))
		}
		s.finale("")
		s.op("gauges")
		s.finale("close")
	}
}

// ---------------------------------------------------------------- C11: GOAWAY

var gaDebug = []string{"bye", "", "too_many_pings", "x", "server shutting down for maintenance; retry elsewhere", "bye"}

func genCliGoAway(p *prng, thorough bool, w *bufio.Writer) {
	n := 150
	if thorough {
		n = 1500
	}
	for i := 0; i < n; i++ {
		q := p.fork()
		s := newScn(w, q, 3, 100)
		k := q.intn(5)
		for j := 0; j < k; j++ {
			body := "none"
			switch q.intn(10) {
			case 0, 1:
				body = fmt.Sprintf("buf:1:%d", 1+q.intn(100))
			case 2:
				// more than the window: the tail is still pending when the GOAWAY comes
				body = "buf:2:70000"
			case 3:
				// from a reader: once written, such a request must not be called retryable
				body = "str:3:30:10.20:eof"
			case 4:
				// from a reader and held up by the window
				body = "str:4:-1:16384.16384.16384.16384.16384:eof"
			}
			s.req(reqSpec{path: fmt.Sprintf("/r%d", j), body: body})
		}
		// some answered before the GOAWAY
		for _, sid := range s.openSids() {
			if q.chance(1, 4) {
				s.frames(s.render(sid, s.randResp(50))...)
			}
		}
		last := uint32(0)
		switch q.intn(4) {
		case 0:
			last = 0
		case 1:
			last = s.nextID - 2 + uint32(2*q.intn(2))
		default:
			last = uint32(2*q.intn(k+1)) + 1
		}
		if s.nextID == 1 && last > 1<<30 {
			last = 0
		}
		code := uint32(q.pick([]string{"0", "0", "1", "2", "11"})[0] - '0')
		// F37 class: a request is in flight on a stream above last, or the stream `last` gets a frame that does not end it
		above := false
		for _, sid := range s.openSids() {
			if sid > last {
				above = true
			}
		}
		if last > 0 && above {
			s.note("class %s F37-above", s.id)
		}
		if last > 0 && q.chance(1, 3) {
			// the graceful shutdown of RFC 7540 6.8: a first GOAWAY with last-stream-id 2^31-1 announces the end, the
			// one that names the real last stream follows (a lower id: the only direction the RFC allows). In between
			// the server may answer streams it is going to keep, and the client must not open a stream any more
			s.note("goaway %s last=%d", s.id, uint32(1<<31-1))
			s.frame(frGoAway(1<<31-1, 0, []byte("graceful")))
			s.goAway = true
			for _, sid := range s.openSids() {
				if sid <= last && q.chance(1, 3) {
					s.frames(s.render(sid, s.randResp(40))...)
				}
			}
			if q.chance(1, 2) {
				s.req(reqSpec{path: "/between"})
			}
		}
		s.note("goaway %s last=%d", s.id, last)
		s.frame(frGoAway(last, code, []byte(gaDebug[i%len(gaDebug)])))
		s.goAway = true
		if last == 0 {
			s.dead = true
		}
		// a request after the GOAWAY must not open a stream
		if q.chance(2, 3) {
			s.req(reqSpec{path: "/late"})
		}
		if !s.dead {
			ids := s.openSids()
			q2 := q.fork()
			// the server goes on to answer the streams it accepted, in some order
			for len(ids) > 0 {
				j := q2.intn(len(ids))
				sid := ids[j]
				ids = append(ids[:j], ids[j+1:]...)
				if sid > last {
					continue
				}
				r := s.randResp(60)
				fr := s.render(sid, r)
				if sid == last && len(fr) > 1 {
					s.note("class %s F37-last", s.id)
				}
				s.frames(fr...)
			}
			if q.chance(1, 2) {
				s.req(reqSpec{path: "/later"})
			}
		}
		s.finale("")
		how := q.pick([]string{"cut", "close"})
		s.finale(how)
		// what the errors handed out say is looked at once more, after everything else has happened
		s.op("errs")
	}
	// what a GOAWAY(last-stream-id 0) said is what the connection's LastErr and every request it ends go on saying:
	// codes and debug data of every size, requests in flight, queued behind them and arriving afterwards, results
	// taken before and after Close and after later frames; the next script's connections recycle frames meanwhile
	ng := 30
	if thorough {
		ng = 300
	}
	for i := 0; i < ng; i++ {
		q := p.fork()
		s := newScn(w, q, 3, uint32(1+q.intn(3)))
		k := q.intn(4)
		for j := 0; j < k; j++ {
			s.req(reqSpec{path: fmt.Sprintf("/g%d", j), body: []string{"none", "buf:1:50", "buf:2:70000", "str:3:-1:10.20:eof"}[q.intn(4)]})
		}
		if q.chance(1, 3) {
			// a GOAWAY that lets the accepted streams finish comes first; the one that ends the connection follows
			s.frame(frGoAway(s.nextID, 0, []byte("draining")))
			s.goAway = true
		}
		code := []uint32{1, 2, 7, 11, 13, 0xffffffff, 0x80000001, 0}[(i+q.intn(2))%8]
		debug := q.bytes([]int{0, 1, 3, 14, 300}[(i/2)%5])
		if q.chance(1, 2) && len(debug) > 0 {
			debug = []byte(gaDebug[q.intn(len(gaDebug))])
		}
		s.note("goaway %s last=0", s.id)
		if q.chance(1, 4) {
			// with other frames behind it in the same read
			s.frame(frGoAway(0, code, debug), frPing(false, q.bytes(8)), frGoAway(0, 9, []byte("second")))
		} else {
			s.frame(frGoAway(0, code, debug))
		}
		s.goAway, s.dead = true, true
		half := len(s.tags) / 2
		s.read(s.tags[:half]...)
		s.req(reqSpec{path: "/after"})
		s.op(q.pick([]string{"close", "close", "cut"}))
		s.req(reqSpec{path: "/after-close"})
		s.read(s.tags...)
		s.op("errs")
	}
	// write failure around a GOAWAY: the transport stops taking writes before or after the server
	// says which streams it accepted; whatever each request ends with, only one that was never
	// written, or that the server disclaimed, may be called retryable
	nw := 24
	if thorough {
		nw = 300
	}
	for i := 0; i < nw; i++ {
		q := p.fork()
		s := newScn(w, q, 3, 100)
		k := 2 + q.intn(4)
		for j := 0; j < k; j++ {
			body := "none"
			if q.chance(1, 3) {
				body = fmt.Sprintf("buf:1:%d", 1+q.intn(3000))
			}
			s.req(reqSpec{path: fmt.Sprintf("/w%d", j), body: body})
		}
		last := uint32(2*q.intn(k)) + 1
		budget := []int{0, 0, 5, 13, 30, 200}[q.intn(6)]
		at := q.intn(3)
		s.note("wfail %s goaway last=%d at=%d budget=%d", s.id, last, at, budget)
		if at == 0 {
			s.op("failwrite %d", budget)
		}
		s.note("goaway %s last=%d", s.id, last)
		s.frame(frGoAway(last, 0, nil))
		s.goAway = true
		if at == 1 {
			s.op("failwrite %d", budget)
		}
		s.req(reqSpec{path: "/late"})
		for _, sid := range s.openSids() {
			if sid > last {
				continue
			}
			if at == 2 && sid == last {
				s.op("failwrite %d", budget)
			}
			r := s.randResp(400)
			r.emptyLast = true
			s.frames(s.render(sid, r)...)
			if q.chance(1, 3) {
				s.frame(frPing(false, q.bytes(8)))
			}
		}
		if q.chance(1, 2) {
			for _, t := range s.tags {
				s.op("timeout %s", t)
			}
		}
		s.finale("")
		s.finale(q.pick([]string{"cut", "close"}))
	}
}

// ---------------------------------------------------------------- C12: whatever the server does

func (s *scn) hostile(sid uint32) []byte {
	q := s.p
	switch q.intn(18) {
	case 16: // a well-formed WINDOW_UPDATE or PRIORITY whose flags octet has bits without meaning for it (0x1 looks like END_STREAM)
		if q.chance(1, 2) {
			return fr(8, byte(1+q.intn(255)), sid, cli_u32(uint32(1+q.intn(1000))))
		}
		return fr(2, byte(1+q.intn(255)), sid, []byte{0, 0, 0, 0, byte(q.intn(256))})
	case 17: // the same on the connection
		return fr(8, byte(1+q.intn(255)), 0, cli_u32(uint32(1+q.intn(1000))))
	case 0:
		return frRst(sid, uint32(q.intn(14)))
	case 1:
		return frGoAway(uint32(q.intn(8)), uint32(q.intn(3)), nil)
	case 2:
		return fr(byte(10+q.intn(240)), byte(q.intn(256)), sid, q.bytes(q.intn(20))) // unknown type
	case 3:
		return fr(5, 4, sid, append(cli_u32(2), 0x88)) // PUSH_PROMISE
	case 4:
		return fr(1, 5, sid, q.bytes(1+q.intn(12))) // HEADERS with garbage block
	case 5:
		return fr(0, 9, sid, []byte{200, 1, 2}) // DATA with bad padding
	case 6:
		return fr(4, 0, 0, []byte{0, 5, 0, 0, 0, 1}) // SETTINGS MAX_FRAME_SIZE=1
	case 7:
		return fr(4, 0, 0, []byte{0, 4, 0xff, 0xff, 0xff, 0xff}) // INITIAL_WINDOW_SIZE too large
	case 8:
		return fr(6, 0, 0, q.bytes(7)) // PING of 7 octets
	case 9:
		return fr(8, 0, sid, cli_u32(0)) // WINDOW_UPDATE 0
	case 10:
		return fr(3, 0, sid, []byte{0, 0}) // short RST_STREAM
	case 11:
		return fr(1, 4, sid, []byte{0xbe}) // HEADERS naming a table index that does not exist
	case 12:
		return fr(1, 5, sid, s.enc.block([]cli_kv{{k: "x-a", v: "1"}, {k: ":status", v: "200"}})) // pseudo after regular
	case 13:
		return fr(9, 4, sid, []byte{0x88}) // CONTINUATION out of the blue
	case 14:
		return fr(2, 0, sid, []byte{0, 0, 0, 0, 16}) // PRIORITY
	default:
		return fr(byte(q.intn(10)), byte(q.intn(256)), uint32(q.intn(12)), q.bytes(q.intn(24)))
	}
}

func genCliResolve(p *prng, thorough bool, w *bufio.Writer) {
	n := 200
	if thorough {
		n = 2500
	}
	for i := 0; i < n; i++ {
		q := p.fork()
		st := []uint32{3, uint32(1 + q.intn(4))}
		if q.chance(1, 2) {
			st = []uint32{4, uint32(q.intn(2000))}
		}
		s := newScn(w, q, st...)
		k := 1 + q.intn(4)
		for j := 0; j < k; j++ {
			body, _ := s.randBody(5000)
			s.req(s.randReq(body))
		}
		steps := q.intn(6)
		for j := 0; j < steps; j++ {
			ids := s.openSids()
			sid := uint32(1 + 2*q.intn(4))
			if len(ids) > 0 && q.chance(3, 4) {
				sid = ids[q.intn(len(ids))]
			}
			switch q.intn(8) {
			case 0, 1:
				if s.open[sid] != "" {
					s.frames(s.render(sid, s.randResp(300))...)
				}
			case 2, 3, 4:
				b := s.hostile(sid)
				if q.chance(1, 3) && len(b) > 1 {
					// cut inside the frame
					s.frame(b[:1+q.intn(len(b)-1)])
					s.op("cut")
					s.dead = true
				} else {
					s.frame(b)
				}
			case 5:
				if t := s.open[sid]; t != "" {
					s.timeout(t)
				}
			case 6:
				body, _ := s.randBody(500)
				s.req(s.randReq(body))
			case 7:
				if len(s.tags) > 0 {
					s.read(s.tags[q.intn(len(s.tags))])
				}
			}
			if s.dead {
				break
			}
		}
		s.finale(q.pick([]string{"close", "cut", "close"}))
		if q.chance(1, 3) {
			s.req(reqSpec{path: "/after"})
			s.finale("")
			s.op("close")
		}
	}
	// recorded byte stream of a well-behaved server, cut at every offset
	{
		ref := newScn(bufio.NewWriter(discard{}), p.fork(), 3, 100)
		var stream []byte
		stream = append(stream, frSettings(4, 100)...)
		stream = append(stream, ref.resp(1, "200", []cli_kv{{k: "x-a", v: "b"}}, []byte("hello"))...)
		stream = append(stream, frWindowUpdate(3, 1000)...)
		stream = append(stream, frPing(false, []byte("12345678"))...)
		stream = append(stream, ref.resp(3, "404", nil, nil)...)
		scnCounter--
		stepc := 3
		if thorough {
			stepc = 1
		}
		for cut := 0; cut <= len(stream); cut += stepc {
			s := newScn(w, p.fork(), 3, 100)
			s.req(reqSpec{path: "/1"})
			s.req(reqSpec{method: "POST", path: "/2", body: "buf:5:70000"})
			s.req(reqSpec{method: "POST", path: "/3", body: "str:5:-1:10.20:eof"})
			if cut > 0 {
				s.frame(stream[:cut])
			}
			s.finale("cut")
		}
	}
	// F46: a response or RST_STREAM ends a stream whose streamed upload is still blocked
	for _, how := range []string{"resp", "rst"} {
		s := newScn(w, p.fork(), 4, 10)
		s.note("class %s F46", s.id)
		_, sid := s.req(reqSpec{method: "POST", path: "/up", body: "str:1:-1:100:eof"})
		t2, _ := s.req(reqSpec{path: "/other"})
		if how == "resp" {
			s.frame(s.resp(sid, "200", nil, nil))
		} else {
			s.frame(frRst(sid, 0))
		}
		s.frame(s.resp(3, "200", nil, nil))
		_ = t2
		s.finale("")
		s.finale("close")
	}
	// write failures (see cli_gen_wfail.go; the family cliwfail has every budget): here every write
	// after the chosen position of each scripted exchange fails outright
	{
		q := p.fork()
		n := 0
		for _, x := range wfExchanges {
			for at := 0; at <= wfCount(x); at++ {
				wfPlay(w, q.fork(), x, at, 0, wfFinales[n%len(wfFinales)])
				n++
			}
		}
	}
}

type discard struct{}

func (discard) Write(p []byte) (int, error) { return len(p), nil }

// ---------------------------------------------------------------- client halves of C14 / C18 / C20

// C14c: downloads; the monitor keeps the sender's ledger.
func genCliCredit(p *prng, thorough bool, w *bufio.Writer) {
	n := 30
	if thorough {
		n = 200
	}
	for i := 0; i < n; i++ {
		q := p.fork()
		s := newScn(w, q, 3, 100)
		k := 1 + q.intn(3)
		var sids []uint32
		for j := 0; j < k; j++ {
			_, sid := s.req(reqSpec{path: "/dl"})
			sids = append(sids, sid)
			s.frame(frHeaderBlock(sid, s.enc.block([]cli_kv{{k: ":status", v: "200"}}), false, nil, -1))
		}
		total := 0
		limit := 700000
		if q.chance(1, 3) {
			limit = 1200000
		}
		for total < limit {
			sid := sids[q.intn(len(sids))]
			l := q.pick([]string{"16384", "16384", "1000", "1", "0", "9000"})
			var ln int
			fmt.Sscan(l, &ln)
			pad := -1
			if q.chance(1, 8) {
				pad = q.intn(100)
				if ln+pad+1 > 16384 {
					ln = 16384 - pad - 1
				}
			}
			s.frame(frData(sid, cli_patBytes(3, ln), false, pad))
			total += ln
			if q.chance(1, 60) && s.open[sid] != "" {
				// the caller gives up on one download; the server keeps sending for a while
				s.note("class %s F39", s.id)
				s.timeout(s.open[sid])
			}
		}
		for _, sid := range s.openSids() {
			s.frame(frData(sid, nil, true, -1))
			delete(s.open, sid)
		}
		s.finale("")
		s.finale("close")
	}
}

// C18c: SETTINGS sequences interleaved with requests.
func genCliSettings(p *prng, thorough bool, w *bufio.Writer) {
	n := 80
	if thorough {
		n = 600
	}
	for i := 0; i < n; i++ {
		q := p.fork()
		var st []uint32
		if q.chance(1, 2) {
			st = append(st, 3, uint32(1+q.intn(3)))
		}
		if q.chance(1, 2) {
			st = append(st, 1, uint32(q.pick([]string{"0", "100", "4096"})[0]-'0')*100)
		}
		if q.chance(1, 3) {
			st = append(st, 5, 20000)
		}
		s := newScn(w, q, st...)
		steps := 3 + q.intn(8)
		for j := 0; j < steps; j++ {
			switch q.intn(6) {
			case 0, 1:
				var f []uint32
				ids := []uint32{1, 3, 4, 5, 6, 2, 99}
				m := q.intn(4)
				for x := 0; x < m; x++ {
					id := ids[q.intn(len(ids))]
					var v uint32
					switch id {
					case 1:
						v = uint32(q.intn(3)) * 2048
					case 2:
						v = 0
					case 3:
						v = uint32(q.intn(4))
						s.maxStr = int(v)
					case 4:
						v = uint32(q.intn(100000))
					case 5:
						v = 16384 + uint32(q.intn(100000))
					default:
						v = uint32(q.intn(1 << 20))
					}
					f = append(f, id, v)
				}
				omitted := true
				for x := 0; x < len(f); x += 2 {
					if f[x] == 3 {
						omitted = false
					}
				}
				_ = omitted
				s.note("settings %s %v", s.id, f)
				s.frame(frSettings(f...))
			case 2, 3:
				body, _ := s.randBody(40000)
				hd := []cli_kv{{k: "X-Foo", v: strings.Repeat("v", q.intn(60))}, {k: "x-bar-baz", v: "1"}}
				s.req(reqSpec{method: "POST", path: "/s", body: body, hdrs: hd})
			case 4:
				ids := s.openSids()
				if len(ids) > 0 {
					s.frame(s.resp(ids[q.intn(len(ids))], "200", nil, nil))
				}
			case 5:
				s.frame(frSettingsAck())
			}
		}
		s.op("gauges")
		s.finale("close")
	}
	// SETTINGS_HEADER_TABLE_SIZE changed several times between two requests, in one SETTINGS frame or in several: the
	// client's encoder has to announce the smallest value and the last one (RFC 7541 4.2), or the request that
	// follows indexes into a table the server has emptied (finding F09c)
	dips := [][][]uint32{
		{{0, 4096}}, {{0}, {4096}}, {{100, 4096}}, {{4096, 0, 4096}}, {{0}, {8192}}, {{2048}, {0}, {4096}},
		{{8192, 4096}}, {{0, 0}}, {{4096, 100}}, {{100}, {50}, {200}}, {{4096}}, {{0}}, {{65536, 0, 65536}},
	}
	// every order of three different values, in one frame and in three (the smallest may come first, last or in between)
	vals := []uint32{0, 60, 1000, 4096}
	for _, a := range vals {
		for _, b := range vals {
			for _, c := range vals {
				if a != b && b != c && a != c {
					dips = append(dips, [][]uint32{{a, b, c}}, [][]uint32{{a}, {b}, {c}})
				}
			}
		}
	}
	for _, first := range []uint32{4096, 100, 0} {
		for di, dip := range dips {
			if di >= 13 && (di+int(first))%3 != 0 && !thorough {
				continue
			}
			var st []uint32
			if first != 4096 {
				st = append(st, 1, first)
			}
			s := newScn(w, p.fork(), st...)
			hd := []cli_kv{{k: "X-Foo", v: "bar"}}
			_, sid := s.req(reqSpec{path: "/a", hdrs: hd})
			s.frame(s.resp(sid, "200", nil, nil))
			for _, fr := range dip {
				var f []uint32
				for _, v := range fr {
					f = append(f, 1, v)
				}
				s.note("settings %s %v", s.id, f)
				s.frame(frSettings(f...))
			}
			for k := 0; k < 2; k++ {
				_, sid = s.req(reqSpec{path: "/a", hdrs: hd})
				s.frame(s.resp(sid, "200", nil, nil))
			}
			s.finale("close")
		}
	}
	// request header blocks longer than the server's MAX_FRAME_SIZE (F33)
	cliBigBlocks(p, thorough, w)
}

// C20c: response header lists over a vocabulary of valid and invalid shapes.
func genCliMsg(p *prng, thorough bool, w *bufio.Writer) {
	type shape struct {
		name   string
		fields []cli_kv
		wf     bool
	}
	ok := []cli_kv{{k: "x-a", v: "1"}}
	shapes := []shape{
		{"plain", append([]cli_kv{{k: ":status", v: "200"}}, ok...), true},
		{"status-only", []cli_kv{{k: ":status", v: "204"}}, true},
		{"repeated-regular", []cli_kv{{k: ":status", v: "200"}, {k: "x-a", v: "1"}, {k: "x-a", v: "2"}, {k: "vary", v: "a"}, {k: "vary", v: "b"}}, true},
		{"content-length", []cli_kv{{k: ":status", v: "200"}, {k: "content-length", v: "0"}}, true},
		{"no-status", ok, false},
		{"two-status", []cli_kv{{k: ":status", v: "200"}, {k: ":status", v: "404"}}, false},
		{"status-after-regular", []cli_kv{{k: "x-a", v: "1"}, {k: ":status", v: "200"}}, false},
		{"request-pseudo", []cli_kv{{k: ":status", v: "200"}, {k: ":path", v: "/"}}, false},
		{"unknown-pseudo", []cli_kv{{k: ":status", v: "200"}, {k: ":foo", v: "x"}}, false},
		{"status-2-digits", []cli_kv{{k: ":status", v: "99"}}, false},
		{"status-4-digits", []cli_kv{{k: ":status", v: "1000"}}, false},
		{"status-not-number", []cli_kv{{k: ":status", v: "2xx"}}, false},
		{"status-empty", []cli_kv{{k: ":status", v: ""}}, false},
		{"status-overflow", []cli_kv{{k: ":status", v: "18446744073709551816"}}, false},
		{"upper-case", []cli_kv{{k: ":status", v: "200"}, {k: "X-Up", v: "1"}}, false},
		{"connection", []cli_kv{{k: ":status", v: "200"}, {k: "connection", v: "close"}}, false},
		{"keep-alive", []cli_kv{{k: ":status", v: "200"}, {k: "keep-alive", v: "x"}}, false},
		{"transfer-encoding", []cli_kv{{k: ":status", v: "200"}, {k: "transfer-encoding", v: "chunked"}}, false},
		{"upgrade", []cli_kv{{k: ":status", v: "200"}, {k: "upgrade", v: "h2c"}}, false},
		{"proxy-connection", []cli_kv{{k: ":status", v: "200"}, {k: "proxy-connection", v: "x"}}, false},
		{"cl-not-number", []cli_kv{{k: ":status", v: "200"}, {k: "content-length", v: "abc"}}, false},
		{"cl-empty", []cli_kv{{k: ":status", v: "200"}, {k: "content-length", v: ""}}, false},
		{"cl-negative", []cli_kv{{k: ":status", v: "200"}, {k: "content-length", v: "-1"}}, false},
		{"cl-overflow", []cli_kv{{k: ":status", v: "200"}, {k: "content-length", v: "18446744073709551621"}}, false},
	}
	reps := 1
	if thorough {
		reps = 6
	}
	for rep := 0; rep < 4*reps; rep++ {
		for _, sh := range shapes {
			q := p.fork()
			s := newScn(w, q, 3, 100)
			// the malformed one sits between two good exchanges
			ta, sa := s.req(reqSpec{path: "/before"})
			tb, sb := s.req(reqSpec{path: "/subject"})
			tc, sc := s.req(reqSpec{path: "/after"})
			if rep%2 == 1 {
				s.frame(s.resp(sa, "200", ok, nil))
			}
			s.note("msg %s %d wf=%v shape=%s", s.id, sb, sh.wf, sh.name)
			block := s.enc.block(sh.fields)
			if rep/2%2 == 0 {
				s.frame(frHeaderBlock(sb, block, true, nil, -1))
			} else {
				// the same header list on a response with a body: the stream ends on a DATA frame
				s.frame(frHeaderBlock(sb, block, false, nil, -1))
				body := []byte("ok")
				for _, f := range sh.fields {
					if f.k == "content-length" && f.v == "0" {
						body = nil
					}
				}
				s.frame(fr(0, 1, sb, body))
			}
			delete(s.open, sb)
			if rep%2 == 0 {
				s.frame(s.resp(sa, "200", ok, nil))
			}
			s.frame(s.resp(sc, "200", ok, []byte("x")))
			s.read(ta, tb, tc)
			s.finale("close")
		}
	}
}

// forced interleavings of Write / Close / the write loop through the yield points
// (monitored, not compared with the serial model)
func genCliRace(p *prng, thorough bool, w *bufio.Writer) {
	reqLine := func(s *scn, verb string) string {
		s.ntag++
		tag := fmt.Sprintf("t%d", s.ntag)
		s.tags = append(s.tags, tag)
		s.op("%s %s GET https %s %s - - none", verb, tag, hexOrDash([]byte("example.com")), hexOrDash([]byte("/"+tag)))
		return tag
	}
	// F42: Write has enqueued and sits between its two selects, the write loop has written the
	// request and is held on the next one, Close closes done, Write's re-check resolves.
	for variant := 0; variant < 3; variant++ {
		s := newScn(w, p.fork())
		s.op("arm write-between-selects")
		reqLine(s, "reqgo")
		if variant != 1 {
			s.op("arm wl-took-request")
			reqLine(s, "reqgo")
		}
		s.op("arm close-after-done")
		s.op("closego")
		if variant == 2 {
			s.op("resume close-after-done")
			s.op("resume write-between-selects")
		} else {
			s.op("resume write-between-selects")
			s.op("resume close-after-done")
		}
		s.op("resume wl-took-request")
		s.op("settle")
		s.read(s.tags...)
	}
	// Write has passed its early check; the connection ends completely; only then does Write reach
	// its select. Whichever case the select picks, the request must end up resolved.
	for rep := 0; rep < 10; rep++ {
		s := newScn(w, p.fork())
		s.op("arm write-after-precheck")
		reqLine(s, "reqgo")
		s.op("close")
		s.op("resume write-after-precheck")
		s.op("settle")
		s.read(s.tags...)
	}
	// Close first, then Write
	{
		s := newScn(w, p.fork())
		s.op("arm close-after-done")
		s.op("closego")
		reqLine(s, "reqgo")
		reqLine(s, "reqgo")
		s.op("resume close-after-done")
		s.op("settle")
		s.read(s.tags...)
	}
	// long request header blocks written while other goroutines write too (F33)
	cliBigRace(p, w)
}

func genCliSmoke(p *prng, thorough bool, w *bufio.Writer) {
	s := newScn(w, p, 3, 100, 4, 65535)
	t1, _ := s.req(reqSpec{path: "/a", ua: "ua/1", hdrs: []cli_kv{{k: "X-Foo", v: "bar"}, {k: "Connection", v: "keep-alive"}}})
	s.frame(s.resp(1, "200", []cli_kv{{k: "x-a", v: "b"}, {k: "content-type", v: "text/x"}}, []byte("hello")))
	s.read(t1)
	t2, _ := s.req(reqSpec{method: "POST", path: "/up", body: "buf:7:70000"})
	s.frame(frWindowUpdate(3, 10000))
	s.frame(frWindowUpdate(0, 10000))
	s.frame(s.resp(3, "204", nil, nil))
	s.read(t2)
	t3, _ := s.req(reqSpec{method: "POST", path: "/s", body: "str:3:-1:100.200:eof"})
	t4, _ := s.req(reqSpec{method: "POST", path: "/s", body: "str:3:300:100.200:eof"})
	s.op("timeout %s", t3)
	s.read(t3)
	s.op("gauges")
	s.frame(frGoAway(7, 0, nil))
	t5, _ := s.req(reqSpec{})
	s.read(t5)
	s.frame(s.resp(7, "200", nil, nil))
	s.read(t4)
	s.op("close")
	s.read(t4)
}

func init() {
	cliGens["clismoke"] = genCliSmoke
	cliGens["cliresp"] = genCliResp
	cliGens["cliflow"] = genCliFlow
	cliGens["cligoaway"] = genCliGoAway
	cliGens["cliresolve"] = genCliResolve
	cliGens["clicredit"] = genCliCredit
	cliGens["clisettings"] = genCliSettings
	cliGens["climsg"] = genCliMsg
	cliGens["clirace"] = genCliRace
}
