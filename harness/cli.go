package main

// Client area: deterministic stepping of a real http2.Conn. The harness plays
// the server over an in-memory connection, one scripted event at a time, and
// waits for quiescence (read loop parked on an empty buffer, write loop has
// processed everything queued, or both loops have exited) before it reports
// what the client wrote and which requests have a result waiting.
//
//	cli <id> new <settings-payload-hex> [extra-hex]
//	cli <id> req <tag> <method> <scheme> <host-hex> <path-hex> <ua-hex> <hdrs> <body>
//	cli <id> frame <hex>
//	cli <id> timeout <tag>
//	cli <id> read <tag>
//	cli <id> close | cut | failwrite <n> | gauges
//
// Result line: "<compared part> ## <diagnostics, not compared>".

import (
	"bytes"
	"errors"
	"fmt"
	"io"
	"runtime"
	"sort"
	"strconv"
	"strings"
	"sync"
	"sync/atomic"
	"time"

	http2 "github.com/dgrr/http2"
	"github.com/valyala/fasthttp"
	"golang.org/x/net/http2/hpack"
)

const cliPreface = "PRI * HTTP/2.0\r\n\r\nSM\r\n\r\n"

type cliReq struct {
	tag    string
	ctx    *http2.Ctx
	req    *fasthttp.Request
	res    *fasthttp.Response
	read   bool
	seed   int // body pattern
	sent   int // body octets seen on the wire so far
	bodyOK bool
	bs     *cli_scriptReader
	said   string // what a GOAWAY-class result said when it was handed out
	nres   int    // results taken out of Err so far
	err    error  // the result, kept so that what it says can be looked at again later (`errs`)
}

// cliNet is the client's end of the connection; it notes the writes the transport refused
// (`failwrite`), for the monitors: a connection whose transport has failed must not keep callers waiting.
type cliNet struct {
	*memConn
	failed atomic.Int32
}

func (n *cliNet) Write(p []byte) (int, error) {
	k, err := n.memConn.Write(p)
	if err != nil && err != errPipeClosed {
		n.failed.Add(1)
	}
	return k, err
}

type cliConn struct {
	mc       *memConn
	nc       *cliNet
	failSeen int32
	c        *http2.Conn
	reqs     map[string]*cliReq
	order    []string
	rest     []byte // partial frame left over from the previous step
	hdec     *hpack.Decoder
	fields   []hpack.HeaderField
	blockErr bool     // a fragment of the header block in progress could not be decoded
	openBlk  uint32   // stream of the header block the client is in the middle of writing (0: none), in wire order
	hbi      []string // frames seen between a HEADERS without END_HEADERS and the end of its block: "<stream>:t<type>"
	state    string   // "" alive, "dead", "stuck", "hs-err"
	preface  bool
	bySid    map[uint32]*cliReq
	poolSeen int
	hdecMax  uint32
	lastSaid string // what LastErr said when the connection ended (GOAWAY-class errors)
	stalled  bool   // the peer has stopped reading (cli_stall.go): nothing is compared with the model any more
	st       *cliStall
}

// cli_scriptReader is a request body stream whose Read results are scripted.
type cli_scriptReader struct {
	seed   int
	off    int
	chunks []int
	term   string // eof | eofw | err | zero
	closed int
}

func (r *cli_scriptReader) Read(p []byte) (int, error) {
	if len(r.chunks) == 0 {
		switch r.term {
		case "err":
			return 0, errors.New("scripted read error")
		case "zero":
			return 0, nil
		}
		return 0, io.EOF
	}
	n := r.chunks[0]
	if n > len(p) {
		n = len(p)
		r.chunks[0] -= n
	} else {
		r.chunks = r.chunks[1:]
	}
	for i := 0; i < n; i++ {
		p[i] = cli_patByte(r.seed, r.off+i)
	}
	r.off += n
	if len(r.chunks) == 0 && r.term == "eofw" {
		return n, io.EOF
	}
	return n, nil
}

func (r *cli_scriptReader) Close() error { r.closed++; return nil }

func cli_patByte(seed, i int) byte { return byte((seed + i) % 251) }

func cli_patBytes(seed, n int) []byte {
	b := make([]byte, n)
	for i := range b {
		b[i] = cli_patByte(seed, i)
	}
	return b
}

// cliSizeUpdateLen is the length of the dynamic table size update p starts with, 0 if it does not start with a
// complete one (RFC 7541 6.3: pattern 001, 5-bit prefix integer).
func cliSizeUpdateLen(p []byte) int {
	if len(p) == 0 || p[0]&0xe0 != 0x20 {
		return 0
	}
	if p[0]&0x1f != 0x1f {
		return 1
	}
	for i := 1; i < len(p) && i < 7; i++ {
		if p[i]&0x80 == 0 {
			return i + 1
		}
	}
	return 0
}

func cliErrName(err error) string {
	if err == nil {
		return "ok"
	}
	var we http2.WriteError
	var ga *http2.GoAway
	switch {
	case err == http2.ErrRequestCanceled:
		return "timeout"
	case errors.As(err, &we):
		// a write that failed because the connection had already been closed
		// is the connection ending, whoever noticed first
		if strings.Contains(err.Error(), "memconn: closed") {
			return "eof"
		}
		return "write-err"
	case errors.Is(err, http2.ErrConnectionClosed):
		return "conn-closed"
	case errors.Is(err, http2.ErrNotAvailableStreams):
		return "no-streams"
	case errors.Is(err, http2.ErrNoMoreStreamIDs):
		return "no-ids"
	case err == io.EOF || err == io.ErrUnexpectedEOF:
		return "eof"
	case errors.As(err, &ga):
		return "goaway"
	}
	if code, goAway, ok := http2.VerifErrorInfo(err); ok {
		if strings.Contains(err.Error(), "stream reset by the server") {
			return fmt.Sprintf("rst:%d", code)
		}
		if goAway {
			return fmt.Sprintf("h2conn:%d", code)
		}
		return fmt.Sprintf("h2err:%d", code)
	}
	s := err.Error()
	switch {
	case strings.Contains(s, "pseudo-header"), strings.Contains(s, "uppercase"), strings.Contains(s, "connection-specific"),
		strings.Contains(s, "content-length"), strings.Contains(s, ":status"):
		return "bad-msg"
	case strings.Contains(s, "memconn: closed"):
		return "eof"
	case strings.Contains(s, "memconn"):
		return "write-err"
	case strings.Contains(s, "unexpected size"), strings.Contains(s, "does not fit in 64 bits"), strings.Contains(s, "dynamic update"),
		strings.Contains(s, "no bytes left reading a string"), strings.Contains(s, "huffman"), strings.Contains(s, "zero prefix"):
		return "hpack"
	}
	return "other"
}

// readIdle: the read loop is parked in Read on an empty buffer of a connection
// that is still open (a closed one wakes it up).
func (cc *cliConn) readIdle() bool { return cc.mc.in.idle() && !cc.mc.in.isClosed() }

// cliStuckSeen counts the connections of this run already found stuck. A step normally settles in
// well under a millisecond; the first verdicts wait four seconds to be sure, later ones (the run is
// failing by then) less, so that a deadlock hit by many scripts does not take minutes to report.
var cliStuckSeen int

func (cc *cliConn) quiesce() string {
	wait := 4 * time.Second
	if cliStuckSeen >= 10 {
		wait = 300 * time.Millisecond
	} else if cliStuckSeen >= 3 {
		wait = time.Second
	}
	deadline := time.Now().Add(wait)
	spins := 0
	for {
		exits := http2.VerifClientLoopExits.Load()
		if exits >= 2 {
			return "dead"
		}
		if exits == 0 && cc.readIdle() {
			e, d := http2.VerifClientEnqN.Load(), http2.VerifClientDeqN.Load()
			if e == d {
				runtime.Gosched()
				if cc.readIdle() && http2.VerifClientEnqN.Load() == e && http2.VerifClientDeqN.Load() == d &&
					http2.VerifClientLoopExits.Load() == 0 {
					return ""
				}
			}
		}
		spins++
		if spins < 200 {
			runtime.Gosched()
		} else {
			time.Sleep(50 * time.Microsecond)
			if spins%64 == 0 && time.Now().After(deadline) {
				cliStuckSeen++
				return "stuck"
			}
		}
	}
}

// guarded runs a call that takes a request's lock on a goroutine of its own and reports whether it
// came back in time.
func (cc *cliConn) guarded(fn func()) bool {
	done := make(chan struct{})
	go func() { fn(); close(done) }()
	wait := 4 * time.Second
	if cliStuckSeen >= 3 {
		wait = time.Second
	}
	select {
	case <-done:
		return true
	case <-time.After(wait):
		cliStuckSeen++
		return false
	}
}

// tok is one frame the client wrote: the compared form and a fuller diagnostic form.
type tok struct {
	sid  int64
	cmp  string
	diag string
}

// collect turns what the client wrote since the last step into canonical frame
// tokens.
func (cc *cliConn) collect() (toks []tok) {
	b := append(cc.rest, cc.mc.out.take()...)
	if !cc.preface {
		if len(b) >= len(cliPreface) && string(b[:len(cliPreface)]) == cliPreface {
			toks = append(toks, tok{-1, "PRI", "PRI"})
			b = b[len(cliPreface):]
			cc.preface = true
		} else if len(b) > 0 {
			toks = append(toks, tok{-1, "bad-preface", "bad-preface"})
			cc.preface = true
		}
	}
	frames, rest := parseFrames(b)
	cc.rest = rest
	for _, f := range frames {
		// wire order (the tokens are sorted by stream afterwards): nothing may come between the frames of a header block
		if cc.openBlk != 0 && !(f.typ == 9 && f.stream == cc.openBlk) {
			cc.hbi = append(cc.hbi, fmt.Sprintf("%d:t%d", cc.openBlk, f.typ))
		}
		if f.typ == 1 || (f.typ == 9 && f.stream == cc.openBlk) {
			cc.openBlk = 0
			if f.flags&4 == 0 {
				cc.openBlk = f.stream
			}
		}
		toks = append(toks, cc.frameTok(f))
	}
	return toks
}

func (cc *cliConn) frameTok(f rawFrame) tok {
	sid := int64(f.stream)
	mk := func(cmp, extra string) tok { return tok{sid, cmp, cmp + extra} }
	switch f.typ {
	case 0: // DATA
		ok := "?"
		if r := cc.bySid[f.stream]; r != nil {
			good := true
			for i, x := range f.payload {
				if x != cli_patByte(r.seed, r.sent+i) {
					good = false
				}
			}
			r.sent += len(f.payload)
			if !good {
				r.bodyOK = false
			}
			ok = map[bool]string{true: "ok", false: "BAD"}[good]
		}
		return mk(fmt.Sprintf("D%d:%d:%d", f.stream, len(f.payload), f.flags&1), ":"+ok)
	case 1: // HEADERS
		p := f.payload
		if f.flags&0x8 != 0 && len(p) > 0 {
			pad := int(p[0])
			p = p[1:]
			if pad <= len(p) {
				p = p[:len(p)-pad]
			}
		}
		if f.flags&0x20 != 0 && len(p) >= 5 {
			p = p[5:]
		}
		cc.fields = cc.fields[:0]
		cc.blockErr = false
		// RFC 7541 4.2 allows two dynamic table size updates at the start of a block: the smallest size since
		// the last block, then the final one. x/net's decoder (v0.56.0 hpack.go:276) takes the first update for
		// "the first field" and refuses a second one unless its table is empty, so each leading update (two at
		// most) is handed to it as a block of its own: that does to its table exactly what the update says.
		for lead := 0; lead < 2; lead++ {
			n := cliSizeUpdateLen(p)
			if n == 0 || n >= len(p) {
				break
			}
			if _, err := cc.hdec.Write(p[:n]); err != nil || cc.hdec.Close() != nil {
				break
			}
			p = p[n:]
		}
		return cc.blockTok(f, p, mk)
	case 9: // CONTINUATION: the client's writeHeaderBlock cuts a long request header block
		return cc.blockTok(f, f.payload, mk)
	case 3:
		if len(f.payload) == 4 {
			return mk(fmt.Sprintf("R%d:%d", f.stream, be32(f.payload)), "")
		}
	case 4:
		if f.stream == 0 {
			if f.flags&1 != 0 {
				return mk("A0", fmt.Sprintf(":len=%d", len(f.payload)))
			}
			var cli_kv []string
			for i := 0; i+6 <= len(f.payload); i += 6 {
				cli_kv = append(cli_kv, fmt.Sprintf("%d=%d", int(f.payload[i])<<8|int(f.payload[i+1]), be32(f.payload[i+2:])))
			}
			return mk("S0:"+strings.Join(cli_kv, ","), "")
		}
	case 6:
		if f.stream == 0 {
			return mk(fmt.Sprintf("P0:%d:%s", f.flags&1, hexOrDash(f.payload)), "")
		}
	case 7:
		if len(f.payload) >= 8 && f.stream == 0 {
			return mk(fmt.Sprintf("G0:%d:%d", be32(f.payload)&0x7fffffff, be32(f.payload[4:])), "")
		}
	case 8:
		if len(f.payload) == 4 {
			return mk(fmt.Sprintf("W%d:%d", f.stream, be32(f.payload)), "")
		}
	}
	return mk(fmt.Sprintf("F%d:%d:%d:%s", f.stream, f.typ, f.flags, hexOrDash(f.payload)), "")
}

// blockTok feeds one fragment of a request header block to the scripted server's decoder. The decoded field list is
// printed on the frame that carries END_HEADERS (HEADERS or CONTINUATION); the frames before it print none.
func (cc *cliConn) blockTok(f rawFrame, p []byte, mk func(cmp, extra string) tok) tok {
	eh := (f.flags >> 2) & 1
	_, err := cc.hdec.Write(p)
	if err == nil && eh != 0 {
		err = cc.hdec.Close()
	}
	if err != nil {
		cc.blockErr = true
	}
	var head, tail []string
	if eh != 0 {
		for i, hf := range cc.fields {
			s := hexOrDash([]byte(hf.Name)) + "=" + hexOrDash([]byte(hf.Value))
			if i < 5 {
				head = append(head, s)
			} else {
				tail = append(tail, s)
			}
		}
		sort.Strings(tail)
	}
	st := "ok"
	if err != nil || (eh != 0 && cc.blockErr) {
		st = "hpack-err"
	}
	extra := fmt.Sprintf(":len=%d", len(f.payload))
	if err != nil {
		extra += ":" + strings.ReplaceAll(err.Error(), " ", "_") + ":" + hexOrDash(f.payload[:minInt(len(f.payload), 16)])
	}
	if f.typ == 9 {
		return mk(fmt.Sprintf("C%d:%d:%s:%s", f.stream, eh, st, strings.Join(append(head, tail...), ",")), extra)
	}
	return mk(fmt.Sprintf("H%d:%d:%d:%s:%s", f.stream, f.flags&1, eh, st, strings.Join(append(head, tail...), ",")), extra)
}

func minInt(a, b int) int {
	if a < b {
		return a
	}
	return b
}

func be32(b []byte) uint32 {
	return uint32(b[0])<<24 | uint32(b[1])<<16 | uint32(b[2])<<8 | uint32(b[3])
}

// The order in which the write loop serves its channels within a step is the
// scheduler's choice, the order of the frames of one stream is not: tokens are
// ordered by stream, stably.
func sortToks(toks []tok) {
	sort.SliceStable(toks, func(i, j int) bool { return toks[i].sid < toks[j].sid })
}

func (cc *cliConn) ready() string {
	var r []string
	for _, t := range cc.order {
		q := cc.reqs[t]
		if !q.read && len(q.ctx.Err) > 0 {
			r = append(r, t)
		}
	}
	if len(r) == 0 {
		return "-"
	}
	return strings.Join(r, ",")
}

// finishStep waits for quiescence and renders the step's result.
func (cc *cliConn) finishStep(prefix string) string {
	q := cc.quiesce()
	toks := cc.collect()
	sortToks(toks)
	var cmp, diag []string
	for _, t := range toks {
		cmp = append(cmp, t.cmp)
		diag = append(diag, t.diag)
	}
	all := strings.Join(diag, " ")
	if all == "" {
		all = "-"
	}
	out := strings.Join(cmp, ";")
	if out == "" {
		out = "-"
	}
	if n := cc.nc.failed.Load(); n > cc.failSeen {
		all += fmt.Sprintf(" wfail=%d", n-cc.failSeen)
		cc.failSeen = n
	}
	if len(cc.hbi) > 0 {
		all += " hbi=" + strings.Join(cc.hbi, ",")
		cc.hbi = nil
	}
	if q == "stuck" {
		cc.state = "stuck"
		return "stuck ## " + all
	}
	if an, _, _, _ := http2.VerifPoolReport(); len(an) > cc.poolSeen {
		all += " pool=" + strings.Join(an[cc.poolSeen:], ",")
		cc.poolSeen = len(an)
	}
	if q == "dead" {
		cc.state = "dead"
		le := "nil"
		if e := cc.c.LastErr(); e != nil {
			le = strings.Map(func(r rune) rune {
				if r == ' ' {
					return '_'
				}
				if r < 0x21 || r > 0x7e {
					return '.'
				}
				return r
			}, e.Error())
			if len(le) > 60 {
				le = le[:60]
			}
			if d := cliGoAwayDetail(e); d != "" {
				le += " last" + d
				if cc.lastSaid == "" {
					cc.lastSaid = d
				}
			}
		}
		return strings.TrimSpace(prefix+" dead ready="+cc.ready()) + " ## " + all + " lasterr=" + le
	}
	return strings.TrimSpace(prefix+" out="+out+" ready="+cc.ready()) + " ## " + all
}

// ---- forced interleavings (yield points) ----
// `arm <point>` makes every goroutine that reaches the yield point park until
// `resume <point>`. `reqgo` and `closego` run Write / Close on goroutines of
// their own so that they can be parked. Steps that involve parked goroutines are
// monitored, not compared with the serial model.
type parker struct {
	mu     sync.Mutex
	armed  map[string]bool
	parked map[string][]chan struct{}
}

var park = &parker{armed: map[string]bool{}, parked: map[string][]chan struct{}{}}

func (p *parker) yield(point string) {
	p.mu.Lock()
	if !p.armed[point] {
		p.mu.Unlock()
		return
	}
	ch := make(chan struct{})
	p.parked[point] = append(p.parked[point], ch)
	p.mu.Unlock()
	<-ch
}

func (p *parker) count(point string) int {
	p.mu.Lock()
	defer p.mu.Unlock()
	return len(p.parked[point])
}

func (p *parker) resume(point string) int {
	p.mu.Lock()
	chs := p.parked[point]
	p.parked[point] = nil
	p.armed[point] = false
	p.mu.Unlock()
	for _, c := range chs {
		close(c)
	}
	return len(chs)
}

func (p *parker) reset() {
	p.mu.Lock()
	for k, chs := range p.parked {
		for _, c := range chs {
			close(c)
		}
		delete(p.parked, k)
	}
	p.armed = map[string]bool{}
	p.mu.Unlock()
}

func settle() { time.Sleep(30 * time.Millisecond) }

func (r *runner) runCli(f []string) string {
	if len(f) < 3 {
		return "bad-op"
	}
	id, op := f[1], f[2]
	if op == "new" {
		return r.cliNew(id, f[3:])
	}
	cc := r.cli[id]
	if cc == nil {
		return "bad-op"
	}
	if cc.state == "hs-err" || (cc.state == "stuck" && op != "read") {
		return cc.state + " ## -"
	}
	if cc.stalled || op == "stall" {
		if op != "stall" && cc.st == nil {
			return "bad-op"
		}
		return cc.runStalled(op, f)
	}
	switch op {
	case "req":
		return cc.doReq(f[3:])
	case "frame":
		if len(f) != 4 {
			return "bad-op"
		}
		b, ok := unhex(f[3])
		if !ok {
			return "bad-op"
		}
		if cc.state == "dead" {
			return "dead ready=" + cc.ready() + " ## -"
		}
		cc.noteServerSettings(b)
		cc.mc.in.write(b)
		return cc.finishStep("")
	case "timeout":
		q := cc.reqs[f[3]]
		if q == nil {
			return "bad-op"
		}
		// the timer goroutine takes the request's lock (cancel -> deletePending): a lock the connection
		// never gave back would park it, and this harness with it
		if !cc.guarded(func() { http2.VerifCtxFireTimeout(q.ctx) }) {
			cc.state = "stuck"
			return "stuck ## timer blocked on the request lock"
		}
		return cc.finishStep("")
	case "read":
		q := cc.reqs[f[3]]
		if q == nil {
			return "read none ## -"
		}
		return cc.doRead(q)
	case "close":
		err := cc.c.Close()
		p := "first"
		if err == io.EOF {
			p = "again"
		}
		return cc.finishStep(p)
	case "cut":
		cc.mc.in.close()
		return cc.finishStep("")
	case "arm":
		fn := park.yield
		http2.VerifYieldFn.Store(&fn)
		park.mu.Lock()
		park.armed[f[3]] = true
		park.mu.Unlock()
		return "race ## armed"
	case "resume":
		n := park.resume(f[3])
		settle()
		return fmt.Sprintf("race ## resumed=%d %s", n, cc.raceDiag())
	case "reqgo":
		q, bad := cc.buildReq(f[3:])
		if bad != "" {
			return bad
		}
		go cc.c.Write(q.ctx)
		settle()
		if sid := http2.VerifCtxStreamID(q.ctx); sid != 0 {
			cc.bySid[sid] = q
		}
		return "race ## " + cc.raceDiag()
	case "reqnow": // Write on a goroutine, not waited for: the next ops overlap with it
		q, bad := cc.buildReq(f[3:])
		if bad != "" {
			return bad
		}
		go cc.c.Write(q.ctx)
		return "race ## started"
	case "feed": // octets for the read loop, not waited for
		b, ok := unhex(f[3])
		if !ok {
			return "bad-op"
		}
		cc.noteServerSettings(b)
		cc.mc.in.write(b)
		return "race ## fed"
	case "closego":
		go func() { _ = cc.c.Close() }()
		settle()
		return "race ## " + cc.raceDiag()
	case "settle":
		q := cc.quiesce()
		if q == "dead" {
			cc.state = "dead"
		}
		return "race ## " + q + " " + cc.raceDiag()
	case "errs":
		return "errs ## " + cc.errsDiag()
	case "failwrite":
		n, _ := strconv.Atoi(f[3])
		cc.mc.out.setFailAfter(cc.mc.out.written() + int64(n))
		return "ok"
	case "gauges":
		open, next, pend, queued := http2.VerifConnGauges(cc.c)
		return fmt.Sprintf("gauges open=%d next=%d pending=%d queued=%d can=%v ## -", open, next, pend, queued, cc.c.CanOpenStream())
	}
	return "bad-op"
}

// noteServerSettings: the scripted server's own HPACK decoder follows the
// SETTINGS_HEADER_TABLE_SIZE it announces. A peer that keeps a larger table than
// announced then produces blocks this decoder cannot read.
func (cc *cliConn) noteServerSettings(b []byte) {
	fs, _ := parseFrames(b)
	for _, f := range fs {
		if f.typ != 4 || f.stream != 0 || f.flags&1 != 0 || len(f.payload)%6 != 0 {
			continue
		}
		for i := 0; i+6 <= len(f.payload); i += 6 {
			if int(f.payload[i])<<8|int(f.payload[i+1]) == 1 {
				v := be32(f.payload[i+2:])
				cc.hdec.SetAllowedMaxDynamicTableSize(v)
				if v < cc.hdecMax {
					cc.hdec.SetMaxDynamicTableSize(v)
				}
				cc.hdecMax = v
			}
		}
	}
}

func (r *runner) cliNew(id string, a []string) string {
	// one connection at a time: the progress counters are global
	for k, old := range r.cli {
		cliKeep(old)
		if old.stalled && old.c != nil {
			old.stallCleanup()
		} else if old.state == "" && old.c != nil {
			_ = old.c.Close()
			old.quiesce()
		}
		delete(r.cli, k)
	}
	if len(a) < 1 {
		return "bad-op"
	}
	first, ok := unhex(a[0])
	if !ok {
		return "bad-op"
	}
	cc := &cliConn{mc: newMemConn(), reqs: map[string]*cliReq{}, bySid: map[uint32]*cliReq{}, hdecMax: 4096}
	cc.hdec = hpack.NewDecoder(4096, func(hf hpack.HeaderField) { cc.fields = append(cc.fields, hf) })
	r.cli[id] = cc
	park.reset()
	http2.VerifYieldFn.Store(nil)
	http2.VerifResetCounters()
	http2.VerifPoolTrack(true)
	cc.noteServerSettings(first)
	cc.mc.in.write(first)
	cc.nc = &cliNet{memConn: cc.mc}
	cc.c = http2.NewConn(cc.nc, http2.ConnOpts{PingInterval: time.Hour, DisablePingChecking: true})
	if err := cc.c.Handshake(); err != nil {
		cc.state = "hs-err"
		cc.collect()
		return "hs-err ## -"
	}
	return cc.finishStep("hs")
}

// raceDiag: frames written and results waiting, without waiting for quiescence.
func (cc *cliConn) raceDiag() string {
	toks := cc.collect()
	var d []string
	for _, t := range toks {
		d = append(d, t.diag)
	}
	if len(d) == 0 {
		d = []string{"-"}
	}
	if len(cc.hbi) > 0 {
		d = append(d, "hbi="+strings.Join(cc.hbi, ","))
		cc.hbi = nil
	}
	return strings.Join(d, " ") + " ready=" + cc.ready()
}

func (cc *cliConn) doReq(a []string) string {
	q, bad := cc.buildReq(a)
	if bad != "" {
		return bad
	}
	cc.c.Write(q.ctx)
	if cc.state == "dead" {
		return "dead ready=" + cc.ready() + " ## -"
	}
	cc.quiesce()
	if sid := http2.VerifCtxStreamID(q.ctx); sid != 0 {
		cc.bySid[sid] = q
	}
	return cc.finishStep("")
}

func (cc *cliConn) buildReq(a []string) (*cliReq, string) {
	if len(a) != 8 {
		return nil, "bad-op"
	}
	tag, method, scheme := a[0], a[1], a[2]
	host, ok1 := unhex(a[3])
	path, ok2 := unhex(a[4])
	ua, ok3 := unhex(a[5])
	if !(ok1 && ok2 && ok3) || cc.reqs[tag] != nil {
		return nil, "bad-op"
	}
	req, res := fasthttp.AcquireRequest(), fasthttp.AcquireResponse()
	req.Header.SetMethod(method)
	req.SetRequestURI(scheme + "://" + string(host) + string(path))
	if len(ua) > 0 {
		req.Header.SetUserAgentBytes(ua)
	}
	if a[6] != "-" {
		for _, cli_kv := range strings.Split(a[6], ",") {
			p := strings.SplitN(cli_kv, "=", 2)
			if len(p) != 2 {
				return nil, "bad-op"
			}
			k, ok1 := unhex(p[0])
			v, ok2 := unhex(p[1])
			if !ok1 || !ok2 {
				return nil, "bad-op"
			}
			req.Header.AddBytesKV(k, v)
		}
	}
	q := &cliReq{tag: tag, req: req, res: res, bodyOK: true}
	b := strings.Split(a[7], ":")
	switch b[0] {
	case "none":
	case "buf":
		if len(b) != 3 {
			return nil, "bad-op"
		}
		q.seed, _ = strconv.Atoi(b[1])
		n, _ := strconv.Atoi(b[2])
		req.SetBody(cli_patBytes(q.seed, n))
	case "str":
		if len(b) != 5 {
			return nil, "bad-op"
		}
		q.seed, _ = strconv.Atoi(b[1])
		decl, _ := strconv.Atoi(b[2])
		bs := &cli_scriptReader{seed: q.seed, term: b[4]}
		if b[3] != "-" {
			for _, c := range strings.Split(b[3], ".") {
				n, _ := strconv.Atoi(c)
				bs.chunks = append(bs.chunks, n)
			}
		}
		q.bs = bs
		req.SetBodyStream(bs, decl)
	default:
		return nil, "bad-op"
	}
	q.ctx = http2.VerifNewCtx(req, res)
	cc.reqs[tag] = q
	cc.order = append(cc.order, tag)
	return q, ""
}

func (cc *cliConn) doRead(q *cliReq) string {
	if q.read {
		return "read again ## -"
	}
	select {
	case err := <-q.ctx.Err:
		// RoundTrip takes the request back before it returns; it waits for whoever holds the lock
		if !cc.guarded(func() { http2.VerifCtxTakeBack(q.ctx) }) {
			q.read = true
			q.nres++
			q.err = err
			return "read hung " + cliErrName(err) + " ## takeBack blocked: the connection still holds the request"
		}
		q.read = true
		q.nres++
		q.err = err
		q.said = cliGoAwayDetail(err)
		s := fmt.Sprintf("read %s retry=%d sid=%d", cliErrName(err), map[bool]int{false: 0, true: 1}[http2.VerifRetryable(err)],
			http2.VerifCtxStreamID(q.ctx))
		if err == nil {
			s += " " + cliResponse(q.res)
		}
		bsc := ""
		if q.bs != nil {
			bsc = fmt.Sprintf(" bsclosed=%d", q.bs.closed)
		}
		return s + " ##" + fmt.Sprintf(" cl=%d", q.res.Header.ContentLength()) + bsc + " sent=" + strconv.Itoa(q.sent) + " bodyok=" + strconv.FormatBool(q.bodyOK) + cliErrDetail(err)
	default:
		return "read none ## -"
	}
}

// cliGoAwayDetail: an error that is, or wraps, a GOAWAY frame says what that frame said: last-stream-id, code, length
// and digest of the debug data. The monitors compare it with the GOAWAY the scripted server sent, at every time the
// error is looked at: the value belongs to the caller for as long as the caller keeps it.
func cliGoAwayDetail(err error) string {
	var ga *http2.GoAway
	if err != nil && errors.As(err, &ga) && ga != nil {
		return fmt.Sprintf("ga=%d:%d:%d:%d", ga.Stream(), uint32(ga.Code()), len(ga.Data()), sum32(ga.Data()))
	}
	return ""
}

// cliKept: GOAWAY-class errors of connections that are over, with what they said when they were handed out. A caller may
// keep an error for as long as it likes: what it says must not change when later connections recycle frames.
type cliKeptErr struct {
	from string
	err  error
	said string
}

var cliKept []cliKeptErr

func cliKeep(cc *cliConn) {
	if cc.c == nil {
		return
	}
	add := func(from string, e error, said string) {
		if said != "" {
			cliKept = append(cliKept, cliKeptErr{from, e, said})
		}
	}
	if e := cc.c.LastErr(); e != nil {
		add("last", e, cc.lastSaid)
	}
	for _, t := range cc.order {
		if q := cc.reqs[t]; q.err != nil {
			add(t, q.err, q.said)
		}
	}
	if len(cliKept) > 64 {
		cliKept = cliKept[len(cliKept)-64:]
	}
}

// errsDiag looks again at every error handed out so far and at the connection's LastErr.
func (cc *cliConn) errsDiag() string {
	var d []string
	changed := 0
	for _, k := range cliKept {
		if cliGoAwayDetail(k.err) != k.said {
			changed++
		}
	}
	d = append(d, fmt.Sprintf("kept=%d keptchanged=%d", len(cliKept), changed))
	if e := cc.c.LastErr(); e != nil {
		if x := cliGoAwayDetail(e); x != "" {
			d = append(d, "last"+x)
		}
	}
	for _, t := range cc.order {
		if q := cc.reqs[t]; q.err != nil {
			if x := cliGoAwayDetail(q.err); x != "" {
				d = append(d, t+":"+x)
			}
		}
	}
	if len(d) == 0 {
		return "-"
	}
	return strings.Join(d, " ")
}

func sum32(b []byte) uint32 {
	var h uint32
	for _, x := range b {
		h = h*31 + uint32(x)
	}
	return h
}

func cliResponse(res *fasthttp.Response) string {
	var hs []string
	for k, v := range res.Header.All() {
		lk := bytes.ToLower(k)
		if string(lk) == "content-type" || string(lk) == "content-length" {
			continue
		}
		hs = append(hs, hexOrDash(lk)+"="+hexOrDash(v))
	}
	sort.Strings(hs)
	h := "-"
	if len(hs) > 0 {
		h = strings.Join(hs, ",")
	}
	body := res.Body()
	return fmt.Sprintf("st=%d ct=%s h=%s body=%d:%d", res.StatusCode(),
		hexOrDash(res.Header.ContentType()), h, len(body), sum32(body))
}
