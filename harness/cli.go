package main

// owned by the client area

type cliConn struct{}

func (r *runner) runCli(f []string) string { return "bad-op" }
