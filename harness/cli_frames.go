package main

// Server-side frame and header-block construction for the client scripts. The
// blocks are produced by x/net's HPACK encoder (or by hand for the malformed
// ones); nothing here uses the code under test.

import (
	"bytes"
	"fmt"

	"golang.org/x/net/http2/hpack"
)

func fr(typ, flags byte, sid uint32, payload []byte) []byte {
	l := len(payload)
	b := []byte{byte(l >> 16), byte(l >> 8), byte(l), typ, flags, byte(sid >> 24), byte(sid >> 16), byte(sid >> 8), byte(sid)}
	return append(b, payload...)
}

func cli_u32(v uint32) []byte { return []byte{byte(v >> 24), byte(v >> 16), byte(v >> 8), byte(v)} }

func frSettings(cli_kv ...uint32) []byte {
	var p []byte
	for i := 0; i+1 < len(cli_kv); i += 2 {
		p = append(p, byte(cli_kv[i]>>8), byte(cli_kv[i]))
		p = append(p, cli_u32(cli_kv[i+1])...)
	}
	return fr(4, 0, 0, p)
}

func frSettingsAck() []byte                 { return fr(4, 1, 0, nil) }
func frWindowUpdate(sid, inc uint32) []byte { return fr(8, 0, sid, cli_u32(inc)) }
func frRst(sid, code uint32) []byte         { return fr(3, 0, sid, cli_u32(code)) }
func frPing(ack bool, d []byte) []byte {
	var fl byte
	if ack {
		fl = 1
	}
	return fr(6, fl, 0, d)
}
func frGoAway(last, code uint32, debug []byte) []byte {
	return fr(7, 0, 0, append(append(cli_u32(last), cli_u32(code)...), debug...))
}

func frData(sid uint32, data []byte, end bool, pad int) []byte {
	var fl byte
	if end {
		fl |= 1
	}
	p := data
	if pad >= 0 {
		fl |= 8
		p = append([]byte{byte(pad)}, data...)
		p = append(p, make([]byte, pad)...)
	}
	return fr(0, fl, sid, p)
}

// frHeaderBlock renders a header block as HEADERS + CONTINUATION frames cut at
// the given offsets. An offset given twice makes an empty fragment in between, offset 0 an empty HEADERS fragment, and
// an offset equal to the block's length an empty last CONTINUATION that carries nothing but END_HEADERS (all legal:
// RFC 7540 6.10 puts no lower bound on a fragment); offsets beyond the block are dropped.
func frHeaderBlock(sid uint32, block []byte, endStream bool, cuts []int, pad int) []byte {
	var out []byte
	prev := 0
	parts := [][]byte{}
	for _, c := range cuts {
		if c >= prev && c <= len(block) {
			parts = append(parts, block[prev:c])
			prev = c
		}
	}
	parts = append(parts, block[prev:])
	for i, p := range parts {
		var fl byte
		if i == len(parts)-1 {
			fl |= 4
		}
		if i == 0 {
			if endStream {
				fl |= 1
			}
			if pad >= 0 {
				fl |= 8
				q := append([]byte{byte(pad)}, p...)
				p = append(q, make([]byte, pad)...)
			}
			out = append(out, fr(1, fl, sid, p)...)
		} else {
			out = append(out, fr(9, fl, sid, p)...)
		}
	}
	return out
}

// srvEnc is the scripted server's HPACK encoder. It keeps the history of what it
// encoded so that a candidate field can be tried on a replica first: fields whose
// encoding falls in the HPACK decoder's known defect class (ledger F01, owned by
// C03) get their value changed before they are sent.
type srvEnc struct {
	buf bytes.Buffer
	enc *hpack.Encoder
	log []cli_kv
}

func newSrvEnc() *srvEnc {
	s := &srvEnc{}
	s.enc = hpack.NewEncoder(&s.buf)
	return s
}

type cli_kv struct {
	k, v string
	sens bool
}

func (s *srvEnc) trial(f cli_kv) []byte {
	var b bytes.Buffer
	e := hpack.NewEncoder(&b)
	for _, h := range s.log {
		if h.k == "\x00size" {
			var n uint32
			fmt.Sscan(h.v, &n)
			e.SetMaxDynamicTableSize(n)
			continue
		}
		_ = e.WriteField(hpack.HeaderField{Name: h.k, Value: h.v, Sensitive: h.sens})
	}
	b.Reset()
	_ = e.WriteField(hpack.HeaderField{Name: f.k, Value: f.v, Sensitive: f.sens})
	return b.Bytes()
}

func (s *srvEnc) setTableSize(n uint32) {
	s.enc.SetMaxDynamicTableSize(n)
	s.log = append(s.log, cli_kv{k: "\x00size", v: fmt.Sprint(n)})
}

// block encodes the fields; the values actually used are written back.
func (s *srvEnc) block(fields []cli_kv) []byte {
	s.buf.Reset()
	for i := range fields {
		for try := 0; try < 8 && inHpackDefectClass(s.trial(fields[i])); try++ {
			fields[i].v += "~"
		}
		f := fields[i]
		_ = s.enc.WriteField(hpack.HeaderField{Name: f.k, Value: f.v, Sensitive: f.sens})
		s.log = append(s.log, f)
	}
	return append([]byte(nil), s.buf.Bytes()...)
}

// hpackWalk splits a header block into its representations without decoding
// strings. ok=false when the block is cut short or malformed.
func hpackWalk(b []byte) (reps [][]byte, ok bool) {
	readInt := func(b []byte, n uint) (v uint64, rest []byte, ok bool) {
		if len(b) == 0 {
			return 0, nil, false
		}
		m := uint64(1)<<n - 1
		v = uint64(b[0]) & m
		b = b[1:]
		if v < m {
			return v, b, true
		}
		var sh uint
		for {
			if len(b) == 0 || sh > 56 {
				return 0, nil, false
			}
			c := b[0]
			b = b[1:]
			v += uint64(c&127) << sh
			sh += 7
			if c&128 == 0 {
				return v, b, true
			}
		}
	}
	readStr := func(b []byte) (rest []byte, ok bool) {
		n, r, ok := readInt(b, 7)
		if !ok || uint64(len(r)) < n {
			return nil, false
		}
		return r[n:], true
	}
	for len(b) > 0 {
		start := b
		c := b[0]
		var n uint
		lit := true
		switch {
		case c&128 != 0:
			n, lit = 7, false
		case c&64 != 0:
			n = 6
		case c&32 != 0:
			n, lit = 5, false
		default:
			n = 4
		}
		idx, r, ok := readInt(b, n)
		if !ok {
			return reps, false
		}
		if lit {
			if idx == 0 {
				if r, ok = readStr(r); !ok {
					return reps, false
				}
			}
			if r, ok = readStr(r); !ok {
				return reps, false
			}
		}
		reps = append(reps, start[:len(start)-len(r)])
		b = r
	}
	return reps, true
}

// inHpackDefectClass: the block contains a literal whose value-length octet
// equals its first octet (ledger F01, owned by C03). The client scripts stay out
// of that class so that C03's finding does not show up as a client difference.
func inHpackDefectClass(block []byte) bool {
	reps, _ := hpackWalk(block)
	for _, r := range reps {
		c := r[0]
		if c&128 != 0 || (c&64 == 0 && c&32 != 0) {
			continue
		}
		n := uint(4)
		if c&64 != 0 {
			n = 6
		}
		// position of the value string: skip the name
		b := r
		m := byte(1)<<n - 1
		if b[0]&m == 0 {
			// literal name: 1 octet, then string
			b = b[1:]
			l, k := 0, 0
			if b[0]&127 == 127 {
				return true // long names are not generated; be conservative
			}
			l = int(b[0] & 127)
			k = 1
			b = b[k+l:]
		} else {
			b = b[1:]
			if r[0]&m == m {
				for len(b) > 0 && b[0]&128 != 0 {
					b = b[1:]
				}
				b = b[1:]
			}
		}
		if len(b) > 0 && b[0] == c {
			return true
		}
	}
	return false
}
