// h2extract reads the dgrr/http2 working tree with go/parser and emits the
// data the Lean models import (H2/Gen/*.lean): the Huffman tables, the HPACK
// static table, protocol constants, inline numbers of ServeConn/NewConn, the
// connection-specific name list, the retryable error list, and a fingerprint
// of every function a model mirrors. It copies literals; it evaluates only
// constant integer expressions (literals, << >> + - * | &, conversions, iota,
// references to other constants of the package).
package main

import (
	"bytes"
	"crypto/sha256"
	"fmt"
	"go/ast"
	"go/parser"
	"go/printer"
	"go/token"
	"os"
	"path/filepath"
	"sort"
	"strconv"
	"strings"
)

type pkgInfo struct {
	fset   *token.FileSet
	files  map[string]*ast.File
	consts map[string]int64
	cexpr  map[string]constDef
	funcs  map[string]*ast.FuncDecl // "Recv.Name" or "Name"
	vars   map[string]ast.Expr
}

type constDef struct {
	expr ast.Expr
	iota int64
}

func die(format string, a ...interface{}) {
	fmt.Fprintf(os.Stderr, "h2extract: "+format+"\n", a...)
	os.Exit(2)
}

func load(dir string) *pkgInfo {
	p := &pkgInfo{fset: token.NewFileSet(), files: map[string]*ast.File{}, consts: map[string]int64{},
		cexpr: map[string]constDef{}, funcs: map[string]*ast.FuncDecl{}, vars: map[string]ast.Expr{}}
	names, _ := filepath.Glob(filepath.Join(dir, "*.go"))
	sort.Strings(names)
	for _, n := range names {
		base := filepath.Base(n)
		if strings.HasSuffix(base, "_test.go") || strings.HasSuffix(base, "_verif.go") || strings.HasSuffix(base, "_noverif.go") {
			continue
		}
		f, err := parser.ParseFile(p.fset, n, nil, 0)
		if err != nil {
			die("parse %s: %v", n, err)
		}
		if f.Name.Name != "http2" {
			continue
		}
		p.files[base] = f
		for _, d := range f.Decls {
			switch d := d.(type) {
			case *ast.FuncDecl:
				name := d.Name.Name
				if d.Recv != nil && len(d.Recv.List) == 1 {
					t := d.Recv.List[0].Type
					if s, ok := t.(*ast.StarExpr); ok {
						t = s.X
					}
					if id, ok := t.(*ast.Ident); ok {
						name = id.Name + "." + name
					}
				}
				p.funcs[name] = d
			case *ast.GenDecl:
				if d.Tok == token.CONST {
					var last ast.Expr
					for i, s := range d.Specs {
						vs := s.(*ast.ValueSpec)
						for j, id := range vs.Names {
							var e ast.Expr
							if len(vs.Values) > j {
								e = vs.Values[j]
								last = e
							} else {
								e = last
							}
							if e != nil {
								p.cexpr[id.Name] = constDef{e, int64(i)}
							}
						}
					}
				} else if d.Tok == token.VAR {
					for _, s := range d.Specs {
						vs := s.(*ast.ValueSpec)
						for j, id := range vs.Names {
							if len(vs.Values) > j {
								p.vars[id.Name] = vs.Values[j]
							}
						}
					}
				}
			}
		}
	}
	return p
}

func (p *pkgInfo) constVal(name string) int64 {
	if v, ok := p.consts[name]; ok {
		return v
	}
	d, ok := p.cexpr[name]
	if !ok {
		die("constant %s not found", name)
	}
	v := p.eval(d.expr, d.iota)
	p.consts[name] = v
	return v
}

func (p *pkgInfo) eval(e ast.Expr, iota int64) int64 {
	switch e := e.(type) {
	case *ast.BasicLit:
		switch e.Kind {
		case token.INT:
			v, err := strconv.ParseInt(e.Value, 0, 64)
			if err != nil {
				u, err2 := strconv.ParseUint(e.Value, 0, 64)
				if err2 != nil {
					die("bad int literal %s", e.Value)
				}
				return int64(u)
			}
			return v
		case token.CHAR:
			s, _ := strconv.Unquote(e.Value)
			return int64(s[0])
		}
	case *ast.ParenExpr:
		return p.eval(e.X, iota)
	case *ast.UnaryExpr:
		if e.Op == token.SUB {
			return -p.eval(e.X, iota)
		}
	case *ast.BinaryExpr:
		a, b := p.eval(e.X, iota), p.eval(e.Y, iota)
		switch e.Op {
		case token.SHL:
			return a << uint(b)
		case token.SHR:
			return a >> uint(b)
		case token.ADD:
			return a + b
		case token.SUB:
			return a - b
		case token.MUL:
			return a * b
		case token.OR:
			return a | b
		case token.AND:
			return a & b
		case token.QUO:
			return a / b
		}
	case *ast.Ident:
		if e.Name == "iota" {
			return iota
		}
		return p.constVal(e.Name)
	case *ast.CallExpr: // conversion T(x)
		if len(e.Args) == 1 {
			return p.eval(e.Args[0], iota)
		}
	case *ast.SelectorExpr:
		// time.Second and friends: nanoseconds
		if x, ok := e.X.(*ast.Ident); ok && x.Name == "time" {
			switch e.Sel.Name {
			case "Second":
				return 1e9
			case "Millisecond":
				return 1e6
			case "Minute":
				return 60e9
			}
		}
		if x, ok := e.X.(*ast.Ident); ok && x.Name == "math" && e.Sel.Name == "MaxInt64" {
			return 1<<63 - 1
		}
	}
	var buf bytes.Buffer
	printer.Fprint(&buf, p.fset, e)
	die("cannot evaluate constant expression %s", buf.String())
	return 0
}

func (p *pkgInfo) arrayLit(name string) []int64 {
	e, ok := p.vars[name]
	if !ok {
		die("var %s not found", name)
	}
	cl, ok := e.(*ast.CompositeLit)
	if !ok {
		die("var %s is not a composite literal", name)
	}
	var out []int64
	for _, el := range cl.Elts {
		out = append(out, p.eval(el, 0))
	}
	return out
}

// byteString evaluates []byte("lit") or "lit".
func byteString(e ast.Expr) (string, bool) {
	switch e := e.(type) {
	case *ast.BasicLit:
		if e.Kind == token.STRING {
			s, err := strconv.Unquote(e.Value)
			return s, err == nil
		}
	case *ast.CallExpr:
		if len(e.Args) == 1 {
			return byteString(e.Args[0])
		}
	}
	return "", false
}

func leanBytes(s string) string {
	parts := make([]string, len(s))
	for i := 0; i < len(s); i++ {
		parts[i] = strconv.Itoa(int(s[i]))
	}
	return "[" + strings.Join(parts, ", ") + "]"
}

func (p *pkgInfo) staticTable() [][2]string {
	e, ok := p.vars["staticTable"]
	if !ok {
		die("staticTable not found")
	}
	cl := e.(*ast.CompositeLit)
	var out [][2]string
	for _, el := range cl.Elts {
		ent := el.(*ast.CompositeLit)
		var kv [2]string
		for _, f := range ent.Elts {
			k := f.(*ast.KeyValueExpr)
			s, ok := byteString(k.Value)
			if !ok {
				die("static table entry is not a literal")
			}
			switch k.Key.(*ast.Ident).Name {
			case "key":
				kv[0] = s
			case "value":
				kv[1] = s
			}
		}
		out = append(out, kv)
	}
	return out
}

// assignIn finds `<anything>.<field> = <expr>` or composite key `<field>: <expr>` inside function fn.
func (p *pkgInfo) assignIn(fn, field string) ast.Expr {
	d, ok := p.funcs[fn]
	if !ok {
		die("func %s not found", fn)
	}
	var found ast.Expr
	ast.Inspect(d, func(n ast.Node) bool {
		switch n := n.(type) {
		case *ast.AssignStmt:
			for i, l := range n.Lhs {
				if s, ok := l.(*ast.SelectorExpr); ok && s.Sel.Name == field && found == nil && len(n.Rhs) > i {
					found = n.Rhs[i]
				}
			}
		case *ast.KeyValueExpr:
			if id, ok := n.Key.(*ast.Ident); ok && id.Name == field && found == nil {
				found = n.Value
			}
		}
		return true
	})
	if found == nil {
		die("no assignment to %s in %s", field, fn)
	}
	return found
}

// chanCap: make(chan T, N) assigned to field in fn
func (p *pkgInfo) chanCap(fn, field string) int64 {
	e := p.assignIn(fn, field)
	c, ok := e.(*ast.CallExpr)
	if !ok || len(c.Args) < 1 {
		die("%s.%s is not make()", fn, field)
	}
	if len(c.Args) == 1 {
		return 0
	}
	return p.eval(c.Args[1], 0)
}

// caseListOf returns the identifiers compared in isConnectionSpecific, resolved to their byte values.
func (p *pkgInfo) connSpecific() []string {
	d := p.funcs["isConnectionSpecific"]
	if d == nil {
		die("isConnectionSpecific not found")
	}
	var out []string
	ast.Inspect(d, func(n ast.Node) bool {
		c, ok := n.(*ast.CallExpr)
		if !ok {
			return true
		}
		if s, ok := c.Fun.(*ast.SelectorExpr); ok && s.Sel.Name == "Equal" && len(c.Args) == 2 {
			if id, ok := c.Args[1].(*ast.Ident); ok {
				if v, ok := p.vars[id.Name]; ok {
					if str, ok := byteString(v); ok {
						out = append(out, str)
					}
				}
			}
		}
		return true
	})
	return out
}

// retryable: identifiers passed to errors.Is in retryable
func (p *pkgInfo) retryableErrs() []string {
	d := p.funcs["retryable"]
	if d == nil {
		die("retryable not found")
	}
	var out []string
	ast.Inspect(d, func(n ast.Node) bool {
		c, ok := n.(*ast.CallExpr)
		if !ok {
			return true
		}
		if s, ok := c.Fun.(*ast.SelectorExpr); ok && s.Sel.Name == "Is" && len(c.Args) == 2 {
			if id, ok := c.Args[1].(*ast.Ident); ok {
				out = append(out, id.Name)
			}
		}
		return true
	})
	sort.Strings(out)
	return out
}

func (p *pkgInfo) fingerprint(fn string) string {
	d, ok := p.funcs[fn]
	if !ok {
		return "missing"
	}
	var buf bytes.Buffer
	printer.Fprint(&buf, token.NewFileSet(), d)
	h := sha256.Sum256(buf.Bytes())
	return fmt.Sprintf("%x", h[:8])
}

func natList(v []int64) string {
	parts := make([]string, len(v))
	for i, x := range v {
		parts[i] = strconv.FormatInt(x, 10)
	}
	return "[" + strings.Join(parts, ", ") + "]"
}

func main() {
	if len(os.Args) != 3 {
		die("usage: h2extract <repo> <outdir>")
	}
	repo, out := os.Args[1], os.Args[2]
	p := load(repo)
	if err := os.MkdirAll(out, 0o755); err != nil {
		die("%v", err)
	}
	old, _ := filepath.Glob(filepath.Join(out, "*.lean"))
	for _, f := range old {
		os.Remove(f)
	}

	// Huffman
	codes, lens := p.arrayLit("huffmanCodes"), p.arrayLit("huffmanCodeLen")
	var b strings.Builder
	b.WriteString("-- GENERATED by h2extract from huffman.go; do not edit\nnamespace H2.Gen\n\n")
	fmt.Fprintf(&b, "def huffCodes : List Nat := %s\n\n", natList(codes))
	fmt.Fprintf(&b, "def huffLens : List Nat := %s\n\nend H2.Gen\n", natList(lens))
	write(out, "Huffman.lean", b.String())

	// Static table
	b.Reset()
	b.WriteString("-- GENERATED by h2extract from hpack.go; do not edit\nnamespace H2.Gen\n\n")
	b.WriteString("def staticTable : List (List Nat × List Nat) := [\n")
	st := p.staticTable()
	for i, kv := range st {
		sep := ","
		if i == len(st)-1 {
			sep = ""
		}
		fmt.Fprintf(&b, "  (%s, %s)%s -- %d %s %s\n", leanBytes(kv[0]), leanBytes(kv[1]), sep, i+1, kv[0], kv[1])
	}
	b.WriteString("]\n\n")
	fmt.Fprintf(&b, "def maxIndex : Nat := %d\n\nend H2.Gen\n", p.constVal("maxIndex"))
	write(out, "Static.lean", b.String())

	// Constants
	b.Reset()
	b.WriteString("-- GENERATED by h2extract; do not edit\nnamespace H2.Gen\n\n")
	cs := []string{
		"DefaultFrameSize", "defaultMaxLen", "FlagAck", "FlagEndStream", "FlagEndHeaders", "FlagPadded", "FlagPriority",
		"FrameData", "FrameHeaders", "FramePriority", "FrameResetStream", "FrameSettings", "FramePushPromise", "FramePing",
		"FrameGoAway", "FrameWindowUpdate", "FrameContinuation",
		"NoError", "ProtocolError", "InternalError", "FlowControlError", "SettingsTimeoutError", "StreamClosedError",
		"FrameSizeError", "RefusedStreamError", "StreamCanceled", "CompressionError", "ConnectionError", "EnhanceYourCalm",
		"InadequateSecurity", "HTTP11Required",
		"defaultHeaderTableSize", "defaultConcurrentStreams", "defaultWindowSize", "defaultDataFrameSize", "maxFrameSize",
		"HeaderTableSize", "EnablePush", "MaxConcurrentStreams", "MaxWindowSize", "MaxFrameSize", "MaxHeaderListSize",
		"maxDataFrameSize", "closedStrmsCap", "maxStreamID", "roundTripAttempts", "DefaultMaxHeaderListSize",
		"indexByte", "literalByte", "noIndexByte",
		"StreamStateIdle", "StreamStateReserved", "StreamStateOpen", "StreamStateHalfClosed", "StreamStateClosed",
	}
	for _, c := range cs {
		fmt.Fprintf(&b, "def c_%s : Nat := %d\n", c, p.constVal(c))
	}
	fmt.Fprintf(&b, "def c_serverMaxWindow : Nat := %d\n", p.eval(p.assignIn("Server.ServeConn", "maxWindow"), 0))
	fmt.Fprintf(&b, "def c_serverWriterCap : Nat := %d\n", p.chanCap("Server.ServeConn", "writer"))
	fmt.Fprintf(&b, "def c_serverReaderCap : Nat := %d\n", p.chanCap("Server.ServeConn", "reader"))
	fmt.Fprintf(&b, "def c_serverHandlerDoneCap : Nat := %d\n", p.chanCap("serverConn.Serve", "handlerDone"))
	fmt.Fprintf(&b, "def c_clientMaxWindow : Nat := %d\n", p.eval(p.assignIn("NewConn", "maxWindow"), 0))
	fmt.Fprintf(&b, "def c_clientInCap : Nat := %d\n", p.chanCap("NewConn", "in"))
	fmt.Fprintf(&b, "def c_clientOutCap : Nat := %d\n", p.chanCap("NewConn", "out"))
	fmt.Fprintf(&b, "def c_clientWinChCap : Nat := %d\n", p.chanCap("NewConn", "winCh"))
	fmt.Fprintf(&b, "def c_defaultMaxConcurrentStreamsCfg : Nat := %d\n", p.eval(p.assignIn("ServerConfig.defaults", "MaxConcurrentStreams"), 0))
	cspec := p.connSpecific()
	parts := []string{}
	for _, s := range cspec {
		parts = append(parts, leanBytes(s))
	}
	fmt.Fprintf(&b, "def connectionSpecific : List (List Nat) := [%s] -- %s\n", strings.Join(parts, ", "), strings.Join(cspec, " "))
	re := p.retryableErrs()
	q := []string{}
	for _, s := range re {
		q = append(q, strconv.Quote(s))
	}
	fmt.Fprintf(&b, "def retryableErrors : List String := [%s]\n", strings.Join(q, ", "))
	for _, s := range []string{"StringPath", "StringStatus", "StringAuthority", "StringScheme", "StringMethod", "StringContentLength", "StringTE", "StringTrailers", "StringUserAgent", "StringContentType"} {
		v, ok := p.vars[s]
		if !ok {
			die("var %s not found", s)
		}
		str, ok := byteString(v)
		if !ok {
			die("var %s not a literal", s)
		}
		fmt.Fprintf(&b, "def s_%s : List Nat := %s -- %s\n", s, leanBytes(str), str)
	}
	b.WriteString("\nend H2.Gen\n")
	write(out, "Consts.lean", b.String())

	// Fingerprints (informational)
	b.Reset()
	b.WriteString("-- GENERATED by h2extract; do not edit\nnamespace H2.Gen\n\ndef fingerprints : List (String × String) := [\n")
	names := make([]string, 0, len(p.funcs))
	for n := range p.funcs {
		names = append(names, n)
	}
	sort.Strings(names)
	for i, n := range names {
		sep := ","
		if i == len(names)-1 {
			sep = ""
		}
		fmt.Fprintf(&b, "  (%q, %q)%s\n", n, p.fingerprint(n), sep)
	}
	b.WriteString("]\n\nend H2.Gen\n")
	write(out, "Fingerprints.lean", b.String())
}

func write(dir, name, content string) {
	if err := os.WriteFile(filepath.Join(dir, name), []byte(content), 0o644); err != nil {
		die("%v", err)
	}
}
