module h2extract

go 1.23
