"""Frame area: properties C05 (frames serialise to / parse from the RFC 7540 layout) and C16 (wire parsers total,
bounded, strict on size, pool-safe).

One generator (`h2harness gen frame`) emits sections; each property takes its sections. Every result line has a main
part (compared between implementation and Lean mirror model = correspondence) and, after ` :: `, a side part:
the implementation side carries x/net's reading of the same octets, the model side carries the RFC grammar's
(`H2.Frame.Spec.parse`) reading or the frame the caller of a writer meant. The monitors below judge the
IMPLEMENTATION's output against the Spec side; Spec and x/net are cross-checked against each other as a sanity check
of the Spec (a disagreement is a broken tool, never a violation).
"""
import os, re, subprocess, collections
import props
from props import compare

AREA = "frame"


def split(line):
    main, _, side = line.partition(" :: ")
    return main, side


def gen_ops(ctx):
    hb = os.path.join(ctx.root, "bin", "h2harness")
    p = subprocess.run([hb, "gen", AREA, ctx.tier, str(ctx.seed)], stdout=subprocess.PIPE, stderr=subprocess.PIPE, text=True)
    if p.returncode != 0:
        raise ctx.Broken("generator frame failed", p.stderr)
    return p.stdout.splitlines()


def select(lines, prop):
    """ops of the sections tagged with `prop` (c05|c16)"""
    out, on = [], False
    for l in lines:
        if l.startswith("#sec"):
            on = prop in l.split()[1:]
            continue
        if on and l and not l.startswith("#"):
            out.append(l)
    return out


def field(s, k):
    m = re.search(r"(?:^| )%s=(\S+)" % re.escape(k), s)
    return m.group(1) if m else None


def strip_tokens(s, keys):
    return " ".join(t for t in s.split(" ") if t.split("=", 1)[0] not in keys)


# ------------------------------------------------------------------ known-finding classes (predicates on an op)
# (none left in this area: F14, the PUSH_PROMISE writer, is repaired and its writes are judged like every other type's)
CLASSES = {}

# Witnesses of findings that have been repaired (F35: SETTINGS values of zero were not written; F14: PUSH_PROMISE was
# written without promised stream id, END_HEADERS and padding): replayed on every run of the property like generated
# operations, compared with the model and judged by the monitors with nothing excused, so the defect is reported if it
# returns.
REGRESSION = {"C05": ["known/F35.ops", "known/F14.ops"]}


# ------------------------------------------------------------------ Spec-vs-x/net sanity
def head_of(canon):
    """(kind, TYPE) of a side-channel reading"""
    t = canon.split(" ")
    return t[0], (t[1] if len(t) > 1 else "")


def xnet_stricter(spec):
    """x/net's reader also enforces connection-level rules that are not part of the frame grammar"""
    kind, typ = head_of(spec)
    if kind != "frame":
        return False
    s = field(spec, "s")
    if typ in ("DATA", "HEADERS", "PRIORITY", "RST_STREAM", "PUSH_PROMISE", "CONTINUATION") and s == "0":
        return True
    if typ in ("SETTINGS", "PING", "GOAWAY") and s != "0":
        return True
    if typ == "WINDOW_UPDATE" and field(spec, "inc") == "0":
        return True
    if typ == "PUSH_PROMISE" and field(spec, "promised") == "0":
        return True
    return False


def sanity(ctx, op, spec, xnet, stats):
    """RFC grammar model against x/net on the same octets"""
    if not spec or not xnet:
        return
    sk, st = head_of(spec)
    xk, xt = head_of(xnet)
    ok = True
    if sk == "frame" and xk == "frame":
        ok = strip_tokens(spec, ()) == strip_tokens(xnet, ())
    elif sk == "frame" and xk == "malformed":
        ok = xnet_stricter(spec)
        stats["xnet-stricter"] += ok
    elif sk == "malformed" and xk == "frame":
        # x/net leaves ENABLE_PUSH / MAX_FRAME_SIZE value checks to its server code
        # (and looks at one INITIAL_WINDOW_SIZE occurrence only)
        ok = xt == "SETTINGS" and field(spec, "code") in ("1", "3")
        stats["xnet-laxer-settings"] += ok
    elif sk == "ignored" and xk == "ignored":
        ok = spec == xnet
    elif sk == "ignored" and xk in ("malformed", "frame"):
        ok = field(spec, "t") == "16"      # x/net knows PRIORITY_UPDATE (RFC 9218), an extension
    elif sk == "incomplete":
        # x/net checks the frame order (CONTINUATION on stream 0 cannot follow anything) before it reads the payload
        ok = xk == "incomplete" or (xk == "malformed" and op.split(" ")[-1][6:8] == "09")
    elif sk == "malformed":
        ok = xk == "malformed"
    else:
        ok = False
    if not ok:
        stats["sanity-fail"] += 1
        if stats["sanity-fail"] <= 5 or os.environ.get("FRAME_DEBUG"):
            ctx.broken.append(dict(what="spec sanity: the RFC grammar model and x/net read the same octets differently "
                                        "(a flaw of the Spec or of the harness, not a verdict on the library)",
                                   detail=dict(op=op[:600], spec=spec[:600], xnet=xnet[:600])))


# ------------------------------------------------------------------ monitors
def hdr_len(op):
    """(octets available, announced length) from a frame.parse op, None if no header"""
    h = op.split(" ")[2]
    n = 0 if h == "-" else len(h) // 2
    if n < 9:
        return n, None
    return n, int(h[0:6], 16)


def max_of(op):
    m = op.split(" ")[1][4:]
    return 16384 if m == "d" else int(m)


def monitor_parse(prop, op, impl, spec):
    """judge the implementation's reading `impl` (main part) against the RFC grammar's `spec`. Returns list of (kind, text)."""
    v = []
    ik = impl.split(" ")[0]
    sk = spec.split(" ")[0]
    n, ln = hdr_len(op)
    consumed = field(impl, "consumed")
    if sk == "frame":
        want = "ok " + strip_tokens(spec[len("frame "):], ("rest",)) + " consumed=%d" % (9 + int(field(spec, "len")))
        got = strip_tokens(impl, ("pool", "anom"))
        if got != want:
            v.append(("read-differs-from-rfc", "well-formed frame: RFC reading %r, implementation %r" % (want[:300], got[:300])))
    if prop == "C16":
        if ik == "panic":
            v.append(("panic", "the reader panicked"))
        an = field(impl, "anom")
        if an not in (None, "-"):
            v.append(("pool", "pool tracker: " + an))
        if ik == "nil-nil":
            v.append(("nil-nil", "neither frame nor error"))
        if sk == "malformed" and ik in ("ok", "unknown"):
            v.append(("malformed-accepted", "RFC: %s; implementation accepted: %s" % (spec, impl[:200])))
        if sk == "malformed" and ln is not None and max_of(op) != 0 and ln > max_of(op) and consumed != "9":
            v.append(("too-large-read", "length %d over the limit %d but %s octets were consumed" % (ln, max_of(op), consumed)))
        if sk == "ignored":
            if ik != "unknown" or consumed != str(9 + ln):
                v.append(("unknown-type", "unknown type must be skipped leaving the reader at %d: %s" % (9 + ln, impl[:200])))
        # (an unknown type whose payload is cut is reported as unknown after skipping what is there: harmless, the next read fails)
        if sk == "incomplete" and (ik == "ok" or (ik == "unknown" and consumed != str(n))):
            v.append(("read-beyond", "input ends inside the frame but the implementation returned %s" % impl[:200]))
        if consumed is not None and ln is not None and int(consumed) > 9 + ln:
            v.append(("over-consumed", "consumed %s > 9+%d" % (consumed, ln)))
        if consumed is not None and int(consumed) > n:
            v.append(("over-consumed", "consumed %s of %d" % (consumed, n)))
    return v


def norm_written(canon):
    """a reading of written octets / the frame meant, reduced to the fields the caller chose"""
    c = strip_tokens(canon, ("fl", "len", "rest"))
    if c.startswith("frame "):
        c = c[len("frame "):]
    if c.startswith("SETTINGS ack=1"):
        c = strip_tokens(c, ("ts", "push", "mcs", "ws", "fs", "hs"))
    return c


def read_push_promise(hexs):
    """RFC 7540 6.6 by hand, for the one PUSH_PROMISE x/net's reader refuses on a rule that is not the layout's
    (promised id 0): `[Pad Length (8)] R Promised Stream ID (31) fragment [Padding]`"""
    b = bytes.fromhex(hexs) if hexs != "-" else b""
    if len(b) < 9 or b[3] != 5 or int.from_bytes(b[:3], "big") != len(b) - 9:
        return "malformed"
    flags, p = b[4], b[9:]
    if flags & 0x8:
        if not p or p[0] > len(p) - 1:
            return "malformed"
        p = p[1:len(p) - p[0]]
    if len(p) < 4:
        return "malformed"
    return "frame PUSH_PROMISE promised=%d eh=%d frag=%s s=%d fl=%d len=%d rest=0" % (
        int.from_bytes(p[:4], "big") & 0x7fffffff, (flags >> 2) & 1, p[4:].hex() or "-",
        int.from_bytes(b[5:9], "big") & 0x7fffffff, flags, len(b) - 9)


def monitor_write(op, impl_main, xnet, want):
    v = []
    if not impl_main.startswith("ok "):
        v.append(("write-failed", impl_main[:100]))
        return v
    if want.startswith("PUSH_PROMISE promised=0 ") and head_of(xnet)[0] == "malformed":
        # promised id 0 is the caller's choice and a stream-level matter, not one of the layout; x/net's reader refuses
        # the frame for it, so the octets are read by hand here (and by the RFC grammar in the second pass)
        xnet = read_push_promise(impl_main.split(" ")[1])
    if norm_written(xnet) != norm_written(want):
        v.append(("written-differs", "meant %r, an independent reader (x/net) sees %r" % (norm_written(want)[:300], norm_written(xnet)[:300])))
    return v


TYPE_CODE = {"DATA": 0, "HEADERS": 1, "PRIORITY": 2, "RST_STREAM": 3, "SETTINGS": 4, "PUSH_PROMISE": 5, "PING": 6, "GOAWAY": 7,
             "WINDOW_UPDATE": 8, "CONTINUATION": 9}


def monitor_write_header(op, impl_main):
    """a frame written after SetFlags(<any octet>): the caller's bits may change what the frame means, but the nine
    header octets keep their layout (RFC 7540 4.1): length of what follows, the type's code, the caller's bits among the
    flags, R clear, the stream id"""
    if not impl_main.startswith("ok "):
        return [("write-failed", impl_main[:100])]
    h = impl_main.split(" ")[1]
    b = bytes.fromhex(h) if h != "-" else b""
    t = op.split(" ")[1]
    fl, sid = int(field(op, "fl")), int(field(op, "s"))
    if len(b) < 9:
        return [("written-header-layout", "fewer than nine octets written")]
    length, typ, flags, stream = int.from_bytes(b[:3], "big"), b[3], b[4], int.from_bytes(b[5:9], "big")
    bad = []
    if length != len(b) - 9:
        bad.append("length %d announces %d octets" % (length, len(b) - 9))
    if typ != TYPE_CODE.get(t, -1):
        bad.append("type octet %#x for %s" % (typ, t))
    if flags & fl != fl:
        bad.append("flags octet %#x lost bits of %#x" % (flags, fl))
    if stream != sid & 0x7fffffff:
        bad.append("stream field %#x for stream %d" % (stream, sid))
    return [("written-header-layout", "; ".join(bad))] if bad else []


def file_violation(ctx, known_hits, op, kind, text, **kw):
    for k in ctx.known:
        pred = CLASSES.get(k["cls"])
        if pred and pred(op):
            known_hits[k["id"]] += 1
            return
    cap = int(os.environ.get("FRAME_VCAP", "4"))   # per kind, so that a replay shows every kind of failure found
    if sum(1 for v in ctx.violations if v["kind"] == kind) < cap:
        ctx.violations.append(dict(kind=kind, ops=[op], text=text, **kw))


def judge(ctx, prop, ops, impl, model, known_hits, stats):
    """apply the monitors to one run; second pass (Spec on the octets the writers produced) included"""
    written = []
    for o, a, b in zip(ops, impl, model):
        if not o or o.startswith("#"):
            continue
        am, aside = split(a)
        bm, bside = split(b)
        kind = o.split(" ", 1)[0]
        if kind == "frame.parse":
            spec = bside[len("spec="):] if bside.startswith("spec=") else ""
            xnet = aside[len("xnet="):] if aside.startswith("xnet=") else ""
            if am == "panic":
                spec = spec or "?"
            sanity(ctx, o, spec, xnet, stats)
            for (k, t) in monitor_parse(prop, o, am, spec or "?"):
                stats["v:" + k] += 1
                file_violation(ctx, known_hits, o, k, t, impl=am[:600], spec=spec[:600])
        elif kind == "frame.reuse":
            if prop == "C16" and am != "reuse=0":
                stats["v:two-owners"] += 1
                file_violation(ctx, known_hits, o, "two-owners",
                               "after this read two acquirers obtain the same pooled frame object (%s)" % am, impl=am)
        elif kind == "frame.write":
            xnet = aside[len("xnet="):] if aside.startswith("xnet=") else ""
            want = bside[len("want="):] if bside.startswith("want=") else ""
            for (k, t) in (monitor_write(o, am, xnet, want) if field(o, "fl") == "0" else monitor_write_header(o, am)):
                stats["v:" + k] += 1
                file_violation(ctx, known_hits, o, k, t, impl=am[:600], want=want[:600], xnet=xnet[:600])
            if am.startswith("ok ") and field(o, "fl") == "0":
                # (flags the caller set through SetFlags are the caller's business: only the layout is judged for those)
                written.append((o, am.split(" ")[1]))
    return written


def second_pass(ctx, prop, written, known_hits, stats, tag):
    """Spec oracle on the octets the implementation's writers produced: one well-formed frame a conforming sender may emit?"""
    if not written:
        return {}
    ops2 = ["frame.spec max=0 %s" % h for (_, h) in written]
    o2, i2, m2 = ctx.gen_run_compare(ctx.pid, tag, ctx.tier, ctx.seed, ctx.log, extra_ops=ops2)
    for (src, _), o, a, b in zip(written, o2, i2, m2):
        spec = strip_tokens(b, ("sendwf",))
        sanity(ctx, o, spec, a, stats)
        if field(b, "sendwf") != "1":
            stats["v:written-not-wellformed"] += 1
            file_violation(ctx, known_hits, src, "written-not-wellformed",
                           "the octets written are not a frame a conforming sender may emit (RFC 7540 §4.1/§6: "
                           "layout, zero padding, reserved bits, undefined flags, stream id): " + spec[:300],
                           written=o.split(" ")[2][:600])
    return dict(second_pass_ops=len(ops2))


def run_known(ctx, prop):
    """replay the witnesses of known findings; a finding is reported only while its witness still fails"""
    for k in ctx.known:
        path = os.path.join(ctx.root, k["witness"])
        if not os.path.exists(path) or k["cls"] not in CLASSES:
            ctx.broken.append(dict(what="known finding %s: witness or class missing" % k["id"], detail=k))
            continue
        wops = [l.rstrip("\n") for l in open(path) if l.strip() and not l.startswith("#")]
        o, i, m = ctx.gen_run_compare(ctx.pid, "known_" + k["id"], ctx.tier, ctx.seed, ctx.log, extra_ops=wops)
        sub = props.Ctx(pid=ctx.pid, tier=ctx.tier, seed=ctx.seed, root=ctx.root, log=ctx.log,
                        gen_run_compare=ctx.gen_run_compare, known=[], fixed=[], Broken=ctx.Broken)
        hits, stats = collections.Counter(), collections.Counter()
        written = judge(sub, prop, o, i, m, hits, stats)
        second_pass(sub, prop, written, hits, stats, "known2_" + k["id"])
        # the model mirrors the defect: correspondence must hold on the witness too
        compare(ctx, "known_" + k["id"], o, [split(x)[0] for x in i], [split(x)[0] for x in m])
        if sub.violations:
            ctx.known_lines.append("%s %s" % (k["id"], k["text"]))
        else:
            ctx.broken.append(dict(what="known finding %s no longer fails on its witness: remove it from KNOWN_FINDINGS.txt "
                                        "and prove the full theorem" % k["id"], detail=k))


def regression_ops(ctx, prop):
    ops = []
    for path in REGRESSION.get(prop, []):
        full = os.path.join(ctx.root, path)
        if not os.path.exists(full):
            ctx.broken.append(dict(what="regression input %s is missing" % path, detail=""))
            continue
        ops += [l.rstrip("\n") for l in open(full) if l.strip() and not l.startswith("#")]
    return ops


def run_prop(ctx, prop):
    lines = gen_ops(ctx)
    ops = regression_ops(ctx, prop) + select(lines, prop.lower())
    o, i, m = ctx.gen_run_compare(ctx.pid, AREA, ctx.tier, ctx.seed, ctx.log, extra_ops=ops)
    cov, diffs = compare(ctx, AREA, o, [split(x)[0] for x in i], [split(x)[0] for x in m],
                         nontrivial=lambda op, res: not res.startswith("err io"))
    known_hits, stats = collections.Counter(), collections.Counter()
    written = judge(ctx, prop, o, i, m, known_hits, stats)
    cov.update(second_pass(ctx, prop, written, known_hits, stats, AREA + "2"))
    run_known(ctx, prop)
    cov["monitor_stats"] = dict(stats)
    cov["known_class_hits"] = dict(known_hits)
    cov["regression_inputs"] = REGRESSION.get(prop, [])
    cov["exhaustive"] = False
    return cov


def replay_prop(ctx, path, prop):
    """`./check Cxx quick --replay FILE`: run the recorded ops, show both sides, apply the same monitors"""
    import json
    if path.endswith(".json"):
        payload = json.load(open(path))
        ops = []
        for v in payload.get("all_violations") or [payload.get("violation", {})]:
            for op in v.get("ops") or []:
                if op not in ops:
                    ops.append(op)
    else:
        ops = [l.rstrip("\n") for l in open(path) if l.strip()]
    o, i, m = ctx.gen_run_compare(ctx.pid, "replay", ctx.tier, ctx.seed, ctx.log, extra_ops=ops)
    for op, a, b in zip(o, i, m):
        print("%s\n  impl : %s\n  model: %s" % (op[:400], a[:600], b[:600]))
    cov, diffs = compare(ctx, "replay", o, [split(x)[0] for x in i], [split(x)[0] for x in m])
    known_hits, stats = collections.Counter(), collections.Counter()
    written = judge(ctx, prop, o, i, m, known_hits, stats)
    second_pass(ctx, prop, written, known_hits, stats, "replay2")
    for v in ctx.violations:
        print("VIOLATES %s: %s — %s" % (prop, v["kind"], v["text"][:400]))
    cov["monitor_stats"] = dict(stats)
    return cov


def run_c05(ctx):
    cov = run_prop(ctx, "C05")
    cov["rule"] = ("x/net-written frames of all 10 types (random flags/padding 0..255/priority/reserved bits, followed by further "
                   "frames) read by ReadFrameFrom[WithSize]; pad-length sweep 0..255 x payload length around it for DATA/HEADERS/"
                   "PUSH_PROMISE; SETTINGS identifiers x boundary values and sequences; frames built through the public setters "
                   "(all types, padding lengths 9..255, priority section, boundary field values) written by WriteTo and read back "
                   "by x/net and by the RFC grammar model. distinct_nontrivial = distinct op lines whose result is not `err io`")
    return cov


def run_decoders(ctx, cov):
    """C16 also speaks about HPACK/Huffman decoding of arbitrary bytes: run those areas' generators (when they exist in this
    tree) and require agreement with the models the totality theorems are about; a panic is a violation"""
    hb = os.path.join(ctx.root, "bin", "h2harness")
    for area in ("huff", "hpackdec"):
        p = subprocess.run([hb, "gen", area, ctx.tier, str(ctx.seed)], stdout=subprocess.PIPE, stderr=subprocess.PIPE, text=True)
        ops = [l for l in p.stdout.splitlines() if l and not l.startswith("#") and ".enc" not in l.split(" ")[0]]
        if p.returncode != 0 or not ops:
            continue
        if not ctx.thorough() and area == "huff":
            ops = ops[::4]          # hpackdec ops are stateful sequences: never thinned
        o, i, m = ctx.gen_run_compare(ctx.pid, area, ctx.tier, ctx.seed, ctx.log, extra_ops=ops)
        m = [x.split(" ;; ", 1)[0] for x in m]      # the HPACK driver's Spec side channel is judged by C03
        i = [x.split(" ;; ", 1)[0] for x in i]
        c, diffs = compare(ctx, area, o, i, m)
        for op, a in zip(o, i):
            if a.startswith("panic"):
                ctx.violations.append(dict(kind="panic", ops=[op], text="the decoder panicked", impl=a))
        cov.setdefault("decoder_areas", {})[area] = dict(evaluations=c["evaluations"], disagreements=c["disagreements"])
        cov["evaluations"] += c["evaluations"]


def run_c16(ctx):
    cov = run_prop(ctx, "C16")
    run_decoders(ctx, cov)
    cov["rule"] = ("everything of C05's parse side plus: 18 type octets (10 known, 8 unknown incl. >= 0x80) x 256 flag octets x payload "
                   "sizes around every fixed size; lengths max-1..max+2 for 8 limits with payload present/cut; every truncation offset "
                   "of x/net-written frame streams; random octets; pool tracker on every read, two-acquirer probe after cuts. "
                   "distinct_nontrivial = distinct op lines whose result is not `err io`")
    return cov


ASSUME_C05 = [
    "ReadFrameFromWithSize/ReadFrameFrom and every Serialize/WriteTo agree with the Lean mirror model on every generated operation; "
    "beyond the generated operations the tie is the regenerated constants plus sampling",
    "the pad length AddPadding draws is a parameter of the writer model (all 9..255 proved, a sample of them run)",
    "PRIORITY's exclusive bit is not part of the abstract frame (the library has no field for it)",
]
ASSUME_C16 = [
    "bufio.Reader, io.ReadFull and sync.Pool behave as documented (Peek/Discard/ReadFull semantics are parameters of the model)",
    "HPACK/Huffman totality is proved about the models of H2.Hpack.Model / H2.Huffman.Spec; their tie to hpack.go/huffman.go is "
    "the correspondence run of properties C03/C04/C15",
    "real heap allocation is not observed; the model's allocation is the length passed to Resize",
]


def register(PROPS):
    PROPS["C05"] = dict(module="H2.Props.C05", run=run_c05, assumptions=ASSUME_C05,
                        replay=lambda ctx, path: replay_prop(ctx, path, "C05"))
    PROPS["C16"] = dict(module="H2.Props.C16", run=run_c16, assumptions=ASSUME_C16,
                        replay=lambda ctx, path: replay_prop(ctx, path, "C16"))
