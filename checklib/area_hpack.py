"""HPACK area: C03 (decoder) and C04 (encoder).

Verdict logic
  C03  primitive and field operations: the Impl model of `nextField`/`readInt`/`readString` equals the
       RFC specification step (`Spec.step`, theorem C03.next_eq_step), so a difference between model and
       implementation there is an input on which the implementation departs from RFC 7541.
       frame operations (the `previousHeaderBytes` loop of handleHeaderFrame): the model mirrors the code;
       the oracle is `Spec.decodeBlock` on the reassembled block, printed by the driver after ` ;; ` on the
       frame that carries END_HEADERS (theorem C03.split_invariance says the two agree on every block and
       every cut, so a difference is a broken correspondence AND a violation of the property).
  C04  correspondence of `AppendHeader`/`SetMaxTableSize`/`appendInt`/`appendString` with the model; the
       oracle decodes the octets the IMPLEMENTATION emitted with the Lean Spec decoder (`hpack.ref` ops, a
       second pass through the driver) and checks fields, table synchronisation, limits, announcements,
       never-indexed literals. x/net's decoder answers the same `hpack.ref` ops in the harness as a sanity
       reference on the Spec.
"""
import os, collections
import props


# ------------------------------------------------------------------ helpers
def split_model(lines):
    model, spec = [], []
    for l in lines:
        if " ;; " in l:
            a, b = l.split(" ;; ", 1)
        else:
            a, b = l, None
        model.append(a)
        spec.append(b)
    return model, spec


def kvs(line):
    out = {}
    for tok in line.split(" "):
        if "=" in tok:
            k, v = tok.split("=", 1)
            out[k] = v
    return out


def flds(s):
    return [] if s in ("-", None) else s.split(",")


def tbl_size(t):
    if t in ("-", None):
        return 0
    n = 0
    for e in t.split(","):
        e = e.rstrip("!")
        k, v = e.split(":")
        n += len(k) // 2 + len(v) // 2 + 32
    return n


def known_classes(ctx):
    return {k["cls"]: k for k in ctx.known}


# ------------------------------------------------------------------ C03 block monitor
# shapes of the repaired findings F04/F05: the generators must keep producing them (coverage, checked in run_c03)
CUT_BEHIND_UPDATE = "frame-ends-behind-size-update"
CUT_IN_UPDATE = "cut-inside-opening-size-update"
CUT_IN_FIRST_FIELD = "cut-inside-first-field-behind-size-update"
UPDATES_ONLY = "block-of-size-updates-only"


def block_shapes(frames, lay):
    """how the frames of a block cut its opening: frame payload lengths against the layout the Spec printed
    (end offsets of the leading size updates '/' end offset of the first field)."""
    ups, first = lay.split("/")
    ups = [int(x) for x in ups.split(".") if x]
    first = int(first)
    out = set()
    if not ups:
        return out
    total = sum(frames)
    if total == ups[-1]:
        out.add(UPDATES_ONLY)
    pos = 0
    for n in frames[:-1]:
        pos += n
        if pos in ups:
            out.add(CUT_BEHIND_UPDATE)
        elif pos < ups[-1]:
            out.add(CUT_IN_UPDATE)
        elif pos < first:
            out.add(CUT_IN_FIRST_FIELD)
    return out


def monitor_blocks(ctx, ops, impl, model, spec, report=True):
    """returns (violations, stats)."""
    cur = {}      # ctx name -> block under construction
    hist = collections.defaultdict(list)   # ctx name -> op lines since `new`
    viol, stats = [], collections.Counter()
    for i, o in enumerate(ops):
        f = o.split(" ")
        if f[0] != "hpack.dec" or len(f) < 3:
            continue
        c = f[1]
        if f[2] == "new":
            hist[c] = []
            cur.pop(c, None)
        hist[c].append(o)
        if f[2] != "frame":
            continue
        cont, eh, payload = f[3] == "cont=1", f[4] == "eh=1", f[5]
        if not cont:
            cur[c] = dict(frames=[], fields=[], err=False, idx=[], last=None, hist_len=len(hist[c]) - 1)
        b = cur.get(c)
        if b is None:
            continue
        b["frames"].append(0 if payload == "-" else len(payload) // 2)
        b["idx"].append(i)
        a = impl[i]
        if not b["err"]:
            if a.startswith("ok "):
                b["fields"] += flds(kvs(a).get("fields"))
                b["last"] = kvs(a)
            else:
                b["fields"] += flds(kvs(a).get("fields"))
                b["err"] = True
        if not eh:
            continue
        sp = spec[i]
        cur.pop(c, None)
        if sp is None:
            continue
        stats["blocks"] += 1
        what = None
        if sp == "spec=err":
            stats["blocks-invalid"] += 1
            if not b["err"]:
                what = "a block RFC 7541 makes invalid was decoded without error"
        else:
            s = kvs(sp)
            if b["err"]:
                what = "a valid block was rejected"
            elif b["fields"] != flds(s["fields"]):
                what = "decoded header list differs from RFC 7541"
            elif b["last"] is None or b["last"].get("tbl") != s["tbl"] or b["last"].get("max") != s["max"]:
                what = "dynamic table after the block differs from RFC 7541"
            elif b["last"].get("carry") != "0":
                what = "octets left over after END_HEADERS"
            for shape in block_shapes(b["frames"], s["lay"]):
                stats["blocks-" + shape] += 1
        if what is None:
            continue
        v = dict(kind="block-decoding", what=what, ops=list(hist[c]), impl=[impl[j] for j in b["idx"]], spec=sp)
        viol.append(v)
    return viol, stats


def c03_field_kind(o):
    op = o.split(" ")[0]
    if op == "hpack.int.dec":
        return "prefix-integer"
    if op == "hpack.str.dec":
        return "string-literal"
    return "field"


def run_c03(ctx):
    covs = {}
    ops, impl, modelraw = ctx.gen_run_compare(ctx.pid, "hpackdec", ctx.tier, ctx.seed, ctx.log)
    model, spec = split_model(modelraw)
    bviol, stats = monitor_blocks(ctx, ops, impl, model, spec)
    for shape in (CUT_BEHIND_UPDATE, CUT_IN_UPDATE, CUT_IN_FIRST_FIELD, UPDATES_ONLY):
        if not stats.get("blocks-" + shape):
            ctx.broken.append(dict(what="the generator produced no header block of the shape '%s' (repaired findings F04/F05)" % shape,
                                   detail=dict(stats)))
    cov, diffs = props.compare(ctx, "hpackdec", ops, impl, model)
    cov["block_monitor"] = dict(stats)
    # a difference on a primitive or field operation is a departure from the RFC step (next_eq_step)
    hist = collections.defaultdict(list)
    seen_kinds = collections.Counter()
    for i, o in enumerate(ops):
        f = o.split(" ")
        if f[0] == "hpack.dec" and len(f) > 2:
            if f[2] == "new":
                hist[f[1]] = []
            hist[f[1]].append(o)
        if not (f[0] in ("hpack.int.dec", "hpack.str.dec") or (f[0] == "hpack.dec" and len(f) > 2 and f[2] == "field")):
            continue
        # the RFC step: equal to the model line (C03.next_eq_step) unless the driver printed it separately
        rfc = spec[i][5:] if (spec[i] or "").startswith("spec=") else model[i]
        if impl[i] != rfc:
            kind = c03_field_kind(o)
            tag = "%s:%s->%s" % (kind, rfc.split(" ")[0], impl[i].split(" ")[0])
            seen_kinds[tag] += 1
            if seen_kinds[tag] <= 3:
                ctx.violations.append(dict(kind="hpack-decoder-differs-from-rfc(" + tag + ")",
                                           ops=list(hist[f[1]]) if f[0] == "hpack.dec" else [o],
                                           impl=impl[i], spec=rfc))
    seen = collections.Counter()
    for v in bviol:
        seen[v["what"]] += 1
        if seen[v["what"]] <= 3:
            ctx.violations.append(v)
    cov["violation_kinds"] = dict(seen_kinds) | dict(seen)
    cov["rule"] = ("prefix integers: every first octet and every saturated-prefix second octet for N=1..8, boundary values with "
                   "every truncation, zero-padded forms to 12 digits, the 64-bit boundary; strings: raw/Huffman at boundary "
                   "lengths, truncations, bit flips; fields: every first octet with five tails, value length equal to the first "
                   "octet, every prefix of sample fields, index boundaries, size updates inside/above the limit and after a "
                   "field; blocks opening with 1-3 size updates (and blocks of size updates only) after a block that filled the "
                   "table: whole, cut in two at every octet, in three at every pair of octets up to the end of the first field, "
                   "with empty frames, truncated (the shapes of the repaired F04/F05, same for every seed; their presence is "
                   "checked); seeded histories of blocks (shadow table keeps indices valid) delivered as frames cut at random "
                   "octets / at every octet, or as nextField calls with a reused HeaderField. distinct_nontrivial = distinct op lines")
    cov["exhaustive"] = False
    covs["hpackdec"] = cov

    # sanity of the Spec against x/net on the whole blocks of the histories (never an oracle)
    refops, cur = [], {}
    for i, o in enumerate(ops):
        f = o.split(" ")
        if f[0] != "hpack.dec" or len(f) < 3 or not f[1].startswith("h"):
            continue
        if f[2] == "new":
            refops.append("hpack.ref %s new" % f[1])
        elif f[2] == "frame":
            if f[3] == "cont=0":
                cur[f[1]] = ""
            cur[f[1]] = cur.get(f[1], "") + ("" if f[5] == "-" else f[5])
            if f[4] == "eh=1":
                refops.append("hpack.ref %s block %s" % (f[1], cur[f[1]] or "-"))
    if refops:
        o2, a2, m2 = ctx.gen_run_compare(ctx.pid, "hpackref", ctx.tier, ctx.seed, ctx.log, extra_ops=refops)
        dead, dis = set(), 0
        for o, a, m in zip(o2, a2, m2):
            c = o.split(" ")[1]
            if c in dead:
                continue
            fa, fm = kvs(a).get("fields"), kvs(m).get("fields")
            kinds = flds(kvs(m).get("kinds"))
            if any(x.startswith("U") for x in kinds[1:]):
                # x/net refuses a second size update and tolerates a late one while its table is empty:
                # no reference there
                if a.split(" ")[0] != m.split(" ")[0]:
                    dead.add(c)
                continue
            if a.split(" ")[0] != m.split(" ")[0] or fa != fm:
                dis += 1
                dead.add(c)
                ctx.broken.append(dict(what="Spec decoder and x/net disagree on a block (Spec sanity)", detail=dict(op=o[:600], xnet=a[:300], spec=m[:300])))
            elif a.startswith("err"):
                dead.add(c)
        covs["hpackref"] = dict(evaluations=len(o2), distinct_nontrivial=len(set(o2)), histogram={}, disagreements=dis, samples=[])
    return props.merge_cov(covs)


def replay_c03(ctx, path):
    """--replay: the ops of a replay / witness file through implementation, model and Spec; frame operations are
    judged by the block monitor (the model line carries the Spec's verdict after ' ;; ')"""
    import json
    if path.endswith(".json"):
        ops = json.load(open(path)).get("violation", {}).get("ops") or []
    else:
        ops = [l.rstrip("\n") for l in open(path) if l.strip()]
    ops2, impl, modelraw = ctx.gen_run_compare(ctx.pid, "replay", ctx.tier, ctx.seed, ctx.log, extra_ops=ops)
    model, spec = split_model(modelraw)
    for o, a, m, sp in zip(ops2, impl, model, spec):
        print("%s\n  impl : %s\n  model: %s%s" % (o, a, m, "" if sp is None else "\n  rfc  : " + sp))
    viol, _ = monitor_blocks(ctx, ops2, impl, model, spec)
    ctx.violations.extend(viol)
    cov, diffs = props.compare(ctx, "replay", ops2, impl, model)
    return cov


# ------------------------------------------------------------------ C04
F09 = "several-size-changes-between-blocks"


def run_c04(ctx):
    covs = {}
    known = known_classes(ctx)
    still = set()
    for k in ctx.known:
        path = os.path.join(ctx.root, k["witness"])
        if not os.path.exists(path):
            ctx.broken.append(dict(what="witness file of known finding %s missing" % k["id"], detail=path))
            continue
        wops = [l.rstrip("\n") for l in open(path) if l.strip()]
        v, _ = c04_pass(ctx, "known_" + k["id"], wops, quiet=True)
        if any(x.get("cls") == k["cls"] for x in v):
            still.add(k["cls"])
            ctx.known_lines.append("%s %s" % (k["id"], k["text"]))
    viol, cov = c04_pass(ctx, "hpackenc", None)
    covs.update(cov)
    seen = collections.Counter()
    for v in viol:
        if v.get("cls") in known and v.get("cls") in still:
            continue
        seen[v["kind"]] += 1
        if seen[v["kind"]] <= 3:
            ctx.violations.append(v)
    out = props.merge_cov(covs)
    out["violation_kinds"] = dict(seen)
    out["rule"] = ("appendInt at boundary values for N=1..8; appendString at boundary lengths after various buffers; AppendHeader: every "
                   "static entry and static name x store x sensitive x DisableCompression x DisableDynamicTable, special strings "
                   "(empty, NUL-ending, Huffman form ending in 0x00, lengths 126..128, 255) as name and as value, 72 small entries "
                   "(dynamic indices past 127), table-size schedules between blocks (0, 30..32, 4096, 65536, several changes), seeded "
                   "histories. Every emitted block is decoded by the Lean Spec decoder and by x/net. distinct_nontrivial = distinct op lines")
    out["exhaustive"] = False
    return out


def c04_pass(ctx, area, extra_ops, quiet=False):
    ops, impl, model = ctx.gen_run_compare(ctx.pid, area, ctx.tier, ctx.seed, ctx.log, extra_ops=extra_ops)
    covs = {}
    if not quiet:
        cov, diffs = props.compare(ctx, area, ops, impl, model)
        covs[area] = cov
    viol = []
    # group per context
    st = {}
    blocks = []      # dicts: ctx, fields [(n,v,s)], hex, tbl_after, max_after, limit, changes, hist
    refops, refmeta = [], []

    def flush(c):
        s = st[c]
        b = s.get("blk")
        if b is None or not b["n"]:
            s["blk"] = None
            return
        refops.append("hpack.ref %s block %s" % (c, b["hex"] or "-"))
        refmeta.append(b)
        s["blk"] = None

    for i, o in enumerate(ops):
        f = o.split(" ")
        if f[0] != "hpack.enc" or len(f) < 3:
            continue
        c = f[1]
        if f[2] == "new":
            if c in st:
                flush(c)
            st[c] = dict(hist=[o], blk=None, limit=4096, changes=[], lastmax=4096, tbl="-")
            refops.append("hpack.ref %s new" % c)
            refmeta.append(None)
            continue
        s = st.get(c)
        if s is None:
            continue
        s["hist"].append(o)
        a = impl[i]
        if f[2] == "setmax":
            flush(c)
            n = int(f[3])
            s["limit"] = n
            s["changes"].append(n)
            refops.append("hpack.ref %s limit %d" % (c, n))
            refmeta.append(None)
            if a.startswith("ok "):
                s["tbl"] = kvs(a).get("tbl", "-")
                if tbl_size(s["tbl"]) > n:
                    viol.append(dict(kind="encoder-table-above-peer-limit", ops=list(s["hist"]), impl=a))
        elif f[2] == "block":
            flush(c)
            s["blk"] = dict(ctx=c, n=0, fields=[], hex="", limit=s["limit"], changes=list(s["changes"]), prevmax=s["lastmax"],
                            hist=s["hist"], hist_len=None, tbl_after=None, max_after=None, sens=[], bad=None)
            s["changes"] = []
        elif f[2] == "field":
            if s["blk"] is None:
                s["blk"] = dict(ctx=c, n=0, fields=[], hex="", limit=s["limit"], changes=list(s["changes"]), prevmax=s["lastmax"],
                                hist=s["hist"], hist_len=None, tbl_after=None, max_after=None, sens=[], bad=None)
                s["changes"] = []
            b = s["blk"]
            name, value, sens = f[6], f[7], f[4][-1]
            b["n"] += 1
            b["fields"].append("%s:%s:%s" % ("" if name == "-" else name, "" if value == "-" else value, sens))
            if not a.startswith("ok "):
                b["bad"] = a.split(" ")[0]
                viol.append(dict(kind="encoder-" + a.split(" ")[0], ops=list(s["hist"]), impl=a[:300]))
                continue
            out = a.split(" ")[1]
            b["hex"] += "" if out == "-" else out
            k = kvs(a)
            if sens == "1" and k.get("tbl") != s["tbl"]:
                viol.append(dict(kind="sensitive-field-stored-in-table", ops=list(s["hist"]), impl=a[:300]))
            b["sens"].append(sens == "1")
            s["tbl"] = k.get("tbl", "-")
            b["tbl_after"], b["max_after"] = k.get("tbl"), k.get("max")
            b["hist_len"] = len(s["hist"])
            s["lastmax"] = int(k.get("max", "0"))
            if tbl_size(s["tbl"]) > s["limit"]:
                viol.append(dict(kind="encoder-table-above-peer-limit", ops=list(s["hist"]), impl=a[:300]))
    for c in list(st):
        flush(c)
    if not refops:
        return viol, covs
    o2, a2, m2 = ctx.gen_run_compare(ctx.pid, area + "_ref", ctx.tier, ctx.seed, ctx.log, extra_ops=refops)
    dead, xdead = set(), set()
    stats = collections.Counter()
    for o, xn, sp, b in zip(o2, a2, m2, refmeta):
        if b is None:
            continue
        c = b["ctx"]
        if c in dead or b["bad"]:
            dead.add(c)
            continue
        stats["blocks"] += 1
        hist = b["hist"][:b["hist_len"]]
        base = dict(ops=hist, emitted=b["hex"], spec=sp[:600], xnet=xn[:300])
        k = kvs(sp)
        kind, cls = None, None
        multi = len(b["changes"]) > 1
        if multi:
            cls = F09
        if not sp.startswith("ok "):
            kind = "emitted-block-is-not-valid-hpack"
        elif flds(k["fields"]) != b["fields"]:
            kind = "emitted-block-decodes-to-different-fields"
        elif k["tbl"] != b["tbl_after"] or k["max"] != b["max_after"]:
            kind = "encoder-and-decoder-tables-differ"
        else:
            kinds = flds(k["kinds"])
            ups = [int(x[1:]) for x in kinds if x.startswith("U")]
            nlead = 0
            for x in kinds:
                if not x.startswith("U"):
                    break
                nlead += 1
            reprs = [x for x in kinds if not x.startswith("U")]
            if b["changes"] and b["changes"][-1] != b["prevmax"] and (not ups or ups[-1] != b["changes"][-1]):
                kind = "size-change-not-announced-at-start-of-next-block"
            elif b["changes"] and min(b["changes"]) < min(b["prevmax"], b["changes"][-1]) and (not ups or ups[0] > min(b["changes"])):
                kind = "smallest-intermediate-size-not-announced"
            elif len(reprs) == len(b["sens"]) and any(s and r != "N" for s, r in zip(b["sens"], reprs)):
                kind = "sensitive-field-not-never-indexed"
            # x/net refuses a second size update while its table is not empty: no reference there, nor
            # afterwards on that connection
            xbad = xn.split(" ")[0] != "ok" or kvs(xn).get("fields") != k["fields"]
            if xbad and (nlead >= 2 or c in xdead):
                xdead.add(c)
            elif xbad:
                xdead.add(c)
                ctx.broken.append(dict(what="Spec decoder and x/net disagree on an emitted block (Spec sanity)",
                                       detail=dict(op=o[:600], xnet=xn[:300], spec=sp[:300])))
                ctx.broken.append(dict(what="Spec decoder and x/net disagree on an emitted block (Spec sanity)",
                                       detail=dict(op=o[:600], xnet=xn[:300], spec=sp[:300])))
        if kind:
            dead.add(c)
            v = dict(base, kind=kind, cls=cls)
            viol.append(v)
    covs[area + "_ref"] = dict(evaluations=len(o2), distinct_nontrivial=len(set(o2)), histogram=dict(stats), disagreements=0, samples=[])
    return viol, covs


def register(PROPS):
    PROPS["C03"] = dict(module="H2.Props.C03", run=run_c03, replay=replay_c03, assumptions=[
        "nextField/readInt/readString agree with the Lean model on every generated operation; the loop of handleHeaderFrame is "
        "exercised through a transcription in the harness (harness/hpack.go headerFrame), not through serverConn itself",
        "table sizes stay below 2^32 (uint32 arithmetic of DynamicSize is not modelled)"])
    PROPS["C04"] = dict(module="H2.Props.C04", run=run_c04, assumptions=[
        "AppendHeader/SetMaxTableSize/appendInt/appendString agree with the Lean model on every generated operation",
        "SetMaxTableSize is called between header blocks only (the server applies the peer's SETTINGS on the read loop: F34, not part of C04)"])
