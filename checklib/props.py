"""Per-property drivers for ./check: which generators run, how outputs are compared, which monitors apply."""
import json, os, collections

TRUSTED_BASE = [
    "Lean 4.33.0 kernel (leanchecker re-check in the thorough tier)",
    "axioms: propext, Classical.choice, Quot.sound at most (audited per theorem); no native_decide, bv_decide, sorry, admit, own axioms",
    "h2extract (go/parser fact extractor, /verif/extract) copying tables and constants into H2/Gen",
    "correspondence check: differential run of the Lean model driver (h2model) against the real code through h2harness (-tags verif); agreement is shown only on the generated operations",
    "hand-written RFC 7540/7541 specifications in the Lean Spec files",
]


class Ctx:
    def __init__(self, **kw):
        self.__dict__.update(kw)
        self.broken, self.violations, self.known_lines = [], [], []

    def thorough(self):
        return self.tier == "thorough"


def compare(ctx, area, ops, impl, model, classify=None, nontrivial=None, samples=6):
    """line-by-line correspondence. classify(op, implres, modelres) may return a known-finding id, 'violation:<text>' or None."""
    hist = collections.Counter()
    diffs = []
    distinct = set()
    for i, (o, a, b) in enumerate(zip(ops, impl, model)):
        if o.startswith("#") or not o:
            continue
        kind = o.split(" ", 1)[0] + ":" + a.split(" ", 1)[0]
        hist[kind] += 1
        if nontrivial is None or nontrivial(o, a):
            distinct.add(o)
        if a != b:
            diffs.append((i, o, a, b))
    cov = dict(evaluations=sum(hist.values()), distinct_nontrivial=len(distinct), histogram=dict(hist),
               disagreements=len(diffs))
    picks = []
    step = max(1, len(ops) // samples)
    for i in range(0, len(ops), step):
        if ops[i] and not ops[i].startswith("#"):
            picks.append(dict(op=ops[i][:300], impl=impl[i][:300], model=model[i][:300]))
    cov["samples"] = picks[:samples]
    for (i, o, a, b) in diffs[:50]:
        ctx.broken.append(dict(what="correspondence %s: model and implementation differ" % area,
                               detail=dict(line=i, op=o[:2000], impl=a[:2000], model=b[:2000])))
    return cov, diffs


def merge_cov(covs):
    out = dict(evaluations=0, distinct_nontrivial=0, histogram={}, samples=[], disagreements=0, areas={})
    for name, c in covs.items():
        out["evaluations"] += c.get("evaluations", 0)
        out["distinct_nontrivial"] += c.get("distinct_nontrivial", 0)
        out["disagreements"] += c.get("disagreements", 0)
        out["samples"] += c.get("samples", [])[:4]
        out["areas"][name] = {k: v for k, v in c.items() if k != "samples"}
    return out


def replay(ctx, spec, path):
    """re-run the ops recorded in a replay or witness file through implementation and model"""
    if "replay" in spec:
        return spec["replay"](ctx, path)
    if path.endswith(".json"):
        payload = json.load(open(path))
        ops = payload.get("violation", {}).get("ops") or []
    else:
        ops = [l.rstrip("\n") for l in open(path)]
    ops2, impl, model = ctx.gen_run_compare(ctx.pid, "replay", ctx.tier, ctx.seed, ctx.log, extra_ops=ops)
    for o, a, b in zip(ops2, impl, model):
        print("%s\n  impl : %s\n  model: %s" % (o, a, b))
    cov, diffs = compare(ctx, "replay", ops2, impl, model)
    return cov


# ---------------------------------------------------------------- C15
def run_c15(ctx):
    ops, impl, model = ctx.gen_run_compare(ctx.pid, "huff", ctx.tier, ctx.seed, ctx.log)
    cov, diffs = compare(ctx, "huff", ops, impl, model)
    # The model *is* the RFC specification (decode_ok_iff), so a difference is a property violation
    # witnessed by that very input.
    for (i, o, a, b) in diffs[:20]:
        ctx.violations.append(dict(kind="huffman-differs-from-rfc", ops=[o], impl=a, spec=b))
    cov["rule"] = ("all strings of length <=1, all 65536 symbol pairs (encode), all byte strings of length <=2 (decode), "
                   "seeded random strings up to 4 KiB with tail mutations; thorough adds all 3-byte decoder inputs. "
                   "distinct_nontrivial = distinct op lines")
    cov["exhaustive"] = False
    return cov


PROPS = {}


def _register_areas():
    import importlib
    for mod in ("area_hpack", "area_frame", "area_server", "area_client"):
        try:
            m = importlib.import_module(mod)
        except ModuleNotFoundError:
            continue
        m.register(PROPS)
    # a property with a server half and a client half is decided by both
    for base in ("C14", "C18", "C20"):
        half = PROPS.pop(base + "c", None)
        if half is None:
            continue
        if base not in PROPS:
            PROPS[base + "c"] = half      # server half not there (yet): keep the client half addressable
            continue
        srv = PROPS[base]

        def both(ctx, a=srv["run"], b=half["run"]):
            ca = a(ctx)
            cb = b(ctx)
            out = merge_cov({"server": ca, "client": cb})
            out["rule"] = "server role: " + ca.get("rule", "") + " || client role: " + cb.get("rule", "")
            out["traces_validated_against_impl"] = ca.get("traces_validated_against_impl", 0) + cb.get("traces_validated_against_impl", 0)
            return out
        def replay_either(ctx, path, s=srv, h=half):
            # a recorded input belongs to one role: client scripts (`cli …` op lines) go to the client half's replay
            if path.endswith(".json"):
                ops = json.load(open(path)).get("violation", {}).get("ops") or []
            else:
                ops = [l.rstrip("\n") for l in open(path)]
            client = any(o.startswith("cli ") for o in ops)
            return replay(ctx, h if client else {k: v for k, v in s.items() if k == "replay"}, path)
        PROPS[base] = dict(srv, modules=[srv["module"], half["module"]], run=both, replay=replay_either,
                           assumptions=srv.get("assumptions", []) + half.get("assumptions", []))


PROPS.update({
    "C15": dict(module="H2.Props.C15", run=run_c15,
                assumptions=["HuffmanEncode/HuffmanDecode agree with the Lean model on every generated input (exhaustive to 2 octets); beyond that the tie is the regenerated table plus sampling"]),
})
_register_areas()
