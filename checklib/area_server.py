"""Server area: correspondence runs, trace monitors (executable property oracles) and known-finding classes
for C01 C06 C08 C09 C10 C13 C14 C17 C18 C20."""
import re, collections, os
import props
from props import compare, merge_cov

PROTOCOL, INTERNAL, FLOW, STREAM_CLOSED, FRAME_SIZE, REFUSED, CANCEL, COMPRESSION, CALM = 1, 2, 3, 5, 6, 7, 8, 9, 11


# ---------------------------------------------------------------- parsing
class Frame:
    __slots__ = ("typ", "flags", "sid", "payload", "length")

    def __init__(self, b):
        self.length = (b[0] << 16) | (b[1] << 8) | b[2]
        self.typ, self.flags = b[3], b[4]
        self.sid = int.from_bytes(b[5:9], "big") & 0x7fffffff
        self.payload = b[9:9 + self.length]


def parse_sent(hexs):
    """frames in a 'frame'/'bytes' op (complete ones only)"""
    if hexs == "-":
        return []
    b = bytes.fromhex(hexs)
    out = []
    while len(b) >= 9:
        l = (b[0] << 16) | (b[1] << 8) | b[2]
        if len(b) < 9 + l:
            break
        out.append(Frame(b[:9 + l]))
        b = b[9 + l:]
    return out


ITEM = re.compile(r"^(\w[\w-]*)(?:\((.*)\))?$")


def parse_out(line):
    """'out a | b | c' -> list of (name, argstring)"""
    if not line.startswith("out "):
        return []
    body = line[4:]
    if body == "-":
        return []
    items = []
    for it in body.split(" | "):
        m = ITEM.match(it)
        items.append((m.group(1), m.group(2) or "") if m else (it, ""))
    return items


def kvlist(s):
    if s in ("-", ""):
        return []
    out = []
    for part in s.split(","):
        if part == "hpack-err":
            continue
        k, _, v = part.partition(":")
        out.append((bytes.fromhex(k) if k != "-" else b"", bytes.fromhex(v) if v != "-" else b""))
    return out


class Conn:
    """one scripted connection: ops with their outputs and the generator's ground-truth comments"""

    def __init__(self, new_op, new_out):
        self.cfg = dict((k, int(v)) for k, v in re.findall(r"(\w+)=(-?\d+)", new_op))
        self.steps = [(new_op, new_out)]
        self.comments = []   # (index into steps at which the comment was emitted, text)
        self.first_line = 0
        self.differs = False

    def add(self, op, out):
        self.steps.append((op, out))


def same_line(o, a, b):
    """the comparison rule of srv_compare for one line"""
    if b in ("undef", "mon"):
        return True
    if o.startswith("srv") and " bytes " in o and a.startswith("out ") and b.startswith("out "):
        return sorted(a[4:].split(" | ")) == sorted(b[4:].split(" | "))
    return a == b


def split_conns(ops, impl, model=None):
    conns, cur = [], None
    for i, (o, a) in enumerate(zip(ops, impl)):
        if model is not None and cur is not None and not o.startswith("#") and not same_line(o, a, model[i]):
            cur.differs = True   # the implementation does not behave as the model (which has the listed defects) predicts
        if o.startswith("#"):
            if cur is not None:
                cur.comments.append((len(cur.steps), o))
            continue
        f = o.split(" ")
        if f[0] != "srv":
            continue
        if f[2] == "new":
            cur = Conn(o, a)
            cur.first_line = i
            conns.append(cur)
        elif cur is not None:
            cur.add(o, a)
    return conns


def script_of(conn):
    """the op lines of a connection (with comments), for a replay"""
    out, ci = [], 0
    for si, (o, _) in enumerate(conn.steps):
        while ci < len(conn.comments) and conn.comments[ci][0] <= si:
            out.append(conn.comments[ci][1])
            ci += 1
        out.append(o)
    return out


def adler_like(b):
    s = x = 0
    for c in b:
        s = (s + c) % 65521
        x ^= c
    return "%d:%d:%d" % (len(b), s, x)


def pat_bytes(sid, off, n):
    return bytes(((i * 7 + sid * 13 + i // 251) % 251) for i in range(off, off + n))


def parse_done(op):
    """srv s0 done <sid> st= hdr= view= body="""
    f = op.split(" ")
    sid = int(f[3])
    d = dict(a.split("=", 1) for a in f[4:])
    return sid, d


def body_of(sid, spec):
    """(kind, total bytes or None)"""
    if spec == "none":
        return "none", b""
    if spec == "panic":
        return "panic", b""
    if spec.startswith("hex:"):
        return "buf", bytes.fromhex(spec[4:]) if spec[4:] != "-" else b""
    if spec.startswith("pat:"):
        return "buf", pat_bytes(sid, 0, int(spec[4:]))
    if spec.startswith("stream:"):
        size, chunks, tail = spec[7:].split(":")
        n = sum(int(c) for c in chunks.split(".")) if chunks not in ("", "-") else 0
        return "stream:%s:%s" % (size, tail), pat_bytes(sid, 0, n)
    return "?", b""


# ---------------------------------------------------------------- violations helper
def viol(ctx, conn, kind, detail, known_class=None):
    """record a violation unless it is in a listed known-finding class whose recorded witness still fails"""
    # A listed finding is a defect the model reproduces (its `_witness` theorem). On a connection where the
    # implementation does NOT behave as the model predicts, something else is going on: nothing is suppressed there.
    if known_class and not getattr(conn, "differs", False):
        for k in ctx.known:
            if k["cls"] == known_class and (getattr(ctx, "witness_mode", False) or k["id"] in getattr(ctx, "active_known", ())):
                ctx.known_hits[k["id"]] += 1
                return
    ctx.violations.append(dict(kind=kind, detail=detail, known_class_checked=known_class, ops=script_of(conn)[:4000]))


# ---------------------------------------------------------------- monitors
def ascii_lower(b):
    return bytes(c + 32 if 65 <= c <= 90 else c for c in b)


def mon_requests_responses(ctx, conn, skip_sids=(), require_complete=True, intact_class=None):
    """C01/C09: each expected request dispatched exactly once with exactly its content; each response delivered
    as HEADERS then DATA* with END_STREAM exactly once and the body the handler produced."""
    expect = {}
    for _, c in conn.comments:
        if c.startswith("#expect dispatch("):
            sid = int(c[len("#expect dispatch("):].split(",", 1)[0])
            expect[sid] = c[len("#expect "):]
    invalid = set()  # streams whose header block the generator made undecodable on purpose
    for _, c in conn.comments:
        if c.startswith("#invalid-block "):
            invalid.add(int(c.split()[1]))
    dispatched = collections.Counter()
    resp = {}        # sid -> dict(status, fields, kind, body)
    got = collections.defaultdict(lambda: dict(h=[], data=b"", dlen=0, es=0, after_es=0, digests=[]))
    torn = False
    for op, out in conn.steps:
        f = op.split(" ")
        if f[2] == "done" and not out.startswith("out no-handler"):
            sid, d = parse_done(op)
            kind, body = body_of(sid, d.get("body", "none"))
            resp[sid] = dict(status=int(d.get("st", "200")), view=kvlist(d.get("view", "-")), kind=kind, body=body)
        for name, args in parse_out(out):
            if name == "dispatch":
                sid = int(args.split(",", 1)[0])
                dispatched[sid] += 1
                if sid in invalid:
                    viol(ctx, conn, "request-from-undecodable-header-block-dispatched", dict(sid=sid, got="dispatch(" + args[:200] + ")"))
                if sid in expect and sid not in skip_sids and "dispatch(" + args + ")" != expect[sid]:
                    viol(ctx, conn, "request-not-intact", dict(sid=sid, got="dispatch(" + args + ")", want=expect[sid]), known_class=intact_class)
            elif name == "H":
                # one response = one header block = one HEADERS frame; when it does not carry END_HEADERS the block goes
                # on in CONTINUATION frames and the decoded field list is printed on the one that ends it
                a = args.split(",", 4)
                sid = int(a[0])
                g = got[sid]
                if g["es"]:
                    g["after_es"] += 1
                g["h"].append((a[4] if len(a) > 4 else "-") if a[2] == "eh=1" else None)
                if a[1] == "es=1":
                    g["es"] += 1
            elif name == "C":
                a = args.split(",", 3)
                sid = int(a[0])
                g = got[sid]
                if not g["h"] or g["h"][-1] is not None:
                    viol(ctx, conn, "continuation-outside-header-block", dict(sid=sid, item=args[:80]))
                elif a[1] == "eh=1":
                    g["h"][-1] = a[3] if len(a) > 3 else "-"
            elif name == "D":
                a = args.split(",")
                sid = int(a[0])
                g = got[sid]
                if g["es"]:
                    g["after_es"] += 1
                g["dlen"] += int(a[3].split(":")[0])
                g["digests"].append(a[3])
                if a[1] == "es=1":
                    g["es"] += 1
            elif name in ("GA", "returned"):
                torn = True
    for sid, n in dispatched.items():
        if n > 1:
            viol(ctx, conn, "handler-ran-twice", dict(sid=sid, n=n))
    for sid in expect:
        if sid in skip_sids:
            continue
        if dispatched[sid] != 1 and not torn:
            viol(ctx, conn, "request-not-dispatched", dict(sid=sid, n=dispatched[sid]), known_class=intact_class)
    if not require_complete:
        return torn
    for sid, r in resp.items():
        if sid in skip_sids or r["kind"] == "panic":
            continue
        g = got.get(sid)
        if g is None or not g["h"]:
            if not torn:
                viol(ctx, conn, "response-missing", dict(sid=sid))
            continue
        want = [(b":status", str(r["status"]).encode())] + [(ascii_lower(k), v) for k, v in r["view"]]
        if g["h"][0] is None:
            if not torn:
                viol(ctx, conn, "header-block-unfinished", dict(sid=sid))
            continue
        have = kvlist(g["h"][0])
        if "hpack-err" in g["h"][0]:
            viol(ctx, conn, "response-headers-undecodable", dict(sid=sid), known_class="peer-table-limit-reset")
        elif have != want:
            cls = None
            if len(have) == len(want) and all(h[1] == w[1] and bytes(c | 32 for c in w[0]) == h[0] for h, w in zip(have[1:], want[1:])):
                cls = "tolower-nonletters"
            viol(ctx, conn, "response-headers-differ", dict(sid=sid, got=[(k.hex(), v.hex()) for k, v in have][:20],
                                                            want=[(k.hex(), v.hex()) for k, v in want][:20]), known_class=cls)
        if torn:
            continue
        if r["kind"].endswith(":x"):
            # the handler's body reader fails after its chunks: the response is cut short with RST_STREAM, there is no
            # END_STREAM to wait for (what went out before is still within the body: checked by the ledger monitors)
            continue
        if g["after_es"]:
            viol(ctx, conn, "frames-after-end-stream", dict(sid=sid))
        if g["dlen"] != len(r["body"]):
            cls = None
            viol(ctx, conn, "response-body-length", dict(sid=sid, got=g["dlen"], want=len(r["body"])), known_class=cls)
        else:
            # ... and the octets themselves: the per-frame digests (length:sum mod 65521:xor) add up to the body's
            tot_s = tot_x = 0
            for dg in g["digests"]:
                _, s_, x_ = (int(v) for v in dg.split(":"))
                tot_s, tot_x = (tot_s + s_) % 65521, tot_x ^ x_
            want = adler_like(r["body"]).split(":")
            if (tot_s, tot_x) != (int(want[1]), int(want[2])):
                viol(ctx, conn, "response-body-octets-differ", dict(sid=sid, got="%d:%d:%d" % (g["dlen"], tot_s, tot_x), want=":".join(want)))
        if g["es"] != 1:
            cls = None
            if r["kind"].startswith("stream:") and g["es"] == 0:
                size, tail = r["kind"].split(":")[1:]
                if tail == "e" and int(size) < 0 or (int(size) >= 0 and len(r["body"]) < int(size)):
                    cls = "streamed-body-eof-on-its-own-read"
            viol(ctx, conn, "end-stream-count", dict(sid=sid, n=g["es"], kind=r["kind"]), known_class=cls)
    return torn


def mon_flow(ctx, conn):
    """C06: the peer's authoritative ledger. DATA never exceeds the stream or connection allowance nor 16384."""
    init = 65535
    allow_conn = 65535
    allow = {}
    closed = set()
    mfs = 16384
    owed = {}        # sid -> octets of the finished handler's response body not yet seen in DATA
    started = set()  # response HEADERS seen
    torn = False
    for op, out in conn.steps:
        f = op.split(" ")
        if f[2] == "done" and not out.startswith("out no-handler"):
            sid, d = parse_done(op)
            kind, body = body_of(sid, d.get("body", "none"))
            if kind != "panic" and not kind.endswith(":x"):
                owed[sid] = len(body)
        if f[2] in ("cut", "end", "idle"):
            torn = True
        if f[2] in ("frame", "bytes") and len(f) == 4:
            for fr in parse_sent(f[3]):
                if fr.typ == 1 and fr.sid and fr.sid not in allow:
                    allow[fr.sid] = init
                elif fr.typ == 4 and not fr.flags & 1 and fr.sid == 0 and fr.length % 6 == 0:
                    for i in range(0, fr.length, 6):
                        k = int.from_bytes(fr.payload[i:i + 2], "big")
                        v = int.from_bytes(fr.payload[i + 2:i + 6], "big")
                        if k == 4 and v <= 0x7fffffff:
                            for s in allow:
                                if s not in closed:
                                    allow[s] += v - init
                            init = v
                        if k == 5 and 16384 <= v <= 0xffffff:
                            mfs = v
                elif fr.typ == 8 and fr.length == 4:
                    inc = int.from_bytes(fr.payload, "big") & 0x7fffffff
                    if fr.sid == 0:
                        allow_conn += inc
                    elif fr.sid in allow:
                        allow[fr.sid] += inc
                elif fr.typ == 3:
                    closed.add(fr.sid)
        for name, args in parse_out(out):
            if name == "D":
                a = args.split(",")
                sid, ln = int(a[0]), int(a[2].split("=")[1])
                if ln > 0 and (ln > allow.get(sid, 0) or ln > allow_conn):
                    viol(ctx, conn, "data-beyond-window", dict(sid=sid, len=ln, stream_allow=allow.get(sid), conn_allow=allow_conn))
                if ln > mfs:
                    viol(ctx, conn, "data-frame-too-large", dict(sid=sid, len=ln, max=mfs))
                if sid in allow:
                    allow[sid] -= ln
                allow_conn -= ln
                if sid in owed:
                    owed[sid] -= ln
                if a[1] == "es=1":
                    closed.add(sid)
            elif name == "RST":
                closed.add(int(args.split(",")[0]))
            elif name == "H":
                started.add(int(args.split(",")[0]))
                if ",es=1," in "," + args + ",":
                    closed.add(int(args.split(",")[0]))
            elif name in ("GA", "returned"):
                torn = True
        # progress (the property's second sentence), at quiescence: a finished response that still owes octets
        # is blocked by one of the two windows
        if not torn and f[2] in ("frame", "bytes", "done", "settle"):
            for sid, n in owed.items():
                if n == 0 and sid not in closed and sid in started:
                    # every octet is out: the frame that ends the stream needs no window
                    viol(ctx, conn, "end-stream-withheld", dict(sid=sid, stream_allow=allow.get(sid), conn_allow=allow_conn, after=op[:80]))
                    closed.add(sid)
                if n > 0 and sid not in closed and allow.get(sid, 0) > 0 and allow_conn > 0:
                    viol(ctx, conn, "sendable-left-unsent", dict(sid=sid, owed=n, stream_allow=allow.get(sid), conn_allow=allow_conn, after=op[:80]))
                    closed.add(sid)


def mon_goaway(ctx, conn):
    """C10: GOAWAY tells the truth; nothing above last-stream-id is dispatched afterwards."""
    seen_dispatch = []
    goaways = []   # (position, last, code, tag)
    pos = 0
    for op, out in conn.steps:
        for name, args in parse_out(out):
            pos += 1
            if name == "dispatch":
                seen_dispatch.append((pos, int(args.split(",", 1)[0])))
            elif name == "GA":
                m = re.match(r"last=(\d+),code=(\d+),(.*)", args)
                goaways.append((pos, int(m.group(1)), int(m.group(2)), m.group(3)))
    for (gp, last, code, tag) in goaways:
        before = [sid for (p, sid) in seen_dispatch if p < gp and sid > last]
        after = [sid for (p, sid) in seen_dispatch if p > gp and sid > last]
        if before:
            viol(ctx, conn, "goaway-last-below-dispatched", dict(last=last, code=code, site=tag, dispatched=before),
                 known_class="goaway-last-below-dispatched:" + tag)
        if after:
            viol(ctx, conn, "dispatch-above-goaway-last", dict(last=last, code=code, site=tag, dispatched=after))
    return goaways


CONN_OFFENCE_CODES = {
    0: {FRAME_SIZE}, 1: {FRAME_SIZE}, 2: {PROTOCOL}, 3: {PROTOCOL}, 4: {PROTOCOL}, 5: {PROTOCOL}, 6: {FLOW}, 7: {PROTOCOL},
    8: {PROTOCOL}, 9: {FLOW}, 10: {COMPRESSION}, 11: {PROTOCOL}, 12: {PROTOCOL}, 13: {PROTOCOL}, 14: {FRAME_SIZE},
    15: {PROTOCOL}, 16: {PROTOCOL}, 17: {0}, 18: {PROTOCOL, STREAM_CLOSED}, 19: {PROTOCOL}, 20: {COMPRESSION}, 21: {FLOW},
}

STREAM_SCOPED_BY_RFC = {19}     # a trailer section without END_STREAM that goes on in CONTINUATION


def mon_prompt_close(ctx, conn):
    """C10, bounded time, in the stepping harness: at the first quiescent point after a GOAWAY at which no stream is left in
    the table and no slot is in use, the connection handler has returned (whatever made the server send the GOAWAY)"""
    seen_ga, site = False, "-"
    for si, (op, out) in enumerate(conn.steps):
        for n, a in parse_out(out):
            if n == "GA" and not seen_ga:
                seen_ga = True
                m = re.match(r"last=(\d+),code=(\d+),(.*)", a)
                site = m.group(3) if m else "-"
        if any(n == "returned" for n, _ in parse_out(out)) or out in ("ok gone", "out gone"):
            return
        m = re.match(r"ok strms=(\d+) open=(-?\d+) ", out)
        if seen_ga and m and int(m.group(1)) == 0 and int(m.group(2)) == 0:
            viol(ctx, conn, "connection-still-open-with-nothing-promised-left", dict(site=site, after=conn.steps[si - 1][0][:80] if si else "-"),
                 known_class="goaway-never-closes:" + site)
            return


def mon_prompt_close_unmarked(ctx, conn):
    """the same rule for connections the generator did not mark as offending (mon_conn_offence runs it for the marked ones)"""
    if not any(c.startswith("#connoffence ") for _, c in conn.comments):
        mon_prompt_close(ctx, conn)


def mon_conn_offence(ctx, conn):
    """C10: after a connection-scoped offence: GOAWAY with an allowed code (or close), no further stream opened,
    ServeConn returns once promised streams have finished."""
    kind, at = None, None
    for idx, c in conn.comments:
        if c.startswith("#connoffence "):
            kind, at = int(c.split()[1]), idx
    if kind is None:
        return
    ga = None
    returned = False
    dispatched_after = []
    for si, (op, out) in enumerate(conn.steps):
        if si < at:
            continue
        for name, args in parse_out(out):
            if name == "GA" and ga is None:
                m = re.match(r"last=(\d+),code=(\d+),(.*)", args)
                ga = (int(m.group(1)), int(m.group(2)), m.group(3), si)
            elif name == "returned":
                returned = True
            elif name == "dispatch" and ga is not None and si > ga[3]:
                dispatched_after.append(int(args.split(",", 1)[0]))
    mon_prompt_close(ctx, conn)
    if ga is None and kind in STREAM_SCOPED_BY_RFC:
        # RFC 7540 classes this offence as a stream error (the server escalates it: the rest of F67, F23's obstacle):
        # an answer on the stream alone is an answer too, and then nothing here applies
        for si, (op, out) in enumerate(conn.steps):
            if si >= at and any(n == "RST" and a.split(",")[1] == str(PROTOCOL) for n, a in parse_out(out)):
                return
    if ga is None and not returned:
        viol(ctx, conn, "connection-offence-not-answered", dict(offence=kind))
        return
    if ga is not None and ga[1] not in CONN_OFFENCE_CODES.get(kind, {ga[1]}):
        viol(ctx, conn, "goaway-code-not-allowed", dict(offence=kind, code=ga[1], allowed=sorted(CONN_OFFENCE_CODES[kind])))
    if dispatched_after:
        viol(ctx, conn, "stream-opened-after-connection-error", dict(offence=kind, sids=dispatched_after))
    if not returned:
        # "... once the streams it promised have finished": a response still held back by a window the peer never
        # opened is a promise not yet kept, not a connection that fails to close
        last_gauge = None
        for op, out in conn.steps:
            m = re.match(r"ok strms=(\d+) open=(-?\d+) ", out)
            if m:
                last_gauge = (int(m.group(1)), int(m.group(2)))
        if last_gauge is None or last_gauge == (0, 0):
            site = ga[2] if ga else "-"
            viol(ctx, conn, "connection-not-closed-after-connection-error", dict(offence=kind, site=site),
                 known_class="goaway-never-closes:" + site)


def mon_limits(ctx, conn):
    """C13: handlers <= MaxConcurrentStreams; handler never sees more than the body / header-list limits;
    table, ring and held octets bounded by the limits."""
    mcs = conn.cfg.get("mcs", 100) or 1024
    mrb = conn.cfg.get("mrb", 0) or 4 * 1024 * 1024
    mhl = conn.cfg.get("mhl", 0) or (1 << 20)
    for op, out in conn.steps:
        if out.startswith("mon "):
            d = dict((k, int(v)) for k, v in re.findall(r"(\w+)=(-?\d+)", out))
            if d.get("maxinflight", 0) > mcs:
                viol(ctx, conn, "handlers-above-limit", dict(max=d["maxinflight"], limit=mcs), known_class="priority-created-stream")
        if out.startswith("ok strms="):
            d = dict((k, int(v)) for k, v in re.findall(r"(\w+)=(-?\d+)", out))
            # slots: every running handler holds one (a cancelled stream keeps its slot until its handler returns), and
            # with an empty table nothing but running handlers holds any
            if "infl" in d and d["open"] < d["infl"]:
                viol(ctx, conn, "handler-running-without-a-slot", dict(open=d["open"], handlers=d["infl"]))
            if "infl" in d and d["strms"] == 0 and d["open"] != d["infl"]:
                viol(ctx, conn, "slots-not-returned", dict(open=d["open"], handlers=d["infl"], table=0))
            if d.get("body", 0) > mrb:
                viol(ctx, conn, "buffered-body-above-limit", dict(buffered=d["body"], limit=mrb))
            if d["strms"] > 2 * mcs + 2:
                viol(ctx, conn, "stream-table-above-limit", dict(strms=d["strms"], limit=mcs), known_class="priority-created-stream")
            if d["ring"] > 256:
                viol(ctx, conn, "closed-ring-above-cap", dict(ring=d["ring"]))
            # the ids of streams this side reset (refused ones included) are remembered within the same bound
            if d.get("rmem", 0) > 256:
                viol(ctx, conn, "reset-memory-above-cap", dict(remembered=d["rmem"], cap=256))
            # octets of a header field that is not complete yet, summed over the table: 4 * MaxHeaderListSize each at
            # most (F68 repaired; Props/C13 Full.held_header_octets_bounded), and only the stream whose header block is
            # open holds any (one block at a time per connection)
            if mhl > 0 and d["held"] > 4 * mhl:
                viol(ctx, conn, "held-header-octets-above-limit", dict(held=d["held"], limit=mhl, bound=4 * mhl))
        for name, args in parse_out(out):
            if name == "dispatch":
                m = re.search(r"b=(\d+):", args)
                if m and int(m.group(1)) > mrb:
                    viol(ctx, conn, "body-above-limit", dict(len=int(m.group(1)), limit=mrb))
                fl = kvlist(re.search(r"f=([^,)]*(?:,[0-9a-f-]+:[0-9a-f-]+)*)", args).group(1)) if "f=" in args else []
                size = sum(len(k) + len(v) + 32 for k, v in fl)
                # the pseudo-header fields are part of the list too (RFC 7540 6.5.2: name + value + 32 each); :scheme is
                # not in the record, so this is a lower bound
                pm = re.search(r"m=([0-9a-f-]*),p=([0-9a-f-]*),a=([0-9a-f-]*)", args)
                if pm:
                    for nm, hv in ((":method", pm.group(1)), (":path", pm.group(2)), (":authority", pm.group(3))):
                        if hv != "-":
                            size += len(nm) + len(hv) // 2 + 32
                if mhl > 0 and size > mhl:
                    viol(ctx, conn, "header-list-above-limit", dict(size=size, limit=mhl))


_GEN = {}


def gen_const(name):
    """a constant the extractor regenerated from the Go source (lean/H2/Gen/Consts.lean)"""
    if not _GEN:
        for line in open(os.path.join(os.path.dirname(os.path.dirname(os.path.abspath(__file__))), "lean", "H2", "Gen", "Consts.lean")):
            m = re.match(r"def (c_\w+) : \w+ := (-?\d+)", line)
            if m:
                _GEN[m.group(1)] = int(m.group(2))
    return _GEN[name]


def mon_recv_credit(ctx, conn):
    """C14: a sender model that blocks exactly when its ledger says a window is exhausted. After every step the
    credit still outstanding must leave room to go on: connection outstanding <= advertised/2 + one frame, stream
    outstanding 0 while the stream is open; no zero increment; no window above 2^31-1."""
    adv_conn = 65535
    adv_conn0 = 65535
    adv_stream = 65535
    out_conn = 0
    out_stream = collections.Counter()
    ended = set()
    first = True
    max_frame = 0
    for op, out in conn.steps:
        f = op.split(" ")
        if first:
            first = False
            for name, args in parse_out(out):
                if name == "S":
                    for kv in args.split(","):
                        if kv.startswith("4="):
                            adv_stream = int(kv[2:])
                elif name == "WU" and args.startswith("0,"):
                    adv_conn += int(args.split(",")[1])
            adv_conn0 = adv_conn
            continue
        gone = False
        if f[2] in ("frame", "bytes") and len(f) == 4:
            for fr in parse_sent(f[3]):
                if fr.typ == 0 and fr.sid:
                    out_conn += fr.length
                    out_stream[fr.sid] += fr.length
                    max_frame = max(max_frame, fr.length)
                    if fr.flags & 1:
                        ended.add(fr.sid)
                if fr.typ == 3:
                    ended.add(fr.sid)
        for name, args in parse_out(out):
            if name == "WU":
                sid, inc = (int(x) for x in args.split(","))
                if inc == 0:
                    viol(ctx, conn, "window-update-zero", dict(sid=sid))
                if sid == 0:
                    out_conn -= inc
                    if adv_conn - out_conn > 0x7fffffff:
                        viol(ctx, conn, "window-above-max", dict(sid=0))
                else:
                    out_stream[sid] -= inc
                    if adv_stream - out_stream[sid] > 0x7fffffff:
                        viol(ctx, conn, "window-above-max", dict(sid=sid))
            elif name in ("RST", "GA", "returned"):
                if name == "RST":
                    ended.add(int(args.split(",")[0]))
                else:
                    gone = True
            elif name == "H" and "es=1" in args:
                ended.add(int(args.split(",")[0]))
            elif name == "D" and "es=1" in args:
                ended.add(int(args.split(",")[0]))
        if gone or out.startswith("out gone"):
            return
        m = re.search(r"rwin=(-?\d+)", out) if f[2] == "gauges" else None
        if m and int(m.group(1)) - gen_const("c_serverMaxWindow") != (adv_conn - out_conn) - adv_conn0:
            # the server's own count of the connection window against the sender's ledger, octet for octet
            viol(ctx, conn, "connection-window-ledger-differs", dict(server_counts=int(m.group(1)), server_started_at=gen_const("c_serverMaxWindow"),
                                                                      sender_counts=adv_conn - out_conn, sender_started_at=adv_conn0),
                 known_class="discarded-data-not-credited")
        if out_conn > adv_conn // 2 + max(max_frame, 16384):
            viol(ctx, conn, "connection-credit-withheld", dict(outstanding=out_conn, advertised=adv_conn),
                 known_class="discarded-data-not-credited")
            return
        for sid, o in out_stream.items():
            if sid not in ended and o > 0:
                viol(ctx, conn, "stream-credit-withheld", dict(sid=sid, outstanding=o), known_class="padded-empty-data-not-credited" if False else None)
                return


def mon_no_panic_returns(ctx, conn):
    """C17: never a (recovered) panic of the server's own loops, ServeConn returns once the peer is gone."""
    for op, out in conn.steps:
        f = op.split(" ")
        items = [n for n, _ in parse_out(out)]
        if "panic-logged" in items or out == "panic":
            viol(ctx, conn, "server-panicked", dict(op=op[:200]))
        if "stuck" in items:
            viol(ctx, conn, "server-stuck", dict(op=op[:200]))
        if any(i.startswith("response-closed-under-handler") for i in items):
            # the stream loop reached into a response whose handler was still running (ownership, C17/C19)
            viol(ctx, conn, "response-touched-while-handler-owns-it", dict(op=op[:200], out=out[:200]))
        if f[2] == "stallcut" and ("served=false" in out or "looped=false" in out):
            # a peer that stopped reading, went on sending and then disconnected
            viol(ctx, conn, "serveconn-did-not-return-after-stalled-peer-left", dict(out=out))
        if f[2] == "end" and out.startswith("ok returned left-behind"):
            viol(ctx, conn, "goroutines-left-behind-after-serveconn-returned", dict(out=out))
        elif f[2] == "end" and out != "ok returned":
            viol(ctx, conn, "serveconn-did-not-return", dict(out=out))
        if f[2] == "cut" and "returned" not in items and not out.startswith("out gone") and out != "out -":
            pass


def mon_settings(ctx, conn):
    """C18 (server role): one ACK per SETTINGS, in order; invalid values are a connection error with the RFC's code;
    frames sent respect the peer's MAX_FRAME_SIZE; the encoder table stays within the peer's HEADER_TABLE_SIZE."""
    mfs = 16384
    gone = False
    for op, out in conn.steps:
        f = op.split(" ")
        items = parse_out(out)
        names = [n for n, _ in items]
        if gone:
            continue
        if f[2] == "frame" and len(f) == 4:
            frs = parse_sent(f[3])
            if len(frs) == 1 and frs[0].length > 16384:
                # the server advertised SETTINGS_MAX_FRAME_SIZE 16384: it must enforce it
                codes = [a for n, a in items if n in ("GA", "RST")]
                if not any("code=6," in a or a.endswith(",6") for a in codes) and "returned" not in names:
                    viol(ctx, conn, "oversized-frame-accepted", dict(length=frs[0].length, out=out[:200]), known_class=None)
            if len(frs) == 1 and frs[0].typ == 4 and frs[0].sid == 0 and not frs[0].flags & 1:
                fr = frs[0]
                bad = None
                if fr.length % 6:
                    bad = FRAME_SIZE
                for i in range(0, fr.length - fr.length % 6, 6):
                    k = int.from_bytes(fr.payload[i:i + 2], "big")
                    v = int.from_bytes(fr.payload[i + 2:i + 6], "big")
                    if k == 2 and v > 1 and bad is None:
                        bad = PROTOCOL
                    if k == 4 and v > 0x7fffffff and bad is None:
                        bad = FLOW
                    if k == 5 and not (16384 <= v <= 0xffffff) and bad is None:
                        bad = PROTOCOL
                if bad is None:
                    acks = sum(1 for n, a in items if n == "S" and a == "ack")
                    if acks != 1 and "returned" not in names and "GA" not in names:
                        viol(ctx, conn, "settings-ack-count", dict(acks=acks))
                    for i in range(0, fr.length, 6):
                        k = int.from_bytes(fr.payload[i:i + 2], "big")
                        v = int.from_bytes(fr.payload[i + 2:i + 6], "big")
                        if k == 5:
                            mfs = v
                else:
                    ga = [a for n, a in items if n == "GA"]
                    if not ga and "returned" not in names:
                        viol(ctx, conn, "invalid-settings-accepted", dict(expected=bad))
                    elif ga and ("code=%d," % bad) not in ga[0]:
                        viol(ctx, conn, "invalid-settings-wrong-code", dict(expected=bad, got=ga[0]))
        if "GA" in names or "returned" in names:
            gone = True
        for n, a in items:
            if n in ("H", "C", "D", "F"):
                # EVERY frame the server writes: the other kinds (SETTINGS, PING, RST_STREAM, WINDOW_UPDATE, GOAWAY with its
                # short debug text) are far below 16384 octets by their format
                m = re.search(r"len=(\d+)", a)
                if m and int(m.group(1)) > mfs:
                    viol(ctx, conn, "frame-above-peer-max-frame-size", dict(frame=n, len=int(m.group(1)), max=mfs))
                if n in ("H", "C") and "hpack-err" in a:
                    viol(ctx, conn, "encoder-table-above-peer-limit", dict(item=a[:80]), known_class="peer-table-limit-reset")


FRAME_ITEMS = ("H", "C", "D", "RST", "S", "PING", "GA", "WU", "F")


def mon_header_blocks(ctx, conn):
    """RFC 7540 4.3 / 6.10 for what the server writes, in wire order over the whole connection: a HEADERS frame without
    END_HEADERS is followed by CONTINUATION frames on the same stream and by nothing else until one carries END_HEADERS;
    a CONTINUATION frame occurs nowhere else, is never empty, and only the first frame of a block may be short of the
    size the block is cut at (16384) when another follows."""
    open_sid = None
    prev_len = None
    for op, out in conn.steps:
        if out.startswith("mon settled"):
            # frames written while nobody waited (burst/doneall): the harness counts, in wire order, the frames it saw
            # between a HEADERS frame without END_HEADERS and the end of its block
            m = re.search(r"hbi=(\d+)", out)
            if m and int(m.group(1)) > 0:
                viol(ctx, conn, "header-block-interrupted", dict(frames_inside_blocks=int(m.group(1)), summary=out[:200]))
            continue
        for n, a in parse_out(out):
            if n not in FRAME_ITEMS:
                continue
            sid = int(a.split(",", 1)[0]) if n in ("H", "C") else None
            if open_sid is not None and not (n == "C" and sid == open_sid):
                viol(ctx, conn, "header-block-interrupted", dict(block_on=open_sid, by=n + "(" + a[:60] + ")"))
                open_sid = None
            if n == "H":
                ln = int(re.search(r"len=(\d+)", a).group(1))
                if ",eh=0," in a:
                    open_sid, prev_len = sid, ln
                    if ln != 16384:
                        viol(ctx, conn, "header-block-cut-short", dict(sid=sid, len=ln))
            elif n == "C":
                ln = int(re.search(r"len=(\d+)", a).group(1))
                if open_sid is None:
                    viol(ctx, conn, "continuation-outside-header-block", dict(sid=sid, item=a[:60]))
                if ln == 0:
                    viol(ctx, conn, "empty-continuation", dict(sid=sid))
                if ",eh=1," in a:
                    open_sid = None
                elif ln != 16384:
                    viol(ctx, conn, "header-block-cut-short", dict(sid=sid, len=ln))
    if open_sid is not None:
        last = conn.steps[-1][1] if conn.steps else ""
        if not any(("returned" in o or "GA(" in o or "gone" in o or "stuck" in o) for _, o in conn.steps[-3:]):
            viol(ctx, conn, "header-block-unfinished", dict(sid=open_sid, last=last[:80]))


# RFC 7540 8.1.2 well-formedness of a request (C20)
CONN_SPECIFIC = {b"connection", b"keep-alive", b"proxy-connection", b"transfer-encoding", b"upgrade"}


def wf_request(hs, trailers, data_len):
    seen_regular = False
    pseudo = collections.Counter()
    vals = {}
    for k, v in hs:
        if any(65 <= c <= 90 for c in k):
            return False
        if k.startswith(b":"):
            if seen_regular:
                return False
            if k not in (b":method", b":scheme", b":path", b":authority"):
                return False
            pseudo[k] += 1
            vals[k] = v
            if pseudo[k] > 1:
                return False
        else:
            seen_regular = True
            if k in CONN_SPECIFIC:
                return False
            if k == b"te" and v != b"trailers":
                return False
            if k == b"content-length":
                if not v or any(c < 48 or c > 57 for c in v):
                    return False
                if int(v) != data_len:
                    return False
    if not (pseudo[b":method"] and pseudo[b":scheme"] and pseudo[b":path"]):
        return False
    if vals[b":path"] == b"":
        return False
    for k, v in trailers:
        if any(65 <= c <= 90 for c in k) or k.startswith(b":") or k in CONN_SPECIFIC or (k == b"te" and v != b"trailers"):
            return False
    return True


def mon_msg(ctx, conn):
    """C20: dispatched iff well-formed; a malformed request is refused on its stream alone."""
    want = {}
    for _, c in conn.comments:
        m = re.match(r"#msg (\d+) hs=(\S+) body=(\d+) trailers=(\S+)", c)
        if m:
            want[int(m.group(1))] = (kvlist(m.group(2)), kvlist(m.group(4)), int(m.group(3)))
    indexed = any(c == "#enc indexed" for _, c in conn.comments)
    first_bad = min([sid for sid, (hs, tr, n) in want.items() if not wf_request(hs, tr, n)] or [1 << 40])
    dispatched, refused, torn_at = set(), {}, None
    for op, out in conn.steps:
        for name, args in parse_out(out):
            if name == "dispatch":
                dispatched.add(int(args.split(",", 1)[0]))
            elif name == "RST":
                sid, code = (int(x) for x in args.split(","))
                refused[sid] = code
            elif name in ("GA", "returned") and torn_at is None:
                torn_at = (name, args)
    # F23: once a malformed block was abandoned part way, requests that index into the dynamic table are out of step
    def f23(sid):
        return "block-abandoned-at-malformed-field" if indexed and sid > first_bad else None
    if torn_at is not None:
        viol(ctx, conn, "malformed-request-tore-down-connection", dict(item=torn_at),
             known_class="block-abandoned-at-malformed-field" if indexed else None)
        return
    for sid, (hs, tr, n) in want.items():
        ok = wf_request(hs, tr, n)
        if ok and sid not in dispatched:
            viol(ctx, conn, "well-formed-request-refused", dict(sid=sid, hs=[(k.decode("latin1"), v.decode("latin1")) for k, v in hs]), known_class=f23(sid))
        if not ok and sid in dispatched:
            cls = f23(sid)
            viol(ctx, conn, "malformed-request-dispatched", dict(sid=sid, hs=[(k.decode("latin1"), v.decode("latin1")) for k, v in hs],
                                                                 trailers=[(k.decode("latin1"), v.decode("latin1")) for k, v in tr], body=n), known_class=cls)
        if not ok and sid not in dispatched and refused.get(sid) not in (PROTOCOL, None):
            viol(ctx, conn, "malformed-request-wrong-code", dict(sid=sid, code=refused.get(sid)))


# ---------------------------------------------------------------- drivers
def srv_compare(ctx, area, ops, impl, model):
    """correspondence with the two canonicalisations of DESIGN 4.3: `undef`/`mon` model lines are not compared;
    the output of a multi-frame `bytes` step is a multiset"""
    impl2, model2 = [], []
    undef = 0
    for o, a, b in zip(ops, impl, model):
        if b in ("undef", "mon"):
            undef += b == "undef"
            impl2.append("skip"); model2.append("skip")
            continue
        if o.startswith("srv") and " bytes " in o and a.startswith("out ") and b.startswith("out "):
            a = "out " + " | ".join(sorted(a[4:].split(" | ")))
            b = "out " + " | ".join(sorted(b[4:].split(" | ")))
        impl2.append(a); model2.append(b)
    cov, diffs = compare(ctx, area, ops, impl2, model2,
                         nontrivial=lambda o, a: o.startswith("srv") and a not in ("out -", "skip", "out gone"))
    cov["model_undefined_steps"] = undef
    return cov, diffs


def replay_witnesses(ctx, monitors):
    """a listed finding suppresses its class only while its recorded witness still fails on the implementation"""
    ctx.active_known = set()
    for k in ctx.known:
        path = os.path.join(ctx.root, k["witness"])
        if not os.path.exists(path):
            continue
        wops = [l.rstrip("\n") for l in open(path)]
        ops, impl, model = ctx.gen_run_compare(ctx.pid, "witness-" + k["id"], ctx.tier, ctx.seed, ctx.log, extra_ops=wops)
        ctx.witness_mode = True
        before = ctx.known_hits[k["id"]]
        nviol = len(ctx.violations)
        for c in split_conns(ops, impl):
            for m in monitors:
                m(ctx, c)
        ctx.witness_mode = False
        del ctx.violations[nviol:]      # other classes seen in a witness are judged in the main run
        if ctx.known_hits[k["id"]] > before:
            ctx.active_known.add(k["id"])
            ctx.known_lines.append("%s %s" % (k["id"], k["text"]))
        ctx.known_hits[k["id"]] = before


def run_family(ctx, areas, monitors, rule, regress=()):
    """`regress`: witness files of findings that have been repaired, run like a generated family (compared with the
    model, judged by the monitors with nothing excused), so the defect is reported if it returns"""
    ctx.known_hits = collections.Counter()
    replay_witnesses(ctx, monitors)
    covs = {}
    nconn = 0
    inputs = [(area, None) for area in areas]
    for path in regress:
        full = os.path.join(ctx.root, path)
        if os.path.exists(full):
            inputs.append(("regress_" + os.path.basename(path).split(".")[0], [l.rstrip("\n") for l in open(full)]))
        else:
            ctx.broken.append(dict(what="regression input %s is missing" % path, detail=""))
    for area, fixed_ops in inputs:
        ops, impl, model = ctx.gen_run_compare(ctx.pid, area, ctx.tier, ctx.seed, ctx.log, extra_ops=fixed_ops)
        cov, diffs = srv_compare(ctx, area, ops, impl, model)
        conns = split_conns(ops, impl, model)
        nconn += len(conns)
        for c in conns:
            for m in monitors:
                m(ctx, c)
        cov["connections"] = len(conns)
        covs[area] = cov
    out = merge_cov(covs)
    out["rule"] = rule + " distinct_nontrivial = distinct op lines whose result is not empty."
    out["traces_validated_against_impl"] = nconn
    out["known_finding_hits"] = dict(ctx.known_hits)
    return out


def run_c01(ctx):
    return run_family(ctx, ["srv-basic", "srv-hpackupd", "srv-flow"], [lambda c, k: mon_requests_responses(c, k), mon_flow, mon_header_blocks],
                      "srv-basic: sets of <= MaxConcurrentStreams well-formed requests, random HPACK representation per field, header blocks cut into CONTINUATION at random octets, padding, priority section, DATA chunking and empty DATA, random interleaving (block contiguity kept), random completion order, buffered/streamed/empty responses; responses with header blocks of 16383-16385, 32768, 32769, 40000 octets and of 4 and 9 large fields, whose HEADERS + CONTINUATION frames the peer reassembles and decodes: the fields are the handler's. "
                      "srv-hpackupd: request and trailer blocks opening with 1-3 dynamic table size updates, cut at every octet of the opening and of the first field, in three frames at every pair of octets of the opening, with empty CONTINUATION frames (the shapes of the repaired F04/F05). "
                      "srv-flow: several responses (buffered and streamed) held back and released by window schedules: every response octet is compared with what its handler produced.")


def run_c06(ctx):
    return run_family(ctx, ["srv-flow"], [mon_flow, lambda c, k: mon_requests_responses(c, k)],
                      "srv-flow: response sizes around 0/window/16384/65535 boundaries x buffered or streamed x schedules of stream and connection WINDOW_UPDATE and SETTINGS_INITIAL_WINDOW_SIZE up/down (negative windows), several streams; final grants so that every response must complete.")


def run_c08(ctx):
    import c08spec
    return run_family(ctx, ["srv-state"], [c08spec.mon_reactions],
                      "srv-state: every frame sequence of length <= 2 over 23 symbols x 4 stream selectors on a fresh connection, plus seeded sequences of length 3-7 (thorough: 40000).",
                      regress=["known/FA-c08-domain-prevunf.ops"])


def mon_goaway_only_truth(ctx, conn):
    mon_goaway(ctx, conn)


def run_c09(ctx):
    def mon(ctx, conn):
        off = set()
        undecoded = False       # a header block was refused, or abandoned at a malformed field (F22, F23)
        for _, c in conn.comments:
            if c.startswith("#offence ") or c.startswith("#refused "):
                off.add(int(c.split()[-1]))
            if c.startswith("#refused ") or (c.startswith("#offence ") and int(c.split()[1]) in (0, 1, 2, 8, 9)):
                undecoded = True
        cls = "hpack-desync-after-undecoded-block" if undecoded else None
        torn = mon_requests_responses(ctx, conn, skip_sids=off, intact_class=cls)
        if torn:
            site = "-"
            for op, out in conn.steps:
                for n, a in parse_out(out):
                    if n == "GA":
                        site = a.split(",", 2)[2]
                        break
            viol(ctx, conn, "stream-error-tore-down-connection", dict(site=site),
                 known_class=cls if (site == "compression" and cls) else "stream-offence-goaway:" + site)
    return run_family(ctx, ["srv-err"], [mon, mon_recv_credit_soft],
                      "srv-err: 2-8 streams per connection, 40% offending (12 stream-scoped offences: malformed header, missing pseudo-header, peer RST at two points, handler panic, stream window overflow, content-length mismatch, connection-specific field, DATA after the server's RST, zero increment, a trailer section without END_STREAM) or refused at the limit, the peer's encoder indexing entries from offending blocks.")


def mon_recv_credit_soft(ctx, conn):
    pass


def mon_closed_at_end(ctx, conn):
    """a connection on which a GOAWAY was sent is closed, at the latest, when the peer has gone (`end`)"""
    ga = any(n == "GA" for _, out in conn.steps for n, _ in parse_out(out))
    for op, out in conn.steps:
        if op.split(" ")[2] == "end" and ga and not out.startswith("ok returned"):
            viol(ctx, conn, "connection-not-closed-after-goaway-and-disconnect", dict(out=out))


def run_c10(ctx):
    return run_family(ctx, ["srv-goaway", "srv-acct"], [lambda c, k: mon_goaway(c, k) and None, mon_conn_offence, mon_prompt_close_unmarked, mon_closed_at_end],
                      "srv-goaway: one of 22 connection-scoped offences (frame size, CONTINUATION sequencing, even/lower stream id, SETTINGS values, flow-control incl. a SETTINGS change that overflows a stream window already at the top, compression, frames on idle streams, idle timeout, a trailer section without END_STREAM that goes on in CONTINUATION or cannot be decoded) after 0-3 requests (some still running) with trailing requests/pings.")


def run_c13(ctx):
    return run_family(ctx, ["srv-limits", "srv-acct"], [mon_limits],
                      "srv-limits: 30-90 step adversarial schedules with MaxConcurrentStreams 1-4, MaxHeaderListSize 2000, MaxRequestBodySize 500: rapid HEADERS+RST with parked handlers, half-open streams, endless CONTINUATION, oversized and mis-declared bodies, late frames; gauges sampled every 10 steps. "
                      "Both families end with the header field that never ends (F68): a literal whose value length prefix announces 100, list limit -1/+1 and exactly-fits/+1, 4*limit-1/+1, 2^22, 2^40 octets, begun in HEADERS without END_HEADERS (sometimes cut inside its own prefix) and fed in CONTINUATION frames of 1-300 and ~16384 octets (srv-limits) or so that the octets held are 4*limit-1, 4*limit, 4*limit+1 after consecutive frames (srv-acct); gauges after every frame; then known/F68.ops.",
                      regress=["known/F68.ops"])


def run_c14(ctx):
    return run_family(ctx, ["srv-recv", "srv-acct"], [mon_recv_credit],
                      "srv-recv: 1-3 uploads per connection (50-5000 octets, every 4th connection > 2.2 MB so the connection window must be refilled), random chunking and padding, padded empty DATA, half of the connections with a 3.2 MB body cut off by the body limit.")


def run_c17(ctx):
    return run_family(ctx, ["srv-soup", "srv-acct", "srv-limits", "srv-goaway"], [mon_no_panic_returns],
                      "srv-goaway: connection offences among running requests, and the idle timer's GOAWAY racing new requests and an offence of the peer's own (ServeConn must return); srv-soup: every 3rd (thorough: every) truncation offset of a recorded well-formed client byte stream followed by EOF; structure-aware mutations (frame delete/duplicate/insert, header or payload bit flip); random frame soups; each ends with EOF and ServeConn must return.")


def run_c18(ctx):
    return run_family(ctx, ["srv-settings", "srv-tabledip"], [mon_settings, mon_header_blocks],
                      "srv-settings: 1-4 SETTINGS frames per connection over 8 ids (incl. unknown) x boundary values, each followed by a request answered with header values of 1-17000 octets and bodies of 1-70000 octets; "
                      "then response header blocks of 16381-16387, 32765-32771, 40000, 49152, 49153 octets and blocks of 4 and 9 large fields (no body: END_STREAM on the HEADERS frame; bodies of 5, 20000, 70000 octets) towards peers that announced no, 2^20 and 16384 MAX_FRAME_SIZE: EVERY frame written is within the peer's limit, "
                      "every block is HEADERS + CONTINUATION, contiguous, cut at 16384, ended by END_HEADERS; 1-4 parked handlers released at once with 40000-octet blocks while PING and SETTINGS frames arrive without waiting (wire order checked by the harness: hbi=). "
                      "srv-tabledip: responses whose :status the encoder stores in its dynamic table (201, 418, 503), between them 1-2 SETTINGS frames with 1-3 HEADER_TABLE_SIZE values each over {0, 41, 42, 100, 4096, 65536} and other settings mixed in; the peer's decoder follows its own announcements value by value, so every dip must be announced (the shapes of the repaired F09s first, then known/F09s.ops).",
                      regress=["known/F09s.ops", "known/F33.ops"])


def run_c20(ctx):
    return run_family(ctx, ["srv-msg"], [mon_msg],
                      "srv-msg: 30 requests per connection; header lists over 9 pseudo and 20 regular fields (valid and invalid names, values, orders, duplications), perturbations of a valid skeleton, bodies of 0/3/5 octets, 5 kinds of trailers.")


def run_c19(ctx):
    """ownership half: the pool tracker (hooks_verif.go) is on for whole runs of the server and client families,
    incl. bursts with real interleavings; its anomalies (two-owners, double-release) are violations. Data-race half:
    the same bursts under the Go race detector, as a search aid (a report is a failing history)."""
    import subprocess, tempfile
    ctx.known_hits = collections.Counter()
    covs = {}
    fams = ["srv-burst", "srv-basic", "srv-err", "srv-goaway", "srv-soup", "cliflow", "cliresolve", "cligoaway", "clirace", "clistall"]
    hb = os.path.join(ctx.root, "bin", "h2harness")
    for area in fams:
        p = subprocess.run([hb, "gen", area, ctx.tier, str(ctx.seed)], stdout=subprocess.PIPE, stderr=subprocess.PIPE, text=True)
        if p.returncode != 0:
            continue
        ops = ["pool.on"] + p.stdout.splitlines() + ["pool.report"]
        o, i, m = ctx.gen_run_compare(ctx.pid, "pool-" + area, ctx.tier, ctx.seed, ctx.log, extra_ops=ops)
        rep = i[-1]
        mm = re.search(r"events=(\d+) anomalies=(\S*) ", rep + " ")
        events = int(mm.group(1)) if mm else 0
        anomalies = mm.group(2) if mm else "?"
        if anomalies:
            ctx.violations.append(dict(kind="pooled-object-ownership", detail=dict(family=area, anomalies=anomalies[:300]), ops=ops[:3000]))
        npanic = sum(1 for a in i if a == "panic" or " panic-logged" in (" " + a.replace("|", " ")) .replace("handler-panic-logged", "") or "panicked=1" in a)
        if npanic:
            ctx.violations.append(dict(kind="panic-under-tracker-run", detail=dict(family=area, n=npanic), ops=ops[:3000]))
        touched = [k for k, a in enumerate(i) if "response-closed-under-handler" in a]
        if touched:
            # a response was closed by someone else while its handler still owned it: the op sequence of that connection
            k = touched[0]
            start = max(j for j in range(k + 1) if " new " in ops[j] or j == 0)
            ctx.violations.append(dict(kind="response-touched-while-handler-owns-it", detail=dict(family=area, n=len(touched), out=i[k][:200]),
                                       ops=[l for l in ops[start:k + 1]][:400]))
        if area.startswith("cli"):
            # a pooled frame the caller still holds as an error value: what it says must stay what the peer sent
            import area_client
            for c in area_client.split_conns(o, i):
                for (kind, detail) in area_client.mon_errvalue(c):
                    ctx.violations.append(dict(kind="pooled-frame-still-referenced:" + kind, detail=dict(family=area, what=detail), ops=c.lines))
                # frames written by several goroutines at once (clirace: long request header blocks next to flushed uploads,
                # answers of the read loop and Close's GOAWAY): a header block stays in one piece
                for (kind, detail) in area_client.mon_header_blocks(c):
                    ctx.violations.append(dict(kind=kind, detail=dict(family=area, what=detail), ops=c.lines))
        if area.startswith("srv") and area != "srv-burst":
            cov, diffs = srv_compare(ctx, area, o[1:-1], i[1:-1], m[1:-1])
        else:
            cov = dict(evaluations=len(ops), distinct_nontrivial=len(set(ops)), disagreements=0,
                       samples=[dict(op=ops[k][:200], impl=i[k][:200]) for k in range(1, min(len(ops), 400), 97)])
        cov["pool_events"] = events
        cov["pool_anomalies"] = anomalies
        covs[area] = cov
    # race detector (search aid)
    race = dict(ran=False)
    hdir = os.path.join(ctx.root, "harness")
    rb = os.path.join(ctx.root, "bin", "h2harness-race")
    env = dict(os.environ, GOFLAGS="-mod=mod", GOPROXY="off")
    env.pop("GOSUMDB", None)
    pb = subprocess.run(["go", "build", "-race", "-tags", "verif", "-o", rb, "."], cwd=hdir, env=env, stdout=subprocess.PIPE, stderr=subprocess.STDOUT, text=True)
    if pb.returncode == 0:
        race["ran"] = True
        race["reports"] = 0
        for area in (["srv-burst", "clirace", "cliflow", "clistall"] if not ctx.thorough() else ["srv-burst", "srv-err", "srv-goaway", "clirace", "cliflow", "cliresolve", "cligoaway", "clistall"]):
            p = subprocess.run([hb, "gen", area, "quick", str(ctx.seed)], stdout=subprocess.PIPE, stderr=subprocess.PIPE, text=True)
            if p.returncode != 0:
                continue
            pr = subprocess.run([rb, "run"], input=p.stdout, stdout=subprocess.PIPE, stderr=subprocess.PIPE, text=True,
                                env=dict(os.environ, GORACE="halt_on_error=0"), timeout=3000)
            n = pr.stderr.count("WARNING: DATA RACE")
            race["reports"] += n
            race.setdefault("families", {})[area] = dict(ops=p.stdout.count("\n"), reports=n)
            if n:
                first = pr.stderr[pr.stderr.index("WARNING: DATA RACE"):][:2500]
                ctx.violations.append(dict(kind="data-race", detail=dict(family=area, seed=ctx.seed, report=first),
                                           ops=["# h2harness gen %s quick %d | h2harness-race run   (bin/h2harness-race: go build -race -tags verif)" % (area, ctx.seed)]))
    else:
        race["build_error"] = pb.stdout[-500:]
    out = merge_cov(covs)
    out["race_detector"] = race
    out["rule"] = ("pool tracker switched on for whole runs of 5 server families (one of them bursts: frames written without waiting, "
                   "all parked handlers released at once, SETTINGS and WINDOW_UPDATE arriving meanwhile) and 4 client families (incl. forced "
                   "Close/Write interleavings); every acquire/release of frames, frame headers, header fields, streams, request contexts and "
                   "client contexts is an event. The race-detector build runs the concurrent families. distinct_nontrivial = distinct op lines.")
    out["traces_validated_against_impl"] = sum(c.get("connections", 0) for c in covs.values())
    return out


def register(PROPS):
    base = ["serial stepping: one event at a time, outputs read at quiescence (counters from the verif hooks)",
            "fasthttp's header storage is the trusted abstraction responseView/handler view (DESIGN C01)",
            "the scripted peer's HPACK encoder/decoder (x/net Huffman and decoder) and frame writer"]
    PROPS["C19"] = dict(module="H2.Props.C19", run=run_c19, assumptions=base + [
        "PARTIAL: the data-race half of C19 cannot be decided by proof over these models (their actions contain no memory accesses); "
        "the Go race detector over concurrent workloads is a search aid only",
        "the pool tracker sees the acquire/release sites instrumented in the verif hook commits"])
    for pid, fn in (("C01", run_c01), ("C06", run_c06), ("C08", run_c08), ("C09", run_c09), ("C10", run_c10),
                    ("C13", run_c13), ("C14", run_c14), ("C17", run_c17), ("C18", run_c18), ("C20", run_c20)):
        PROPS[pid] = dict(module="H2.Props." + pid, run=fn, assumptions=base)
