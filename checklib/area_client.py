"""Client area: C02, C07, C11, C12 and the client halves C14c, C18c, C20c.

Each property runs its `cli*` script areas through the implementation (h2harness) and the Lean model
driver, compares the step outputs (correspondence), and runs the property's Spec monitors over what the
implementation did. The monitors are written against RFC 7540 and the property texts, not against the
model: window ledger (D3), exactly-once resolution, GOAWAY/retry predicates (D4), response projection,
receiver credit ledger, SETTINGS persistence, message well-formedness.

Output line of the harness: "<compared> ## <diagnostics>"; only the first part is compared.
Model line "ambiguous": the step's output depends on Go's map iteration order (several blocked uploads
competing for the connection window); such steps are monitored but not compared.
"""
import os, re, collections
import props

CONNECTION_SPECIFIC = {"connection", "keep-alive", "proxy-connection", "transfer-encoding", "upgrade"}


# ------------------------------------------------------------------ trace parsing
class Conn:
    def __init__(self, cid):
        self.cid = cid
        self.steps = []      # (op-tokens, cmp, diag, lineno)
        self.notes = []      # (index into steps at which the note was emitted, text)
        self.lines = []      # raw op lines (with notes) for replays


def split_conns(ops, impl):
    conns, cur, by = [], None, {}
    for i, (o, a) in enumerate(zip(ops, impl)):
        if not o:
            continue
        if o.startswith("#"):
            t = o[2:].split(" ")
            # notes name their connection in the second token
            c = by.get(t[1]) if len(t) > 1 else None
            if c is not None:
                c.notes.append((len(c.steps), o[2:]))
                c.lines.append(o)
            continue
        f = o.split(" ")
        if f[0] != "cli":
            continue
        if f[2] == "new":
            cur = Conn(f[1])
            by[f[1]] = cur
            conns.append(cur)
        c = by.get(f[1])
        if c is None:
            continue
        cmp_, _, diag = a.partition(" ## ")
        c.steps.append((f, cmp_, diag, i))
        c.lines.append(o)
    return conns


def parse_frames(hexs):
    """frames of a `frame` op: list of (type, flags, sid, payload bytes); trailing partial frame ignored"""
    if hexs == "-":
        return []
    b = bytes.fromhex(hexs)
    out = []
    while len(b) >= 9:
        l = int.from_bytes(b[:3], "big")
        if len(b) < 9 + l:
            break
        out.append((b[3], b[4], int.from_bytes(b[5:9], "big") & 0x7fffffff, b[9:9 + l]))
        b = b[9 + l:]
    return out


def client_frames(diag):
    """frame tokens the client wrote in a step (diagnostic form), as (kind, sid, fields...)"""
    out = []
    for t in diag.split(" "):
        m = re.match(r"([A-Z])(\d+)(?::(.*))?$", t)
        if not m or t.startswith("PRI"):
            continue
        out.append((m.group(1), int(m.group(2)), (m.group(3) or "").split(":")))
    return out


def kvs(step_cmp):
    return dict(p.split("=", 1) for p in step_cmp.split(" ") if "=" in p)


def unhex(s):
    return b"" if s == "-" else bytes.fromhex(s)


# ------------------------------------------------------------------ monitors
# every monitor returns a list of (kind, detail) for one connection

def mon_ledger(c):
    """C07 / D3 sender side: DATA within the stream and connection allowance and MAX_FRAME_SIZE,
    END_STREAM once, nothing after it, whole body sent once the windows are opened."""
    v = []
    allow_conn = 65535
    init = 65535
    maxframe = 16384
    allow, sent, ended, reset, want = {}, collections.Counter(), set(), set(), {}
    tag_sid = {}
    granted_all = False
    killed, flagged = set(), set()
    for (f, cmp_, diag, _) in c.steps:
        op = f[2]
        if cmp_ == "mon":
            break       # the peer has stopped reading: from here on mon_stall judges
        if op == "new":
            for (t, fl, sid, p) in parse_frames(f[3]):
                if t == 4 and not fl & 1:
                    for i in range(0, len(p) - 5, 6):
                        k, val = int.from_bytes(p[i:i + 2], "big"), int.from_bytes(p[i + 2:i + 6], "big")
                        if k == 4:
                            init = val
                        if k == 5:
                            maxframe = val
        if op == "frame":
            for (t, fl, sid, p) in parse_frames(f[3]):
                if t == 4 and sid == 0 and not fl & 1 and len(p) % 6 == 0:
                    for i in range(0, len(p), 6):
                        k, val = int.from_bytes(p[i:i + 2], "big"), int.from_bytes(p[i + 2:i + 6], "big")
                        if k == 4 and val < 2 ** 31:
                            for s in allow:
                                allow[s] += val - init
                            init = val
                        if k == 5 and 16384 <= val < 2 ** 24:
                            maxframe = val
                elif t == 8 and len(p) == 4:
                    inc = int.from_bytes(p, "big") & 0x7fffffff
                    if sid == 0:
                        allow_conn += inc
                    elif sid in allow:
                        allow[sid] += inc
        if op == "req":
            body = f[10].split(":")
            if body[0] == "buf":
                want[f[3]] = int(body[2])
            elif body[0] == "str" and body[4] in ("eof", "eofw"):
                want[f[3]] = sum(int(x) for x in body[3].split(".")) if body[3] != "-" else 0
        for (k, sid, a) in client_frames(diag):
            if k == "H":
                allow[sid] = init
                if op == "req":
                    tag_sid[f[3]] = sid
                if a[0] == "1":
                    ended.add(sid)
            elif k == "R":
                reset.add(sid)
            elif k == "D":
                n, es = int(a[0]), a[1] == "1"
                if sid not in allow:
                    v.append(("data-on-unopened-stream", "stream %d" % sid))
                    continue
                if sid in ended:
                    v.append(("data-after-end-stream", "stream %d" % sid))
                if sid in reset:
                    v.append(("data-after-own-reset", "stream %d" % sid))
                if n > maxframe:
                    v.append(("data-exceeds-max-frame-size", "stream %d frame %d > %d" % (sid, n, maxframe)))
                if n > 0 and n > allow[sid]:
                    v.append(("stream-window-overdrawn", "stream %d frame %d allowance %d" % (sid, n, allow[sid])))
                if n > 0 and n > allow_conn:
                    v.append(("connection-window-overdrawn", "stream %d frame %d allowance %d" % (sid, n, allow_conn)))
                allow[sid] -= n
                allow_conn -= n
                sent[sid] += n
                if es:
                    ended.add(sid)
                if len(a) > 2 and a[2] == "BAD":
                    v.append(("body-bytes-corrupted", "stream %d" % sid))
        # progress, at every quiescent point (the property's second sentence): an upload whose octets are all out has
        # its END_STREAM out too (that frame needs no window), and one that still owes octets is held by a window
        if op == "frame":
            for (t, fl, s2, p) in parse_frames(f[3]):
                if t == 3 or (t in (0, 1) and fl & 1) or t == 7:
                    killed.add(s2 if t != 7 else -1)
        if op in ("timeout", "close", "cut", "failwrite"):
            killed.add(-1 if op != "timeout" else tag_sid.get(f[3], -2))
        quiet = not (cmp_.startswith("stuck") or " dead " in " " + cmp_ + " " or cmp_.startswith("dead") or "ambiguous" in cmp_)
        if quiet and -1 not in killed and op in ("req", "frame"):
            for tag, sid in tag_sid.items():
                if tag not in want or sid in ended or sid in reset or sid in killed or sid in flagged:
                    continue
                owed = want[tag] - sent[sid]
                if owed == 0:
                    v.append(("end-stream-withheld", "stream %d: all %d octets sent, END_STREAM not (stream allowance %d, connection %d)" % (sid, want[tag], allow[sid], allow_conn)))
                    flagged.add(sid)
                elif owed > 0 and allow[sid] > 0 and allow_conn > 0:
                    v.append(("sendable-left-unsent", "stream %d owes %d octets with stream allowance %d and connection allowance %d" % (sid, owed, allow[sid], allow_conn)))
                    flagged.add(sid)
    # completion: after the note `uploads-complete` every upload that was neither reset nor abandoned is finished
    done_at = [at for (at, text) in c.notes if text.startswith("uploads-complete")]
    if done_at and not any(s[1].startswith("stuck") or " dead " in " " + s[1] + " " for s in c.steps[:done_at[0]]):
        for tag, sid in tag_sid.items():
            if sid in reset:
                continue
            # a stream the server reset or answered early need not be finished
            killed = False
            for (f, cmp_, diag, _) in c.steps[:done_at[0]]:
                if f[2] == "frame":
                    for (t, fl, s2, p) in parse_frames(f[3]):
                        if s2 == sid and (t == 3 or (t in (0, 1) and fl & 1)):
                            killed = True
                if f[2] == "timeout" and f[3] == tag:
                    killed = True
            if killed or tag not in want:
                continue
            if sid not in ended:
                v.append(("upload-not-finished", "stream %d sent %d of %d, END_STREAM missing" % (sid, sent[sid], want[tag])))
            elif sent[sid] != want[tag]:
                v.append(("upload-wrong-length", "stream %d sent %d of %d" % (sid, sent[sid], want[tag])))
    return v


def mon_resolve(c):
    """C12: every request handed to the connection ends exactly once, and once the connection is dead
    or the request's timeout has fired its caller finds a result waiting; no deadlock, no panic.
    A connection whose loops neither go idle nor exit (`stuck`) is a violation by itself: the callers of
    the requests listed with it would wait in RoundTrip for ever."""
    v = []
    results = collections.defaultdict(list)
    tags, dead_at, stuck_at, stuck_op = [], None, None, ""
    timed_out, no_result = set(), []
    wfail_at = None
    srv_buf, srv_ended = b"", set()     # the server's octets so far; streams it has ended with END_STREAM
    for i, (f, cmp_, diag, _) in enumerate(c.steps):
        if cmp_ == "mon":
            break       # the peer has stopped reading: from here on mon_stall judges
        if f[2] == "frame" and f[3] != "-":
            try:
                srv_buf += bytes.fromhex(f[3])
            except ValueError:
                pass
            while len(srv_buf) >= 9 and len(srv_buf) >= 9 + int.from_bytes(srv_buf[:3], "big"):
                l = int.from_bytes(srv_buf[:3], "big")
                if srv_buf[3] in (0, 1) and srv_buf[4] & 1:
                    srv_ended.add(int.from_bytes(srv_buf[5:9], "big") & 0x7fffffff)
                srv_buf = srv_buf[9 + l:]
        if wfail_at is None and " wfail=" in " " + diag:
            wfail_at = i
            if not cmp_.startswith("stuck"):
                # the transport has refused a write: once the step has settled nobody may still be waiting
                ready = kvs(cmp_).get("ready", "-")
                ready = set() if ready == "-" else set(ready.split(","))
                waiting = [t for t in tags + ([f[3]] if f[2] == "req" else []) if t not in results and t not in ready]
                if waiting:
                    v.append(("stranded-request", "%s left waiting on a connection whose transport failed a write in: %s" % (
                        ",".join(waiting), " ".join(f[2:4])[:60])))
        if cmp_.startswith("stuck") and stuck_at is None:
            stuck_at, stuck_op = i, " ".join(f[2:4])[:80]
            if f[2] == "req":
                tags.append(f[3])
        if cmp_.startswith("panic"):
            v.append(("panic", " ".join(f[2:4])[:80]))
            return v
        if " dead " in " " + cmp_ + " " and dead_at is None:
            dead_at = i
        if f[2] == "req" and stuck_at is None:
            tags.append(f[3])
        if f[2] == "timeout" and stuck_at is None:
            timed_out.add(f[3])
        if f[2] == "read":
            if cmp_.startswith("read none"):
                if stuck_at is not None:
                    if f[3] not in no_result:
                        no_result.append(f[3])
                elif dead_at is not None:
                    v.append(("stranded-request", "%s has no result after the connection ended" % f[3]))
                elif f[3] in timed_out:
                    v.append(("stranded-request", "%s has no result after its timeout fired" % f[3]))
                elif wfail_at is not None and f[3] in tags and not any(x[0] == "stranded-request" and f[3] in x[1].split(" ")[0].split(",") for x in v):
                    v.append(("stranded-request", "%s is left waiting on a connection whose transport failed a write (step %d: %s)" % (
                        f[3], wfail_at, " ".join(c.steps[wfail_at][0][2:4])[:60])))
            elif cmp_.startswith("read again"):
                pass
            elif cmp_.startswith("read hung"):
                v.append(("caller-blocked", "%s: the result arrived but taking the request back never returns (the connection kept its lock)" % f[3]))
                results[f[3]].append(cmp_)
            else:
                results[f[3]].append(cmp_)
                k = kvs(cmp_)
                if cmp_.startswith("read ok ") and k.get("sid", "0").isdigit() and int(k.get("sid", "0")) not in srv_ended:
                    v.append(("success-without-response", "%s is reported successful although the server never finished a response on stream %s" % (f[3], k.get("sid"))))
    if any(cmp_ == "mon" for (_, cmp_, _, _) in c.steps):
        dead_at = None
    if stuck_at is not None:
        left = [t for t in no_result if t not in results and t in tags]
        v.append(("deadlock", "the connection's loops neither went idle nor exited after: %s%s" % (
            stuck_op, ("; requests left without a result: " + ",".join(left)) if left else "")))
        return v
    for t, r in results.items():
        if len(r) > 1:
            v.append(("resolved-twice", t))
    if dead_at is not None:
        last_read = {f[3] for (f, cmp_, _, _) in c.steps[dead_at:] if f[2] == "read"}
        for t in tags:
            if t in last_read and t not in results and not any(x[0] == "stranded-request" and x[1].startswith(t + " ") for x in v):
                v.append(("stranded-request", t))
    return v


def mon_stall(c):
    """C12 under a peer that has stopped reading (ops after `stall`, reported by the harness in `mon` lines):
    a timeout delivers its result at once, whatever is queued or blocked; a caller that has its result gets its
    request back; Close returns; once the connection is closed or has been dropped both loops are gone, nobody
    is left parked and every request has a result; when the peer reads again the connection settles."""
    v = []
    fired, ended = set(), False
    sid_of = {}
    must_ok = {text.split(" ")[2] for (_, text) in c.notes if text.startswith("expect-ok ")}
    for (f, cmp_, diag, _) in c.steps:
        if cmp_ == "panic":
            v.append(("panic", " ".join(f[2:4])[:80]))
            return v
        if cmp_ != "mon":
            continue
        d = diag.split(" ")
        what = d[0]
        kv = dict(x.split("=", 1) for x in d if "=" in x)
        if what == "req":
            sid_of[d[1]] = kv.get("sid", "0")
        elif what == "timeout":
            tag = d[1]
            fired.add(tag)
            if len(d) > 2 and d[2] == "again":
                pass
            elif kv.get("result") != "1":
                v.append(("no-result-after-timeout", "%s: its timeout fired and no result was delivered (the timer %s)" % (
                    tag, "came back" if kv.get("fired") == "1" else "never came back")))
            elif kv.get("ff", "0") != "0":
                v.append(("timeout-result-waited-for-write-deadline", "%s: the result of the fired timeout was only delivered once a write deadline had passed" % tag))
        elif what == "read":
            tag, st = d[1], d[2]
            if tag in must_ok and st not in ("ok", "again", "unknown"):
                # the server's GOAWAY covered this request and the server answered it
                v.append(("accepted-stream-lost-its-response", "%s: at or below GOAWAY's last-stream-id and answered by the server, yet its caller got `%s`" % (tag, st)))
            if st == "none":
                if tag in fired:
                    v.append(("stranded-request", "%s has no result after its timeout fired" % tag))
                elif ended:
                    v.append(("stranded-request", "%s has no result after the connection ended" % tag))
            elif st == "in-write":
                if ended:
                    v.append(("caller-in-write-after-connection-ended", "%s: the connection is over and its caller is still inside Conn.Write" % tag))
                elif tag in fired:
                    v.append(("caller-blocked-in-write", "%s: its caller is still inside Conn.Write (writer blocked on %s)" % (tag, kv.get("wblocked"))))
            elif st in ("again", "unknown"):
                pass
            elif kv.get("hung") == "1":
                wb = kv.get("wblocked", "-")
                own = not ended and wb not in ("-", "?") and wb.split(":")[1] == kv.get("sid") and kv.get("sid") != "0"
                v.append(("caller-blocked-on-own-write" if own else "caller-blocked",
                          "%s: the result (%s) arrived but taking the request back never returns; the writer is blocked on frame %s" % (tag, st, wb)))
        elif what == "close":
            ended = True
            if kv.get("returned") != "1":
                v.append(("close-blocked", "Conn.Close did not return (writer blocked on %s)" % kv.get("wblocked")))
            elif kv.get("exited") != "1":
                v.append(("loops-left-running", "Close returned and %s of the 2 loops have exited" % kv.get("loops")))
        elif what == "cut":
            ended = True
            if kv.get("exited") != "1":
                v.append(("loops-left-running", "the peer disconnected and %s of the 2 loops have exited" % kv.get("loops")))
        elif what == "unstall":
            if kv.get("quiet") != "1":
                v.append(("stuck-after-peer-resumed", "the peer reads again and the connection neither goes idle nor ends (%s)" % " ".join(d[3:9])))
        elif what == "end" and ended:
            if kv.get("timers", "-") != "-" or kv.get("writes", "-") != "-" or kv.get("closes", "0") != "0":
                v.append(("goroutines-left-behind", "after the connection ended: timers=%s writes=%s closes=%s" % (kv.get("timers"), kv.get("writes"), kv.get("closes"))))
            if kv.get("noresult", "-") != "-":
                v.append(("stranded-request", "%s: no result after the connection ended" % kv.get("noresult")))
    return v


def mon_stall_goaway_only(c):
    return [x for x in mon_stall(c) if x[0] == "accepted-stream-lost-its-response"]


def mon_stall_blocking_only(c):
    return [x for x in mon_stall(c) if x[0] not in ("stranded-request",)]


def sum32(b):
    h = 0
    for x in b:
        h = (h * 31 + x) & 0xffffffff
    return h


def mon_errvalue(c):
    """C11/C12/C19: what the caller is told stays true. An error that is (or wraps) the GOAWAY frame that ended the
    connection says what the scripted server's first GOAWAY with last-stream-id 0 said (last-stream-id, code, debug
    data), whenever it is looked at: when the connection ends (LastErr), when a request's result is taken, and again
    after Close, later frames and later connections (`errs`). A difference means the value handed out does not belong
    to the caller alone (a pooled frame released while still referenced). The anomalies of the pool tracker (`pool=` in a
    step's diagnostics: acquired while held, released twice) are reported here too: the tracker is restarted with every
    scripted connection, so the report at the end of a run only covers the last one."""
    v = []
    buf = b""
    for (f, _, _, _) in c.steps:
        hexs = None
        if f[2] in ("new", "frame") and len(f) > 3:
            hexs, n = f[3], 1
        elif f[2] == "flood" and len(f) > 4:
            hexs, n = f[4], int(f[3])
        if hexs and hexs != "-":
            try:
                buf += bytes.fromhex(hexs) * n
            except ValueError:
                pass
    want = None
    while len(buf) >= 9:
        l = int.from_bytes(buf[:3], "big")
        if len(buf) < 9 + l:
            break
        t, sid, p = buf[3], int.from_bytes(buf[5:9], "big") & 0x7fffffff, buf[9:9 + l]
        if t == 7 and sid == 0 and l >= 8 and int.from_bytes(p[:4], "big") & 0x7fffffff == 0:
            want = "0:%d:%d:%d" % (int.from_bytes(p[4:8], "big"), l - 8, sum32(p[8:]))
            break
        buf = buf[9 + l:]
    seen = set()
    for (f, cmp_, diag, _) in c.steps:
        for tok in diag.split(" "):
            m = re.match(r"(?:(last)|(t\d+):)?ga=(\S+)$", tok)
            if m:
                who = "LastErr" if m.group(1) else (m.group(2) or (f[3] if len(f) > 3 else "?"))
                if m.group(3) != want and (who, m.group(3)) not in seen:
                    seen.add((who, m.group(3)))
                    v.append(("goaway-error-says-something-else", "%s at `%s` says last:code:debuglen:digest %s, the server's GOAWAY said %s" % (
                        who, " ".join(f[2:4])[:30], m.group(3), want)))
            if tok.startswith("pool="):
                # the pool tracker of the library's verification hooks is on for every scripted connection: an object
                # acquired while held, or released twice, has (or can get) two owners
                v.append(("pool-tracker-anomaly", "%s at `%s`" % (tok[5:][:200], " ".join(f[2:4])[:30])))
            m = re.match(r"keptchanged=(\d+)$", tok)
            if m and m.group(1) != "0":
                v.append(("error-of-ended-connection-changed", "%s GOAWAY-class errors of earlier connections say something else now than when they were handed out" % m.group(1)))
    return v


def mon_goaway(c):
    """C11 / D4: no stream after GOAWAY; above last-stream-id fail promptly, never succeed; at or below
    complete when the server delivers; retryable only if never written or disclaimed."""
    v = []
    ga_last, ga_step = None, None
    tag_sid, written = {}, set()
    refused, finished_by_server = set(), {}
    streamed = set()
    ended_by_client = False
    srv = {}
    for (at, text) in c.notes:
        if text.startswith("srv "):
            t = text.split(" ")
            srv[int(t[2])] = (at, " ".join(t[4:]))
    all_h = {sid for (_, _, diag, _) in c.steps for (k, sid, a) in client_frames(diag) if k == "H"}
    for i, (f, cmp_, diag, _) in enumerate(c.steps):
        op = f[2]
        if op in ("close", "cut"):
            ended_by_client = True
        hs = [x for x in client_frames(diag) if x[0] == "H"]
        if op == "req" and f[10].startswith("str:"):
            streamed.add(f[3])
        for (k, sid, a) in hs:
            if op == "req":
                tag_sid[f[3]] = sid
                written.add(f[3])
            if ga_last is not None:
                v.append(("stream-opened-after-goaway", "stream %d" % sid))
        if op == "frame":
            for (t, fl, sid, p) in parse_frames(f[3]):
                # every GOAWAY that lowers the last-stream-id counts (RFC 7540 6.8: a graceful shutdown sends 2^31-1
                # first and the real id afterwards; the id never goes up)
                if t == 7 and sid == 0 and len(p) >= 8 and (ga_last is None or int.from_bytes(p[:4], "big") & 0x7fffffff < ga_last):
                    ga_last, ga_step = int.from_bytes(p[:4], "big") & 0x7fffffff, i
                    ready = kvs(cmp_).get("ready", "-")
                    ready = set() if ready == "-" else set(ready.split(","))
                    read_before = {g[3] for (g, _, _, _) in c.steps[:i] if g[2] == "read"}
                    for tag, sid2 in tag_sid.items():
                        if sid2 > ga_last and tag not in ready and tag not in read_before:
                            # still waiting although the server has disclaimed it
                            if not any(g[2] == "timeout" and g[3] == tag for (g, _, _, _) in c.steps[:i]):
                                v.append(("above-last-not-failed-promptly", "%s on stream %d, last-stream-id %d" % (tag, sid2, ga_last)))
                    break
        if op == "frame":
            for (t, fl, sid, p) in parse_frames(f[3]):
                if t == 3 and len(p) == 4 and int.from_bytes(p, "big") == 7:
                    refused.add(sid)
        if op == "read" and cmp_.startswith("read ") and not cmp_.startswith(("read none", "read again")):
            tag = f[3]
            k = kvs(cmp_)
            err = cmp_.split(" ")[1]
            sid = tag_sid.get(tag, 0)
            if sid == 0 and int(k.get("sid", "0")) in all_h:
                # forced-interleaving scripts: the HEADERS show up in a later step than the request
                sid = int(k["sid"])
                written.add(tag)
            if k.get("retry") == "1" and tag in written:
                disclaimed = (ga_last is not None and sid > ga_last) or sid in refused
                if not disclaimed:
                    v.append(("written-request-reported-retryable", "%s (stream %d) err=%s" % (tag, sid, err)))
                elif tag in streamed:
                    # disclaimed or not, a body that came from a reader has been consumed: the request cannot be re-sent as given
                    v.append(("streamed-request-reported-retryable", "%s (stream %d) err=%s" % (tag, sid, err)))
            if ga_last is not None and sid > ga_last and err == "ok" and sid in srv and srv[sid][0] > ga_step:
                v.append(("above-last-reported-successful", "%s on stream %d" % (tag, sid)))
            if ga_last is not None and 0 < sid <= ga_last and sid in srv:
                # the server delivered the whole response before anything ended the connection from outside
                at = srv[sid][0]
                # (a write the transport refused ends the connection just as much as the caller's Close)
                outside = [j for j, (g, _, d2, _) in enumerate(c.steps) if g[2] in ("close", "cut") or " wfail=" in " " + d2]
                delivered = not outside or all(j >= at_end(c, sid, at) for j in outside)
                timed = any(g[2] == "timeout" and g[3] == tag for (g, _, _, _) in c.steps)
                if delivered and not timed and err != "ok" and "malformed" not in srv[sid][1]:
                    v.append(("accepted-stream-lost-its-response", "%s on stream %d <= last-stream-id %d ended with %s" % (tag, sid, ga_last, err)))
    return v


def at_end(c, sid, at):
    """index of the first step after the last frame of stream sid's response (notes precede the frames)"""
    j = at
    last = at
    while j < len(c.steps):
        f = c.steps[j][0]
        if f[2] == "frame":
            fr = parse_frames(f[3])
            if any(s == sid for (_, _, s, _) in fr):
                last = j
                if any(s == sid and t in (0, 1) and fl & 1 for (t, fl, s, _) in fr):
                    return j + 1
        j += 1
    return last + 1


def spec_request_fields(f):
    """what a conforming client puts on the wire for a `req` op (RFC 7540 8.1.2.3, 8.1.2.2)"""
    method, scheme, host, path, ua = f[4], f[5], unhex(f[6]), unhex(f[7]), unhex(f[8])
    head = [(b":authority", host), (b":method", method.encode()), (b":path", path), (b":scheme", scheme.encode()), (b"user-agent", ua)]
    rest = []
    if f[9] != "-":
        for kv in f[9].split(","):
            k, val = kv.split("=")
            k = unhex(k).lower()
            if k.decode() in CONNECTION_SPECIFIC or k == b"user-agent":
                continue
            rest.append((k, unhex(val)))
    body = f[10].split(":")
    if body[0] == "str" and int(body[2]) >= 0:
        rest.append((b"content-length", body[2].encode()))
    enc = lambda kv: (kv[0].hex() or "-") + "=" + (kv[1].hex() or "-")
    return [enc(x) for x in head] + sorted(enc(x) for x in rest)


def mon_resp(c):
    """C02: fresh odd increasing ids, request on the wire = request given, response delivered = the
    server's output on that stream."""
    v = []
    srv, tag_sid, last_sid = {}, {}, 0
    for (at, text) in c.notes:
        if text.startswith("srv "):
            t = text.split(" ")
            srv[int(t[2])] = (at, t[3], " ".join(t[4:]))
    ended = None
    for i, (f, cmp_, diag, _) in enumerate(c.steps):
        op = f[2]
        if (" dead " in " " + cmp_ + " " or cmp_.startswith("stuck")) and ended is None:
            ended = i
            if "write_failed" in diag:
                # a failed write ends the connection from the write loop while the read loop may still be
                # handing out the frames of this step: the response counts as sent only if it was complete before
                ended = i - 1
        cfs = client_frames(diag)
        for (k, sid, a) in cfs:
            if k == "H":
                if sid % 2 == 0 or sid <= last_sid:
                    v.append(("stream-id-not-fresh-odd-increasing", "stream %d after %d" % (sid, last_sid)))
                last_sid = sid
                if op == "req":
                    tag_sid[f[3]] = sid
                    # a[0]=es a[1]=eh a[2]=decode status a[3]=fields ; diag form appends len=
                    # a block longer than the server's MAX_FRAME_SIZE goes on in CONTINUATION frames (C<sid>:eh:status:fields):
                    # the scripted server decodes it, and prints the fields, when END_HEADERS arrives
                    status, fields = a[2], (a[3] if len(a) > 3 else "")
                    if a[1] == "0":
                        ends = [x for x in cfs if x[0] == "C" and x[1] == sid and x[2][0] == "1"]
                        if not ends:
                            v.append(("request-header-block-never-ended", "stream %d" % sid))
                            continue
                        status, fields = ends[0][2][1], (ends[0][2][2] if len(ends[0][2]) > 2 else "")
                    got = fields.split(",") if fields else []
                    want = spec_request_fields(f)
                    if status != "ok":
                        v.append(("request-header-block-undecodable", "stream %d" % sid))
                    elif got != want:
                        v.append(("request-not-sent-as-given", "stream %d got %s want %s" % (sid, ",".join(got)[:300], ",".join(want)[:300])))
                    has_body = f[10] != "none" and not f[10].endswith(":0") or f[10].startswith("str")
                    if (a[0] == "1") == bool(has_body):
                        v.append(("end-stream-flag-wrong-on-headers", "stream %d" % sid))
            if k == "D" and len(a) > 2 and a[2] == "BAD":
                v.append(("body-bytes-corrupted", "stream %d" % sid))
        if op == "read" and cmp_.startswith("read ") and not cmp_.startswith(("read none", "read again")):
            tag = f[3]
            sid = tag_sid.get(tag, 0)
            err = cmp_.split(" ")[1]
            if sid in srv:
                at, cont, want = srv[sid]
                if err == "ok":
                    got = cmp_.split(" ", 4)[4]
                    if got != want:
                        v.append(("response-differs-from-server-output", "%s stream %d got [%s] want [%s]" % (tag, sid, got[:300], want[:300])))
                else:
                    # the complete response was sent before the connection ended or the caller gave up?
                    timed = any(g[2] == "timeout" and g[3] == tag and j < at_end(c, sid, at) for j, (g, _, _, _) in enumerate(c.steps))
                    complete = ended is None or ended >= at_end(c, sid, at) - 1
                    if complete and not timed and err not in ("timeout",):
                        v.append(("response-not-delivered", "%s stream %d ended with %s although the server sent a complete response" % (tag, sid, err)))
            elif err == "ok" and sid != 0:
                # delivered something although the script sent no complete response on that stream
                msg = [t for (a2, t) in c.notes if t.startswith("msg ") and int(t.split(" ")[2]) == sid]
                if not msg:
                    v.append(("response-from-nowhere", "%s stream %d" % (tag, sid)))
    return v


def mon_credit(c):
    """C14c / D3 receiver side: the sender's view of the client's receive windows."""
    v = []
    conn_adv = 65535
    out_conn = 0
    open_s, out_s = set(), collections.Counter()
    for (f, cmp_, diag, _) in c.steps:
        op = f[2]
        if op == "frame":
            for (t, fl, sid, p) in parse_frames(f[3]):
                if t == 0:
                    out_conn += len(p)
                    if sid in open_s:
                        out_s[sid] += len(p)
                    if fl & 1:
                        open_s.discard(sid)
                        out_s.pop(sid, None)
                if t == 3 or (t == 1 and fl & 1):
                    open_s.discard(sid)
                    out_s.pop(sid, None)
        for (k, sid, a) in client_frames(diag):
            if k == "H":
                open_s.add(sid)
            if k == "R":
                open_s.discard(sid)
                out_s.pop(sid, None)
            if k == "W":
                inc = int(a[0])
                if inc == 0:
                    v.append(("zero-increment", "stream %d" % sid))
                if sid == 0:
                    if op == "new":
                        conn_adv += inc
                    else:
                        out_conn -= inc
                    if conn_adv + inc > 2 ** 31 - 1:
                        v.append(("window-above-2^31-1", "connection"))
                else:
                    out_s[sid] -= inc
        if cmp_.startswith(("stuck", "dead")) or " dead " in cmp_:
            break
        if op in ("frame",):
            if out_conn > conn_adv // 2 + 16384:
                v.append(("connection-credit-withheld", "%d octets received and not credited, advertised window %d" % (out_conn, conn_adv)))
                break
            for s in list(open_s):
                if out_s[s] > 0:
                    v.append(("stream-credit-withheld", "stream %d: %d octets not credited" % (s, out_s[s])))
                    open_s.discard(s)
    return v


def mon_settings(c):
    """C18c: one ACK per SETTINGS, in order; the peer's limits persist and are obeyed; what the client
    advertises includes ENABLE_PUSH=0."""
    v = []
    limit = {1: 4096, 3: None, 5: 16384}
    open_s = set()
    for (f, cmp_, diag, _) in c.steps:
        op = f[2]
        nset = 0
        frames_in = parse_frames(f[3]) if op in ("frame", "new") else []
        for (t, fl, sid, p) in frames_in:
            if t == 4 and sid == 0 and not fl & 1 and len(p) % 6 == 0:
                nset += 1
                for i in range(0, len(p), 6):
                    k, val = int.from_bytes(p[i:i + 2], "big"), int.from_bytes(p[i + 2:i + 6], "big")
                    if k in limit:
                        limit[k] = val
            if t == 3 or (t in (0, 1) and fl & 1):
                open_s.discard(sid)
        cf = client_frames(diag)
        if cmp_.startswith(("stuck", "dead", "hs-err")) or " dead " in cmp_:
            break
        acks = sum(1 for x in cf if x[0] == "A")
        if acks != nset:
            v.append(("settings-acks", "%d SETTINGS received, %d acknowledged in the step" % (nset, acks)))
        for (k, sid, a) in cf:
            if k == "S" and op == "new":
                pairs = dict(x.split("=") for x in a[0].split(",")) if a and a[0] else {}
                if pairs.get("2") != "0":
                    v.append(("enable-push-0-not-advertised", "client SETTINGS carry %s" % (a[0] if a else "-")))
            if k == "H":
                if limit[3] is not None and len(open_s) >= limit[3]:
                    v.append(("max-concurrent-streams-exceeded", "stream %d opened with %d open, limit %d" % (sid, len(open_s), limit[3])))
                open_s.add(sid)
                if a[2] != "ok":
                    v.append(("header-table-size-exceeded", "stream %d: block not decodable by a decoder limited to %d" % (sid, limit[1])))
                ln = [x for x in a if x.startswith("len=")]
                if ln and int(ln[0][4:]) > limit[5]:
                    v.append(("headers-exceed-max-frame-size", "stream %d frame %s > %d" % (sid, ln[0][4:], limit[5])))
                if a[0] == "1":
                    pass
            if k == "C":
                if a[1] != "ok":
                    v.append(("header-table-size-exceeded", "stream %d: block not decodable by a decoder limited to %d" % (sid, limit[1])))
                ln = [x for x in a if x.startswith("len=")]
                if ln and int(ln[0][4:]) > limit[5]:
                    v.append(("continuation-exceeds-max-frame-size", "stream %d frame %s > %d" % (sid, ln[0][4:], limit[5])))
            if k == "D" and int(a[0]) > limit[5]:
                v.append(("data-exceeds-max-frame-size", "stream %d frame %s > %d" % (sid, a[0], limit[5])))
            if k == "R":
                open_s.discard(sid)
        if op == "timeout":
            pass
    return v


def mon_header_blocks(c):
    """RFC 7540 4.3 / 6.10 for what the client writes: a HEADERS frame without END_HEADERS is followed, on its stream, by
    CONTINUATION frames until one carries END_HEADERS, and by nothing else on the connection meanwhile (the harness sees
    the wire order and reports `hbi=<stream>:t<type>` for a frame inside a block; the tokens of a step are sorted by
    stream, the frames of one stream stay in order); a CONTINUATION frame occurs nowhere else and is never empty."""
    v = []
    open_blk = set()
    for (f, cmp_, diag, _) in c.steps:
        m = re.search(r"(?:^| )hbi=(\S+)", diag)
        if m:
            v.append(("header-block-interrupted", "frames inside a header block (block stream:frame type): %s" % m.group(1)))
        for (k, sid, a) in client_frames(diag):
            if sid in open_blk and k != "C":
                v.append(("header-block-interrupted", "stream %d: %s frame inside its header block" % (sid, k)))
                open_blk.discard(sid)
            if k == "H":
                if len(a) > 1 and a[1] == "0":
                    open_blk.add(sid)
            elif k == "C":
                if sid not in open_blk:
                    v.append(("continuation-outside-header-block", "stream %d" % sid))
                if "len=0" in a:
                    v.append(("empty-continuation", "stream %d" % sid))
                if a and a[0] == "1":
                    open_blk.discard(sid)
    if open_blk and not any(s[1].startswith(("stuck", "dead")) or " dead " in " " + s[1] + " " or "dead" in s[2] for s in c.steps):
        v.append(("header-block-unfinished", "streams %s" % sorted(open_blk)))
    return v


def mon_msg(c):
    """C20c: a response is delivered iff its header block is well-formed; a malformed one fails that request alone."""
    v = []
    msgs = {}
    for (at, text) in c.notes:
        if text.startswith("msg "):
            t = text.split(" ")
            msgs[int(t[2])] = (t[3] == "wf=true", t[4])
    if not msgs:
        return v
    tag_sid = {}
    for (f, cmp_, diag, _) in c.steps:
        for (k, sid, a) in client_frames(diag):
            if k == "H" and f[2] == "req":
                tag_sid[f[3]] = sid
        if f[2] == "read" and cmp_.startswith("read ") and not cmp_.startswith(("read none", "read again")):
            sid = tag_sid.get(f[3], 0)
            err = cmp_.split(" ")[1]
            if sid in msgs:
                wf, shape = msgs[sid]
                if wf and err != "ok":
                    v.append(("well-formed-response-rejected", "%s: %s" % (shape, err)))
                if not wf and err == "ok":
                    v.append(("malformed-response-delivered", shape))
            elif err != "ok":
                v.append(("other-request-failed-with-malformed-one", "%s ended with %s" % (f[3], err)))
    return v


# ------------------------------------------------------------------ known-finding classes
# predicates over the canonical trace of one connection

def end_stream_bit_on_other_frame(c):
    """the server set flag bit 0x1 on a stream frame other than HEADERS and DATA (finding F65: the client
    takes it for END_STREAM)"""
    return any(t not in (0, 1) and sid != 0 and fl & 1
               for (f, _, _, _) in c.steps if f[2] == "frame" for (t, fl, sid, _) in parse_frames(f[3]))


def stalled_ops(c):
    """the op tokens that follow `stall` on a connection"""
    k = next((i for i, (f, _, _, _) in enumerate(c.steps) if f[2] == "stall"), None)
    return [] if k is None else [f for (f, _, _, _) in c.steps[k + 1:]]


def request_written_to_stalled_peer(c):
    """F81: the peer stopped reading and the write loop then had a request's HEADERS or DATA to write"""
    after = stalled_ops(c)
    if not after:
        return False
    uploads = any(f[2] == "req" and f[10] != "none" for (f, _, _, _) in c.steps)
    return any(f[2] == "req" for f in after) or (uploads and any(f[2] in ("flood", "frame") for f in after)) or \
        any(f[2] == "stall" and len(f) > 3 and f[3] != "0" for (f, _, _, _) in c.steps)


def queue_filled_behind_stalled_peer(c):
    """F82: after the peer had stopped reading, more requests were handed to the connection than its queue holds (128,
    plus the one the write loop may be holding)"""
    return sum(1 for f in stalled_ops(c) if f[2] == "req") >= 129


CLASSES = {
    "end-stream-bit-on-other-frame": end_stream_bit_on_other_frame,
    "request-written-to-stalled-peer": request_written_to_stalled_peer,
    "queue-filled-behind-stalled-peer": queue_filled_behind_stalled_peer,
}

# which violation kinds a class can explain
CLASS_KINDS = {
    "end-stream-bit-on-other-frame": {"success-without-response", "response-from-nowhere"},
    "request-written-to-stalled-peer": {"caller-blocked-on-own-write"},
    "queue-filled-behind-stalled-peer": {"caller-blocked-in-write"},
}


# ------------------------------------------------------------------ driver
MONITOR_ONLY = {"clirace"}

# Witnesses of findings that have been repaired: replayed on every run of the property like a generated area, compared
# with the model and judged by the monitors with nothing excused, so the defect is reported if it returns.
REGRESSION = {
    "C14": ["known/F39.ops"],
    "C02": ["known/F36.ops"],
    "C11": ["known/F37.ops"],
    "C12": ["known/F36.ops", "known/F80.ops", "known/F83.ops", "known/F84.ops"],
    "C07": ["known/F83.ops", "known/F84.ops"],
    "C18": ["known/F09.ops", "known/F35c.ops"],
}


def mask_undecodable(impl_line, model_line):
    """a request block the scripted server's decoder could not read has no field list to compare: keep
    only stream and flags of that HEADERS token on both sides (the monitors judge the block itself)"""
    if ":hpack-err:" not in impl_line:
        return impl_line, model_line
    bad = {m.group(1) for m in re.finditer(r"(H\d+:\d:\d):hpack-err:", impl_line)}
    def strip(line):
        return re.sub(r"(H\d+:\d:\d):(?:ok|hpack-err):[^; ]*", lambda m: m.group(1) if m.group(1) in bad else m.group(0), line)
    return strip(impl_line), strip(model_line)


def run_areas(ctx, areas, monitors, extra_note=""):
    covs = {}
    nviol = collections.Counter()
    known_ok = check_known(ctx, monitors)
    inputs = [(area, None) for area in areas]
    for path in REGRESSION.get(ctx.pid[:3], []):
        full = os.path.join(ctx.root, path)
        if os.path.exists(full):
            inputs.append(("regress_" + os.path.basename(path).split(".")[0], [l.rstrip("\n") for l in open(full)]))
        else:
            ctx.broken.append(dict(what="regression input %s is missing" % path, detail=""))
    for area, fixed_ops in inputs:
        ops, impl, model = ctx.gen_run_compare(ctx.pid, area, ctx.tier, ctx.seed, ctx.log, extra_ops=fixed_ops)
        cmp_impl = [a.partition(" ## ")[0] for a in impl]
        # steps whose outcome the model marks as depending on map iteration order are not compared
        model2 = [a if b == "ambiguous" else b for a, b in zip(cmp_impl, model)]
        if area in MONITOR_ONLY:
            model2 = cmp_impl
        pairs = [mask_undecodable(a, b) for a, b in zip(cmp_impl, model2)]
        cmp_impl, model2 = [a for a, _ in pairs], [b for _, b in pairs]
        cov, diffs = props.compare(ctx, area, ops, cmp_impl, model2,
                                   nontrivial=lambda o, a: (" out=" in " " + a and "out=-" not in a) or a.startswith(("read ok", "stuck", "dead")) or " dead " in a)
        cov["ambiguous_steps"] = sum(1 for b in model if b == "ambiguous")
        conns = split_conns(ops, impl)
        # a listed finding is a defect the model reproduces: on a connection where the implementation does not behave as
        # the model predicts nothing is excused (model gate, DESIGN 0.3)
        diff_idx = {k for k, (a, b) in enumerate(zip(cmp_impl, model2)) if a != b}
        for c in conns:
            c.differs = any(st[3] in diff_idx for st in c.steps)
        cov["connections"] = len(conns)
        kinds = collections.Counter()
        for c in conns:
            for mon in monitors:
                for (kind, detail) in mon(c):
                    kinds[kind] += 1
                    cls = classify(ctx, c, kind, known_ok)
                    if cls:
                        ctx.known_lines.append("%s %s" % (cls["id"], cls["text"]))
                        continue
                    nviol[kind] += 1
                    if len(ctx.violations) < 40:
                        ctx.violations.append(dict(kind=kind, detail=detail, area=area, connection=c.cid, ops=c.lines,
                                                   impl=[s[1] + " ## " + s[2] for s in c.steps][:200]))
        cov["monitor_findings"] = dict(kinds)
        covs[area] = cov
    out = props.merge_cov(covs)
    out["rule"] = ("one connection per script; every step compared with the Lean serial model (except steps the model marks "
                   "ambiguous), every connection checked by the Spec monitors. distinct_nontrivial = distinct op lines whose "
                   "step wrote frames, delivered a response or ended the connection. " + extra_note)
    out["exhaustive"] = False
    return out


def classify(ctx, c, kind, known_ok):
    if getattr(c, "differs", False):
        return None
    for k in ctx.known:
        if k["id"] in known_ok and kind in CLASS_KINDS.get(k["cls"], ()) and CLASSES[k["cls"]](c):
            return k
    return None


def check_known(ctx, monitors):
    """replay the recorded witnesses: a class only excuses anything while its witness still fails"""
    ok = set()
    for k in ctx.known:
        path = os.path.join(ctx.root, k["witness"])
        if not os.path.exists(path) or k["cls"] not in CLASSES:
            continue
        wops = [l.rstrip("\n") for l in open(path)]
        ops, impl, model = ctx.gen_run_compare(ctx.pid, "known_" + k["id"], ctx.tier, ctx.seed, ctx.log, extra_ops=wops)
        for c in split_conns(ops, impl):
            for mon in monitors:
                if any(kind in CLASS_KINDS[k["cls"]] for (kind, _) in mon(c)):
                    if k["id"] not in ok:
                        ctx.known_lines.append("%s %s" % (k["id"], k["text"]))   # listed and still failing: said on every run
                    ok.add(k["id"])
        cmp_impl = [a.partition(" ## ")[0] for a in impl]
        model2 = [a if b == "ambiguous" else b for a, b in zip(cmp_impl, model)]
        pairs = [mask_undecodable(a, b) for a, b in zip(cmp_impl, model2)]
        props.compare(ctx, "known_" + k["id"], ops, [a for a, _ in pairs], [b for _, b in pairs])
    return ok


def make_replay(monitors):
    def replay(ctx, path):
        """re-run a replay / witness file: implementation vs model step by step, then the property's monitors"""
        import json
        if path.endswith(".json"):
            ops = json.load(open(path)).get("violation", {}).get("ops") or []
        else:
            ops = [l.rstrip("\n") for l in open(path)]
        ops2, impl, model = ctx.gen_run_compare(ctx.pid, "replay", ctx.tier, ctx.seed, ctx.log, extra_ops=ops)
        cmp_impl = [a.partition(" ## ")[0] for a in impl]
        racy = any(" reqgo " in o or " closego" in o for o in ops2)
        model2 = [a if (b == "ambiguous" or racy) else b for a, b in zip(cmp_impl, model)]
        pairs = [mask_undecodable(a, b) for a, b in zip(cmp_impl, model2)]
        cmp_impl, model2 = [a for a, _ in pairs], [b for _, b in pairs]
        for o, a, b in zip(ops2, impl, model2):
            print("%s\n  impl : %s\n  model: %s" % (o[:200], a[:300], b[:300]))
        cov, diffs = props.compare(ctx, "replay", ops2, cmp_impl, model2)
        known_ok = check_known(ctx, monitors)
        for c in split_conns(ops2, impl):
            for mon in monitors:
                for (kind, detail) in mon(c):
                    cls = classify(ctx, c, kind, known_ok)
                    if cls:
                        ctx.known_lines.append("%s %s" % (cls["id"], cls["text"]))
                        continue
                    print("MONITOR: %s: %s" % (kind, detail))
                    ctx.violations.append(dict(kind=kind, detail=detail, connection=c.cid, ops=c.lines))
        if ctx.pid[:3] in ("C11", "C12"):
            for cid, kind, detail, lines in mon_pool(ops2, impl):
                print("MONITOR: %s: %s" % (kind, detail))
                ctx.violations.append(dict(kind=kind, detail=detail, connection=cid, ops=lines))
        return cov
    return replay


WFAIL_NOTE = ("cliwfail: the transport fails every write after n more octets (n from 0 to beyond a whole step), injected at every "
              "position of scripted exchanges with every body kind (none, buffered small/large, streamed declared/unknown, "
              "flow-blocked) and into random traffic, followed by timeout/read/close/cut in several orders.")


STALL_NOTE = (" clistall: the peer stops reading (at once or some octets into the next frames) with requests of every body kind in "
              "flight, queued or held by flow control; it floods 0/1/100/127/128/129/300 PING, SETTINGS or DATA frames (each asks for a "
              "reply; the client's control-frame queue holds 128), opens windows, answers some requests; timeouts fire in any order, callers "
              "take their results; then Close, disconnect, half-close, the peer reading again, or nothing. Steps after `stall` are "
              "reported in `mon` lines (not compared with the model) and judged by mon_stall with deadlines.")


def run_c07(ctx):
    return run_areas(ctx, ["cliflow", "cliwfail", "clistall"], [mon_ledger, mon_resolve_deadlock_only, mon_stall_blocking_only],
                     "cliflow: uploads (buffered/streamed) x initial window / MAX_FRAME_SIZE x schedules of WINDOW_UPDATE and SETTINGS. " + WFAIL_NOTE + STALL_NOTE)


def mon_resolve_deadlock_only(c):
    return [x for x in mon_resolve(c) if x[0] in ("deadlock", "panic", "caller-blocked")]


def run_c12(ctx):
    out = run_areas(ctx, ["cliresolve", "cliwfail", "clirace", "clistall"], [mon_resolve, mon_stall, mon_errvalue, mon_header_blocks],
                    "cliresolve: request sets x hostile server behaviour x cut points of a recorded byte stream x Close/timeout. " + WFAIL_NOTE + STALL_NOTE)
    return run_pool(ctx, out)


def run_c11(ctx):
    return run_pool(ctx, _run_c11(ctx))


def _run_c11(ctx):
    return run_areas(ctx, ["cligoaway", "cliwfail", "clirace", "clistall"], [mon_goaway, mon_resolve_deadlock_only, mon_errvalue, mon_stall_goaway_only],
                     "cligoaway: GOAWAY(last, code, debug data) at every position relative to in-flight requests, answers in every order; what "
                     "LastErr and the requests' errors say about the GOAWAY is compared with the frame sent, when handed out and again after "
                     "Close, later frames and later connections; clistall: a GOAWAY arriving while a covered request's HEADERS are still being written to a slow peer (monitor-only ops). " + WFAIL_NOTE)


def run_c02(ctx):
    return run_areas(ctx, ["cliresp", "cliflow", "cliwfail"], [mon_resp, mon_resolve_deadlock_only, mon_header_blocks],
                     "cliresp: request shapes x response orders, chunkings, paddings, representation choices, CONTINUATION cuts; request header blocks of "
                     "MAX_FRAME_SIZE-1/+0/+1, twice that, 40000 octets and two and a half frames towards servers announcing no, 16384, 20000, 65536, 2^20 "
                     "MAX_FRAME_SIZE (HEADERS + CONTINUATION reassembled by the scripted server: the request on the wire is the request given); "
                     "cliflow: several uploads (buffered and streamed) held back and released by window schedules, every body octet checked against its request's pattern. " + WFAIL_NOTE)


def run_c14c(ctx):
    return run_areas(ctx, ["clicredit"], [mon_credit], "clicredit: downloads over several streams, padded and empty DATA, abandoned streams.")


def run_c18c(ctx):
    return run_areas(ctx, ["clisettings"], [mon_settings, mon_ledger, mon_header_blocks],
                     "clisettings: SETTINGS subsets/repeats interleaved with requests; request header blocks of MAX_FRAME_SIZE-1/+0/+1, twice that +-1, "
                     "40000 octets and two and a half frames towards servers that announced no MAX_FRAME_SIZE, 16384, 20000, 65536, 2^20 (without body: END_STREAM "
                     "on the HEADERS frame; buffered and streamed bodies), and a server that raises and lowers it between requests: every HEADERS, "
                     "CONTINUATION and DATA frame within the value announced last, every block contiguous and ended.")


def run_c20c(ctx):
    return run_areas(ctx, ["climsg"], [mon_msg], "climsg: response header lists over well-formed and malformed shapes, between two good exchanges.")


ASSUME = [
    "the Lean serial client model agrees with conn.go/client.go on every generated step (event-by-event comparison at quiescence)",
    "lock-protected sections are atomic, channels behave as Go channels; the interleaving theorems quantify over the atomic actions listed in H2/Client/Inter*.lean",
    "fasthttp (request/response storage, header normalisation), bufio, net and time are parameters of the model",
]



# ---------------------------------------------------------------------------------------------------------------------
# clipool: the pooling client (client.go) behind fasthttp's RoundTrip interface, against scripted TLS servers in memory.
# Monitor-only family (the Lean driver answers `mon`): judged by what the servers saw against what they said.

def mon_pool(ops, impl):
    """returns [(client id, kind, detail, ops of that client)]"""
    out = []
    by = collections.OrderedDict()
    for o, a in zip(ops, impl):
        f = o.split(" ")
        if len(f) >= 2 and f[0].startswith("pool.cl."):
            by.setdefault(f[1], []).append((f, a.replace("mon ## ", "mon ", 1)))
    for cid, steps in by.items():
        lines = [" ".join(f) for f, _ in steps]
        v = []
        mcs = 0
        occ = collections.defaultdict(list)       # tag -> [(conn, sid)] in the order they became known
        known = set()
        closed = set()                            # (conn, sid) ended by the server
        disclaimed = set()                        # (conn, sid) the server disclaimed
        goaways = collections.defaultdict(list)   # conn -> [last]
        answers = {}                              # (conn, sid) -> status of the first answer
        final = {}
        ended = False

        def note(tag, k, sid):
            if (k, sid) not in known:
                known.add((k, sid))
                occ[tag].append((k, sid))

        for f, a in steps:
            op = f[0]
            kv = dict(x.split("=", 1) for x in a.split(" ") if "=" in x)
            if a.startswith("panic") or a == "bad-op":
                v.append(("harness-op-failed", "%s -> %s" % (" ".join(f), a)))
                continue
            if op == "pool.cl.new":
                for x in f[2:]:
                    if x.startswith("mcs="):
                        mcs = int(x[4:])
            elif op == "pool.cl.rt" and "conn" in kv:
                k, sid = int(kv["conn"]), int(kv["sid"])
                note(f[2], k, sid)
                if any(l < sid for l in goaways[k]):
                    v.append(("stream-opened-after-goaway", "%s on connection %d stream %d after GOAWAY(last=%s)" % (f[2], k, sid, goaways[k])))
                if mcs:
                    live = [x for x in known if x[0] == k and x not in closed and x not in disclaimed]
                    if len(live) > mcs:
                        v.append(("more-streams-than-max-concurrent-streams", "connection %d: %d open, limit %d" % (k, len(live), mcs)))
            elif op in ("pool.cl.answer", "pool.cl.partial", "pool.cl.refuse", "pool.cl.goaway", "pool.cl.goaway2", "pool.cl.hangup") and "conn" in kv:
                k, sid = int(kv["conn"]), int(kv["sid"])
                note(f[2], k, sid)
                if op == "pool.cl.answer":
                    if (k, sid) not in closed and (k, sid) not in disclaimed:
                        answers.setdefault((k, sid), int(kv["status"]))
                        closed.add((k, sid))
                elif op == "pool.cl.partial":
                    closed.add((k, sid))
                elif op == "pool.cl.refuse":
                    if (k, sid) not in closed:
                        disclaimed.add((k, sid))
                elif op in ("pool.cl.goaway", "pool.cl.goaway2"):
                    last = int(kv["last"])
                    goaways[k].append(last)
                    for (k2, s2) in list(known):
                        if k2 == k and s2 > last and (k2, s2) not in closed:
                            disclaimed.add((k2, s2))
            elif op == "pool.cl.seen":
                for part in a.split(" ")[1:]:
                    c, _, lst = part.partition("=")
                    if lst in ("-", ""):
                        continue
                    for h in lst.split(","):
                        sid, path, _ = h.split(":")
                        k = int(c[1:])
                        # a stream that arrives above a GOAWAY's last-stream-id on that connection counts as disclaimed too
                        if (k, int(sid)) not in known and any(l < int(sid) for l in goaways[k]):
                            disclaimed.add((k, int(sid)))
                        note(path[1:], k, int(sid))
            elif op == "pool.cl.end":
                ended = True
            elif op == "pool.cl.res":
                final[f[2]] = (a, ended)
        for tag, (a, after_end) in final.items():
            kv = dict(x.split("=", 1) for x in a.split(" ") if "=" in x)
            n, d = len(occ[tag]), sum(1 for x in occ[tag] if x in disclaimed)
            if n > 1 + d:
                v.append(("request-sent-again-without-being-disclaimed", "%s reached the servers %d times %s, disclaimed %d times" % (tag, n, occ[tag], d)))
            if a.startswith("mon pending") and after_end:
                v.append(("request-never-resolved", "%s still waiting after Client.Close" % tag))
            if kv.get("retry") == "1" and occ[tag] and occ[tag][-1] not in disclaimed:
                v.append(("written-request-reported-retryable", "%s: last sent on %s, which no server disclaimed; err=%s" % (tag, occ[tag][-1], kv.get("err"))))
            if kv.get("err") == "ok":
                sts = {answers[x] for x in occ[tag] if x in answers}
                if int(kv.get("st", "0")) not in sts:
                    v.append(("response-is-not-the-one-sent", "%s got status %s, the servers answered it with %s" % (tag, kv.get("st"), sorted(sts))))
        for kind, detail in v:
            out.append((cid, kind, detail, lines))
    return out


def run_pool(ctx, out):
    """runs the clipool family and adds its coverage to `out`"""
    ops, impl, model = ctx.gen_run_compare(ctx.pid, "clipool", ctx.tier, ctx.seed, ctx.log)
    kinds = collections.Counter()
    for cid, kind, detail, lines in mon_pool(ops, impl):
        kinds[kind] += 1
        if len(ctx.violations) < 40:
            ctx.violations.append(dict(kind=kind, detail=detail, area="clipool", connection=cid, ops=lines,
                                       impl=[a for o, a in zip(ops, impl) if o.split(" ")[1:2] == [cid]][:200]))
    clients = len({o.split(" ")[1] for o in ops if o.startswith("pool.cl.new")})
    out.setdefault("families", {})
    out["clipool"] = dict(clients=clients, ops=len(ops), round_trips=sum(1 for o in ops if o.startswith("pool.cl.rt")),
                          monitor_findings=dict(kinds),
                          outcomes=dict(collections.Counter(" ".join(a.replace("mon ## ", "mon ", 1).split(" ")[1:4]) for o, a in zip(ops, impl) if o.startswith("pool.cl.res"))))
    out["rule"] = out.get("rule", "") + (" clipool: Client.RoundTrip (pickConn, the retry loop, onConnectionDropped) through fasthttp's transport interface against "
                                         "scripted TLS servers in memory: a request's HEADERS reach the servers at most once more than it was disclaimed (GOAWAY below "
                                         "its stream, REFUSED_STREAM); retry is reported only for a disclaimed or never-written request; every call returns by "
                                         "Client.Close at the latest; the response is the one sent; streams per connection within MAX_CONCURRENT_STREAMS. Monitor-only.")
    return out


def register(PROPS):
    PROPS.update({
        "C07": dict(module="H2.Props.C07", run=run_c07, assumptions=ASSUME, replay=make_replay([mon_ledger, mon_resolve_deadlock_only, mon_stall_blocking_only])),
        "C12": dict(module="H2.Props.C12", run=run_c12, assumptions=ASSUME, replay=make_replay([mon_resolve, mon_stall, mon_errvalue, mon_header_blocks])),
        "C11": dict(module="H2.Props.C11", run=run_c11, assumptions=ASSUME, replay=make_replay([mon_goaway, mon_resolve_deadlock_only, mon_errvalue])),
        "C02": dict(module="H2.Props.C02", run=run_c02, assumptions=ASSUME, replay=make_replay([mon_resp, mon_resolve_deadlock_only, mon_header_blocks])),
        "C14c": dict(module="H2.Props.C14c", run=run_c14c, assumptions=ASSUME, replay=make_replay([mon_credit])),
        "C18c": dict(module="H2.Props.C18c", run=run_c18c, assumptions=ASSUME, replay=make_replay([mon_settings, mon_ledger, mon_header_blocks])),
        "C20c": dict(module="H2.Props.C20c", run=run_c20c, assumptions=ASSUME, replay=make_replay([mon_msg])),
    })
