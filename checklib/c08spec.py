"""C08 oracle: RFC 7540 section 5.1 stream states computed from the history, and the reactions section 5.1/6 allow
for each (state, frame) — DESIGN.md Appendix D1. Used on the implementation's trace."""
import re
from area_server import parse_sent, parse_out, viol, PROTOCOL, FLOW, STREAM_CLOSED, FRAME_SIZE, REFUSED, COMPRESSION

IDLE, IDLECLOSED, OPEN, HCR, CPEER, COUR, CDONE = "idle", "idle-closed", "open", "half-closed-remote", "closed-peer-rst", "closed-our-rst", "closed-done"
TYPES = {0: "DATA", 1: "HEADERS", 2: "PRIORITY", 3: "RST_STREAM", 4: "SETTINGS", 5: "PUSH_PROMISE", 6: "PING", 7: "GOAWAY", 8: "WINDOW_UPDATE", 9: "CONTINUATION"}


def reaction(out, sid):
    """('conn', code) | ('close',) | ('stream', code) | ('ok',)"""
    items = parse_out(out)
    for n, a in items:
        if n == "GA":
            return ("conn", int(re.search(r"code=(\d+)", a).group(1)))
    for n, a in items:
        if n == "returned":
            return ("close",)
    for n, a in items:
        if n == "RST" and int(a.split(",")[0]) == sid:
            return ("stream", int(a.split(",")[1]))
    return ("ok",)


class Allowed:
    def __init__(self, ok=False, stream=(), conn=(), close_ok=True):
        self.ok, self.stream, self.conn = ok, set(stream), set(conn) | set(stream)  # a stream error may be answered as a connection error of the same kind
        self.close_ok = close_ok and bool(self.conn)

    def admits(self, r):
        if r[0] == "ok":
            return self.ok
        if r[0] == "stream":
            return r[1] in self.stream
        if r[0] == "conn":
            return r[1] in self.conn
        return self.close_ok


def mon_reactions(ctx, conn):
    mcs = conn.cfg.get("mcs", 100)
    st = {}                 # sid -> state for ids that were opened
    highest = 0
    block = 0               # stream with an open header block
    block_es = False
    window = {}
    init_win = 65535
    open_count = 0
    running = set()
    prio_idle = set()       # ids that received PRIORITY while idle (F17 precondition)
    flagged = set()         # ids that received a frame with an undefined END_STREAM-position flag (F21 precondition)
    dead = False

    def state(sid):
        if sid in st:
            return st[sid]
        return IDLE if sid > highest else IDLECLOSED

    # the generator names the symbol each frame belongs to ("# A@sel B@sel": the last one is current)
    sym_at = {}
    for idx, c in conn.comments:
        if c.startswith("# ") and "@" in c:
            sym_at[idx] = c.split()[-1].split("@")[0]
    cur_sym = None
    block_sym = None        # symbol that opened the header block in progress
    block_on_idle = False
    for si, (op, out) in enumerate(conn.steps):
        if si in sym_at:
            cur_sym = sym_at[si]
        f = op.split(" ")
        if dead:
            break
        if f[2] == "done":
            sid = int(f[3])
            for n, a in parse_out(out):
                if n in ("H", "D") and "es=1" in a and int(a.split(",")[0]) == sid:
                    if st.get(sid) == HCR:
                        st[sid] = CDONE
                        open_count -= 1
                if n in ("GA", "returned"):
                    dead = True
            running.discard(sid)
            continue
        if f[2] != "frame" or len(f) != 4:
            continue
        frs = parse_sent(f[3])
        if len(frs) != 1:
            continue
        fr = frs[0]
        sid, typ = fr.sid, fr.typ
        r = reaction(out, sid)
        s0 = state(sid) if sid else None
        es = bool(fr.flags & 1) and typ in (0, 1)
        eh = bool(fr.flags & 4)
        key = None
        # ---- what is allowed
        if block and not (typ == 9 and sid == block):
            A = Allowed(conn=[PROTOCOL])
            key = "in-block:%s" % TYPES.get(typ, typ)
        elif typ == 9 and not block:
            A = Allowed(conn=[PROTOCOL])
            key = "stray-continuation"
        elif typ == 9:
            key = "continuation"
            if state(sid) == COUR:       # the HEADERS frame was refused or reset: its CONTINUATION is ignored
                A = Allowed(ok=True, stream=[STREAM_CLOSED])
                A.conn = set()
                A.close_ok = False
                key += ":closed-our-rst"
            elif not eh:
                A = Allowed(ok=True)
            elif block_sym == "Hopen":          # the block is cut inside a field and ends here: undecodable
                A = Allowed(conn=[COMPRESSION])
                key += ":truncated-block"
            elif (block_sym in ("Hc", "HEc")) != block_on_idle:   # request block as trailers, or trailer block as request
                A = Allowed(stream=[PROTOCOL])
                key += ":malformed-message"
            else:
                A = Allowed(ok=True)
        elif sid == 0:
            if typ == 6 or typ == 4:
                A = Allowed(ok=True)
            elif typ == 8:
                inc = int.from_bytes(fr.payload[:4], "big") & 0x7fffffff
                A = Allowed(conn=[PROTOCOL]) if inc == 0 else Allowed(ok=True, conn=[FLOW])
            else:
                A = Allowed(conn=[PROTOCOL])
            key = "stream0:%s" % TYPES.get(typ, typ)
        elif sid % 2 == 0:
            A = Allowed(conn=[PROTOCOL])
            key = "even-id"
        else:
            key = "%s:%s" % (s0, TYPES.get(typ, typ))
            at_limit = open_count >= mcs
            if typ == 2:  # PRIORITY
                dep = int.from_bytes(fr.payload[:4], "big") & 0x7fffffff if fr.length == 5 else -1
                if fr.length != 5:
                    A = Allowed(stream=[FRAME_SIZE])
                elif dep == sid:
                    A = Allowed(ok=s0 in (CPEER, COUR, CDONE, IDLECLOSED), stream=[PROTOCOL])
                    key += ":self"
                else:
                    A = Allowed(ok=True)
            elif s0 == IDLE:
                if typ == 1:
                    if cur_sym in ("T", "Tc", "Tn") and eh:      # a block without pseudo-headers is not a request
                        A = Allowed(stream=[PROTOCOL] + ([REFUSED] if at_limit else []))
                        key += ":malformed-message"
                    else:
                        A = Allowed(ok=True, stream=[REFUSED, PROTOCOL] if at_limit else [])
                    if at_limit:
                        key += ":at-limit"
                else:
                    A = Allowed(conn=[PROTOCOL])
                    if at_limit:
                        key += ":at-limit"
            elif s0 == IDLECLOSED:
                if typ == 1:
                    A = Allowed(conn=[PROTOCOL, STREAM_CLOSED])
                elif typ == 0:
                    A = Allowed(stream=[STREAM_CLOSED], conn=[PROTOCOL])
                elif typ == 3:
                    A = Allowed(ok=True, conn=[PROTOCOL])
                else:
                    A = Allowed(ok=True, stream=[STREAM_CLOSED, PROTOCOL])
            elif s0 in (OPEN, HCR):
                if typ == 1:
                    if s0 == HCR:
                        A = Allowed(stream=[STREAM_CLOSED])
                    elif es and cur_sym not in ("T", "Tc") and eh:   # a request block (pseudo-headers) as trailers
                        A = Allowed(stream=[PROTOCOL])
                        key += ":malformed-message"
                    elif es:
                        A = Allowed(ok=True)
                        key += ":trailers" + ("" if eh else "-continued")
                    else:
                        # 8.1: a second block must end the stream; a malformed request (8.1.2.6) is a stream error, which
                        # the server gives once the block is decoded (a block going on in CONTINUATION: connection error)
                        A = Allowed(stream=[PROTOCOL])
                        key += ":no-end-stream" + ("" if eh else "-continued")
                elif typ == 0:
                    A = Allowed(ok=True) if s0 == OPEN else Allowed(stream=[STREAM_CLOSED])
                elif typ == 3:
                    A = Allowed(ok=True) if fr.length == 4 else Allowed(conn=[FRAME_SIZE])
                elif typ == 8:
                    inc = int.from_bytes(fr.payload[:4], "big") & 0x7fffffff
                    w = window.get(sid, init_win)
                    if inc == 0:
                        A = Allowed(stream=[PROTOCOL])
                        key += ":zero"
                    elif w + inc > 0x7fffffff:
                        A = Allowed(stream=[FLOW])
                        key += ":overflow"
                    else:
                        A = Allowed(ok=True)
                        if w + inc == 0x7fffffff:
                            key += ":to-max"
                        if fr.flags & 1:
                            key += ":flag1"
                else:
                    A = Allowed(conn=[PROTOCOL])
            elif s0 == CPEER:
                # HEADERS re-using the identifier of a closed stream is also "an unexpected stream identifier" (5.1.1)
                A = Allowed(stream=[STREAM_CLOSED], conn=[PROTOCOL] if typ == 1 else []) if typ in (0, 1) else Allowed(ok=True, stream=[STREAM_CLOSED])
            elif s0 == COUR:
                A = Allowed(ok=True, stream=[STREAM_CLOSED])
                A.conn = set()      # never a connection error (RFC 7540 5.1, 5.4.2)
                A.close_ok = False
            else:  # CDONE
                A = Allowed(stream=[STREAM_CLOSED], conn=[PROTOCOL]) if typ in (0, 1) else Allowed(ok=True, stream=[STREAM_CLOSED])
        if not A.admits(r):
            pre = ""
            if sid in prio_idle:
                pre = "after-priority-on-idle:"
            elif sid in flagged:
                pre = "after-flag1:"
            viol(ctx, conn, "reaction-not-allowed", dict(state=s0, frame=TYPES.get(typ, typ), flags=fr.flags, sid=sid, reaction=r, key=pre + key),
                 known_class="c08:%s%s:%s" % (pre, key, "-".join(str(x) for x in r)))
        # ---- dispatch only from a legal sequence
        for n, a in parse_out(out):
            if n == "dispatch":
                dsid = int(a.split(",", 1)[0])
                legal = dsid == sid and ((typ in (0, 1) and es and s0 in (IDLE, OPEN) and (eh or typ == 0)) or (typ == 9 and eh and block == sid and block_es))
                if legal and s0 == IDLE and sid in prio_idle and False:
                    legal = True
                if not legal:
                    pre = "after-flag1:" if dsid in flagged else ("after-priority-on-idle:" if dsid in prio_idle else "")
                    viol(ctx, conn, "dispatch-from-illegal-sequence", dict(sid=dsid, frame=TYPES.get(typ, typ), state=s0, flags=fr.flags),
                         known_class="c08:%sillegal-dispatch:%s:%s" % (pre, s0, TYPES.get(typ, typ)))
                running.add(dsid)
        if typ == 1 and not eh:
            block_sym, block_on_idle = cur_sym, (s0 == IDLE)
        # ---- connection gone?
        if r[0] in ("conn", "close"):
            dead = True
            continue
        # ---- update the spec state
        if sid and sid % 2 == 1:
            if typ in (2, 8, 3) and fr.flags & 1 and s0 == OPEN:
                flagged.add(sid)
            if r[0] == "stream":
                if s0 in (OPEN, HCR):
                    open_count -= 1
                elif s0 == IDLE and typ == 1:
                    highest = max(highest, sid)
                st[sid] = COUR
                if block == sid:
                    block = 0
                if typ == 1 and not eh:
                    block, block_es = sid, es
                continue
            if typ == 2 and s0 == IDLE:
                prio_idle.add(sid)
            if typ == 1:
                if s0 == IDLE:
                    highest = max(highest, sid)
                    st[sid] = OPEN
                    open_count += 1
                    window[sid] = init_win
                if not eh:
                    block, block_es = sid, es
                elif es and st.get(sid) == OPEN:
                    st[sid] = HCR
            elif typ == 9 and block == sid and eh:
                block = 0
                if block_es and st.get(sid) == OPEN:
                    st[sid] = HCR
            elif typ == 0 and es and s0 == OPEN:
                st[sid] = HCR
            elif typ == 3 and s0 in (OPEN, HCR):
                st[sid] = CPEER
                open_count -= 1
            elif typ == 8 and s0 in (OPEN, HCR):
                window[sid] = window.get(sid, init_win) + (int.from_bytes(fr.payload[:4], "big") & 0x7fffffff)
        # responses that ended in this step
        for n, a in parse_out(out):
            if n in ("H", "D") and "es=1" in a:
                rs = int(a.split(",")[0])
                if st.get(rs) == HCR:
                    st[rs] = CDONE
                    open_count -= 1
