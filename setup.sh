#!/bin/sh
# Build everything from files on disk (offline): extractor, generated facts, Lean library + driver, harness.
set -e
cd "$(dirname "$0")"
export GOFLAGS=-mod=mod GOPROXY=off
mkdir -p bin work evidence replays
(cd extract && GOTOOLCHAIN=local go build -o ../bin/h2extract .)
./bin/h2extract "${H2_REPO:-/repo}" lean/H2/Gen
(cd lean && lake build H2 h2model)
sed "s#H2_REPO#${H2_REPO:-/repo}#" harness/go.mod.tmpl > harness/go.mod
cp "${H2_REPO:-/repo}/go.sum" harness/go.sum
(cd harness && go build -tags verif -o ../bin/h2harness .)
rm -f work/harness.stamp
echo setup-ok
