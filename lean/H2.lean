import H2.Base
import H2.Driver
import H2.Props.C15
import H2.Props.C06
import H2.Props.C05
import H2.Props.C16
