import H2.Driver
/-! Line-protocol driver: one operation per input line, one result line per operation. Core-only imports. -/

partial def loop (h : IO.FS.Stream) (out : IO.FS.Stream) (st : H2.Driver.State) : IO Unit := do
  let line ← h.getLine
  if line.isEmpty then
    out.flush
    return ()
  let (st', res) := H2.Driver.step st (line.dropEndWhile (fun c => c == '\n' || c == '\r')).toString
  out.putStrLn res
  loop h out st'

def main : IO Unit := do
  let stdin ← IO.getStdin
  let stdout ← IO.getStdout
  loop stdin stdout H2.Driver.State.init
