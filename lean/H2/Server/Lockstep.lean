import H2.Server.Model
import H2.Server.Flow
import H2.Server.Lock.Slots
import H2.Server.Lock.Recv
import H2.Server.Lock.Closing
import H2.Server.Lock.Limits
import H2.Server.Lock.StreamSM
import H2.Server.Lock.Msg
/-!
# Lockstep: the abstract per-property models run beside the full server model

After every step of `H2.Server.stepR` the step is projected onto the events of an abstract model, the
abstract model takes the same step, and what both say the server sends is compared. A difference is
printed as `lockstep-mismatch(<model>)`, which the implementation never prints, so it surfaces as a
broken correspondence. This is what ties the abstract models — the ones the unbounded theorems are
about — to the code: implementation ≡ full model ≡ abstract model on every generated run.
-/
namespace H2.Server

structure Lock where
  flow : Flow.St := Flow.init
  flowOn : Bool := true
  /-- END_STREAM-carrying DATA frames so far, per stream, as the full model emitted them -/
  fullFins : List (Nat × Nat) := []
  /-- streams whose body is streamed: the reader may report its end on a read of its own, so END_STREAM can
  come one step after the last octet -/
  streamed : List Nat := []
  slots : Lock.Slots.L := .init
  recv : Lock.Recv.L := .init
  closing : Lock.Closing.L := .init
  limits : Lock.Limits.L := .init
  sm : Lock.StreamSM.L := .init
  msg : Lock.Msg.L := .init
  mismatches : List String := []
deriving Inhabited

def bump1 (l : List (Nat × Nat)) (sid : Nat) : List (Nat × Nat) :=
  if l.any (·.1 == sid) then l.map fun p => if p.1 == sid then (p.1, p.2 + 1) else p else l ++ [(sid, 1)]

def finsOf (outs : List Out) (acc : List (Nat × Nat)) : List (Nat × Nat) :=
  outs.foldl (fun acc o => match o with | .data sid true _ _ => bump1 acc sid | _ => acc) acc

def dataBySid (outs : List Out) : List (Nat × Nat) :=
  outs.foldl (fun acc o => match o with
    | .data sid _ len _ =>
      if acc.any (·.1 == sid) then acc.map fun p => if p.1 == sid then (p.1, p.2 + len) else p
      else acc ++ [(sid, len)]
    | _ => acc) []

def flowBySid (outs : List Flow.Data) : List (Nat × Nat) :=
  outs.foldl (fun acc d =>
      if acc.any (·.1 == d.id) then acc.map fun p => if p.1 == d.id then (p.1, p.2 + d.len) else p
      else acc ++ [(d.id, d.len)]) []

def sameTotals (a b : List (Nat × Nat)) : Bool :=
  a.length == b.length && a.all fun p => b.any fun q => q == p

def respTotal (resp : Resp) : Option Nat :=
  if resp.kind == "buf" then some resp.len
  else if resp.kind == "stream" then (if resp.stream.tail == 'x' then none else some resp.stream.chunks.sum)
  else some 0

/-- events of the send-side model for one step of the full model -/
def flowEvents (before : Srv) (ev : Event) (r : R) : Option (List Flow.Ev) :=
  let hasRst (sid : Nat) : Bool := r.out.any fun o => match o with | .rst s _ => s == sid | _ => false
  let opens : List Flow.Ev := r.out.filterMap fun o => match o with | .dispatch sid .. => some (.opn sid) | _ => none
  match ev with
  | .done sid resp =>
    if before.strms.any (fun st => st.id == sid && st.handlerRunning) then
      match respTotal resp with
      | some n => some [.done sid n]
      | none => none
    else some [.rst sid]
  | .bytes _ =>
    let evs := r.fwd.filterMap fun fr =>
      match fr.body with
      | .settings st => if fr.stream == 0 && st.hasWindowSize then some (Flow.Ev.settings st.windowSize) else none
      | .windowUpdate inc =>
        if fr.stream == 0 then some (.wuC inc)
        else if hasRst fr.stream then some (.rst fr.stream) else some (.wuS fr.stream inc)
      | .rstStream _ => some (.rst fr.stream)
      | _ => if hasRst fr.stream then some (.rst fr.stream) else none
    -- streams reset by the server for any other reason
    let rsts : List Flow.Ev := r.out.filterMap fun o => match o with | .rst s _ => some (.rst s) | _ => none
    some (opens ++ rsts ++ evs)
  | _ => some []

def Lock.stepFlow (l : Lock) (before : Srv) (ev : Event) (r : R) : Lock :=
  if !l.flowOn then l else
  if r.s.slStopped || r.s.undefined then { l with flowOn := false } else
  match flowEvents before ev r with
  | none => { l with flowOn := false }
  | some evs =>
    let (st, outs) := Flow.run l.flow evs
    let fullFins := finsOf r.out l.fullFins
    let streamed := match ev with
      | .done sid resp => if resp.kind == "stream" then l.streamed ++ [sid] else l.streamed
      | _ => l.streamed
    -- END_STREAM: never more often than the abstract model says (at most once), and for buffered bodies
    -- exactly when it says
    let finOk := fullFins.all fun p =>
      match st.strms.find? (·.id == p.1) with
      | some fs => p.2 ≤ fs.fins && (streamed.contains p.1 || p.2 == fs.fins)
      | none => false
    let finOk2 := st.strms.all fun fs =>
      streamed.contains fs.id || fs.fins == ((fullFins.find? (·.1 == fs.id)).map (·.2)).getD 0
    let l := { l with fullFins := fullFins, streamed := streamed }
    let ok := sameTotals ((dataBySid r.out).filter (·.2 > 0)) (flowBySid outs) && finOk && finOk2
    { l with flow := st, mismatches := if ok then l.mismatches else l.mismatches ++ [s!"flow full={dataBySid r.out} abstract={flowBySid outs} evs={evs.length} fwd={r.fwd.length} cw={l.flow.cw} strms={l.flow.strms.map fun x => (x.id, x.window, x.pending, x.responded, x.running)}"] }

/-- the flow model, then the accounting models (each adapter reports at most one mismatch per step) -/
def Lock.step (l : Lock) (before : Srv) (ev : Event) (r : R) : Lock :=
  let l := l.stepFlow before ev r
  let (sl, m1) := l.slots.step before ev r
  let (rl, m2) := l.recv.step before ev r
  let (cl, m3) := l.closing.step before ev r
  let (ll, m4) := l.limits.step before ev r
  let (sml, m5) := l.sm.step before ev r
  let (mgl, m6) := l.msg.step before ev r
  { l with slots := sl, recv := rl, closing := cl, limits := ll, sm := sml, msg := mgl,
           mismatches := l.mismatches ++ m1.toList ++ m2.toList ++ m3.toList ++ m4.toList ++ m5.toList ++ m6.toList }

end H2.Server
