import H2.Server.Types
/-!
# Server model — the step function

`step : Srv → Event → Srv × List Out`. One Go function ↔ one Lean definition; names follow
`serverConn.go`. `R` carries the state and the outputs of the current step (in order).
-/
namespace H2.Server
open H2.Frame (Frame Body)

structure R where
  s : Srv
  out : List Out := []
  /-- frames the read loop handed to the stream loop in this step, in order (for the lockstep models) -/
  fwd : List Frame := []
deriving Inhabited

def R.emit (r : R) (o : Out) : R := { r with out := r.out ++ [o] }

def R.emits (r : R) (os : List Out) : R := { r with out := r.out ++ os }

def R.getStrm (r : R) (uid : Nat) : Option Strm := r.s.strms.find? (·.uid == uid)

def R.updStrm (r : R) (uid : Nat) (f : Strm → Strm) : R :=
  { r with s := { r.s with strms := r.s.strms.map fun st => if st.uid == uid then f st else st } }

/-! ## small pieces -/

def hasUpperCase (b : Bytes) : Bool := b.any fun c => c ≥ 65 && c ≤ 90

/-- `parseUint` with Go's 64-bit `int`: the accumulator wraps -/
def wrapInt64 (n : Int) : Int :=
  let m := n % (2 ^ 64 : Int)
  if m ≥ (2 ^ 63 : Int) then m - (2 ^ 64 : Int) else m

def parseUint (b : Bytes) : Option Int :=
  if b.isEmpty then none
  else b.foldl (fun acc c => match acc with
    | none => none
    | some n =>
      if c < 48 || c > 57 then none
      else if n * 10 + (c - 48 : Nat) > (2 ^ 63 - 1 : Int) then none   -- would not fit Go's int
      else some (n * 10 + (c - 48 : Nat))) (some 0)

def isConnectionSpecific (k : Bytes) : Bool := Gen.connectionSpecific.any (· == k)

/-- `ToLower`: bit 0x20 set on the letters A–Z -/
def toLowerGo (b : Bytes) : Bytes := b.map fun c => if c ≥ 65 && c ≤ 90 then c ||| 32 else c

/-- `statusBytes` -/
def statusBytes (code : Int) : Bytes :=
  let c := if code < 100 || code > 999 then 500 else code.toNat
  strBytes (toString c)

/-- `markClosed` -/
def markClosed (ring : List Nat) (id : Nat) : List Nat :=
  if ring.contains id then ring
  else if ring.length < Gen.c_closedStrmsCap then ring ++ [id]
  else ring.drop 1 ++ [id]

/-- `Streams.Del`: removes the first entry with that id -/
def delFirst (l : List Strm) (id : Nat) : List Strm :=
  match l with
  | [] => []
  | x :: xs => if x.id == id then xs else x :: delFirst xs id

/-! ## writers -/

def writeReset (r : R) (sid code : Nat) : R :=
  let r := r.emit (.rst sid code)
  let known := if r.s.resetByUs.length ≥ Gen.c_closedStrmsCap then [] else r.s.resetByUs
  { r with s := { r.s with resetByUs := if known.contains sid then known else known ++ [sid] } }

/-- `writeGoAway(strm, code, msg)` -/
def writeGoAway (r : R) (sid code : Nat) (tag : String) : R :=
  let last := if sid > r.s.lastID then sid else r.s.lastID
  let r := r.emit (.goAway (last % 2 ^ 31) code tag)
  let s := r.s
  let s := if sid ≠ 0 then { s with closeRef := s.lastID } else s
  { r with s := { s with closing := true } }

/-- error values of the stream loop: GOAWAY-typed or RST_STREAM-typed -/
inductive SErr where
  | goAway (code : Nat) (tag : String)
  | reset (code : Nat)
deriving Repr, DecidableEq

/-- `writeError(strm, err)` for a non-nil stream -/
def writeError (r : R) (uid : Nat) (e : SErr) : R :=
  match r.getStrm uid with
  | none => r
  | some st =>
    let r := match e with
      | .goAway code tag => writeGoAway r st.id code tag
      | .reset code => writeReset r st.id code
    r.updStrm uid fun st => { st with state := .closed }

/-! ## closing streams -/

/-- `releaseStream` -/
def releaseStream (r : R) (st : Strm) : R :=
  if st.origType == Gen.c_FrameHeaders then { r with s := { r.s with openStreams := r.s.openStreams - 1 } } else r

/-- `closeStream(strm)`; `uid` identifies the `*Stream` -/
def closeStream (r : R) (uid : Nat) : R :=
  match r.getStrm uid with
  | none => r
  | some st =>
    -- Streams.Del removes the first entry carrying this id; if that is another object the stream being
    -- closed stays in the table while it goes back to the pool (F17): beyond the model.
    let first := r.s.strms.find? (·.id == st.id)
    let undefined := match first with
      | some f => f.uid != uid
      | none => false
    let s := { r.s with ring := markClosed r.s.ring st.id, strms := delFirst r.s.strms st.id,
                        undefined := r.s.undefined || undefined }
    let r := { r with s := s }
    if st.handlerRunning then
      -- abandoned: the entry leaves the table but keeps its slot until the handler reports back
      { r with s := { r.s with abandoned := r.s.abandoned ++ [st] } }
    else releaseStream r st

/-! ## sending the response -/

/-- one scripted `Read` into a 16384-octet buffer: (n, eof, error, rest of the script) -/
def readBody (bs : BodyStream) : Nat × Bool × Bool × BodyStream :=
  match bs.chunks with
  | [] => if bs.tail == 'x' then (0, false, true, bs) else (0, true, false, bs)
  | c :: cs =>
    if c > Gen.c_maxDataFrameSize then (Gen.c_maxDataFrameSize, false, false, { bs with chunks := (c - Gen.c_maxDataFrameSize) :: cs })
    else (c, cs.isEmpty && bs.tail == 'E', false, { bs with chunks := cs })

/-- the refill part of one round of `sendData`: the new state, the stream as it now is, and whether
the loop is left (`break` / read error) -/
def refill (r : R) (uid : Nat) (st : Strm) : R × Strm × Bool :=
  if st.pendLen == 0 then
    match st.stream with
    | none => (r, st, true)                 -- break → finished
    | some bs =>
      let rd := readBody bs
      let n := rd.1
      let eof := rd.2.1
      let err := rd.2.2.1
      let bs' := rd.2.2.2
      if err || (n == 0 && !eof) then
        -- read error: close the body stream, RST_STREAM(INTERNAL_ERROR), finished
        let st' := { st with stream := none }
        (writeReset (r.updStrm uid fun _ => st') st.id Gen.c_InternalError, st', true)
      else
        let st' := { st with stream := some bs',
                             pendOff := if n > 0 then st.bodyRead else st.pendOff,
                             pendLen := if n > 0 then n else st.pendLen,
                             bodyRead := st.bodyRead + n,
                             pendingEnd := st.pendingEnd || eof }
        let st' := if st'.bodySize ≥ 0 && (st'.bodyRead : Int) ≥ st'.bodySize then { st' with pendingEnd := true } else st'
        if st'.pendLen == 0 then
          -- nothing read: if the reader just ended, END_STREAM goes out on an empty DATA frame; break
          let r := r.updStrm uid fun _ => st'
          ((if st'.pendingEnd then r.emit (.data st.id true 0 {}) else r), st', true)
        else (r.updStrm uid fun _ => st', st', false)
  else (r, st, false)

/-- `closeBodyStream` -/
def closeBody (r : R) (uid : Nat) : R := r.updStrm uid fun s => { s with stream := none }

/-- one DATA frame of `sendData`: `step` octets of the pending data of `st` -/
def sendFrame (r : R) (uid : Nat) (st : Strm) (step : Nat) : R × Bool :=
  let rem := st.pendLen - step
  let fin := st.pendingEnd && rem == 0
  let r := r.emit (.data st.id fin step (st.src.digest st.pendOff step))
  let r := r.updStrm uid fun s => { s with pendOff := s.pendOff + step, pendLen := rem, window := s.window - step }
  ({ r with s := { r.s with clientWindow := r.s.clientWindow - step } }, fin)

/-- `sendData`: returns (r, finished). `fuel` bounds the loop (each round sends ≥ 1 octet or stops). -/
def sendDataFuel : Nat → R → Nat → R × Bool
  | 0, r, _ => (r, false)
  | fuel + 1, r, uid =>
    match r.getStrm uid with
    | none => (r, true)
    | some st0 =>
      let x := refill r uid st0
      let r := x.1
      let st := x.2.1
      if x.2.2 then (closeBody r uid, true)            -- after the loop: closeBodyStream
      else
        let avail := if r.s.clientWindow < st.window then r.s.clientWindow else st.window
        if avail ≤ 0 then (r, false)
        else
          let y := sendFrame r uid st (min (min Gen.c_maxDataFrameSize avail.toNat) st.pendLen)
          if y.2 then (closeBody y.1 uid, true)           -- END_STREAM sent: done
          else sendDataFuel fuel y.1 uid

def sendData (r : R) (uid : Nat) : R × Bool :=
  match r.getStrm uid with
  | none => (r, true)
  | some st =>
    let total := st.pendLen + (match st.stream with | some bs => bs.chunks.sum | none => 0)
    sendDataFuel (2 * total + 8) r uid

def hasMoreToSend (st : Strm) : Bool := st.pendLen > 0 || st.stream.isSome

/-- one stream of `flushStreams`: resume it if it owes data; remember it if it finished -/
def flushOne (acc : R × List Nat) (uid : Nat) : R × List Nat :=
  match acc.1.getStrm uid with
  | none => acc
  | some st =>
    if st.responded && !st.handlerRunning && hasMoreToSend st then
      let x := sendData acc.1 uid
      (x.1, if x.2 then acc.2 ++ [uid] else acc.2)
    else acc

def closeDone (r : R) (uid : Nat) : R :=
  closeStream (r.updStrm uid fun s => { s with state := .closed }) uid

/-- `flushStreams` -/
def flushStreams (r : R) : R :=
  let acc := (r.s.strms.map (·.uid)).foldl flushOne (r, [])
  acc.2.foldl closeDone acc.1

/-- handler results: what the scripted handler put into the response -/
structure Resp where
  status : Int := 200
  view : List (Bytes × Bytes) := []     -- fields fasthttp yields (trusted abstraction), names as stored
  kind : String := "none"                -- none | buf | stream | panic
  src : Src := .hex []
  len : Nat := 0                         -- buffered body length
  size : Int := -1                       -- declared size of a streamed body
  stream : BodyStream := ⟨[], 'e'⟩
deriving Repr, Inhabited

/-- decode a complete header block with the reference decoder -/
def decodeAll : Nat → Hpack.DecState → Bool → Nat → Bytes → List Hpack.Field → Option (Hpack.DecState × List Hpack.Field)
  | 0, _, _, _, _, _ => none
  | _, st, _, _, [], acc => some (st, acc)
  | fuel + 1, st, bs, fp, b, acc =>
    match Hpack.Dec.next st bs fp b with
    | .ok st' (some f) rest => decodeAll fuel st' bs (fp + 1) rest (acc ++ [f])
    | .ok st' none rest => decodeAll fuel st' bs fp rest acc
    | _ => none

/-- the encoder's part of `fasthttpResponseHeaders`: `:status` stored, the rest not -/
def encodeFields (enc : Hpack.EncState) (fields : List ((Bytes × Bytes) × Bool)) : Hpack.EncState × Bytes :=
  fields.foldl (fun (acc : Hpack.EncState × Bytes) (fs : (Bytes × Bytes) × Bool) =>
    let x := Hpack.Enc.append acc.1 ⟨fs.1.1, fs.1.2, false⟩ fs.2
    (x.1, acc.2 ++ x.2)) (enc, [])

/-- the fields of a response in the order they are encoded -/
def responseFields (resp : Resp) : List ((Bytes × Bytes) × Bool) :=
  ((Gen.s_StringStatus, statusBytes resp.status), true) :: resp.view.map fun (k, v) => ((toLowerGo k, v), false)

/-- the CONTINUATION loop of `writeHeaderBlock`: what is left of the block, in pieces of at most `max` octets -/
def cutRest (max : Nat) : Nat → Bytes → List Bytes
  | 0, _ => []
  | fuel + 1, b => if b.isEmpty then [] else b.take max :: cutRest max fuel (b.drop max)

/-- `writeHeaderBlock`: the fragments a header block is written in — the first `max` octets (the whole block when it is
no longer), then the rest in pieces of at most `max` -/
def cutBlock (max : Nat) (block : Bytes) : List Bytes :=
  block.take max :: cutRest max block.length (block.drop max)

/-- the CONTINUATION frames for the fragments after the first: END_HEADERS, and with it the decoded field list as the
harness prints it, on the last one -/
def contOuts (sid : Nat) (fs : List (Bytes × Bytes)) (err : Bool) : List Bytes → List Out
  | [] => []
  | f :: rest => .cont sid rest.isEmpty f.length (if rest.isEmpty then fs else []) (rest.isEmpty && err) :: contOuts sid fs err rest

/-- the frames of one header block: HEADERS with the first fragment (END_STREAM stays on it), END_HEADERS on it only
when there is no other fragment, then the CONTINUATION frames -/
def blockOuts (sid : Nat) (es : Bool) (fs : List (Bytes × Bytes)) (err : Bool) : List Bytes → List Out
  | [] => []
  | f :: rest => .headers sid es rest.isEmpty f.length (if rest.isEmpty then fs else []) (rest.isEmpty && err) :: contOuts sid fs err rest

/-- `fasthttpResponseHeaders` + the HEADERS frame of `finishRequest`, as the write loop writes it (`writeHeaderBlock`
with `maxDataFrameSize`): HEADERS + CONTINUATION… when the block is longer than 16384 octets -/
def responseHeaders (r : R) (st : Strm) (resp : Resp) (hasBody : Bool) : R :=
  let x := encodeFields r.s.enc (responseFields resp)
  let block := x.2
  let r : R := { r with s := { r.s with enc := x.1 } }
  -- what the peer's reference decoder makes of the block
  match decodeAll (block.length + 1) r.s.peerDec true 0 block [] with
  | some (dec, fs) =>
    ({ r with s := { r.s with peerDec := dec } } : R).emits
      (blockOuts st.id (!hasBody) (fs.map fun (f : Hpack.Field) => (f.name, f.value)) false (cutBlock Gen.c_maxDataFrameSize block))
  | none =>
    ({ r with s := { r.s with peerDecBroken := true, undefined := true } } : R).emits
      (blockOuts st.id (!hasBody) [] true (cutBlock Gen.c_maxDataFrameSize block))

/-- `finishRequest`: returns (r, finished) -/
def finishRequest (r : R) (uid : Nat) (resp : Resp) : R × Bool :=
  match r.getStrm uid with
  | none => (r, true)
  | some st =>
    let resp := if resp.kind == "panic" then { (default : Resp) with status := 500, kind := "none", view := resp.view } else resp
    let hasBody := resp.kind == "stream" || (resp.kind == "buf" && resp.len > 0)
    let r := responseHeaders r st resp hasBody
    if !hasBody then (r, true)
    else
      let r := if resp.kind == "stream" then
          r.updStrm uid fun s => { s with stream := some resp.stream, bodySize := resp.size, bodyRead := 0,
                                          src := resp.src, pendOff := 0, pendLen := 0, pendingEnd := false }
        else
          r.updStrm uid fun s => { s with src := resp.src, pendOff := 0, pendLen := resp.len, pendingEnd := true }
      sendData r uid

/-! ## request header blocks -/

/-- the verdict of the body of the field loop of `handleHeaderFrame` on one decoded field: `none` = the
field is accepted, otherwise the error the loop returns with -/
def fieldVerdict (cfg : Cfg) (st : Strm) (f : Hpack.Field) : Option SErr :=
  let k := f.name
  let v := f.value
  if cfg.maxHeaderList > 0 && ((st.hdrListSize + k.length + v.length + 32 : Nat) : Int) > cfg.maxHeaderList then
    some (.goAway Gen.c_EnhanceYourCalm "header list exceeds the maximum size")
  else if hasUpperCase k then some (.reset Gen.c_ProtocolError)
  else if k.head? == some 58 then
    if st.regularSeen then some (.reset Gen.c_ProtocolError)
    else if k == Gen.s_StringMethod then (if st.pMethod then some (.reset Gen.c_ProtocolError) else none)
    else if k == Gen.s_StringPath then (if st.pPath then some (.reset Gen.c_ProtocolError) else none)
    else if k == Gen.s_StringScheme then (if st.pScheme then some (.reset Gen.c_ProtocolError) else none)
    else if k == Gen.s_StringAuthority then (if st.pAuthority then some (.reset Gen.c_ProtocolError) else none)
    else some (.reset Gen.c_ProtocolError)
  else if isConnectionSpecific k then some (.reset Gen.c_ProtocolError)
  else if k == Gen.s_StringTE && v != Gen.s_StringTrailers then some (.reset Gen.c_ProtocolError)
  else if k == Gen.s_StringContentLength then
    match parseUint v with
    | some n =>
      if st.hasCL && n != st.contentLength then some (.reset Gen.c_ProtocolError)   -- two lengths that disagree
      else if cfg.maxBody > 0 && n > (cfg.maxBody : Int) then some (.reset Gen.c_EnhanceYourCalm) else none
    | none => some (.reset Gen.c_ProtocolError)
  else none

/-- the bookkeeping an accepted field leaves on the stream (the running header-list size is updated for
every field, accepted or not) -/
def fieldUpdate (st : Strm) (f : Hpack.Field) : Strm :=
  let k := f.name
  let v := f.value
  let st := { st with hdrListSize := st.hdrListSize + k.length + v.length + 32 }
  if k.head? == some 58 then
    if k == Gen.s_StringMethod then { st with pMethod := true, method := v }
    else if k == Gen.s_StringPath then { st with pPath := true, path := v, uri := v }
    else if k == Gen.s_StringScheme then { st with pScheme := true }
    else if k == Gen.s_StringAuthority then { st with pAuthority := true, host := v }
    else st
  else
    let st := { st with regularSeen := true }
    if k == Gen.s_StringUserAgent then { st with userAgent := some v }
    else if k == Gen.s_StringContentType then { st with contentType := some v }
    else if k == Gen.s_StringContentLength then
      match parseUint v with
      | some n => { st with contentLength := n, hasCL := true }
      | none => st
    else { st with fields := st.fields ++ [(k, v)] }

/-- one decoded field in the loop of `handleHeaderFrame` -/
def fieldStep (cfg : Cfg) (st : Strm) (f : Hpack.Field) : Strm × Option SErr :=
  (fieldUpdate st f, fieldVerdict cfg st f)

/-- `maxHeldHeaderFactor` -/
def heldFactor : Nat := 4

/-- the octets `tail` of a field that is not complete are more than the server carries over to the next frame:
`sc.maxHeaderList > 0 && len(b) > maxHeldHeaderFactor*sc.maxHeaderList` -/
def heldTooLong (cfg : Cfg) (tail : Bytes) : Bool :=
  cfg.maxHeaderList > 0 && (tail.length : Int) > (heldFactor : Int) * cfg.maxHeaderList

/-- the field loop of `handleHeaderFrame` on the reassembled octets `b`.
Returns the new state, the stream, and `none` (ok) or an error. -/
def fieldLoop : Nat → Srv → Strm → Bool → Bool → Nat → Bytes → Srv × Strm × Option SErr
  | 0, s, st, _, _, _, _ => (s, st, some (.goAway Gen.c_CompressionError "compression"))
  | _, s, st, _, _, _, [] => (s, st, none)
  | fuel + 1, s, st, blockStart, endHeaders, fp, b =>
    match Hpack.Dec.next s.dec blockStart fp b with
    | .needMore =>
      -- `ErrUnexpectedSize`: the size updates read on the way have been applied; what is carried over is
      -- what `nextField` hands back, the unfinished representation without them
      let sk := Hpack.Dec.skipUpdates s.dec blockStart fp b
      if !endHeaders then
        -- an unfinished field longer than `heldFactor` times the list limit can never decode to one that fits
        -- (the longest Huffman code has 30 bits): the connection error of the list-size check (F68 repaired)
        if heldTooLong s.cfg sk.2 then
          ({ s with dec := sk.1 }, st, some (.goAway Gen.c_EnhanceYourCalm "header field exceeds the maximum header list size"))
        else ({ s with dec := sk.1 }, { st with prevHdr := sk.2 }, none)
      else ({ s with dec := sk.1 }, st, some (.goAway Gen.c_CompressionError "compression"))
    | .err => (s, st, some (.goAway Gen.c_CompressionError "compression"))
    -- only table size updates were left (`ErrUnexpectedSize` and no octets): no field, nothing carried over
    | .ok dec none _ => ({ s with dec := dec }, st, none)
    | .ok dec (some f) rest =>
      let x := fieldStep s.cfg { st with fieldSeen := true } f
      match x.2 with
      | some e => ({ s with dec := dec }, x.1, some e)
      | none => fieldLoop fuel { s with dec := dec } x.1 blockStart endHeaders (fp + 1) rest

/-- `handleHeaderFrame` -/
def handleHeaderFrame (s : Srv) (st : Strm) (fr : Frame) : Srv × Strm × Option SErr :=
  let (isCont, eh, prio, frag) : Bool × Bool × Option (Nat × Nat) × Bytes :=
    match fr.body with
    | .headers _ eh p f => (false, eh, p, f)
    | .continuation eh f => (true, eh, none, f)
    | _ => (false, false, none, [])
  -- a trailer section that does not end the stream: a malformed request. When the block ends in this frame it is
  -- decoded like any block and then answered with a stream error; otherwise the connection error stays (F67 repaired)
  let notLast := st.headersFinished && !Frame.hasFlag fr.flags Gen.c_FlagEndStream
  if notLast && !Frame.hasFlag fr.flags Gen.c_FlagEndHeaders then
    (s, st, some (.goAway Gen.c_ProtocolError "stream not open"))
  else
  -- a trailer block that goes on in CONTINUATION: a block is in progress again
  let st := if st.headersFinished && !Frame.hasFlag fr.flags Gen.c_FlagEndHeaders then { st with headersFinished := false, regularSeen := true }
            else if st.headersFinished then { st with regularSeen := true }   -- no pseudo-header fields in trailers
            else st
  if (match prio with | some (dep, _) => dep == st.id | none => false) then
    (s, st, some (.goAway Gen.c_ProtocolError "stream that depends on itself"))
  else
    -- a HEADERS frame opens a block; it is at its start until its first field has been decoded
    let st := if isCont then st else { st with fieldSeen := false }
    let blockStart := !st.fieldSeen
    let b := st.prevHdr ++ frag
    let st := { st with prevHdr := [] }
    let x := fieldLoop (b.length + 1) s st blockStart eh 0 b
    if notLast && x.2.2.isNone then (x.1, x.2.1, some (.reset Gen.c_ProtocolError)) else x

/-- `validateRequestPseudoHeaders` -/
def validatePseudo (st : Strm) : Option SErr :=
  if !st.pMethod || !st.pScheme || !st.pPath then some (.reset Gen.c_ProtocolError)
  else if st.path.isEmpty then some (.reset Gen.c_ProtocolError)
  else none

def continuingHeaders (st : Strm) (fr : Frame) : Bool :=
  fr.typ == Gen.c_FrameContinuation && !st.headersFinished

/-- `verifyState` -/
def verifyState (st : Strm) (fr : Frame) : Option SErr :=
  match st.state with
  | .idle =>
    if fr.typ != Gen.c_FrameHeaders && fr.typ != Gen.c_FramePriority then
      some (.goAway Gen.c_ProtocolError "wrong frame on idle stream") else none
  | .halfClosed =>
    if continuingHeaders st fr then none
    else if fr.typ != Gen.c_FrameWindowUpdate && fr.typ != Gen.c_FramePriority && fr.typ != Gen.c_FrameResetStream then
      some (.goAway Gen.c_StreamClosedError "wrong frame on half-closed stream") else none
  | _ => none

/-- `consumeConnWindow` -/
def consumeConnWindow (r : R) (n : Nat) : R :=
  if n == 0 then r
  else
    let cur := r.s.recvWin - n
    if cur < (Gen.c_serverMaxWindow : Int) / 2 then
      let inc := (Gen.c_serverMaxWindow : Int) - cur
      { (r.emit (.wu 0 inc.toNat)) with s := { r.s with recvWin := Gen.c_serverMaxWindow } }
    else { r with s := { r.s with recvWin := cur } }

/-- `consumeRecvWindow` -/
def consumeRecvWindow (r : R) (st : Strm) (fr : Frame) (n : Nat) : R :=
  if n == 0 then r
  else
    let r := if !Frame.hasFlag fr.flags Gen.c_FlagEndStream then r.emit (.wu st.id n) else r
    consumeConnWindow r n

/-- `handleFrame` -/
def handleFrame (r : R) (uid : Nat) (fr : Frame) : R × Option SErr :=
  match r.getStrm uid with
  | none => (r, none)
  | some st =>
    match verifyState st fr with
    | some e => (r, some e)
    | none =>
      if fr.typ == Gen.c_FrameHeaders || fr.typ == Gen.c_FrameContinuation then
        if st.state.rank ≥ StState.halfClosed.rank && !continuingHeaders st fr then
          (r, some (.goAway Gen.c_ProtocolError "received headers on a finished stream"))
        else
          let (s, st', e) := handleHeaderFrame r.s st fr
          let r := ({ r with s := s }).updStrm uid fun _ => st'
          match e with
          | some e => (r, some e)
          | none =>
            if Frame.hasFlag fr.flags Gen.c_FlagEndHeaders then
              let fin := st'.prevHdr.isEmpty
              let r := r.updStrm uid fun s => { s with headersFinished := fin }
              if !fin then (r, some (.goAway Gen.c_ProtocolError "END_HEADERS received on an incomplete stream"))
              else (r, validatePseudo st')
            else (r, none)
      else if fr.typ == Gen.c_FrameData then
        if !st.headersFinished then (r, some (.goAway Gen.c_ProtocolError "stream didn't end the headers"))
        else if st.state.rank ≥ StState.halfClosed.rank then (r, some (.goAway Gen.c_StreamClosedError "stream closed"))
        else
          let d : Bytes := match fr.body with | .data _ b => b | _ => []
          let st' := { st with recvBody := st.recvBody + d.length }
          let r := r.updStrm uid fun _ => st'
          if r.s.cfg.maxBody > 0 && st'.recvBody > r.s.cfg.maxBody then (consumeConnWindow r fr.length, some (.reset Gen.c_EnhanceYourCalm))
          else
            let r := r.updStrm uid fun s => { s with body := s.body.add d }
            (consumeRecvWindow r st' fr fr.length, none)
      else if fr.typ == Gen.c_FrameResetStream then
        if st.state == .idle then (r, some (.goAway Gen.c_ProtocolError "RST_STREAM on idle stream")) else (r, none)
      else if fr.typ == Gen.c_FramePriority then
        if st.state != .idle && !st.headersFinished then (r, some (.goAway Gen.c_ProtocolError "frame priority on an open stream"))
        else if (match fr.body with | .priority dep _ => dep == st.id | _ => false) then
          (r, some (.goAway Gen.c_ProtocolError "stream that depends on itself"))
        else (r, none)
      else if fr.typ == Gen.c_FrameWindowUpdate then
        if st.state == .idle then (r, some (.goAway Gen.c_ProtocolError "window update on idle stream"))
        else
          let inc : Nat := match fr.body with | .windowUpdate n => n | _ => 0
          if inc == 0 then (r, some (.goAway Gen.c_ProtocolError "window increment of 0"))
          else
            let w := st.window + inc
            let r := r.updStrm uid fun s => { s with window := w }
            if w > 2 ^ 31 - 1 then (r, some (.reset Gen.c_FlowControlError)) else (r, none)
      else (r, some (.goAway Gen.c_ProtocolError "invalid frame"))

/-- `handleState` -/
def handleState (fr : Frame) (st : Strm) : Strm :=
  let st := if fr.typ == Gen.c_FrameResetStream then { st with state := .closed } else st
  let es := Frame.hasFlag fr.flags Gen.c_FlagEndStream
  match st.state with
  | .idle =>
    if fr.typ == Gen.c_FrameHeaders then { st with state := if es then .halfClosed else .open } else st
  | .open =>
    if (fr.typ == Gen.c_FrameData || fr.typ == Gen.c_FrameHeaders) && es then { st with state := .halfClosed }
    else if fr.typ == Gen.c_FrameResetStream then { st with state := .closed } else st
  | .halfClosed => if fr.typ == Gen.c_FrameResetStream then { st with state := .closed } else st
  | _ => st

/-- `canCloseAfterGoAway` -/
def canCloseAfterGoAway (s : Srv) : Bool :=
  !(s.strms.any fun st => st.origType == Gen.c_FrameHeaders && st.id ≤ s.closeRef)

def stopLoop (r : R) : R := { r with s := { r.s with slStopped := true } }

/-- `getPrevious(FrameHeaders)`: the second stream, counting from the newest, opened by HEADERS -/
def getPrevious (l : List Strm) : Option Strm :=
  match (l.reverse.filter fun st => st.origType == Gen.c_FrameHeaders) with
  | _ :: p :: _ => some p
  | _ => none

/-- the loop closing idle streams with lower ids when a HEADERS frame arrives -/
def closeIdleBelow : Nat → R → Nat → R
  | 0, r, _ => r
  | fuel + 1, r, id =>
    match r.s.strms with
    | [] => r
    | n :: _ =>
      if n.id < id && n.state == .idle && n.origType == Gen.c_FrameHeaders then
        let r := r.updStrm n.uid fun s => { s with state := .closed }
        let r := closeStream r n.uid
        let r := writeReset r n.id Gen.c_StreamCanceled
        closeIdleBelow fuel r id
      else r

def closeIfDone (r : R) : R := if canCloseAfterGoAway r.s then stopLoop r else r

/-- the `strm == nil` branch of the stream loop: a frame about a stream that is not in the table.
Returns the new state and the uid of the stream just created, if one was. -/
def unknownStream (r : R) (fr : Frame) (wasClosing : Bool) : R × Option Nat :=
  if r.s.resetByUs.contains fr.stream then
    -- in flight when the peer had not yet seen our RST_STREAM: ignored, DATA still charged to the connection
    ((if fr.typ == Gen.c_FrameData then consumeConnWindow r fr.length else r), none)
  else if fr.typ == Gen.c_FrameResetStream then
    ((if fr.stream > r.s.lastID then closeIfDone (writeGoAway r fr.stream Gen.c_ProtocolError "RST_STREAM on idle stream") else r), none)
  else if r.s.ring.contains fr.stream then
    ((if fr.typ == Gen.c_FramePriority || fr.typ == Gen.c_FrameWindowUpdate then r
      else closeIfDone (writeGoAway r fr.stream Gen.c_StreamClosedError "closed-stream")), none)
  else if fr.typ != Gen.c_FrameHeaders then
    -- only HEADERS opens a stream
    if fr.typ == Gen.c_FramePriority then
      if (match fr.body with | .priority dep _ => dep == fr.stream | _ => false) then
        (stopLoop (writeGoAway r fr.stream Gen.c_ProtocolError "stream that depends on itself"), none)
      else (r, none)
    else if fr.stream > r.s.lastID then
      (stopLoop (writeGoAway r fr.stream Gen.c_ProtocolError "wrong frame on idle stream"), none)
    else if fr.typ != Gen.c_FrameWindowUpdate then
      (closeIfDone (writeGoAway r fr.stream Gen.c_StreamClosedError "closed-stream"), none)
    else (r, none)
  else if r.s.openStreams ≥ (r.s.cfg.maxStreams : Int) || wasClosing then
    (writeReset { r with s := { r.s with lastRefused := max r.s.lastRefused fr.stream } } fr.stream Gen.c_RefusedStreamError, none)
  else if fr.stream ≤ r.s.lastID || fr.stream ≤ r.s.lastRefused then
    (closeIfDone (writeGoAway r fr.stream Gen.c_ProtocolError "lower-id"), none)
  else
    let st : Strm := { uid := r.s.nextUid, id := fr.stream, window := r.s.curInitWin, origType := fr.typ }
    let s := { r.s with strms := r.s.strms ++ [st], nextUid := r.s.nextUid + 1,
                        openStreams := r.s.openStreams + 1, lastID := fr.stream }
    ({ r with s := s }, some st.uid)

/-- HEADERS: the previous header block must be finished; idle streams with lower ids are closed.
Returns whether the frame is handled further. -/
def headersPrelude (r : R) (fr : Frame) : R × Bool :=
  if fr.typ == Gen.c_FrameHeaders then
    match getPrevious r.s.strms with
    | some n =>
      if !n.headersFinished then
        (writeError r n.uid (.goAway Gen.c_ProtocolError "previous stream headers not ended"), false)
      else (closeIdleBelow (r.s.strms.length + 1) r fr.stream, true)
    | none => (closeIdleBelow (r.s.strms.length + 1) r fr.stream, true)
  else (r, true)

/-- what the loop does with the error `handleFrame` returned: the frame to send, the stream closed,
and whether the loop is left (`break loop`) -/
def onFrameError (r : R) (uid : Nat) (e : Option SErr) : R × Bool :=
  match e with
  | none => (r, false)
  | some e =>
    let r := (writeError r uid e).updStrm uid fun s => { s with state := .closed }
    match e with
    | .goAway code _ => (r, code != Gen.c_NoError)
    | .reset _ => (r, false)

/-- `dispatchHandler`: the request as the handler will see it -/
def dispatch (r : R) (uid : Nat) (st : Strm) : R :=
  let flds := (match st.contentType with | some v => [(Gen.s_StringContentType, v)] | none => []) ++
              (match st.userAgent with | some v => [(Gen.s_StringUserAgent, v)] | none => []) ++ st.fields
  (r.updStrm uid fun s => { s with handlerRunning := true }).emit
    (.dispatch st.id st.method st.uri st.host flds st.body)

/-- after `handleState`: hand the request over, or go on sending the response -/
def dispatchOrSend (r : R) (uid : Nat) (st : Strm) : R :=
  if st.state == .halfClosed && st.headersFinished && !st.responded then
    let r := r.updStrm uid fun s => { s with responded := true }
    if st.hasCL && (st.recvBody : Int) != st.contentLength then
      (writeReset r st.id Gen.c_ProtocolError).updStrm uid fun s => { s with state := .closed }
    else dispatch r uid st
  else if st.responded && !st.handlerRunning && hasMoreToSend st then
    let x := sendData r uid
    if x.2 then x.1.updStrm uid fun s => { s with state := .closed } else x.1
  else r

def closeIfClosed (r : R) (uid : Nat) : R :=
  match r.getStrm uid with
  | some st => if st.state == .closed then closeStream r uid else r
  | none => r

/-- the rest of the loop body once the stream is known -/
def knownStream (r : R) (uid : Nat) (fr : Frame) (wasClosing : Bool) : R :=
  let p := headersPrelude r fr
  if !p.2 then p.1 else
  let h := handleFrame p.1 uid fr
  let e := onFrameError h.1 uid h.2
  if e.2 then stopLoop e.1 else
  let r := e.1.updStrm uid (handleState fr)
  match r.getStrm uid with
  | none => r
  | some st =>
    let r := closeIfClosed (dispatchOrSend r uid st) uid
    if wasClosing && canCloseAfterGoAway r.s then stopLoop r else r

/-- the `case fr := <-sc.reader` arm of `handleStreams` for a frame with a stream id -/
def slStreamFrame (r : R) (fr : Frame) : R :=
  let wasClosing := r.s.closing
  let found : Option Strm := if fr.stream ≤ r.s.lastID then r.s.strms.find? (·.id == fr.stream) else none
  match found with
  | some st => knownStream r st.uid fr wasClosing
  | none =>
    let u := unknownStream r fr wasClosing
    match u.2 with
    | none => u.1
    | some uid => knownStream u.1 uid fr wasClosing

/-- the SETTINGS_HEADER_TABLE_SIZE values of one frame, in the order they appear (a setting may occur more than once) -/
def tableSizes (st : Frame.SettingsVal) : List Nat :=
  (st.pairs.filter fun p => p.1 == Gen.c_HeaderTableSize).map (·.2)

/-- every SETTINGS_HEADER_TABLE_SIZE the frame carries is applied to the encoder by the stream loop, in order: the walk
over `fr.payload` in `handleStreams` (a frame with "0, then 4096" used to reach the encoder as 4096 alone) -/
def applyTableSize (r : R) (st : Frame.SettingsVal) : R :=
  { r with s := { r.s with enc := (tableSizes st).foldl Hpack.EncState.setMax r.s.enc } }

/-- the check before `continue` in the connection-level branch: the flush may have finished the last
stream a GOAWAY was waiting for -/
def closeIfClosing (r : R) : R := if r.s.closing && canCloseAfterGoAway r.s then stopLoop r else r

/-- the SETTINGS_INITIAL_WINDOW_SIZE delta, stream by stream, stopping at the first overflow -/
def applyDelta (delta : Int) : List Strm → List Strm × Bool
  | [] => ([], false)
  | s :: rest =>
    let w := s.window + delta
    if w > 2 ^ 31 - 1 then ({ s with window := w } :: rest, true)
    else
      let x := applyDelta delta rest
      ({ s with window := w } :: x.1, x.2)

/-- a frame taken off `sc.reader` by the stream loop -/
def slFrame (r : R) (fr : Frame) : R :=
  if r.s.slStopped then r else
  let r := { r with fwd := r.fwd ++ [fr] }
  if fr.stream == 0 then
    match fr.body with
    | .settings st =>
      -- the stream loop owns the encoder: SETTINGS_HEADER_TABLE_SIZE is applied here, between header blocks
      let r := applyTableSize r st
      if st.hasWindowSize then
        let delta : Int := (st.windowSize : Int) - r.s.curInitWin
        let x := applyDelta delta r.s.strms
        let r := { r with s := { r.s with curInitWin := st.windowSize, strms := x.1 } }
        if x.2 then stopLoop (writeGoAway r 0 Gen.c_FlowControlError "stream-win-max")
        else closeIfClosing (flushStreams r)
      else closeIfClosing r
    | .windowUpdate inc =>
      let w := r.s.clientWindow + inc
      let r := { r with s := { r.s with clientWindow := w } }
      if w > 2 ^ 31 - 1 then stopLoop (writeGoAway r 0 Gen.c_FlowControlError "conn-win-max")
      else closeIfClosing (flushStreams r)
    | _ => closeIfClosing r
  else slStreamFrame r fr

/-- `case strm := <-sc.handlerDone` -/
def slHandlerDone (r : R) (sid : Nat) (resp : Resp) : R :=
  let r := if resp.kind == "panic" then r.emit .handlerPanicLogged else r
  if r.s.slStopped then r else
  -- the stream object reporting back: still in the table, or abandoned (then only its slot is left)
  match r.s.strms.find? (fun st => st.id == sid && st.handlerRunning) with
  | none =>
    -- abandoned: releaseStream gives the slot back
    match r.s.abandoned.find? (·.id == sid) with
    | some st => releaseStream { r with s := { r.s with abandoned := r.s.abandoned.filter (·.uid != st.uid) } } st
    | none => r
  | some st =>
    let x := finishRequest (r.updStrm st.uid fun s => { s with handlerRunning := false }) st.uid resp
    let r := if x.2 then closeDone x.1 st.uid else x.1
    if r.s.closing && canCloseAfterGoAway r.s then stopLoop r else r

/-! ## read loop -/

def rlStop (r : R) : R := { r with s := { r.s with rlStopped := true } }

/-- the CONTINUATION sequencing rules at the top of `readLoop`; `true` = connection error sent -/
def contCheck (r : R) (fr : Frame) : R × Bool :=
  if r.s.expectCont != 0 then
    if fr.typ != Gen.c_FrameContinuation || fr.stream != r.s.expectCont then
      (writeGoAway r 0 Gen.c_ProtocolError "want-cont", true)
    else if Frame.hasFlag fr.flags Gen.c_FlagEndHeaders then ({ r with s := { r.s with expectCont := 0 } }, false)
    else (r, false)
  else if fr.typ == Gen.c_FrameContinuation then (writeGoAway r 0 Gen.c_ProtocolError "stray-cont", true)
  else if fr.typ == Gen.c_FrameHeaders && !Frame.hasFlag fr.flags Gen.c_FlagEndHeaders then
    ({ r with s := { r.s with expectCont := fr.stream } }, false)
  else (r, false)

/-- the scripted peer's own decoder follows what the peer announces, value by value (srv.go `noteSettings`): the value
is the most it will accept in a size update, and announcing less than before shrinks its table at once — after
"0, then 4096" the table is empty and stays at 0 octets until the server's encoder sends a size update -/
def peerAnnounce (d : Hpack.DecState) (v : Nat) : Hpack.DecState :=
  if v < d.limit then { d with limit := v, maxSize := v, dyn := Hpack.evict d.dyn v } else { d with limit := v }

/-- `handleSettings`: remember the peer's values, resize the encoder, acknowledge -/
def handleSettings (r : R) (st : Frame.SettingsVal) : R :=
  let announced := (st.pairs.filter fun p => p.1 == Gen.c_HeaderTableSize).getLast?
  let pd := (tableSizes st).foldl peerAnnounce r.s.peerDec
  -- the frame is applied on top of the stored settings: what it does not mention persists
  let ts := match announced with
    | some (_, v) => v
    | none => r.s.peerTableSize
  -- (the encoder itself is resized by the stream loop, which owns it: `slFrame`)
  let s := { r.s with peerFrameSize := st.frameSize, peerTableSize := ts, peerDec := pd }
  ({ r with s := s } : R).emit .settingsAck

/-- frames on stream 0 -/
def rlConnFrame (r : R) (fr : Frame) : R :=
  match fr.body with
  | .settings st => if !st.ack then slFrame (handleSettings r st) fr else r
  | .windowUpdate inc =>
    if inc == 0 then rlStop (writeGoAway r 0 Gen.c_ProtocolError "window increment of 0") else slFrame r fr
  | .ping ack b => if !ack then r.emit (.ping true b) else r
  | .goAway _ _ _ => rlStop r
  | _ => rlStop (writeGoAway r 0 Gen.c_ProtocolError "invalid frame")

/-- one parsed frame in `readLoop` -/
def rlFrame (r : R) (fr : Frame) : R :=
  let c := contCheck r fr
  if c.2 then rlStop c.1 else
  let r := c.1
  if fr.stream != 0 then
    -- checkFrameWithStream
    if fr.stream % 2 == 0 then rlStop (writeGoAway r 0 Gen.c_ProtocolError "invalid stream id")
    else if fr.typ == Gen.c_FramePing then rlStop (writeGoAway r 0 Gen.c_ProtocolError "ping is carrying a stream id")
    else if fr.typ == Gen.c_FramePushPromise then rlStop (writeGoAway r 0 Gen.c_ProtocolError "clients can't send push_promise frames")
    else slFrame r fr
  else rlConnFrame r fr

/-- parse and handle whatever complete frames the buffer holds -/
def rlDrain : Nat → R → R
  | 0, r => r
  | fuel + 1, r =>
    if r.s.rlStopped || r.s.inbuf.isEmpty then r else
    match Frame.readFrame Gen.c_defaultDataFrameSize r.s.inbuf with   -- sc.st.frameSize, what the server advertises
    | .ok fr n => rlDrain fuel (rlFrame { r with s := { r.s with inbuf := r.s.inbuf.drop n } } fr)
    | .unknownType _ n =>
      if r.s.inbuf.length < 9 + be24 r.s.inbuf then r   -- Discard blocks until the payload is all there
      else
        let r := { r with s := { r.s with inbuf := r.s.inbuf.drop n } }
        if r.s.expectCont != 0 then rlStop (writeGoAway r 0 Gen.c_ProtocolError "ext-in-block")
        else rlDrain fuel r
    | .err .io _ => r                                     -- wait for more octets
    | .err (.goAway code) _ => rlStop (writeGoAway r 0 code "frame-error")
    | .err _ _ => rlStop r                                -- connection dropped without GOAWAY

/-- teardown once either loop has stopped: ServeConn returns -/
def settle (r : R) : R :=
  if (r.s.rlStopped || r.s.slStopped) && !r.s.returned then
    { (r.emit .returned) with s := { r.s with returned := true, rlStopped := true, slStopped := true } }
  else r

inductive Event where
  | bytes (b : Bytes)
  | done (sid : Nat) (resp : Resp)
  | cut
  | idle
deriving Repr, Inhabited

def stepR (s : Srv) (ev : Event) : R :=
  let r : R := { s := s }
  let r := match ev with
    | .bytes b =>
      let r := { r with s := { r.s with inbuf := r.s.inbuf ++ b } }
      rlDrain (r.s.inbuf.length + 1) r
    | .done sid resp => slHandlerDone r sid resp
    | .cut => rlStop r
    | .idle => stopLoop (writeGoAway r 0 Gen.c_NoError "idle")
  settle r

def step (s : Srv) (ev : Event) : Srv × List Out :=
  let r := stepR s ev
  (r.s, r.out)

/-- the handshake: SETTINGS then WINDOW_UPDATE -/
def initOuts (s : Srv) : List Out :=
  -- `sc.st.Reset()`, then `SetMaxWindowSize`, `SetMaxConcurrentStreams` (which mark their values as present) and, with a
  -- limit configured, `SetMaxHeaderListSize`; `SetPush` is never called, so no ENABLE_PUSH goes out
  let st : Frame.SettingsVal := { windowSize := Gen.c_serverMaxWindow, maxStreams := s.cfg.maxStreams,
                                   headerSize := if s.cfg.maxHeaderList > 0 then s.cfg.maxHeaderList.toNat else 0,
                                   hasWindowSize := true, hasMaxStreams := true }
  let enc := Frame.settingsEncode st
  let rec pairs : Bytes → List (Nat × Nat)
    | k0 :: k1 :: v0 :: v1 :: v2 :: v3 :: rest => (k0 * 256 + k1, be32 [v0, v1, v2, v3]) :: pairs rest
    | _ => []
  [.settings (pairs enc), .wu 0 Gen.c_serverMaxWindow]

end H2.Server
