import H2.Gen.Consts
/-!
# C10 — abstract model of GOAWAY and the closing connection

What is kept of the server: the ids in the stream table, `lastID`, `closeRef`, the closing flag, whether
the stream loop has stopped; `writeGoAway` (last-stream-id = max(offending id, `lastID`), `closeRef`,
closing), the refusal of new streams while closing, `canCloseAfterGoAway` and the places where it is
consulted, and — as a table — which connection-scoped offence is answered with which error code and
whether the loop stops at once, stops if nothing is left to wait for, or goes on.
Ghost: the trace of GOAWAYs, streams opened / refused and requests dispatched, in order.
-/
namespace H2.Server.Abs.Closing

/-- every place the server writes a GOAWAY -/
inductive Offence where
  -- stream loop, frame for a stream that is not in the table
  | rstOnIdle            -- RST_STREAM for an id above `lastID`
  | frameOnClosed        -- HEADERS / DATA / CONTINUATION … for a stream that is closed
  | selfDependency       -- PRIORITY (or HEADERS priority field) naming its own stream
  | frameOnIdle          -- anything but HEADERS / PRIORITY for an id above `lastID`
  | lowerId              -- HEADERS on an id that has been used: not above `lastID`, or not above a refused id
  | prevHeadersOpen      -- HEADERS while the previous stream's header block is unfinished
  -- stream loop, `handleFrame` on a stream in the table
  | frameOnHalfClosed    -- HEADERS / DATA / CONTINUATION on a half-closed (remote) stream
  | headersOnFinished    -- HEADERS on a stream that is half-closed or closed
  | trailersWithoutEndStream
  | compression          -- HPACK decoding failed
  | headerListTooLarge   -- over SETTINGS_MAX_HEADER_LIST_SIZE
  | endHeadersIncomplete -- END_HEADERS with a field cut short
  | dataInHeaderBlock    -- DATA before the header block ended
  | dataOnHalfClosed
  | rstOnIdleKnown
  | priorityInHeaderBlock
  | windowUpdateOnIdle
  | windowUpdateZeroStream
  | invalidFrameOnStream
  -- stream loop, connection-level frames
  | streamWindowOverflow -- SETTINGS_INITIAL_WINDOW_SIZE pushes a stream window above 2^31-1
  | connWindowOverflow   -- WINDOW_UPDATE pushes the connection window above 2^31-1
  -- read loop
  | wantContinuation     -- anything but CONTINUATION on the same stream inside a header block
  | strayContinuation
  | extensionInHeaderBlock
  | evenStreamId
  | pingWithStreamId
  | pushPromiseFromClient
  | windowUpdateZeroConn
  | invalidFrameOnStreamZero
  | frameError (code : Nat)   -- the frame parser's verdict (size, padding, SETTINGS values)
  -- idle timer
  | idleTimeout
deriving Repr, DecidableEq, Inhabited

inductive Mode where
  | stop      -- the loop ends at once
  | ifDone    -- the loop ends if `canCloseAfterGoAway()`, else it goes on serving the promised streams
  | cont      -- the loop goes on
deriving Repr, DecidableEq, Inhabited

def NO_ERROR : Nat := Gen.c_NoError
def PROTOCOL_ERROR : Nat := Gen.c_ProtocolError
def FLOW_CONTROL_ERROR : Nat := Gen.c_FlowControlError
def STREAM_CLOSED : Nat := Gen.c_StreamClosedError
def FRAME_SIZE_ERROR : Nat := Gen.c_FrameSizeError
def COMPRESSION_ERROR : Nat := Gen.c_CompressionError
def ENHANCE_YOUR_CALM : Nat := Gen.c_EnhanceYourCalm

/-- the error code the server puts into the GOAWAY -/
def codeOf : Offence → Nat
  | .rstOnIdle | .selfDependency | .frameOnIdle | .lowerId | .prevHeadersOpen => PROTOCOL_ERROR
  | .frameOnClosed | .frameOnHalfClosed | .dataOnHalfClosed => STREAM_CLOSED
  | .headersOnFinished | .trailersWithoutEndStream | .endHeadersIncomplete | .dataInHeaderBlock
  | .rstOnIdleKnown | .priorityInHeaderBlock | .windowUpdateOnIdle | .windowUpdateZeroStream
  | .invalidFrameOnStream => PROTOCOL_ERROR
  | .compression => COMPRESSION_ERROR
  | .headerListTooLarge => ENHANCE_YOUR_CALM
  | .streamWindowOverflow | .connWindowOverflow => FLOW_CONTROL_ERROR
  | .wantContinuation | .strayContinuation | .extensionInHeaderBlock | .evenStreamId | .pingWithStreamId
  | .pushPromiseFromClient | .windowUpdateZeroConn | .invalidFrameOnStreamZero => PROTOCOL_ERROR
  | .frameError c => c
  | .idleTimeout => NO_ERROR

/-- what the loop does after the GOAWAY -/
def modeOf : Offence → Mode
  | .rstOnIdle | .frameOnClosed | .lowerId => .ifDone
  | .prevHeadersOpen => .cont
  | _ => .stop

/-- the GOAWAY names the offending stream (`writeGoAway(id, …)`) rather than none (`writeGoAway(0, …)`) -/
def namesStream : Offence → Bool
  | .streamWindowOverflow | .connWindowOverflow | .wantContinuation | .strayContinuation
  | .extensionInHeaderBlock | .evenStreamId | .pingWithStreamId | .pushPromiseFromClient
  | .windowUpdateZeroConn | .invalidFrameOnStreamZero | .frameError _ | .idleTimeout => false
  | _ => true

inductive Rec where
  | goAway (last code : Nat)
  | opened (id : Nat)
  | refused (id : Nat)
  | dispatched (id : Nat)
deriving Repr, DecidableEq, Inhabited

structure St where
  tbl : List Nat := []        -- ids in the stream table (only HEADERS opens a stream)
  lastID : Nat := 0
  lastRefused : Nat := 0      -- highest id of a refused stream
  closeRef : Nat := 0
  closing : Bool := false
  stopped : Bool := false     -- the stream loop is gone (then `ServeConn` returns)
  trace : List Rec := []      -- ghost
deriving Repr, Inhabited

inductive Ev where
  /-- a HEADERS frame that reaches the refusal check; `full`: `openStreams >= maxStreams` -/
  | hdrNew (id : Nat) (full : Bool)
  | offence (o : Offence) (sid : Nat)
  | dispatch (id : Nat)
  | close (id : Nat)
  /-- the check at the end of an iteration that handled a stream's frame or a handler's response:
  `if isClosing() && canCloseAfterGoAway() { break loop }` -/
  | check
  /-- the read loop ended without a GOAWAY of its own (EOF, peer's GOAWAY, dropped connection) -/
  | peerGone
deriving Repr, DecidableEq, Inhabited

/-- `canCloseAfterGoAway` -/
def canClose (st : St) : Bool := !(st.tbl.any fun id => id ≤ st.closeRef)

/-- `writeGoAway(sid, code, …)` -/
def writeGoAway (st : St) (sid code : Nat) : St :=
  let last := if sid > st.lastID then sid else st.lastID
  { st with trace := st.trace ++ [.goAway last code],
            closeRef := if sid ≠ 0 then st.lastID else st.closeRef,
            closing := true }

/-- what the loop does once the GOAWAY is written -/
def finish (st : St) : Mode → St
  | .stop => { st with stopped := true }
  | .ifDone => if canClose st then { st with stopped := true } else st
  | .cont => st

def offend (st : St) (o : Offence) (sid : Nat) : St :=
  finish (writeGoAway st (if namesStream o then sid else 0) (codeOf o)) (modeOf o)

/-- the lookup in front of everything: `if fr.Stream() <= sc.lastID { strm = strms.Search(fr.Stream()) }` -/
def knows (st : St) (id : Nat) : Bool := if id ≤ st.lastID then st.tbl.contains id else false

/-- written by the read loop or by the idle timer, i.e. from another goroutine than the stream loop: such a
GOAWAY can still go out after the stream loop has stopped -/
def otherGoroutine : Offence → Bool
  | .wantContinuation | .strayContinuation | .extensionInHeaderBlock | .evenStreamId | .pingWithStreamId
  | .pushPromiseFromClient | .windowUpdateZeroConn | .invalidFrameOnStreamZero | .frameError _ | .idleTimeout => true
  | _ => false

/-- one event while the stream loop runs -/
def stepLive (st : St) : Ev → St
  | .hdrNew id full =>
    if knows st id then st
    else if full || st.closing then { st with lastRefused := max st.lastRefused id, trace := st.trace ++ [.refused id] }
    else if id ≤ st.lastID || id ≤ st.lastRefused then offend st .lowerId id
    else { st with tbl := st.tbl ++ [id], lastID := id, trace := st.trace ++ [.opened id] }
  | .offence o sid => offend st o sid
  | .dispatch id => if st.tbl.contains id then { st with trace := st.trace ++ [.dispatched id] } else st
  | .close id => { st with tbl := st.tbl.erase id }
  | .check => if st.closing && canClose st then { st with stopped := true } else st
  | .peerGone => { st with stopped := true }

/-- does the event still happen once the stream loop has stopped -/
def survivesStop : Ev → Bool
  | .offence o _ => otherGoroutine o
  | _ => false

def step (st : St) (e : Ev) : St :=
  if st.stopped && !survivesStop e then st else stepLive st e

def run (st : St) : List Ev → St
  | [] => st
  | e :: es => run (step st e) es

def init : St := {}

/-! ## iterations of the stream loop -/

/-- the events after which the code looks: the check before `continue` / at the end of the iteration,
the read loop going away, and every GOAWAY except "previous stream headers not ended" -/
def looksAfter : Ev → Bool
  | .check | .peerGone => true
  | .offence o _ => modeOf o != .cont
  | _ => false

/-- events that cannot make the answer change: while closing a new stream is refused (or answered with a
GOAWAY that looks), and a dispatch touches neither the table nor `closeRef` -/
def harmless : Ev → Bool
  | .hdrNew .. | .dispatch _ => true
  | _ => false

/-- the shape of an iteration: it ends with an event after which the code looks, or it holds harmless
events only (a refused or ignored frame: `continue`) -/
def okIter (it : List Ev) : Bool :=
  it.all harmless || (match it.getLast? with | some e => looksAfter e | none => true)

/-! ## interleaving variant: a GOAWAY written by another goroutine

`closeIdleConn` (idle timer) and the read loop call `writeGoAway(0, …)` on their own goroutines while the
stream loop owns `lastID`. `writeGoAway` is not one atomic action: it loads `lastID`, queues the frame,
and only then stores the closing state. The stream loop's handling of a HEADERS frame is taken as ONE
atomic action here (the most favourable assumption); the other goroutine's `writeGoAway` as its three. -/
namespace Race

structure RSt where
  lastID : Nat := 0
  closing : Bool := false
  loaded : Option Nat := none     -- the other goroutine's local copy of `lastID`
  trace : List Rec := []
deriving Repr, DecidableEq

inductive Act where
  | slHeaders (id : Nat)   -- stream loop: refusal check, NewStream, lastID := id, dispatch — atomically
  | load                   -- other goroutine: `last := atomic.LoadUint32(&sc.lastID)`
  | send                   -- other goroutine: `sc.write(fr)` with the GOAWAY carrying `last`
  | setClosing             -- other goroutine: `atomic.StoreInt32(&sc.state, connStateClosed)`
deriving Repr, DecidableEq

def rstep (s : RSt) : Act → RSt
  | .slHeaders id =>
    if s.closing then { s with trace := s.trace ++ [.refused id] }
    else if id ≤ s.lastID then s
    else { s with lastID := id, trace := s.trace ++ [.opened id, .dispatched id] }
  | .load => { s with loaded := some s.lastID }
  | .send => match s.loaded with
    | some l => { s with trace := s.trace ++ [.goAway l NO_ERROR] }
    | none => s
  | .setClosing => { s with closing := true }

def rrun (s : RSt) : List Act → RSt
  | [] => s
  | a :: as => rrun (rstep s a) as

end Race

/-! ### the same protocol with `goAwayMu` (the code after the repair of F64)

Any number of writers outside the stream loop (read loop, idle timer, …), each running
`lock; last := lastID; queue GOAWAY(max last strm); state := closed; unlock` one step at a time, interleaved in any
way with the stream loop, whose `lock; closing?; lastID := id; unlock` section is atomic and can only run while the
lock is free (while a writer holds it the stream loop waits: the action does nothing and is retried later). -/
namespace Locked

structure LSt where
  lastID : Nat := 0
  closing : Bool := false
  holder : Option Nat := none          -- the writer holding `goAwayMu`
  pc : Nat → Nat := fun _ => 0         -- per writer: 0 not started, 1 locked, 2 loaded, 3 queued, 4 closed flag set, 5 unlocked
  loaded : Nat → Nat := fun _ => 0     -- per writer: its copy of `lastID`
  trace : List Rec := []

inductive Act where
  | slHeaders (id : Nat)     -- stream loop: HEADERS for a new id
  | w (i : Nat) (strm : Nat) -- writer `i` takes its next step (its GOAWAY names stream `strm`, 0 for none)
deriving Repr, DecidableEq

def upd (f : Nat → Nat) (i v : Nat) : Nat → Nat := fun j => if j = i then v else f j

def lstep (s : LSt) : Act → LSt
  | .slHeaders id =>
    if s.holder.isSome then s                       -- waits for the lock
    else if s.closing then { s with trace := s.trace ++ [.refused id] }
    else if id ≤ s.lastID then s
    else { s with lastID := id, trace := s.trace ++ [.opened id, .dispatched id] }
  | .w i strm =>
    match s.pc i with
    | 0 => if s.holder.isSome then s else { s with holder := some i, pc := upd s.pc i 1 }
    | 1 => { s with loaded := upd s.loaded i s.lastID, pc := upd s.pc i 2 }
    | 2 => { s with trace := s.trace ++ [.goAway (max (s.loaded i) strm) NO_ERROR], pc := upd s.pc i 3 }
    | 3 => { s with closing := true, pc := upd s.pc i 4 }
    | 4 => { s with holder := none, pc := upd s.pc i 5 }
    | _ => s

def lrun (s : LSt) : List Act → LSt
  | [] => s
  | a :: as => lrun (lstep s a) as

/-- a left-to-right checker of the trace: the highest id dispatched so far and whether a GOAWAY has been seen;
`none` once the property is broken -/
def ck : Option (Nat × Bool) → Rec → Option (Nat × Bool)
  | none, _ => none
  | some (m, g), .dispatched d => if g then none else some (max m d, g)
  | some (m, _), .goAway l _ => if l < m then none else some (m, true)
  | some mg, _ => some mg

/-- what the property asks of a trace: every GOAWAY's last-stream-id is at least every id dispatched before it, and
nothing is dispatched after a GOAWAY -/
def Truth (t : List Rec) : Prop := (t.foldl ck (some (0, false))).isSome

instance (t : List Rec) : Decidable (Truth t) := by unfold Truth; infer_instance

end Locked

end H2.Server.Abs.Closing
