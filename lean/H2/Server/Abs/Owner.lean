/-!
# Ownership of pooled objects across the goroutines of a connection (C19, ownership half)

A pooled object (frame header with its frame body, header field, stream, request context, client `Ctx`) is at
any moment free (in its pool), held by one actor (a goroutine), or in transit in a channel. The actions are the
hand-off points of the code:

* `acquire a o`   — `AcquireFrameHeader`, `AcquireFrame`, `NewStream`, `ctxPool.Get`, `acquireCtx` …
* `send a ch o`   — `sc.reader <- fr`, `sc.writer <- fr` (via `sc.write`), `sc.handlerDone <- strm`, `c.out <- fr`, `c.in <- ctx`
* `recv b ch o`   — the receiving loop takes it off the channel
* `release a o`   — `ReleaseFrameHeader` (stream loop's `releaseHandled`, write loop's `send`, `write` at `writeStop`),
                    `releaseStream`, `releaseCtx` …

`step` is partial: an action is possible only for an actor that holds the object (or a free object for `acquire`).
The verif pool tracker (`hooks_verif.go`) checks exactly this on the running code: `two-owners` is an `acquire`
of an object that is not free, `double-release` a `release` of an object nobody holds; and the harness reports
both as part of every result. So: the theorem says the discipline is safe; the tracker says the code follows it on
everything explored.
-/
namespace H2.Server.Owner

inductive Own where
  | free
  | held (actor : Nat)
  | queued (chan : Nat)
deriving DecidableEq, Repr

inductive Act where
  | acquire (actor obj : Nat)
  | send (actor chan obj : Nat)
  | recv (actor chan obj : Nat)
  | release (actor obj : Nat)
deriving Repr

abbrev St := Nat → Own

def init : St := fun _ => .free

def put (s : St) (o : Nat) (v : Own) : St := fun x => if x = o then v else s x

/-- one action; `none` = the action breaks the discipline (what the tracker reports as an anomaly) -/
def step (s : St) : Act → Option St
  | .acquire a o => if s o = .free then some (put s o (.held a)) else none
  | .send a ch o => if s o = .held a then some (put s o (.queued ch)) else none
  | .recv b ch o => if s o = .queued ch then some (put s o (.held b)) else none
  | .release a o => if s o = .held a then some (put s o .free) else none

def run (s : St) : List Act → Option St
  | [] => some s
  | a :: as => match step s a with
    | some s' => run s' as
    | none => none

/-- ghost history: how many times each object was acquired and released -/
def acquires (o : Nat) (as : List Act) : Nat := (as.filter fun a => match a with | .acquire _ o' => o' == o | _ => false).length
def releases (o : Nat) (as : List Act) : Nat := (as.filter fun a => match a with | .release _ o' => o' == o | _ => false).length

/-- an actor may touch an object only while it holds it -/
def mayTouch (s : St) (actor obj : Nat) : Prop := s obj = .held actor

end H2.Server.Owner
