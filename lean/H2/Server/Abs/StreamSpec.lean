import H2.Server.Abs.StreamSM
/-!
# C08 — the RFC side: stream states of RFC 7540 §5.1 and the reactions §5.1 / §6 allow

DESIGN.md Appendix D1 (Python rendering: `checklib/c08spec.py`). The state of a stream id is a function of
the HISTORY (frames received on it, what the server answered), not of the server's tables. `allowed` lists,
per state and frame, the reactions the RFC permits; answering a stream error with the connection error of
the same code is accepted, as the property says. The abstract frame / context / reaction vocabulary is
shared with `StreamSM` (it is just the alphabet); nothing here refers to the server's tables (`Pos`).
-/
namespace H2.Server.StreamSpec
open H2.Server.StreamSM (Fr Ctx Reaction Code Blk Inc BlockOn Pos Ev allB)

inductive SpecSt where
  /-- never used, above every id the peer has opened -/
  | idle
  /-- never used, below an id the peer has opened: implicitly closed (§5.1.1) -/
  | idleClosed
  /-- request HEADERS received, no END_STREAM yet. `blk`: its header block is still open -/
  | open (blk : Bool)
  /-- half-closed (remote): END_STREAM received. `blk`: the block that carried it is still open -/
  | hcr (blk : Bool)
  /-- closed by the peer's RST_STREAM; `recent`: within the "short period" of §5.1 -/
  | closedPeer (recent : Bool)
  /-- closed by the server's RST_STREAM (any code, refusal included) -/
  | closedOur (recent : Bool)
  /-- both directions ended with END_STREAM -/
  | closedDone (recent : Bool)
  /-- an even id: not the peer's to use -/
  | evenId
deriving Repr, DecidableEq, Inhabited

def b2n (b : Bool) : Nat := if b then 1 else 0
def SpecSt.code : SpecSt → Nat
  | .idle => 0 | .idleClosed => 1 | .open b => 2 + b2n b | .hcr b => 4 + b2n b | .closedPeer b => 6 + b2n b
  | .closedOur b => 8 + b2n b | .closedDone b => 10 + b2n b | .evenId => 12

/-- `==` by comparing a numeric code: cheap to evaluate in the kernel, and lawful -/
instance : BEq SpecSt := ⟨fun a b => a.code == b.code⟩

theorem SpecSt.code_inj {a b : SpecSt} (h : a.code = b.code) : a = b := by
  cases a <;> cases b <;> simp only [SpecSt.code] at h
  all_goals first
    | rfl
    | (next x y => cases x <;> cases y <;> simp [b2n] at h <;> rfl)
    | (next x => cases x <;> simp [b2n] at h)
    | omega

instance : LawfulBEq SpecSt where
  eq_of_beq {a b} h := SpecSt.code_inj ((beq_iff_eq (a := a.code) (b := b.code)).mp h)
  rfl {a} := (beq_iff_eq (a := a.code) (b := a.code)).mpr rfl

def SpecSt.forall (q : SpecSt → Bool) : Bool :=
  q .idle && q .idleClosed && (allB fun b => q (.open b)) && (allB fun b => q (.hcr b)) && (allB fun b => q (.closedPeer b)) &&
  (allB fun b => q (.closedOur b)) && (allB fun b => q (.closedDone b)) && q .evenId

def isOk : Reaction → Bool
  | .process | .ignore => true
  | _ => false

/-- `r` is the stream error `c`, or the connection error of the same code -/
def errOf (c : Code) (r : Reaction) : Bool := r == .streamErr c || r == .connErr c

def isCont : Fr → Bool | .cont .. => true | _ => false

/-- what a header fragment of class `blk` calls for, given what it would be if it were fine -/
def onBlock (blk : Blk) (fine : Reaction → Bool) (r : Reaction) : Bool :=
  match blk with
  | .wf => fine r
  | .malformed => errOf .protocol r            -- §8.1.2.6: malformed message, stream error PROTOCOL_ERROR
  | .tooLarge => errOf .calm r                 -- over a limit of the server: ENHANCE_YOUR_CALM (by design)
  | .undecodable => r == .connErr .compression -- §4.3
  | .listTooLong => r == .connErr .calm || r == .streamErr .calm

/-- a request that is complete with this frame is dispatched — unless its content-length disagrees with the
DATA received (§8.1.2.6) -/
def onComplete (c : Ctx) (r : Reaction) : Bool :=
  if c.clMismatch then errOf .protocol r else r == .dispatch

/-- §5.1.2: a HEADERS frame over the concurrency limit (or after GOAWAY) may be refused -/
def overLimit (c : Ctx) (r : Reaction) : Bool :=
  c.refuse && (r == .streamErr .refused || r == .streamErr .protocol)

/-- The reactions RFC 7540 allows for frame `f` on a stream in state `σ` in context `c`. -/
def allowed (σ : SpecSt) (f : Fr) (c : Ctx) (r : Reaction) : Bool :=
  -- §6.2 / §6.10: while a header block is open only CONTINUATION on that stream may follow
  if c.block != .none && !(isCont f && c.block == .this) then r == .connErr .protocol
  else if c.block == .none && isCont f then r == .connErr .protocol
  else match f with
  | .ext => r == .ignore                                         -- §4.1
  | .ping | .pushPromise => r == .connErr .protocol              -- §6.6, §6.7, §8.2
  | _ =>
  if σ == .evenId then r == .connErr .protocol                   -- §5.1.1
  else match f with
  | .cont eh _ blk =>
    match σ with
    | .open true => onBlock blk isOk r
    | .hcr true => onBlock blk (fun r => if eh then onComplete c r else isOk r) r
    | .closedOur _ => isOk r || r == .streamErr .streamClosed     -- the block of a stream we reset: ignored
    | _ => false                                                  -- no block can be open on such a stream (`consistent`)
  | .headers es eh selfDep blk =>
    match σ with
    | .idle =>
      -- §5.1.2: over the limit (or going away) the stream may be refused instead, whatever it carries
      overLimit c r ||
      (if selfDep then errOf .protocol r                          -- §5.3.1
       else onBlock blk (fun r => if es && eh then onComplete c r else isOk r) r)
    | .idleClosed =>                                              -- §5.1.1 (and §5.1.2 when over the limit)
      r == .connErr .protocol || r == .connErr .streamClosed || overLimit c r
    | .open _ =>
      -- §8.1: a second block must end the stream (§8.1.2.6: a malformed request); its block may be refused
      -- for what it is just as well (§4.3: a block that cannot be decoded is always a connection error)
      if !es then errOf .protocol r || (blk != .wf && onBlock blk isOk r)
      else if selfDep then errOf .protocol r
      else onBlock blk (fun r => if eh then onComplete c r else isOk r) r
    | .hcr _ => errOf .streamClosed r                             -- §5.1 half-closed (remote)
    | .closedPeer recent => errOf .streamClosed r || r == .connErr .protocol || (!recent && overLimit c r)
    | .closedOur recent =>
      -- §5.1: frames in flight when we reset the stream are ignored — never a connection error;
      -- after "a short period" they may be treated as errors
      isOk r || r == .streamErr .streamClosed ||
      (!recent && (r == .connErr .streamClosed || r == .connErr .protocol || overLimit c r))
    | .closedDone recent => errOf .streamClosed r || r == .connErr .protocol || (!recent && overLimit c r)
    | .evenId => false
  | .data es overBody =>
    match σ with
    | .idle => r == .connErr .protocol
    | .idleClosed => errOf .streamClosed r || r == .connErr .protocol
    | .open _ =>
      if overBody then errOf .calm r
      else if es then onComplete c r else isOk r
    | .hcr _ => errOf .streamClosed r
    | .closedPeer _ => errOf .streamClosed r
    | .closedOur recent =>
      isOk r || r == .streamErr .streamClosed || (!recent && (r == .connErr .streamClosed || r == .connErr .protocol))
    | .closedDone _ => errOf .streamClosed r
    | .evenId => false
  | .priority selfDep =>
    -- §5.3, §6.3: PRIORITY is fine in every state, however long ago the stream closed
    if !selfDep then isOk r
    else match σ with
      | .idle | .open _ | .hcr _ => errOf .protocol r
      | _ => isOk r || errOf .protocol r
  | .rst =>
    match σ with
    | .idle => r == .connErr .protocol                            -- §6.4
    | .idleClosed => isOk r || r == .connErr .protocol
    | .closedOur false => isOk r || r == .connErr .protocol      -- long after the server's own reset (§5.1)
    | _ => isOk r
  | .wu inc =>
    match σ with
    | .idle => r == .connErr .protocol                            -- §5.1
    | .idleClosed => isOk r || errOf .streamClosed r || errOf .protocol r
    | .open _ | .hcr _ =>
      match inc with
      | .zero => errOf .protocol r                                -- §6.9
      | .over => errOf .flowControl r                             -- §6.9.1
      | _ => isOk r
    | .closedPeer recent | .closedDone recent => isOk r || (!recent && errOf .streamClosed r)
    | .closedOur recent => isOk r || (!recent && (errOf .streamClosed r || errOf .protocol r))
    | .evenId => false
  | .other =>
    -- SETTINGS / GOAWAY with a stream id: §6.5, §6.8 connection error PROTOCOL_ERROR; the §5.1 rule of the
    -- stream's state for "any other frame" is accepted as well
    r == .connErr .protocol ||
    (match σ with
     | .hcr _ | .closedPeer _ | .closedDone _ | .idleClosed => errOf .streamClosed r
     | .closedOur recent => isOk r || errOf .streamClosed r && !recent || r == .streamErr .streamClosed
     | _ => false)
  | _ => false

/-- the state after the frame, given how the server reacted (a connection error ends everything) -/
def next (σ : SpecSt) (f : Fr) (r : Reaction) : SpecSt :=
  match r with
  | .connErr _ => σ
  | .streamErr _ => .closedOur true
  | _ =>
    match σ with
    | .idle => (match f with | .headers es eh _ _ => if es then .hcr (!eh) else .open (!eh) | _ => σ)
    | .open false =>
      (match f with
       | .headers _ eh _ _ => .hcr (!eh)
       | .data es _ => if es then .hcr false else .open false
       | .rst => .closedPeer true
       | _ => σ)
    | .open true => (match f with | .cont eh _ _ => .open (!eh) | .rst => .closedPeer true | _ => σ)
    | .hcr true => (match f with | .cont eh _ _ => .hcr (!eh) | .rst => .closedPeer true | _ => σ)
    | .hcr false => (match f with | .rst => .closedPeer true | _ => σ)
    | σ => σ

/-- what the other events mean for the RFC state: the response ends (END_STREAM, or RST_STREAM after a body
read error), a higher id is used (§5.1.1: lower idle ids are closed implicitly), time passes (the "short
period" of §5.1 is over when the server forgets the id) -/
def envNext (σ : SpecSt) : Ev → SpecSt
  | .frame .. => σ
  | .handlerDone fin rstByUs _ =>
    if !fin then σ else
    (match σ with
     | .hcr false => if rstByUs then .closedOur true else .closedDone true
     | σ => σ)
  | .respEnd rstByUs _ =>
    (match σ with
     | .hcr false => if rstByUs then .closedOur true else .closedDone true
     | σ => σ)
  | .newer | .higherRefused => (match σ with | .idle => .idleClosed | σ => σ)
  | .evictRing => (match σ with | .closedPeer _ => .closedPeer false | .closedDone _ => .closedDone false | σ => σ)
  | .forgetReset => (match σ with | .closedOur _ => .closedOur false | σ => σ)

/-- what the read loop's CONTINUATION bookkeeping implies: the context and the history agree on whether a
header block is open on this stream -/
def consistent (σ : SpecSt) (c : Ctx) : Bool :=
  (match σ with
   | .open true | .hcr true => c.block == .this
   | .closedOur true => true
   | _ => c.block != .this) &&
  (!c.prevUnfinished || c.block != .none)

/-- The simulation relation: the places the server's tables can have a stream whose RFC state is `σ`.
(`tab idle …` / `tab closed …` occur only inside a step or after a connection error; they relate to nothing.) -/
def sim (p : Pos) (σ : SpecSt) : Bool :=
  match p with
  | .tab st hf responded running =>
    (match st with
     | .open => !responded && !running && σ == .open (!hf)
     | .halfClosed =>
       if hf then responded && σ == .hcr false            -- dispatched: the handler runs, or the response is going out
       else !responded && !running && σ == .hcr true       -- END_STREAM seen, the block that carried it still open
     | _ => false)
  | .out byUs inRing cmp =>
    if byUs then
      -- reset by the server and still remembered: in the ring if it had been opened, else (refused) in the gap
      σ == .closedOur true && (match cmp with | .above => false | .gap => !inRing | _ => true)
    else if inRing then
      -- recently closed
      (match cmp with
       | .equal | .below => σ == .closedPeer true || σ == .closedDone true || σ == .closedOur false
       | _ => false)
    else
      -- forgotten, or never used
      (match cmp with
       | .below => σ == .idleClosed || σ == .closedPeer false || σ == .closedDone false || σ == .closedOur false
       | .equal => σ == .closedPeer false || σ == .closedDone false || σ == .closedOur false
       | .gap => σ == .idleClosed || σ == .closedOur false
       | .above => σ == .idle)
  | .even => σ == .evenId

/-- The frame is one the RFC lets the peer send now, inside the server's limits: the server has to take it
without any error. (Per stream: `HEADERS [CONTINUATION*] DATA* [HEADERS+END_STREAM [CONTINUATION*]]`;
PRIORITY anywhere between blocks, idle and long-closed streams included; WINDOW_UPDATE up to 2^31-1 while
the stream is open or shortly after; RST_STREAM once it is not idle; frames in flight on a stream the
server has just reset.) -/
def legal (σ : SpecSt) (f : Fr) (c : Ctx) : Bool :=
  !c.clMismatch &&
  (match f with
   | .cont _ _ blk => c.block == .this && blk == .wf
   | _ => c.block == .none) &&
  (match σ with
   | .idle =>
     (match f with
      | .headers _ _ selfDep blk => !selfDep && blk == .wf && !c.refuse
      | .priority selfDep => !selfDep
      | _ => false)
   | .idleClosed => (match f with | .priority selfDep => !selfDep | _ => false)
   | .open false =>
     (match f with
      | .data _ overBody => !overBody
      | .headers es _ selfDep blk => es && !selfDep && blk == .wf
      | .priority selfDep => !selfDep
      | .wu inc => inc == .fits || inc == .exact
      | .rst => true
      | _ => false)
   | .open true => (match f with | .cont .. => true | _ => false)
   | .hcr true => (match f with | .cont .. => true | _ => false)
   | .hcr false =>
     (match f with
      | .priority selfDep => !selfDep
      | .wu inc => inc == .fits || inc == .exact
      | .rst => true
      | _ => false)
   | .closedPeer recent | .closedDone recent =>
     (match f with
      | .priority selfDep => !selfDep
      | .wu _ => recent
      | .rst => recent
      | _ => false)
   | .closedOur recent =>
     (match f with
      | .priority selfDep => !selfDep
      | .ext | .ping | .pushPromise | .other => false
      | _ => recent)          -- whatever was in flight when the server reset the stream
   | .evenId => false)

/-- with this frame the frames received on the stream form a complete request:
`HEADERS [CONTINUATION*] DATA* [HEADERS+END_STREAM [CONTINUATION*]]`, END_STREAM seen, last block ended -/
def completes (σ : SpecSt) (f : Fr) : Bool :=
  match σ with
  | .idle => (match f with | .headers es eh _ _ => es && eh | _ => false)
  | .open false =>
    (match f with
     | .data es _ => es
     | .headers es eh _ _ => es && eh
     | _ => false)
  | .hcr true => (match f with | .cont eh _ _ => eh | _ => false)
  | _ => false

end H2.Server.StreamSpec
