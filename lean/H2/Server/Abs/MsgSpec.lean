import H2.Base
import H2.Gen.Consts
/-!
# C20 — the specification side: a well-formed request (RFC 7540 §8.1.2, DESIGN.md Appendix D2), and what
the handler is to see of it (C01)

Declarative, over the decoded header list `hs`, the decoded trailer list `trailers` and the number of DATA
octets `dataLen`. Nothing here looks at how the server validates; it only says what a well-formed message is
and which view of it the handler gets.
(Vocabulary as in the property text: CONNECT and octets outside the HTTP token / field-value grammar are
not treated, RFC 7540 does not fix them.)
-/
namespace H2.Server.MsgSpec

abbrev Field := Bytes × Bytes

def upperFree (k : Bytes) : Prop := ∀ c ∈ k, ¬ (65 ≤ c ∧ c ≤ 90)
def Pseudo (k : Bytes) : Prop := k.head? = some 58            -- the name starts with ':'

def sMethod : Bytes := Gen.s_StringMethod
def sScheme : Bytes := Gen.s_StringScheme
def sPath : Bytes := Gen.s_StringPath
def sAuthority : Bytes := Gen.s_StringAuthority
def sContentLength : Bytes := Gen.s_StringContentLength
def sContentType : Bytes := Gen.s_StringContentType
def sUserAgent : Bytes := Gen.s_StringUserAgent
def requestPseudo : List Bytes := [sMethod, sScheme, sPath, sAuthority]

/-- `1*DIGIT` -/
def Digits (v : Bytes) : Prop := v ≠ [] ∧ ∀ c ∈ v, 48 ≤ c ∧ c ≤ 57
/-- the decimal value as an unbounded integer -/
def natVal (v : Bytes) : Nat := v.foldl (fun a c => a * 10 + (c - 48)) 0

def ConnSpecific (k : Bytes) : Prop := k ∈ Gen.connectionSpecific
def TEok (f : Field) : Prop := f.1 = Gen.s_StringTE → f.2 = Gen.s_StringTrailers

instance (k : Bytes) : Decidable (upperFree k) := by unfold upperFree; exact inferInstance
instance (k : Bytes) : Decidable (Pseudo k) := by unfold Pseudo; exact inferInstance
instance (v : Bytes) : Decidable (Digits v) := by unfold Digits; exact inferInstance
instance (k : Bytes) : Decidable (ConnSpecific k) := by unfold ConnSpecific; exact inferInstance
instance (f : Field) : Decidable (TEok f) := by unfold TEok; exact inferInstance

structure WFRequest (hs trailers : List Field) (dataLen : Nat) : Prop where
  /-- (1) no name contains `A`–`Z` -/
  lower : ∀ f ∈ hs, upperFree f.1
  /-- (2) every pseudo-header precedes every regular field -/
  order : hs.Pairwise fun a b => Pseudo b.1 → Pseudo a.1
  /-- (3) only the request pseudo-headers, each at most once -/
  known : ∀ f ∈ hs, Pseudo f.1 → f.1 ∈ requestPseudo
  once : ∀ p ∈ requestPseudo, hs.countP (fun f => f.1 = p) ≤ 1
  /-- (4) `:method`, `:scheme`, `:path` present, `:path` not empty -/
  method : ∃ f ∈ hs, f.1 = sMethod
  scheme : ∃ f ∈ hs, f.1 = sScheme
  path : ∃ f ∈ hs, f.1 = sPath ∧ f.2 ≠ []
  /-- (5) no connection-specific field -/
  noConn : ∀ f ∈ hs, ¬ ConnSpecific f.1
  /-- (6) `te` only with the value `trailers` -/
  te : ∀ f ∈ hs, TEok f
  /-- (7) every `content-length` is `1*DIGIT` and equals the number of DATA octets -/
  cl : ∀ f ∈ hs, f.1 = sContentLength → Digits f.2 ∧ natVal f.2 = dataLen
  /-- (8) trailers: no pseudo-header, and (1), (5), (6) -/
  trailers : ∀ f ∈ trailers, upperFree f.1 ∧ ¬ Pseudo f.1 ∧ ¬ ConnSpecific f.1 ∧ TEok f

/-! ## the request as the handler is to see it (C01) -/

/-- method, path, authority; then the fields: the content-type slot, the user-agent slot, and every other
regular field in arrival order (content-length is not among them) -/
structure View where
  method : Bytes
  path : Bytes
  authority : Bytes
  fields : List Field
deriving Repr, DecidableEq

/-- value of the (first) field named `name` -/
def valueOf (name : Bytes) (fs : List Field) : Bytes := ((fs.find? fun f => f.1 = name).map (·.2)).getD []
/-- value of the last field named `name` -/
def lastOf (name : Bytes) (fs : List Field) : Option Bytes := ((fs.filter fun f => f.1 = name).getLast?).map (·.2)
/-- a regular field that is handed on as it is -/
def plain (f : Field) : Bool :=
  !(f.1.head? == some 58) && !(f.1 == sUserAgent) && !(f.1 == sContentType) && !(f.1 == sContentLength)

/-- "the handler sees exactly the fields the peer sent, in order, none invented, none lost": pseudo-headers
become method / path / authority; content-type and user-agent are single slots (the last value), listed
first; every other regular field of the header block and then of the trailer block, in arrival order. -/
def specView (hs trailers : List Field) : View :=
  let all := hs ++ trailers
  { method := valueOf sMethod hs, path := valueOf sPath hs, authority := valueOf sAuthority hs,
    fields := ((lastOf sContentType all).map fun v => (sContentType, v)).toList ++
              ((lastOf sUserAgent all).map fun v => (sUserAgent, v)).toList ++ all.filter plain }

end H2.Server.MsgSpec
