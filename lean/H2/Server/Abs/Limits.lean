/-!
# C13 — abstract model of the request-size limits (`MaxRequestBodySize`, `MaxHeaderListSize`)

Per stream: the octets of DATA counted so far (`recvBody`), the octets appended to the request body, the
size of the header list decoded so far (Σ name + value + 32, RFC 7540 §6.5.2). The two checks:
`handleFrame` (DATA): `recvBody += len(data); if max > 0 && recvBody > max → RST_STREAM(ENHANCE_YOUR_CALM)`,
the frame is not appended; `handleHeaderFrame` (field loop): `size += …; if max > 0 && size > max →
GOAWAY(ENHANCE_YOUR_CALM)`. The size only grows, so checking after every field rejects exactly the header
blocks whose total passes the limit; the model takes the growth of one frame as one event.
The list size counts decoded fields only. The octets of a field that is not complete at the end of a frame are
carried over to the next CONTINUATION (`strm.previousHeaderBytes`, here `held`); they are refused with the same
GOAWAY as soon as there are more than `heldFactor * max` of them (`hdrTail`; F68 repaired): HPACK wire octets
decode to at least 8/30 of their number, so such a field could never fit the list limit.
A stream that broke a limit is never handed to a handler (it is reset, or the connection ends).
Ghost: the trace of rejections and of what each dispatched request carried.
-/
namespace H2.Server.Abs.Limits

structure Strm where
  id : Nat
  recv : Nat := 0      -- strm.recvBody
  body : Nat := 0      -- len(ctx.Request.Body())
  hdr : Nat := 0       -- strm.headerListSize
  held : Nat := 0      -- len(strm.previousHeaderBytes): octets of a field that is not complete yet
  dead : Bool := false -- broke a limit: reset / connection error, never dispatched
deriving Repr, DecidableEq, Inhabited

inductive Rec where
  | bodyTooLarge (id : Nat)
  | hdrTooLarge (id : Nat)
  | fieldTooLarge (id : Nat)        -- an unfinished field longer than any field within the list limit
  | handed (id body hdr : Nat)      -- request dispatched with `body` octets of body and a header list of size `hdr`
deriving Repr, DecidableEq, Inhabited

structure St where
  maxBody : Nat            -- sc.maxRequestBodySize (0: no limit)
  maxHdr : Int             -- sc.maxHeaderList (≤ 0: no limit)
  tbl : List Strm := []
  trace : List Rec := []
deriving Repr, Inhabited

inductive Ev where
  | opened (id : Nat)
  | hdrBytes (id n : Nat)      -- one HEADERS/CONTINUATION frame made the header list grow by `n`
  | hdrTail (id n : Nat)       -- the field loop of that frame is left with `n` octets of an unfinished field (0: none)
  | data (id n : Nat)          -- a DATA frame with `n` octets of data (padding removed) reaches the body check
  | dispatch (id : Nat)
  | close (id : Nat)
deriving Repr, DecidableEq, Inhabited

def upd (f : Strm → Strm) (id : Nat) : List Strm → List Strm
  | [] => []
  | s :: rest => if s.id = id then f s :: rest else s :: upd f id rest

def get (id : Nat) : List Strm → Option Strm
  | [] => none
  | s :: rest => if s.id = id then some s else get id rest

def del (id : Nat) : List Strm → List Strm
  | [] => []
  | s :: rest => if s.id = id then rest else s :: del id rest

/-- `maxHeldHeaderFactor` -/
def heldFactor : Nat := 4

/-- `sc.maxHeaderList > 0 && len(b) > maxHeldHeaderFactor*sc.maxHeaderList` -/
def fieldTooLong (maxHdr : Int) (n : Nat) : Bool := maxHdr > 0 && (n : Int) > (heldFactor : Int) * maxHdr

def step (st : St) : Ev → St
  | .opened id => { st with tbl := st.tbl ++ [{ id := id }] }
  | .hdrBytes id n =>
    match get id st.tbl with
    | none => st
    | some s =>
      let h := s.hdr + n
      if st.maxHdr > 0 ∧ (h : Int) > st.maxHdr then
        { st with tbl := upd (fun x => { x with hdr := x.hdr + n, dead := true }) id st.tbl, trace := st.trace ++ [.hdrTooLarge id] }
      else { st with tbl := upd (fun x => { x with hdr := x.hdr + n }) id st.tbl }
  | .hdrTail id n =>
    match get id st.tbl with
    | none => st
    | some _ =>
      if fieldTooLong st.maxHdr n then   -- refused: nothing is stored
        { st with tbl := upd (fun x => { x with held := 0, dead := true }) id st.tbl, trace := st.trace ++ [.fieldTooLarge id] }
      else { st with tbl := upd (fun x => { x with held := n }) id st.tbl }
  | .data id n =>
    match get id st.tbl with
    | none => st
    | some s =>
      let r := s.recv + n
      if st.maxBody > 0 ∧ r > st.maxBody then
        { st with tbl := upd (fun x => { x with recv := x.recv + n, dead := true }) id st.tbl, trace := st.trace ++ [.bodyTooLarge id] }
      else { st with tbl := upd (fun x => { x with recv := x.recv + n, body := x.body + n }) id st.tbl }
  | .dispatch id =>
    match get id st.tbl with
    | none => st
    | some s => if s.dead then st else { st with trace := st.trace ++ [.handed id s.body s.hdr] }
  | .close id => { st with tbl := del id st.tbl }

def run (st : St) : List Ev → St
  | [] => st
  | e :: es => run (step st e) es

def init (maxBody : Nat) (maxHdr : Int) : St := { maxBody := maxBody, maxHdr := maxHdr }

end H2.Server.Abs.Limits
