/-!
# C08 — abstract model of the server's per-stream decision logic

What `serverConn.go` decides about ONE frame that carries a stream id, as a function over small finite
types: the place of the frame's stream in the server's tables (`Pos`), the frame reduced to what the
decisions read (`Fr`), and the connection context (`Ctx`). The result is the class of the reaction and the
stream's next place. One Go function ↔ one Lean definition:

* `readLoop` sequencing rules + `checkFrameWithStream`  → `rl`
* the unknown-stream branch of `handleStreams`           → `unknown`
* `verifyState`, `handleFrame`, `handleHeaderFrame` (the checks before/after the field loop; the field
  loop's own verdict arrives as the block class `Blk`, computed by the C20 model `Msg`) → same names
* `handleState`, the dispatch condition, `closeStream`   → `handleState`, `afterLookup`

All types are finite enumerations (the `forall` combinators at the end range over them), so the theorems of
`H2.Props.C08` are closed by evaluation over the whole table.
-/
namespace H2.Server.StreamSM

/-- `Stream.state` (the value `reserved` is never assigned by the server) -/
inductive TSt where
  | idle | open | halfClosed | closed
deriving Repr, DecidableEq, Inhabited

/-- the frame's stream id against `sc.lastID` (newest stream opened) and `lastRefused` (highest id refused):
`above` both; `gap`: above `lastID` but not above `lastRefused`; `equal` to / `below` `lastID` -/
inductive Cmp where
  | above | gap | equal | below
deriving Repr, DecidableEq, Inhabited

/-- where the server's tables have the frame's stream -/
inductive Pos where
  /-- in `strms`: state, `headersFinished`, `responded`, `handlerRunning` -/
  | tab (st : TSt) (hf responded running : Bool)
  /-- not in `strms`: in `resetByUs`? in `closedStrms` (the ring)? id against `lastID` -/
  | out (byUs inRing : Bool) (cmp : Cmp)
  /-- an even id: never in any table -/
  | even
deriving Repr, DecidableEq, Inhabited

/-- WINDOW_UPDATE increment against the stream's send window -/
inductive Inc where
  | zero | fits | exact | over          -- 0; window+inc < 2^31-1; = 2^31-1; > 2^31-1
deriving Repr, DecidableEq, Inhabited

/-- verdict of the field loop (+ `validateRequestPseudoHeaders` at END_HEADERS) on the fragment, for the
position of the block in the message — the C20 model `Msg` computes it -/
inductive Blk where
  | wf            -- every field accepted (request block in request position, trailer block in trailer position)
  | malformed     -- RST_STREAM(PROTOCOL_ERROR) from the field loop or the pseudo-header check
  | tooLarge      -- content-length above MaxRequestBodySize: RST_STREAM(ENHANCE_YOUR_CALM)
  | undecodable   -- HPACK error, or a field cut short at END_HEADERS: GOAWAY(COMPRESSION_ERROR)
  | listTooLong   -- header list above MaxHeaderListSize, or an unfinished field already longer than any field within
                  -- it can be (only without END_HEADERS; F68): GOAWAY(ENHANCE_YOUR_CALM)
deriving Repr, DecidableEq, Inhabited

inductive Fr where
  | data (es overBody : Bool)                       -- overBody: recvBody would exceed MaxRequestBodySize
  | headers (es eh selfDep : Bool) (blk : Blk)
  | priority (selfDep : Bool)
  | rst
  | wu (inc : Inc)
  | cont (eh flag1 : Bool) (blk : Blk)              -- flag1: the undefined flag bit 0x1
  | ping | pushPromise                              -- with a stream id
  | other                                           -- SETTINGS / GOAWAY with a stream id
  | ext                                             -- unknown frame type
deriving Repr, DecidableEq, Inhabited

/-- is a header block open (HEADERS without END_HEADERS seen by the read loop)? -/
inductive BlockOn where
  | none | this | other
deriving Repr, DecidableEq, Inhabited

structure Ctx where
  block : BlockOn
  /-- `openStreams >= maxStreams || wasClosing`: a new stream is refused -/
  refuse : Bool
  /-- `getPrevious(FrameHeaders)` exists and has `!headersFinished` -/
  prevUnfinished : Bool
  /-- the stream is the newest one opened (`id == lastID`) -/
  isLast : Bool
  /-- `hasContentLength && recvBody != contentLength` once this frame is in (C20's last clause) -/
  clMismatch : Bool
deriving Repr, DecidableEq, Inhabited

inductive Code where
  | protocol | flowControl | streamClosed | refused | compression | calm
deriving Repr, DecidableEq, Inhabited

def Code.num : Code → Nat
  | .protocol => 1 | .flowControl => 3 | .streamClosed => 5 | .refused => 7 | .compression => 9 | .calm => 11

inductive Reaction where
  | process                 -- took effect on a stream in the table
  | ignore                  -- dropped, nothing changes
  | dispatch                -- processed, and the request goes to the handler
  | streamErr (c : Code)    -- RST_STREAM(c) on the frame's stream (REFUSED_STREAM: the stream is refused)
  | connErr (c : Code)      -- GOAWAY(c)
deriving Repr, DecidableEq, Inhabited

/-! `==` on these small types by comparing a numeric code: cheap to evaluate in the kernel, and lawful. -/

def TSt.code : TSt → Nat | .idle => 0 | .open => 1 | .halfClosed => 2 | .closed => 3
def Cmp.code : Cmp → Nat | .above => 0 | .gap => 1 | .equal => 2 | .below => 3
def Inc.code : Inc → Nat | .zero => 0 | .fits => 1 | .exact => 2 | .over => 3
def Blk.code : Blk → Nat | .wf => 0 | .malformed => 1 | .tooLarge => 2 | .undecodable => 3 | .listTooLong => 4
def BlockOn.code : BlockOn → Nat | .none => 0 | .this => 1 | .other => 2
def Reaction.code : Reaction → Nat
  | .process => 0 | .ignore => 1 | .dispatch => 2 | .streamErr c => 20 + c.num | .connErr c => 40 + c.num

instance : BEq TSt := ⟨fun a b => a.code == b.code⟩
instance : BEq Cmp := ⟨fun a b => a.code == b.code⟩
instance : BEq Inc := ⟨fun a b => a.code == b.code⟩
instance : BEq Blk := ⟨fun a b => a.code == b.code⟩
instance : BEq BlockOn := ⟨fun a b => a.code == b.code⟩
instance : BEq Code := ⟨fun a b => a.num == b.num⟩
instance : BEq Reaction := ⟨fun a b => a.code == b.code⟩

instance : LawfulBEq TSt where
  eq_of_beq {a b} h := by cases a <;> cases b <;> first | rfl | exact absurd h (by decide)
  rfl {a} := by cases a <;> decide
instance : LawfulBEq Cmp where
  eq_of_beq {a b} h := by cases a <;> cases b <;> first | rfl | exact absurd h (by decide)
  rfl {a} := by cases a <;> decide
instance : LawfulBEq Inc where
  eq_of_beq {a b} h := by cases a <;> cases b <;> first | rfl | exact absurd h (by decide)
  rfl {a} := by cases a <;> decide
instance : LawfulBEq Blk where
  eq_of_beq {a b} h := by cases a <;> cases b <;> first | rfl | exact absurd h (by decide)
  rfl {a} := by cases a <;> decide
instance : LawfulBEq BlockOn where
  eq_of_beq {a b} h := by cases a <;> cases b <;> first | rfl | exact absurd h (by decide)
  rfl {a} := by cases a <;> decide
instance : LawfulBEq Code where
  eq_of_beq {a b} h := by cases a <;> cases b <;> first | rfl | exact absurd h (by decide)
  rfl {a} := by cases a <;> decide
theorem Code.num_inj {a b : Code} (h : a.num = b.num) : a = b := by
  cases a <;> cases b <;> first | rfl | exact absurd h (by decide)

theorem Reaction.code_inj {a b : Reaction} (h : a.code = b.code) : a = b := by
  have hn : ∀ c : Code, c.num < 20 := by intro c; cases c <;> decide
  cases a <;> cases b <;> simp only [Reaction.code] at h
  all_goals first
    | rfl
    | (next c d => have := hn c; have := hn d; first | omega | (have := Code.num_inj (a := c) (b := d) (by omega); subst this; rfl))
    | (next c => have := hn c; omega)
    | omega

instance : LawfulBEq Reaction where
  eq_of_beq {a b} h := Reaction.code_inj ((beq_iff_eq (a := a.code) (b := b.code)).mp h)
  rfl {a} := (beq_iff_eq (a := a.code) (b := a.code)).mpr rfl

def Reaction.isError : Reaction → Bool
  | .streamErr _ | .connErr _ => true
  | _ => false

/-! ## read loop -/

/-- `readLoop`: CONTINUATION sequencing, then `checkFrameWithStream`. `some r`: the read loop answers
itself; `none`: the frame goes on to the stream loop (for `ext`: is discarded). -/
def rl (p : Pos) (f : Fr) (c : Ctx) : Option Reaction :=
  let isCont := match f with | .cont .. => true | _ => false
  if c.block != .none then
    if !(isCont && c.block == .this) then some (.connErr .protocol)     -- "expected a CONTINUATION frame"
    else none
  else if isCont then some (.connErr .protocol)                         -- "unexpected CONTINUATION frame"
  else
    match f with
    | .ext => some .ignore
    | .ping | .pushPromise => some (.connErr .protocol)
    | _ => (match p with | .even => some (.connErr .protocol) | _ => none)

/-! ## stream loop -/

/-- an in-table stream: state, `headersFinished`, `responded`, `handlerRunning` -/
structure T where
  st : TSt
  hf : Bool
  responded : Bool
  running : Bool
deriving Repr, DecidableEq, Inhabited

inductive Err where
  | conn (c : Code)       -- GoAwayError
  | strm (c : Code)       -- ResetStreamError
deriving Repr, DecidableEq

def continuingHeaders (t : T) (f : Fr) : Bool :=
  match f with
  | .cont .. => !t.hf
  | _ => false

def isHeaders : Fr → Bool | .headers .. => true | _ => false
def isRst : Fr → Bool | .rst => true | _ => false

/-- `verifyState` -/
def verifyState (t : T) (f : Fr) : Option Err :=
  match t.st with
  | .idle =>
    match f with
    | .headers .. | .priority _ => none
    | _ => some (.conn .protocol)
  | .halfClosed =>
    if continuingHeaders t f then none
    else match f with
      | .wu _ | .priority _ | .rst => none
      | _ => some (.conn .streamClosed)
  | _ => none

def blkErr : Blk → Option Err
  | .wf => none
  | .malformed => some (.strm .protocol)
  | .tooLarge => some (.strm .calm)
  | .undecodable => some (.conn .compression)
  | .listTooLong => some (.conn .calm)

/-- `handleHeaderFrame` + the END_HEADERS part of `handleFrame`; `es`: flag bit 0x1 of the frame -/
def handleHeaderFrame (t : T) (es eh selfDep : Bool) (blk : Blk) : Except Err T :=
  -- a trailer section that does not end the stream: a stream error once its block has been decoded, which
  -- needs the whole block in this frame; a block that goes on in CONTINUATION: "stream not open"
  let notLast := t.hf && !es
  if notLast && !eh then .error (.conn .protocol)
  else
    let t := if t.hf && !eh then { t with hf := false } else t  -- a trailer block going on in CONTINUATION
    if selfDep then .error (.conn .protocol)
    else match blkErr blk with
      | some e => .error e
      | none =>
        if notLast then .error (.strm .protocol)
        else .ok (if eh then { t with hf := true } else t)

def closedRank (t : T) : Bool := t.st == .halfClosed || t.st == .closed     -- `State() >= StreamStateHalfClosed`

/-- `handleFrame` -/
def handleFrame (t : T) (f : Fr) : Except Err T :=
  match verifyState t f with
  | some e => .error e
  | none =>
    match f with
    | .headers es eh selfDep blk =>
      if closedRank t && !continuingHeaders t f then .error (.conn .protocol)
      else handleHeaderFrame t es eh selfDep blk
    | .cont eh flag1 blk =>
      if closedRank t && !continuingHeaders t f then .error (.conn .protocol)
      else handleHeaderFrame t flag1 eh false blk
    | .data _ overBody =>
      if !t.hf then .error (.conn .protocol)                    -- "stream didn't end the headers"
      else if closedRank t then .error (.conn .streamClosed)
      else if overBody then .error (.strm .calm)
      else .ok t
    | .rst => if t.st == .idle then .error (.conn .protocol) else .ok t
    | .priority selfDep =>
      if t.st != .idle && !t.hf then .error (.conn .protocol)   -- "frame priority on an open stream"
      else if selfDep then .error (.conn .protocol)
      else .ok t
    | .wu inc =>
      if t.st == .idle then .error (.conn .protocol)
      else match inc with
        | .zero => .error (.conn .protocol)
        | .over => .error (.strm .flowControl)
        | _ => .ok t
    | _ => .error (.conn .protocol)                             -- "invalid frame"

/-- END_STREAM as `handleState` reads it: only on DATA and HEADERS -/
def endStream : Fr → Bool
  | .data es _ => es
  | .headers es _ _ _ => es
  | _ => false

/-- `handleState` -/
def handleState (f : Fr) (t : T) : T :=
  let t := if isRst f then { t with st := .closed } else t
  match t.st with
  | .idle => if isHeaders f then { t with st := if endStream f then .halfClosed else .open } else t
  | .open =>
    if endStream f then { t with st := .halfClosed }
    else if isRst f then { t with st := .closed } else t
  | .halfClosed => if isRst f then { t with st := .closed } else t
  | .closed => t

/-- the place of a stream that `closeStream` took out of the table -/
def closedPos (byUs : Bool) (c : Ctx) : Pos := .out byUs true (if c.isLast then .equal else .below)

def T.pos (t : T) : Pos := .tab t.st t.hf t.responded t.running

/-- the rest of the `case fr := <-sc.reader` arm once the stream is there: the previous-block check,
`handleFrame`, the error path, `handleState`, dispatch, close -/
def afterLookup (t : T) (f : Fr) (c : Ctx) : Reaction × Pos :=
  if isHeaders f && c.prevUnfinished then (.connErr .protocol, t.pos)      -- `continue`: this stream stays as it is
  else
    match handleFrame t f with
    | .error (.conn code) => (.connErr code, (T.pos { t with st := .closed }))   -- `break loop`
    | .error (.strm code) =>
      -- writeError → RST_STREAM; state closed; handleState; closeStream
      (.streamErr code, closedPos true c)
    | .ok t =>
      let t := handleState f t
      if t.st == .halfClosed && t.hf && !t.responded then
        if c.clMismatch then (.streamErr .protocol, closedPos true c)
        else (.dispatch, T.pos { t with responded := true, running := true })
      else if t.st == .closed then (.process, closedPos false c)
      else (.process, t.pos)

/-- the unknown-stream branch of `handleStreams` -/
def unknown (byUs inRing : Bool) (cmp : Cmp) (f : Fr) (c : Ctx) : Reaction × Pos :=
  let here : Pos := .out byUs inRing cmp
  if byUs then (.ignore, here)
  else if isRst f then
    if cmp == .above || cmp == .gap then (.connErr .protocol, here) else (.ignore, here)   -- `fr.Stream() > sc.lastID`
  else if inRing then
    match f with
    | .priority _ | .wu _ => (.ignore, here)
    | _ => (.connErr .streamClosed, here)
  else if !isHeaders f then
    match f with
    | .priority selfDep => if selfDep then (.connErr .protocol, here) else (.ignore, here)
    | _ =>
      if cmp == .above || cmp == .gap then (.connErr .protocol, here)     -- "wrong frame on idle stream"
      else match f with
        | .wu _ => (.ignore, here)
        | _ => (.connErr .streamClosed, here)
  else if c.refuse then
    (.streamErr .refused, .out true inRing (if cmp == .above then .gap else cmp))   -- `lastRefused` moves up to it
  else if cmp != .above then (.connErr .protocol, here)                   -- "stream ID is lower than the latest"
  else
    -- created: idle, the newest stream
    afterLookup ⟨.idle, false, false, false⟩ f { c with isLast := true }

/-- the decision on one frame: reaction class and the stream's next place -/
def react (p : Pos) (f : Fr) (c : Ctx) : Reaction × Pos :=
  match rl p f c with
  | some r => (r, p)
  | none =>
    match p with
    | .even => (.connErr .protocol, p)
    | .out byUs inRing cmp => unknown byUs inRing cmp f c
    | .tab st hf responded running => afterLookup ⟨st, hf, responded, running⟩ f c

/-! ## the other things that move a stream -/

/-- events on one stream id: a frame of the peer, or what the server and the rest of the connection do -/
inductive Ev where
  | frame (f : Fr) (c : Ctx)
  /-- the handler reported back; `fin`: the response went out completely (END_STREAM sent); `rstByUs`: a body
  read error ended it with RST_STREAM(INTERNAL_ERROR) -/
  | handlerDone (fin rstByUs isLast : Bool)
  /-- buffered response data finished after a WINDOW_UPDATE / SETTINGS (`rstByUs`: ended by a body read error) -/
  | respEnd (rstByUs isLast : Bool)
  /-- a newer stream was opened: `lastID` moved past this id -/
  | newer
  /-- a stream with a higher id was refused: `lastRefused` moved past this id -/
  | higherRefused
  /-- the id left the `closedStrms` ring / the `resetByUs` set (both bounded) -/
  | evictRing
  | forgetReset
deriving Repr, DecidableEq

/-- can the event happen to a stream at `p`? (a handler reports back only while it runs, …) -/
def Ev.enabled (p : Pos) : Ev → Bool
  | .frame .. => true
  | .handlerDone .. => (match p with | .tab _ _ _ true => true | _ => false)
  | .respEnd .. => (match p with | .tab _ _ true false => true | _ => false)
  | .newer => (match p with | .out .. => true | _ => false)
  | .higherRefused => (match p with | .out _ _ .above => true | _ => false)
  | .evictRing => (match p with | .out _ true _ => true | _ => false)
  | .forgetReset => (match p with | .out true _ _ => true | _ => false)

def stepEv (p : Pos) : Ev → Option Reaction × Pos
  | .frame f c => let (r, p') := react p f c; (some r, p')
  | .handlerDone fin rstByUs isLast =>
    match p with
    | .tab st hf responded true =>
      if fin then (none, .out rstByUs true (if isLast then .equal else .below))
      else (none, .tab st hf responded false)
    | _ => (none, p)
  | .respEnd rstByUs isLast =>
    match p with
    | .tab _ _ true false => (none, .out rstByUs true (if isLast then .equal else .below))
    | _ => (none, p)
  | .newer =>
    match p with
    | .out a b _ => (none, .out a b .below)
    | _ => (none, p)
  | .higherRefused =>
    match p with
    | .out a b .above => (none, .out a b .gap)
    | _ => (none, p)
  | .evictRing =>
    match p with
    | .out a _ cmp => (none, .out a false cmp)
    | _ => (none, p)
  | .forgetReset =>
    match p with
    | .out _ b cmp => (none, .out false b cmp)
    | _ => (none, p)

/-- the reactions to a sequence of events on one stream id, from a given place -/
def run (p : Pos) : List Ev → List Reaction × Pos
  | [] => ([], p)
  | e :: es =>
    let (r, p') := stepEv p e
    let (rs, p'') := run p' es
    ((match r with | some r => [r] | none => []) ++ rs, p'')

/-- a stream id nobody has used yet -/
def Pos.fresh : Pos := .out false false .above

/-! ## bounded quantifiers over the finite types (for proofs by evaluation) -/

@[inline] def allB (q : Bool → Bool) : Bool := q false && q true
def TSt.forall (q : TSt → Bool) : Bool := q .idle && q .open && q .halfClosed && q .closed
def Cmp.forall (q : Cmp → Bool) : Bool := q .above && q .gap && q .equal && q .below
def Inc.forall (q : Inc → Bool) : Bool := q .zero && q .fits && q .exact && q .over
def Blk.forall (q : Blk → Bool) : Bool := q .wf && q .malformed && q .tooLarge && q .undecodable && q .listTooLong
def BlockOn.forall (q : BlockOn → Bool) : Bool := q .none && q .this && q .other

def Pos.forall (q : Pos → Bool) : Bool :=
  (TSt.forall fun st => allB fun a => allB fun b => allB fun c => q (.tab st a b c)) &&
  (allB fun a => allB fun b => Cmp.forall fun c => q (.out a b c)) && q .even

def Fr.forall (q : Fr → Bool) : Bool :=
  (allB fun a => allB fun b => q (.data a b)) &&
  (allB fun a => allB fun b => allB fun c => Blk.forall fun d => q (.headers a b c d)) &&
  (allB fun a => q (.priority a)) && q .rst && (Inc.forall fun i => q (.wu i)) &&
  (allB fun a => allB fun b => Blk.forall fun d => q (.cont a b d)) &&
  q .ping && q .pushPromise && q .other && q .ext

def Ctx.forall (q : Ctx → Bool) : Bool :=
  BlockOn.forall fun bl => allB fun a => allB fun b => allB fun c => allB fun d => q ⟨bl, a, b, c, d⟩

end H2.Server.StreamSM
