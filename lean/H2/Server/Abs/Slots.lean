import H2.Gen.Consts
/-!
# C13 / C17 — abstract model of the slot accounting of `handleStreams`

What is kept of the stream loop: the stream table, the streams closed while their handler still runs
(`abandoned`), the counter `openStreams`, `lastID`, the ring of recently closed ids, and the four
places that change them — the limit check in front of `NewStream`, `dispatchHandler`, `closeStream`
(→ `releaseStream` unless the handler is running) and the `handlerDone` arm.

Every stream object carries a ghost `uid`: the identity of the `*Stream` / `*fasthttp.RequestCtx` pair
taken from the pools when the stream is created. Ghost ledgers: `handlers` (contexts a handler
goroutine has been started with and that has not reported back yet — the ground truth, kept
independently of the `handlerRunning` flags the code consults), `pool` (contexts handed back to
`ctxPool`), `trace` (what happened, in order).
-/
namespace H2.Server.Abs.Slots

structure Strm where
  id : Nat
  uid : Nat
  running : Bool            -- strm.handlerRunning
deriving Repr, DecidableEq, Inhabited

inductive Rec where
  | refused (id : Nat)                    -- RST_STREAM(REFUSED_STREAM)
  | dispatched (id uid : Nat)             -- handler goroutine started with context `uid`
  | returned (uid : Nat)                  -- that handler reported back on `handlerDone`
  | released (uid : Nat) (inUse : Bool)   -- context `uid` put back into the pool; `inUse`: a handler still had it
deriving Repr, DecidableEq, Inhabited

structure St where
  max : Nat                     -- sc.st.maxStreams (MaxConcurrentStreams)
  tbl : List Strm := []         -- strms
  abandoned : List Strm := []   -- closed with the handler running: out of the table, slot and context kept
  opn : Int := 0                -- openStreams
  lastID : Nat := 0
  lastRefused : Nat := 0        -- highest id of a refused stream: used up although it never becomes `lastID`
  ring : List Nat := []         -- closedRing, oldest first
  nextUid : Nat := 0            -- ghost
  handlers : List Nat := []     -- ghost: contexts in the hands of a running handler
  pool : List Nat := []         -- ghost: contexts put back, in order
  trace : List Rec := []        -- ghost
deriving Repr, Inhabited

inductive Ev where
  /-- a HEADERS frame for an id that is neither in the table, reset by this side, nor remembered as closed;
  `closing`: a GOAWAY has been sent -/
  | hdrNew (id : Nat) (closing : Bool)
  | dispatch (id : Nat)                  -- `dispatchHandler(strm)` for the table entry `id`
  | close (id : Nat)                     -- `closeStream(strm)` for the table entry `id`
  /-- a handler reports back for stream `id`; `fin`: `finishRequest` wrote the whole response -/
  | done (id : Nat) (fin : Bool)
deriving Repr, DecidableEq, Inhabited

def ringCap : Nat := Gen.c_closedStrmsCap

/-- `markClosed` -/
def markClosed (ring : List Nat) (id : Nat) : List Nat :=
  if ring.contains id then ring
  else if ring.length < ringCap then ring ++ [id]
  else ring.drop 1 ++ [id]

def setRunning (l : List Strm) (uid : Nat) (b : Bool) : List Strm :=
  l.map fun x => if x.uid = uid then { x with running := b } else x

/-- `releaseStream`: the slot and the context go back -/
def release (st : St) (s : Strm) : St :=
  { st with opn := st.opn - 1, pool := st.pool ++ [s.uid],
            trace := st.trace ++ [.released s.uid (st.handlers.contains s.uid)] }

/-- `closeStream(strm)` where `strm` is the table entry `s` -/
def closeEntry (st : St) (s : Strm) : St :=
  let st := { st with ring := markClosed st.ring s.id, tbl := st.tbl.erase s }
  if s.running then { st with abandoned := st.abandoned ++ [s] } else release st s

def closeStream (st : St) (id : Nat) : St :=
  match st.tbl.find? (·.id = id) with
  | none => st
  | some s => closeEntry st s

/-- the lookup in front of everything: `if fr.Stream() <= sc.lastID { strm = strms.Search(fr.Stream()) }` -/
def knows (st : St) (id : Nat) : Bool :=
  if id ≤ st.lastID then (st.tbl.find? (·.id = id)).isSome else false

def step (st : St) : Ev → St
  | .hdrNew id closing =>
    if knows st id then st
    else if st.opn ≥ (st.max : Int) ∨ closing then
      { st with lastRefused := max st.lastRefused id, trace := st.trace ++ [.refused id] }
    else if id ≤ st.lastID ∨ id ≤ st.lastRefused then st   -- the id has been used: GOAWAY, no stream
    else { st with tbl := st.tbl ++ [⟨id, st.nextUid, false⟩], nextUid := st.nextUid + 1,
                   opn := st.opn + 1, lastID := id }
  | .dispatch id =>
    match st.tbl.find? (·.id = id) with
    | none => st
    | some s =>
      if s.running then st
      else { st with tbl := setRunning st.tbl s.uid true, handlers := st.handlers ++ [s.uid],
                     trace := st.trace ++ [.dispatched id s.uid] }
  | .close id => closeStream st id
  | .done id fin =>
    match st.tbl.find? (fun x => x.id = id ∧ x.running) with
    | some s =>
      let s' : Strm := { s with running := false }
      let st := { st with tbl := setRunning st.tbl s.uid false, handlers := st.handlers.erase s.uid,
                          trace := st.trace ++ [.returned s.uid] }
      if fin then closeEntry st s' else st
    | none =>
      match st.abandoned.find? (·.id = id) with
      | none => st
      | some s =>
        release { st with abandoned := st.abandoned.erase s, handlers := st.handlers.erase s.uid,
                          trace := st.trace ++ [.returned s.uid] } { s with running := false }

def run (st : St) : List Ev → St
  | [] => st
  | e :: es => run (step st e) es

def init (max : Nat) : St := { max := max }

/-- handlers running for the connection, as the code's flags see it -/
def runningCount (st : St) : Nat := (st.tbl.filter (·.running)).length + st.abandoned.length

end H2.Server.Abs.Slots
