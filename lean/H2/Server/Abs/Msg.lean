import H2.Server.Abs.MsgSpec
/-!
# C20 (server half) / C01 (request view) — abstract model of request-message validation

The decision logic of `handleHeaderFrame`'s field loop, `validateRequestPseudoHeaders` and the
content-length-vs-DATA test at dispatch (`serverConn.go`), on an already decoded header list (no HPACK):
what the stream loop decides about one request given its header list, its trailer list and the number of
DATA octets received, and what it has put into the request the handler gets. One Go branch ↔ one Lean
branch, in the Go order. The Go code runs the *same* loop, with the *same* per-stream flags, over the
request block and over the trailer block; so does `validate` (`startTrailers` is what `handleHeaderFrame`
does before the loop when the block is a trailer block).
-/
namespace H2.Server.Msg
open H2.Server.MsgSpec (Field View)

structure Cfg where
  /-- `sc.maxHeaderList`; ≤ 0 disables the check -/
  maxHeaderList : Int := Gen.c_DefaultMaxHeaderListSize
  /-- `sc.maxRequestBodySize`; 0 disables the checks -/
  maxBody : Nat := 4 * 1024 * 1024
deriving Repr, DecidableEq

/-- what the stream loop does with the request -/
inductive Verdict where
  | dispatch
  | rst (code : Nat)       -- RST_STREAM: the stream alone is refused
  | goAway (code : Nat)    -- GOAWAY: connection error
deriving Repr, DecidableEq

/-- the per-stream state the field loop reads and writes: the flags (`Stream.pseudo*`, `regularSeen`,
`hasContentLength`, `contentLength`, `headerListSize`) and the request being filled in -/
structure St where
  pMethod : Bool := false
  pScheme : Bool := false
  pPath : Bool := false
  pAuthority : Bool := false
  regularSeen : Bool := false
  hasCL : Bool := false
  cl : Nat := 0
  listSize : Nat := 0
  -- the request the handler will see
  method : Bytes := []
  path : Bytes := []            -- `strm.path` / the request URI
  authority : Bytes := []
  contentType : Option Bytes := none
  userAgent : Option Bytes := none
  fields : List Field := []
deriving Repr, DecidableEq

def St.init : St := {}

/-- `hasUpperCase` -/
def hasUpper (k : Bytes) : Bool := k.any fun c => 65 ≤ c && c ≤ 90

/-- `HeaderField.IsPseudo` -/
def isPseudo (k : Bytes) : Bool := k.head? == some 58

/-- `isConnectionSpecific` -/
def isConnSpecific (k : Bytes) : Bool := Gen.connectionSpecific.contains k

/-- largest Go `int` -/
def maxInt : Nat := 2 ^ 63 - 1

def parseUintAux : Bytes → Nat → Option Nat
  | [], acc => some acc
  | c :: cs, acc =>
    if c < 48 ∨ 57 < c then none
    else if acc * 10 + (c - 48) > maxInt then none     -- `n > (math.MaxInt-d)/10`
    else parseUintAux cs (acc * 10 + (c - 48))

/-- `parseUint` (strings.go): empty, a non-digit, or a value that does not fit `int` is an error -/
def parseUint (v : Bytes) : Option Nat := if v.isEmpty then none else parseUintAux v 0

def eProtocol : Verdict := .rst Gen.c_ProtocolError
def eTooLarge : Verdict := .rst Gen.c_EnhanceYourCalm
def eListSize : Verdict := .goAway Gen.c_EnhanceYourCalm

/-- one iteration of the field loop on the decoded field `(k, v)` -/
def field (cfg : Cfg) (st : St) (f : Field) : Except Verdict St :=
  let k := f.1
  let v := f.2
  let st := { st with listSize := st.listSize + k.length + v.length + 32 }
  if 0 < cfg.maxHeaderList ∧ cfg.maxHeaderList < (st.listSize : Int) then .error eListSize
  else if hasUpper k then .error eProtocol
  else if isPseudo k then
    if st.regularSeen then .error eProtocol
    else if k = Gen.s_StringMethod then
      if st.pMethod then .error eProtocol else .ok { st with pMethod := true, method := v }
    else if k = Gen.s_StringPath then
      if st.pPath then .error eProtocol else .ok { st with pPath := true, path := v }
    else if k = Gen.s_StringScheme then
      if st.pScheme then .error eProtocol else .ok { st with pScheme := true }
    else if k = Gen.s_StringAuthority then
      if st.pAuthority then .error eProtocol else .ok { st with pAuthority := true, authority := v }
    else .error eProtocol
  else
    let st := { st with regularSeen := true }
    if isConnSpecific k then .error eProtocol
    else if k = Gen.s_StringTE ∧ v ≠ Gen.s_StringTrailers then .error eProtocol
    else if k = Gen.s_StringUserAgent then .ok { st with userAgent := some v }
    else if k = Gen.s_StringContentType then .ok { st with contentType := some v }
    else if k = Gen.s_StringContentLength then
      match parseUint v with
      | none => .error eProtocol
      | some n =>
        if st.hasCL ∧ n ≠ st.cl then .error eProtocol            -- several content-length fields must agree
        else if 0 < cfg.maxBody ∧ cfg.maxBody < n then .error eTooLarge
        else .ok { st with hasCL := true, cl := n }
    else .ok { st with fields := st.fields ++ [(k, v)] }

/-- the field loop over a decoded block: stops at the first field it rejects -/
def loop (cfg : Cfg) : St → List Field → Except Verdict St
  | st, [] => .ok st
  | st, f :: fs =>
    match field cfg st f with
    | .error e => .error e
    | .ok st' => loop cfg st' fs

/-- `validateRequestPseudoHeaders` -/
def pseudoOK (st : St) : Bool := st.pMethod && st.pScheme && st.pPath && !st.path.isEmpty

/-- what `handleHeaderFrame` does before the loop when the block is a trailer block: from here on a
pseudo-header field is out of place -/
def startTrailers (st : St) : St := { st with regularSeen := true }

/-- the state after the whole message, or the error that ended it before the dispatch test:
header list `hs` (END_HEADERS reached), `dataLen` octets of DATA, trailer list `trailers` (`[]`: none) -/
def message (cfg : Cfg) (hs trailers : List Field) (dataLen : Nat) : Except Verdict St :=
  match loop cfg St.init hs with
  | .error e => .error e
  | .ok st =>
    if !pseudoOK st then .error eProtocol
    else if 0 < cfg.maxBody ∧ cfg.maxBody < dataLen then .error eTooLarge        -- `recvBody > maxRequestBodySize`
    else loop cfg (startTrailers st) trailers    -- (with no trailer block the flag it sets is never read again)

/-- The verdict on a complete request (END_STREAM reached). -/
def validate (cfg : Cfg) (hs trailers : List Field) (dataLen : Nat) : Verdict :=
  match message cfg hs trailers dataLen with
  | .error e => e
  | .ok st => if st.hasCL ∧ st.cl ≠ dataLen then eProtocol else .dispatch

/-- `dispatchHandler`: what the handler gets to see -/
def St.view (st : St) : View :=
  { method := st.method, path := st.path, authority := st.authority,
    fields := (st.contentType.map fun v => (Gen.s_StringContentType, v)).toList ++
              (st.userAgent.map fun v => (Gen.s_StringUserAgent, v)).toList ++ st.fields }

/-- the request view of a message that is dispatched -/
def requestView (cfg : Cfg) (hs trailers : List Field) (dataLen : Nat) : Option View :=
  match message cfg hs trailers dataLen with
  | .error _ => none
  | .ok st => if st.hasCL ∧ st.cl ≠ dataLen then none else some st.view

/-- the same fields arriving in consecutive chunks (HEADERS, CONTINUATION, …): the loop is run chunk by
chunk on the state the previous chunk left -/
def loopChunks (cfg : Cfg) : St → List (List Field) → Except Verdict St
  | st, [] => .ok st
  | st, c :: cs =>
    match loop cfg st c with
    | .error e => .error e
    | .ok st' => loopChunks cfg st' cs

end H2.Server.Msg
