import H2.Gen.Consts
/-!
# C14 (server half) — abstract model of the receive-side credit (`consumeRecvWindow`, `consumeConnWindow`)

The server hands stream credit back at once and in full for every DATA frame it accepts that does not end
the stream, and connection credit in one lump whenever its own count of the window (`currentWindow`)
falls below half of `maxWindow`. Events are the three things that can happen to a DATA frame the stream
loop takes off the reader: accepted on its stream; not delivered but still counted against the
connection (the stream was reset by this side, or the frame is dropped by the body-size limit);
answered with a connection error (GOAWAY — nothing is credited, the connection is on its way out).
Ghost ledgers: octets received, lost to connection errors, credited on the connection and per stream.
-/
namespace H2.Server.Abs.Recv

/-- `sc.maxWindow`; also what the server advertises as SETTINGS_INITIAL_WINDOW_SIZE and what the
handshake adds to the connection window with its first WINDOW_UPDATE -/
def maxWin : Int := Gen.c_serverMaxWindow

inductive Rec where
  | wu (sid inc : Nat)            -- WINDOW_UPDATE written
deriving Repr, DecidableEq, Inhabited

/-- ghost ledger of one stream -/
structure Led where
  sid : Nat
  received : Nat := 0     -- octets of accepted DATA frames, padding included
  credited : Nat := 0     -- sum of the increments sent for this stream
  final : Nat := 0        -- octets of the accepted frame(s) that carried END_STREAM
deriving Repr, DecidableEq, Inhabited

structure St where
  recvWin : Int := maxWin       -- sc.currentWindow
  -- ghost
  received : Nat := 0           -- octets of every DATA frame handed to the stream loop
  lost : Nat := 0               -- of those, octets of frames answered with a connection error
  credited : Nat := 0           -- sum of the increments sent on stream 0
  leds : List Led := []
  trace : List Rec := []
deriving Repr, Inhabited

inductive Ev where
  | accepted (sid len : Nat) (es : Bool)   -- `consumeRecvWindow(strm, fr, fr.Len())`
  | dropped (sid len : Nat)                -- `consumeConnWindow(fr.Len())` only
  | connErr (sid len : Nat)                -- GOAWAY
deriving Repr, DecidableEq, Inhabited

/-- `consumeConnWindow(n)` -/
def consumeConn (st : St) (n : Nat) : St :=
  if n = 0 then st
  else
    let cur := st.recvWin - n
    if cur < maxWin / 2 then
      let inc := maxWin - cur
      { st with recvWin := maxWin, credited := st.credited + inc.toNat, trace := st.trace ++ [.wu 0 inc.toNat] }
    else { st with recvWin := cur }

def bump (sid recv cred fin : Nat) : List Led → List Led
  | [] => [⟨sid, recv, cred, fin⟩]
  | l :: ls =>
    if l.sid = sid then { l with received := l.received + recv, credited := l.credited + cred, final := l.final + fin } :: ls
    else l :: bump sid recv cred fin ls

def step (st : St) : Ev → St
  | .accepted sid len es =>
    let st := { st with received := st.received + len }
    if len = 0 then { st with leds := bump sid 0 0 0 st.leds }
    else
      -- `consumeRecvWindow`: the stream window goes back in full unless the frame ends the stream
      let st := if es then { st with leds := bump sid len 0 len st.leds }
                else { st with leds := bump sid len len 0 st.leds, trace := st.trace ++ [.wu sid len] }
      consumeConn st len
  | .dropped _ len => consumeConn { st with received := st.received + len } len
  | .connErr _ len => { st with received := st.received + len, lost := st.lost + len }

def run (st : St) : List Ev → St
  | [] => st
  | e :: es => run (step st e) es

def init : St := {}

/-- octets received and not yet handed back on the connection, as the server counts -/
def outstanding (st : St) : Int := maxWin - st.recvWin

/-- the connection window as the peer counts it: 65 535, plus the handshake's WINDOW_UPDATE, minus every
DATA octet it sent, plus every increment it was sent -/
def peerConnView (st : St) : Int := 65535 + maxWin - st.received + st.credited

/-- a stream's window as the peer counts it -/
def peerStreamView (l : Led) : Int := maxWin - l.received + l.credited

end H2.Server.Abs.Recv
