import H2.Server.Lock.Common
import H2.Server.Abs.Recv
/-!
# Lockstep adapter: `Abs.Recv` beside the full server model

Every DATA frame the stream loop takes off the reader is classified from the state in front of it by
the conditions of `handleStreams`/`handleFrame` (stream known and open with finished headers → accepted,
unless the body limit drops it; stream reset by this side → counted on the connection only; anything
else → connection error), and the abstract model is given that event. Compared per action: the
WINDOW_UPDATE frames written (stream, increment, order) and that a GOAWAY goes out exactly for the
connection-error class; per step: `currentWindow`.
-/
namespace H2.Server.Lock
open H2.Server.Abs
open H2.Frame (Frame)

structure Recv.L where
  st : Recv.St := Recv.init
  on : Bool := true
deriving Inhabited

def Recv.L.init : Recv.L := {}

def classifyData (s : Srv) (fr : Frame) : Recv.Ev :=
  let found : Option Strm := if fr.stream ≤ s.lastID then s.strms.find? (·.id == fr.stream) else none
  let es := Frame.hasFlag fr.flags Gen.c_FlagEndStream
  match found with
  | some st =>
    if (verifyState st fr).isSome || !st.headersFinished || st.state.rank ≥ StState.halfClosed.rank then
      .connErr fr.stream fr.length
    else
      let d : Bytes := match fr.body with | .data _ b => b | _ => []
      if s.cfg.maxBody > 0 && st.recvBody + d.length > s.cfg.maxBody then .dropped fr.stream fr.length
      else .accepted fr.stream fr.length es
  | none => if s.resetByUs.contains fr.stream then .dropped fr.stream fr.length else .connErr fr.stream fr.length

def recvEvents (sub : Sub) : List Recv.Ev :=
  match sub.act with
  | .frame fr => if fr.stream != 0 && fr.typ == Gen.c_FrameData then [classifyData sub.pre fr] else []
  | _ => []

def recWus (t : List Recv.Rec) : List (Nat × Nat) := t.map fun r => match r with | .wu sid inc => (sid, inc)

def Recv.L.step (l : Recv.L) (before : Srv) (ev : Event) (r : R) : Recv.L × Option String :=
  if !l.on then (l, none) else
  if r.s.undefined then ({ l with on := false }, none) else
  let subs := substeps before ev r
  if !replayAgrees subs before r then ({ l with on := false }, some "recv replay") else
  let (st, bad) := subs.foldl (fun (acc : Recv.St × Option String) sub =>
      let st := acc.1
      let evs := recvEvents sub
      let st' := Recv.run st evs
      let new := recWus (st'.trace.drop st.trace.length)
      let wantGA := evs.any fun e => match e with | .connErr .. => true | _ => false
      let isData := !evs.isEmpty
      let ok := new == wusOf sub.out && (!isData || wantGA == sub.out.any isGA)
      (st', if ok || acc.2.isSome then acc.2
            else some s!"recv wu abstract={new} full={wusOf sub.out} connErr={wantGA} ga={sub.out.any isGA}")) (l.st, none)
  match bad with
  | some m => ({ l with st := st, on := false }, some m)
  | none =>
    if st.recvWin == r.s.recvWin then ({ l with st := st }, none)
    else ({ l with st := st, on := false }, some s!"recv window abstract={st.recvWin} full={r.s.recvWin}")

end H2.Server.Lock
