import H2.Server.Model
/-!
# Lockstep adapters — shared projection machinery

One step of the full model (`stepR`) may hand several frames to the stream loop (a `bytes` event can
hold many frames). The abstract models take one *stream-loop action* at a time, so the step is cut
into its actions: the frames in `r.fwd`, in order, each replayed with the full model's own `slFrame`
from the state the previous one left; a handler reporting back; the idle timer; and, last, a GOAWAY the
read loop wrote itself. The replay uses nothing but the full model's functions; `replayAgrees`
checks that it ends where the real step ended (on everything the abstract models look at), so a
divergence is reported rather than hidden.
-/
namespace H2.Server.Lock
open H2.Frame (Frame)

inductive Act where
  | frame (fr : Frame)
  | done (sid : Nat) (resp : Resp)
  | idle
  | rlGoAway            -- GOAWAY written by the read loop (always followed by the read loop stopping)
deriving Inhabited

structure Sub where
  pre : Srv
  act : Act
  out : List Out
  post : Srv
deriving Inhabited

def isGA : Out → Bool
  | .goAway .. => true
  | _ => false

/-- the stream-loop actions of one step of the full model, with the state before and after each -/
def substeps (before : Srv) (ev : Event) (r : R) : List Sub :=
  match ev with
  | .bytes _ =>
    let acc := r.fwd.foldl (fun (acc : List Sub × Srv) fr =>
        let r' := slFrame { s := acc.2 } fr
        (acc.1 ++ [⟨acc.2, .frame fr, r'.out, r'.s⟩], r'.s)) (([] : List Sub), before)
    let subs := acc.1
    let cur := acc.2
    let gaSubs := (subs.map fun s => (s.out.filter isGA).length).sum
    let gas := r.out.filter isGA
    match gas.getLast? with
    | some g => if gas.length > gaSubs then subs ++ [⟨cur, .rlGoAway, [g], { cur with closing := true }⟩] else subs
    | none => subs
  | .done sid resp => [⟨before, .done sid resp, r.out, r.s⟩]
  | .idle => [⟨before, .idle, r.out, r.s⟩]
  | .cut => []

/-- what the abstract models look at -/
def gaugeStr (s : Srv) : String :=
  s!"ids={s.strms.map (·.id)} run={s.strms.map (·.handlerRunning)} ab={s.abandoned.map (·.id)} open={s.openStreams} ring={s.ring.length} last={s.lastID} rw={s.recvWin} closing={s.closing} ref={s.closeRef}"

/-- the replayed actions end in the state the real step ended in -/
def replayAgrees (subs : List Sub) (before : Srv) (r : R) : Bool :=
  let last := match subs.getLast? with
    | some s => s.post
    | none => before
  gaugeStr last == gaugeStr r.s

def refusedOf (outs : List Out) : List Nat :=
  outs.filterMap fun o => match o with
    | .rst sid code => if code == Gen.c_RefusedStreamError then some sid else none
    | _ => none

def dispatchedOf (outs : List Out) : List Nat :=
  outs.filterMap fun o => match o with
    | .dispatch sid .. => some sid
    | _ => none

def goAwaysOf (outs : List Out) : List (Nat × Nat × String) :=
  outs.filterMap fun o => match o with
    | .goAway last code tag => some (last, code, tag)
    | _ => none

def wusOf (outs : List Out) : List (Nat × Nat) :=
  outs.filterMap fun o => match o with
    | .wu sid inc => some (sid, inc)
    | _ => none

/-- a HEADERS frame for an id that is not in the table, was not reset by this side and is not remembered
as closed: the frame that reaches the concurrency-limit check of `handleStreams` -/
def reachesLimitCheck (s : Srv) (fr : Frame) : Bool :=
  fr.stream != 0 && fr.typ == Gen.c_FrameHeaders &&
  (if fr.stream ≤ s.lastID then (s.strms.find? (·.id == fr.stream)).isNone else true) &&
  !s.resetByUs.contains fr.stream && !s.ring.contains fr.stream

/-- streams (ids, in table order, a stream created in this action last) that left the table -/
def closedIn (pre post : Srv) : List Nat :=
  let gone := pre.strms.filter fun st => !(post.strms.any (·.uid == st.uid))
  let created := pre.nextUid < post.nextUid
  let newGone := created && !(post.strms.any (·.uid == pre.nextUid))
  gone.map (·.id) ++ (if newGone then [post.lastID] else [])

end H2.Server.Lock
