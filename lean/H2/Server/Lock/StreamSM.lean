import H2.Server.Lock.PerFrame
import H2.Server.Abs.StreamSpec
/-!
# Lockstep adapter for C08: the abstract per-stream decision model `StreamSM` beside the full server model

For every frame of every step: the full model's state is abstracted to (`Pos`, `Fr`, `Ctx`), `StreamSM.react`
decides, and its reaction class and next place are compared with what the full model did on that frame
(GOAWAY code / RST_STREAM code on the frame's stream / dispatch / nothing; the stream's place in the tables
afterwards). Before that, the hypotheses of the C08 theorems are checked on the frame: the place has a partner
in the simulation relation whose header-block state agrees with the context (`sim`, `consistent`). Handler completions are compared through `StreamSM.stepEv (.handlerDone …)`. For three more ids
per frame (the ones the bounded sets are about to drop, and the newest stream) the change of place must be
one the environment events of `StreamSM` (`newer`, `evictRing`, `forgetReset`, `respEnd`) explain.
-/
namespace H2.Server.Lock
open H2.Frame (Frame Body)
open H2.Server.StreamSM (Pos Fr Ctx Reaction Code TSt Cmp Inc Blk BlockOn)

def absTSt : StState → TSt
  | .idle | .reserved => .idle
  | .open => .open
  | .halfClosed => .halfClosed
  | .closed => .closed

def absPos (s : Srv) (sid : Nat) : Pos :=
  if sid % 2 == 0 then .even else
  match lookup s sid with
  | some st => .tab (absTSt st.state) st.headersFinished st.responded st.handlerRunning
  | none => .out (s.resetByUs.contains sid) (s.ring.contains sid)
              (if sid > s.lastID then (if sid > s.lastRefused then .above else .gap) else if sid == s.lastID then .equal else .below)

def absBlk (eh : Bool) (w : WalkEnd × Msg.St × List MsgSpec.Field) : Blk :=
  match w.1 with
  | .undecodable => .undecodable
  | .verdict (.goAway _) => .listTooLong
  | .verdict (.rst code) => if code == Gen.c_EnhanceYourCalm then .tooLarge else .malformed
  | .verdict .dispatch => .wf
  | .heldTooLong _ => .listTooLong      -- an unfinished field too long to ever fit the list limit: the same reaction
  | .ok _ => if eh && !Msg.pseudoOK w.2.1 then .malformed else .wf

def absFrame (s : Srv) (fr : Frame) : Fr :=
  let st? := lookup s fr.stream
  match fr.body with
  | .data es b =>
    let over := match st? with
      | some st => s.cfg.maxBody > 0 && st.recvBody + b.length > s.cfg.maxBody
      | none => false
    .data es over
  | .headers es eh prio _ =>
    .headers es eh (match prio with | some (dep, _) => dep == fr.stream | none => false) (absBlk eh (walkFrame s st? fr))
  | .priority dep _ => .priority (dep == fr.stream)
  | .rstStream _ => .rst
  | .windowUpdate inc =>
    let w : Int := (st?.map (·.window)).getD 0
    .wu (if inc == 0 then .zero else if w + inc < 2 ^ 31 - 1 then .fits else if w + inc == 2 ^ 31 - 1 then .exact else .over)
  | .continuation eh _ => .cont eh (Frame.hasFlag fr.flags Gen.c_FlagEndStream) (absBlk eh (walkFrame s st? fr))
  | .ping .. => .ping
  | .pushPromise .. => .pushPromise
  | .settings _ | .goAway .. => .other

def absCtx (s : Srv) (sid : Nat) (fr? : Option Frame) : Ctx :=
  let st? := lookup s sid
  let isH := match fr? with | some fr => fr.typ == Gen.c_FrameHeaders | none => false
  let strms' := match st? with
    | some _ => s.strms
    | none => s.strms ++ [{ uid := s.nextUid, id := sid, window := 0, origType := Gen.c_FrameHeaders }]
  let prevUnf := isH && (match getPrevious strms' with | some n => !n.headersFinished | none => false)
  -- content-length against the DATA received, once this frame is in
  let dataLen : Nat := (st?.map (·.recvBody)).getD 0 +
    (match fr? with | some fr => (match fr.body with | .data _ b => b.length | _ => 0) | none => 0)
  let m : Msg.St := match fr? with
    | some fr => (walkFrame s st? fr).2.1
    | none => (st?.map msgSt).getD {}
  { block := if s.expectCont == 0 then .none else if s.expectCont == sid then .this else .other,
    refuse := s.openStreams ≥ (s.cfg.maxStreams : Int) || s.closing,
    prevUnfinished := prevUnf,
    isLast := sid == s.lastID,
    clMismatch := m.hasCL && m.cl != dataLen }

/-- what the full model did with the frame, as a reaction class (`process`/`ignore` both read as `process`) -/
def fullReaction (outs : List Out) (sid : Nat) : String :=
  match outHasGoAway outs with
  | some code => s!"conn{code}"
  | none =>
    match outRst outs sid with
    | some code => s!"stream{code}"
    | none => if outDispatch outs sid then "dispatch" else "ok"

def absReaction : Reaction → String
  | .process | .ignore => "ok"
  | .dispatch => "dispatch"
  | .streamErr c => s!"stream{c.num}"
  | .connErr c => s!"conn{c.num}"

/-- can the environment events of `StreamSM` (not a frame on this stream) move a stream from `p` to `q`? -/
def envReach (p q : Pos) : Bool :=
  let evs : List StreamSM.Ev := [.newer, .higherRefused, .evictRing, .forgetReset, .respEnd false true, .respEnd false false,
                                 .respEnd true true, .respEnd true false]
  let close (l : List Pos) : List Pos := (l ++ l.flatMap fun x => evs.map fun e => (StreamSM.stepEv x e).2).eraseDups
  (close (close (close (close [p])))).contains q

namespace StreamSM

structure L where
  on : Bool := true
  frames : Nat := 0          -- frames compared (coverage)
deriving Inhabited

def L.init : L := {}

def fmtPos (p : Pos) : String := (toString (repr p)).replace "H2.Server.StreamSM." ""

/-- compare one frame -/
def checkFrame (fs : FrameStep) : Option String :=
  let s := fs.before
  let sid := fs.sid
  if s.slStopped || s.undefined || sid == 0 then none else
  let p := absPos s sid
  let f : Fr := match fs.frame with | some fr => absFrame s fr | none => .ext
  let c := absCtx s sid fs.frame
  let (r, p1) := StreamSM.react p f c
  -- a frame (a WINDOW_UPDATE, say) may let buffered response data go out; when the body's reader then fails the response
  -- is cut short with RST_STREAM(INTERNAL_ERROR): that is the response ending (`respEnd` below), not a reaction to the frame
  let sentData := fs.after.out.any fun o => match o with | .data d _ _ _ => d == sid | _ => false
  let full := if sentData && outRst fs.after.out sid == some Gen.c_InternalError && (outHasGoAway fs.after.out).isNone
              then (if outDispatch fs.after.out sid then "dispatch" else "ok") else fullReaction fs.after.out sid
  -- the hypotheses of the C08 theorems: the place is one the simulation relation knows, with an RFC state
  -- that agrees with the context about the open header block
  -- (a run of the theorems ends with the first connection error: not checked once a GOAWAY is out)
  if !s.closing && (StreamSpec.SpecSt.forall fun σ => !(StreamSpec.sim p σ && StreamSpec.consistent σ c)) then
    some s!"StreamSM domain sid={sid} pos={fmtPos p} block={toString (repr c.block)}: outside the simulation relation of H2.Props.C08"
  else
  if absReaction r != full then
    some s!"StreamSM reaction sid={sid} pos={fmtPos p} frame={toString (repr f)} abstract={absReaction r} full={full}"
  else
    match r with
    | .connErr _ => none          -- the connection is on its way down
    | _ =>
      if fs.after.s.slStopped || fs.after.s.undefined then none else
      -- buffered response data may have gone out (and ended the stream) on a WINDOW_UPDATE
      let p1 := if outEnded fs.after.out sid then
          (StreamSM.stepEv p1 (.respEnd ((outRst fs.after.out sid).isSome) (sid == fs.after.s.lastID))).2 else p1
      -- a read error of the response body resets the stream the same way
      let p1 := match p1, outRst fs.after.out sid with
        | .tab _ _ true false, some _ => (StreamSM.stepEv p1 (.respEnd true (sid == fs.after.s.lastID))).2
        | _, _ => p1
      let q := absPos fs.after.s sid
      if p1 != q then
        some s!"StreamSM next sid={sid} pos={fmtPos p} frame={toString (repr f)} reaction={absReaction r} abstract={fmtPos p1} full={fmtPos q}"
      else
        -- bystanders: the ids the bounded sets are about to drop, and the newest stream
        let watch := (s.ring.head?.toList ++ s.resetByUs.head?.toList ++ [s.lastID]).filter fun x => x != sid && x != 0
        match watch.find? (fun x => !envReach (absPos s x) (absPos fs.after.s x)) with
        | some x => some s!"StreamSM bystander sid={x} (frame on {sid}) from={fmtPos (absPos s x)} to={fmtPos (absPos fs.after.s x)}"
        | none => none

def L.step (l : L) (before : Srv) (ev : Event) (r : R) : L × Option String :=
  if !l.on then (l, none) else
  if before.undefined || r.s.undefined then ({ l with on := false }, none) else
  match ev with
  | .bytes _ =>
    let steps := stepsOf before ev
    let l := { l with frames := l.frames + steps.length }
    if !replayEndsAt steps r then (l, some "StreamSM replay: the frame-by-frame replay does not end in the state of the step")
    else (l, steps.findSome? checkFrame)
  | .done sid resp =>
    if before.slStopped then (l, none) else
    match absPos before sid with
    | .tab st hf responded true =>
      let p := Pos.tab st hf responded true
      let fin := (lookup r.s sid).isNone
      let (_, p1) := StreamSM.stepEv p (.handlerDone fin ((outRst r.out sid).isSome) (sid == before.lastID))
      let q := absPos r.s sid
      if r.s.slStopped && !fin then (l, none)
      else if p1 != q then (l, some s!"StreamSM handlerDone sid={sid} kind={resp.kind} abstract={fmtPos p1} full={fmtPos q}")
      else (l, none)
    | _ => (l, none)
  | _ => (l, none)

end StreamSM
end H2.Server.Lock
