import H2.Server.Lock.StreamSM
/-!
# Lockstep adapter for C20 (server half): the message-validation model `Msg` beside the full server model

Per header-bearing frame that reaches the field loop: the fragment is decoded with the HPACK model and each
field is handed to `Msg.field` (`Lock.walk`); the outcome is compared with the full model — the same
RST_STREAM / GOAWAY code, or, when the loop got through, the same per-stream flags afterwards (`msgSt`).
Per stream the decoded fields are collected (request block, trailer block); whenever the full model
dispatches the request or refuses it (RST_STREAM PROTOCOL_ERROR / ENHANCE_YOUR_CALM, GOAWAY ENHANCE_YOUR_CALM)
`Msg.validate` on the collected lists and the DATA octets received must give that very verdict, and on a
dispatch `Msg.requestView` must be the request view in the full model's dispatch record (C01).
-/
namespace H2.Server.Lock
open H2.Frame (Frame Body)

namespace Msg

structure Entry where
  sid : Nat
  hs : List H2.Server.MsgSpec.Field := []
  trailers : List H2.Server.MsgSpec.Field := []
  inTrailers : Bool := false
deriving Inhabited

structure L where
  on : Bool := true
  entries : List Entry := []
  verdicts : Nat := 0      -- complete verdicts compared (coverage)
  fragments : Nat := 0     -- header fragments compared
deriving Inhabited

def L.init : L := {}

def fmtVerdict : H2.Server.Msg.Verdict → String
  | .dispatch => "dispatch"
  | .rst c => s!"rst{c}"
  | .goAway c => s!"goaway{c}"

/-- what the full model decided about the request on `sid` in these outputs, if anything -/
def fullVerdict (outs : List Out) (sid : Nat) : Option String :=
  if outDispatch outs sid then some "dispatch" else
  match outRst outs sid with
  | some c => if c == Gen.c_ProtocolError || c == Gen.c_EnhanceYourCalm then some s!"rst{c}" else none
  | none => none

/-- does the frame reach the field loop? Asked of the C08 model: only the block class can produce
GOAWAY(COMPRESSION_ERROR). -/
def reachesFieldLoop (s : Srv) (fr : Frame) : Bool :=
  let probe : Option StreamSM.Fr := match absFrame s fr with
    | .headers es eh sd _ => some (.headers es eh sd .undecodable)
    | .cont eh f1 _ => some (.cont eh f1 .undecodable)
    | _ => none
  match probe with
  | some f => (H2.Server.StreamSM.react (absPos s fr.stream) f (absCtx s fr.stream (some fr))).1 == .connErr .compression
  | none => false

def sameSt (a b : H2.Server.Msg.St) : Bool := a == b

def checkFrame (l : L) (fs : FrameStep) : L × Option String :=
  let s := fs.before
  match fs.frame with
  | none => (l, none)
  | some fr =>
  let sid := fr.stream
  if s.slStopped || s.undefined || sid == 0 then (l, none) else
  let st? := lookup s sid
  let tracked := l.entries.find? (·.sid == sid)
  let reaches := reachesFieldLoop s fr
  -- 1. the fragment, field by field
  let (l, e, err1) : L × Option Entry × Option String :=
    if !reaches then (l, tracked, none) else
    let e : Entry := tracked.getD { sid := sid }
    let e := if (st?.map (·.headersFinished)).getD false then { e with inTrailers := true } else e
    let (wend, m, fields) := walkFrame s st? fr
    let e := if e.inTrailers then { e with trailers := e.trailers ++ fields } else { e with hs := e.hs ++ fields }
    let l := { l with fragments := l.fragments + 1 }
    let outs := fs.after.out
    let err : Option String :=
      match wend with
      | .undecodable =>
        if outHasGoAway outs == some Gen.c_CompressionError then none
        else some s!"Msg fragment sid={sid}: undecodable, full model sent no GOAWAY(COMPRESSION_ERROR)"
      | .verdict (.goAway c) =>
        if outHasGoAway outs == some c then none else some s!"Msg fragment sid={sid}: abstract goaway{c}"
      | .verdict (.rst c) =>
        if outRst outs sid == some c && (outHasGoAway outs).isNone then none else some s!"Msg fragment sid={sid}: abstract rst{c} full={fullReaction outs sid}"
      | .verdict .dispatch => none
      | .heldTooLong _ =>
        if outHasGoAway outs == some Gen.c_EnhanceYourCalm then none
        else some s!"Msg fragment sid={sid}: unfinished field above the bound, full model sent no GOAWAY(ENHANCE_YOUR_CALM)"
      | .ok _ =>
        match lookup fs.after.s sid with
        | some st' =>
          if (outHasGoAway outs).isSome then none
          else if sameSt m (msgSt st') then none
          else some s!"Msg fragment sid={sid}: per-stream flags differ after the field loop"
        | none => none
    (l, some e, err)
  match err1 with
  | some m => (l, some m)
  | none =>
  -- 2. the verdict on the request, whenever the full model pronounces one
  let outs := fs.after.out
  -- a trailer section without END_STREAM whose fields are all accepted is refused for its framing (RFC 7540 8.1:
  -- the C08 model's rule, compared there): the request is not complete, `validate` has no say
  let framing : Bool := reaches && (st?.map (·.headersFinished)).getD false &&
    !Frame.hasFlag fr.flags Gen.c_FlagEndStream && (walkFrame s st? fr).1.isOk
  -- a field that is not complete and already too long to fit the list limit (F68; the C13 model `Abs.Limits` decides,
  -- compared there and by the C08 adapter): every decoded field was accepted, `validate` has no say either
  let held : Bool := reaches && (match (walkFrame s st? fr).1 with | .heldTooLong _ => true | _ => false)
  let full : Option String :=
    match fullVerdict outs sid with
    | some v => if (outHasGoAway outs).isSome || framing then none else some v
    | none => if reaches && !held && outHasGoAway outs == some Gen.c_EnhanceYourCalm then some s!"goaway{Gen.c_EnhanceYourCalm}" else none
  let (l, err2) : L × Option String :=
    match full, e with
    | some v, some e =>
      let dataLen : Nat := match lookup fs.after.s sid with
        | some st' => st'.recvBody
        | none => (st?.map (·.recvBody)).getD 0 + (match fr.body with | .data _ b => b.length | _ => 0)
      let a := H2.Server.Msg.validate (msgCfg s) e.hs e.trailers dataLen
      let view := H2.Server.Msg.requestView (msgCfg s) e.hs e.trailers dataLen
      ({ l with verdicts := l.verdicts + 1 },
       if fmtVerdict a != v then
         some s!"Msg verdict sid={sid} abstract={fmtVerdict a} full={v} hs={e.hs.length} trailers={e.trailers.length} data={dataLen}"
       else if a == .dispatch && view != outView outs sid then
         some s!"Msg view sid={sid}: the request view of the abstract model differs from the dispatch record"
       else none)
    | _, _ => (l, none)
  -- 3. bookkeeping: keep the entry while the stream is in the table
  let entries := l.entries.filter (·.sid != sid)
  let entries := match e with
    | some e => if (lookup fs.after.s sid).isSome then e :: entries else entries
    | none => entries
  ({ l with entries := entries }, err2)

def L.step (l : L) (before : Srv) (ev : Event) (r : R) : L × Option String :=
  if !l.on then (l, none) else
  if before.undefined || r.s.undefined then ({ l with on := false }, none) else
  match ev with
  | .bytes _ =>
    (stepsOf before ev).foldl (fun (acc : L × Option String) fs =>
      match acc.2 with
      | some _ => acc
      | none => checkFrame acc.1 fs) (l, none)
  | _ =>
    -- streams that left the table are forgotten
    ({ l with entries := l.entries.filter fun e => (lookup r.s e.sid).isSome }, none)

end Msg
end H2.Server.Lock
