import H2.Server.Lock.Recv
import H2.Server.Lock.PerFrame
import H2.Server.Abs.Limits
/-!
# Lockstep adapter: `Abs.Limits` beside the full server model

Events per stream-loop action: `opened` when a stream is created; `hdrBytes` with the growth of the
stream's header-list size when a HEADERS/CONTINUATION frame was handled and the stream is still in the table, followed
by `hdrTail` with the octets of an unfinished field the field loop was left with: what the stream holds afterwards, or,
when the full model refused them (GOAWAY "header field exceeds …"), their number as the HPACK model decodes the
fragment (`walkFrame`; 0 if that finds no such tail, so that the abstract model does not follow and the difference shows);
`data` (octets of data, padding removed) when a DATA frame reaches the body-limit check; `dispatch`;
`close` for every stream that left the table. Compared per action: what the dispatched request carries
(body octets against the dispatch record, header-list size against the stream), a body-limit rejection
against RST_STREAM(ENHANCE_YOUR_CALM), a header-list rejection and the rejection of an unfinished field against their
GOAWAYs; per step: `recvBody`, body length, header-list size and held header octets of every stream in the table.
-/
namespace H2.Server.Lock
open H2.Server.Abs
open H2.Frame (Frame)

structure Limits.L where
  st : Limits.St := Limits.init 0 0
  on : Bool := true
  started : Bool := false
deriving Inhabited

def Limits.L.init : Limits.L := {}

def heldTag : String := "header field exceeds the maximum header list size"

def limitsEvents (sub : Sub) : List Limits.Ev :=
  match sub.act with
  | .frame fr =>
    if fr.stream == 0 then (closedIn sub.pre sub.post).map Limits.Ev.close else
    let created := sub.pre.nextUid < sub.post.nextUid
    let preSt : Option Strm := if fr.stream ≤ sub.pre.lastID then sub.pre.strms.find? (·.id == fr.stream) else none
    let uid : Option Nat := match preSt with
      | some st => some st.uid
      | none => if created then some sub.pre.nextUid else none
    let postSt : Option Strm := match uid with
      | some u => sub.post.strms.find? (·.uid == u)
      | none => none
    let hdr : List Limits.Ev :=
      if fr.typ == Gen.c_FrameHeaders || fr.typ == Gen.c_FrameContinuation then
        match postSt with
        | some p =>
          let refused := (goAwaysOf sub.out).any fun g => g.2.2 == heldTag
          let tail : Nat :=
            if refused then (match (walkFrame sub.pre preSt fr).1 with | .heldTooLong n => n | _ => 0)
            else p.prevHdr.length
          [.hdrBytes fr.stream (p.hdrListSize - (preSt.map (·.hdrListSize)).getD 0), .hdrTail fr.stream tail]
        | none => []
      else []
    let data : List Limits.Ev :=
      if fr.typ == Gen.c_FrameData then
        match preSt, classifyData sub.pre fr with
        | some _, .accepted .. | some _, .dropped .. =>
          [.data fr.stream (match fr.body with | .data _ b => b.length | _ => 0)]
        | _, _ => []
      else []
    (if created then [Limits.Ev.opened fr.stream] else []) ++ hdr ++ data ++
    (dispatchedOf sub.out).map Limits.Ev.dispatch ++ (closedIn sub.pre sub.post).map Limits.Ev.close
  | .done .. => if sub.pre.slStopped then [] else (closedIn sub.pre sub.post).map Limits.Ev.close
  | _ => []

def limitsGauge (st : Limits.St) : String := s!"{st.tbl.map fun s => (s.id, s.recv, s.body, s.hdr, s.held)}"
def limitsGaugeFull (s : Srv) : String := s!"{s.strms.map fun st => (st.id, st.recvBody, st.body.len, st.hdrListSize, st.prevHdr.length)}"

def Limits.L.step (l : Limits.L) (before : Srv) (ev : Event) (r : R) : Limits.L × Option String :=
  if !l.on then (l, none) else
  if r.s.undefined then ({ l with on := false }, none) else
  let l := if l.started then l else { l with st := Limits.init before.cfg.maxBody before.cfg.maxHeaderList, started := true }
  let subs := substeps before ev r
  if !replayAgrees subs before r then ({ l with on := false }, some "limits replay") else
  let (st, bad) := subs.foldl (fun (acc : Limits.St × Option String) sub =>
      let st := acc.1
      let st' := Limits.run st (limitsEvents sub)
      let new := st'.trace.drop st.trace.length
      let handed := new.filterMap fun x => match x with | .handed id b _ => some (id, b) | _ => none
      let handedHdr := new.filterMap fun x => match x with | .handed id _ h => some (id, h) | _ => none
      let fullHanded := sub.out.filterMap fun o => match o with | .dispatch sid _ _ _ _ body => some (sid, body.len) | _ => none
      let fullHdr := (dispatchedOf sub.out).map fun sid => (sid, ((sub.post.strms.find? (·.id == sid)).map (·.hdrListSize)).getD 0)
      let bodyRej := new.filterMap fun x => match x with | .bodyTooLarge id => some id | _ => none
      let isData := match sub.act with | .frame fr => fr.typ == Gen.c_FrameData | _ => false
      let fullBodyRej := if isData then sub.out.filterMap fun o => match o with
          | .rst sid code => if code == Gen.c_EnhanceYourCalm then some sid else none | _ => none else []
      let hdrRej := new.any fun x => match x with | .hdrTooLarge _ => true | _ => false
      let fullHdrRej := (goAwaysOf sub.out).any fun g => g.2.2 == "header list exceeds the maximum size"
      let fieldRej := new.any fun x => match x with | .fieldTooLarge _ => true | _ => false
      let fullFieldRej := (goAwaysOf sub.out).any fun g => g.2.2 == heldTag
      let ok := handed == fullHanded && handedHdr == fullHdr && bodyRej == fullBodyRej && hdrRej == fullHdrRej &&
        fieldRej == fullFieldRej
      (st', if ok || acc.2.isSome then acc.2
            else some s!"limits handed={handed}/{fullHanded} hdr={handedHdr}/{fullHdr} bodyRej={bodyRej}/{fullBodyRej} hdrRej={hdrRej}/{fullHdrRej} fieldRej={fieldRej}/{fullFieldRej}")) (l.st, none)
  match bad with
  | some m => ({ l with st := st, on := false }, some m)
  | none =>
    if limitsGauge st == limitsGaugeFull r.s then ({ l with st := st }, none)
    else ({ l with st := st, on := false }, some s!"limits abstract{limitsGauge st} full{limitsGaugeFull r.s}")

end H2.Server.Lock
