import H2.Server.Model
import H2.Server.Abs.Msg
import H2.Server.Abs.Limits
/-!
# Lockstep helpers shared by the per-stream adapters (C08 `StreamSM`, C20 `Msg`)

* `frameSteps`: one step of the full model (`stepR … (.bytes b)`) taken apart frame by frame: the same loop
  as `rlDrain`, but keeping for every frame the state the read loop saw it in and the result of `rlFrame`
  on it alone. So the adapters compare the abstract models with the full model frame by frame, however the
  octets were batched.
* `msgSt`: the projection of a full-model stream onto the state of the C20 model.
* `walk`: a header fragment decoded field by field with the HPACK model, each field handed to the C20
  model's `Msg.field` — the control flow of `fieldLoop`, with the validation delegated.
-/
namespace H2.Server.Lock
open H2.Frame (Frame Body)

structure FrameStep where
  /-- the state in which the read loop handles the frame (its octets already taken off `inbuf`) -/
  before : Srv
  /-- `none`: a frame of unknown type (discarded by `ReadFrameFromWithSize`) -/
  frame : Option Frame
  /-- stream id in the frame header -/
  sid : Nat
  after : R
deriving Inhabited

def frameSteps : Nat → Srv → List FrameStep
  | 0, _ => []
  | fuel + 1, s =>
    if s.rlStopped || s.inbuf.isEmpty then [] else
    match Frame.readFrame Gen.c_defaultDataFrameSize s.inbuf with
    | .ok fr n =>
      let s0 := { s with inbuf := s.inbuf.drop n }
      let r := rlFrame { s := s0 } fr
      ⟨s0, some fr, fr.stream, r⟩ :: frameSteps fuel r.s
    | .unknownType _ n =>
      if s.inbuf.length < 9 + be24 s.inbuf then []
      else
        let sid := be32 (s.inbuf.drop 5) % 2 ^ 31
        let s0 := { s with inbuf := s.inbuf.drop n }
        let r : R := if s0.expectCont != 0 then rlStop (writeGoAway { s := s0 } 0 Gen.c_ProtocolError "ext-in-block") else { s := s0 }
        ⟨s0, none, sid, r⟩ :: frameSteps fuel r.s
    | _ => []

/-- the frames of one event, each with its own before/after -/
def stepsOf (before : Srv) (ev : Event) : List FrameStep :=
  match ev with
  | .bytes b =>
    let s := { before with inbuf := before.inbuf ++ b }
    frameSteps (s.inbuf.length + 1) s
  | _ => []

/-- what the per-stream adapters look at, as a string: used to check that the frame-by-frame replay ends where
the real step ended (`settle` only sets the stop flags afterwards) -/
def gaugeOf (s : Srv) : String :=
  s!"{s.strms.map fun st => (st.id, st.state.rank, st.headersFinished, st.responded, st.handlerRunning, st.recvBody)} last={s.lastID} ref={s.lastRefused} ring={s.ring.length}/{s.ring.head?} rst={s.resetByUs.length}/{s.resetByUs.head?} open={s.openStreams} cont={s.expectCont} closing={s.closing} undef={s.undefined} in={s.inbuf.length}"

def replayEndsAt (steps : List FrameStep) (r : R) : Bool :=
  match steps.getLast? with
  | some fs => gaugeOf fs.after.s == gaugeOf r.s
  | none => true

/-- the stream the stream loop would find for `sid` -/
def lookup (s : Srv) (sid : Nat) : Option Strm :=
  if sid ≤ s.lastID then s.strms.find? (·.id == sid) else none

def msgCfg (s : Srv) : Msg.Cfg := { maxHeaderList := s.cfg.maxHeaderList, maxBody := s.cfg.maxBody }

/-- projection of a stream onto the C20 model's state -/
def msgSt (st : Strm) : Msg.St :=
  { pMethod := st.pMethod, pScheme := st.pScheme, pPath := st.pPath, pAuthority := st.pAuthority,
    regularSeen := st.regularSeen, hasCL := st.hasCL, cl := st.contentLength.toNat, listSize := st.hdrListSize,
    method := st.method, path := st.path, authority := st.host, contentType := st.contentType,
    userAgent := st.userAgent, fields := st.fields }

inductive WalkEnd where
  | ok (cut : Nat)           -- every field accepted; `cut` octets of a field that is not complete are left for the CONTINUATION
  | verdict (v : Msg.Verdict)
  | undecodable
  /-- the `cut` octets left are more than the server carries over (`Abs.Limits.fieldTooLong`, the C13 model) -/
  | heldTooLong (cut : Nat)
deriving Repr, DecidableEq, Inhabited

def WalkEnd.isOk : WalkEnd → Bool
  | .ok _ => true
  | _ => false

/-- decode `b` field by field from decoder state `dec`; validate each field with `Msg.field`. Returns how
it ended, the C20 state, and the fields that were decoded (the rejected one included). -/
def walk (cfg : Msg.Cfg) : Nat → Hpack.DecState → Msg.St → Bool → Bool → Nat → Bytes → List MsgSpec.Field →
    WalkEnd × Msg.St × List MsgSpec.Field
  | 0, _, st, _, _, _, _, acc => (.undecodable, st, acc)
  | _, _, st, _, _, _, [], acc => (.ok 0, st, acc)
  | fuel + 1, dec, st, blockStart, endHeaders, fp, b, acc =>
    match Hpack.Dec.next dec blockStart fp b with
    | .needMore =>
      if !endHeaders then
        -- what is carried over: the unfinished representation, without the size updates in front of it
        let cut := (Hpack.Dec.skipUpdates dec blockStart fp b).2.length
        if Abs.Limits.fieldTooLong cfg.maxHeaderList cut then (.heldTooLong cut, st, acc) else (.ok cut, st, acc)
      else (.undecodable, st, acc)
    | .err => (.undecodable, st, acc)
    | .ok _ none _ => (.ok 0, st, acc)     -- only table size updates were left: no field
    | .ok dec' (some f) rest =>
      let kv : MsgSpec.Field := (f.name, f.value)
      match Msg.field cfg st kv with
      | .error v => (.verdict v, st, acc ++ [kv])
      | .ok st' => walk cfg fuel dec' st' blockStart endHeaders (fp + 1) rest (acc ++ [kv])

/-- the header-bearing part of a frame: (is CONTINUATION, END_HEADERS, fragment) -/
def headerPart (fr : Frame) : Option (Bool × Bool × Bytes) :=
  match fr.body with
  | .headers _ eh _ frag => some (false, eh, frag)
  | .continuation eh frag => some (true, eh, frag)
  | _ => none

/-- `walk` on the fragment of `fr` for the stream `st?` (`none`: the stream would be created now) -/
def walkFrame (s : Srv) (st? : Option Strm) (fr : Frame) : WalkEnd × Msg.St × List MsgSpec.Field :=
  match headerPart fr with
  | none => (.ok 0, (st?.map msgSt).getD {}, [])
  | some (isCont, eh, frag) =>
    let prev := (st?.map (·.prevHdr)).getD []
    let b := prev ++ frag
    let m0 : Msg.St := (st?.map msgSt).getD {}
    -- a block arriving when the request's own block is finished is a trailer block
    let m0 := if (st?.map (·.headersFinished)).getD false then Msg.startTrailers m0 else m0
    walk (msgCfg s) (b.length + 1) s.dec m0 (!(isCont && (st?.map (·.fieldSeen)).getD false)) eh 0 b []

def outHasGoAway (outs : List Out) : Option Nat :=
  outs.findSome? fun o => match o with | .goAway _ code _ => some code | _ => none

def outRst (outs : List Out) (sid : Nat) : Option Nat :=
  outs.findSome? fun o => match o with | .rst s code => if s == sid then some code else none | _ => none

/-- the request view in the dispatch record for `sid` -/
def outView (outs : List Out) (sid : Nat) : Option MsgSpec.View :=
  outs.findSome? fun o => match o with
    | .dispatch s m p a fs _ => if s == sid then some ⟨m, p, a, fs⟩ else none
    | _ => none

def outDispatch (outs : List Out) (sid : Nat) : Bool :=
  outs.any fun o => match o with | .dispatch s .. => s == sid | _ => false

/-- the response on `sid` ended in these outputs (END_STREAM on HEADERS or DATA) -/
def outEnded (outs : List Out) (sid : Nat) : Bool :=
  outs.any fun o => match o with
    | .headers s es .. => s == sid && es
    | .data s es .. => s == sid && es
    | _ => false

end H2.Server.Lock
