import H2.Server.Lock.Common
import H2.Server.Abs.Slots
/-!
# Lockstep adapter: `Abs.Slots` beside the full server model

Events per stream-loop action: `hdrNew` when a HEADERS frame reaches the limit check, `dispatch` for
every dispatch record, `close` for every stream that left the table (table order), `done` for a handler
reporting back. Compared after every step: `openStreams`, the ids and `handlerRunning` flags of the
table, the abandoned ids, the ring, `lastID`; per action: the refusals (RST_STREAM(REFUSED_STREAM)) and
the dispatches.
-/
namespace H2.Server.Lock
open H2.Server.Abs

structure Slots.L where
  st : Slots.St := Slots.init 0
  on : Bool := true
  started : Bool := false
deriving Inhabited

def Slots.L.init : Slots.L := {}

def slotsEvents (sub : Sub) : List Slots.Ev :=
  match sub.act with
  | .frame fr =>
    (if reachesLimitCheck sub.pre fr then [Slots.Ev.hdrNew fr.stream sub.pre.closing] else []) ++
    (dispatchedOf sub.out).map Slots.Ev.dispatch ++
    (closedIn sub.pre sub.post).map Slots.Ev.close
  | .done sid _ =>
    if sub.pre.slStopped then [] else
    match sub.pre.strms.find? (fun st => st.id == sid && st.handlerRunning) with
    | some st => [.done sid (!(sub.post.strms.any (·.uid == st.uid)))]
    | none => [.done sid false]
  | _ => []

def slotsGauge (st : Slots.St) : String :=
  s!"ids={st.tbl.map (·.id)} run={st.tbl.map (·.running)} ab={st.abandoned.map (·.id)} open={st.opn} ring={st.ring} last={st.lastID} refused={st.lastRefused}"

def slotsGaugeFull (s : Srv) : String :=
  s!"ids={s.strms.map (·.id)} run={s.strms.map (·.handlerRunning)} ab={s.abandoned.map (·.id)} open={s.openStreams} ring={s.ring} last={s.lastID} refused={s.lastRefused}"

def recRefused (t : List Slots.Rec) : List Nat :=
  t.filterMap fun r => match r with | .refused id => some id | _ => none

def recDispatched (t : List Slots.Rec) : List Nat :=
  t.filterMap fun r => match r with | .dispatched id _ => some id | _ => none

def Slots.L.step (l : Slots.L) (before : Srv) (ev : Event) (r : R) : Slots.L × Option String :=
  if !l.on then (l, none) else
  if r.s.undefined then ({ l with on := false }, none) else
  let l := if l.started then l else { l with st := Slots.init before.cfg.maxStreams, started := true }
  let subs := substeps before ev r
  if !replayAgrees subs before r then
    ({ l with on := false }, some s!"slots replay full={gaugeStr r.s} replay={gaugeStr ((subs.getLast?.map (·.post)).getD before)}") else
  let (st, bad) := subs.foldl (fun (acc : Slots.St × Option String) sub =>
      let st := acc.1
      let st' := Slots.run st (slotsEvents sub)
      let new := st'.trace.drop st.trace.length
      let ok := recRefused new == refusedOf sub.out && recDispatched new == dispatchedOf sub.out
      -- keep the ghost trace short in the driver: only its length matters for the next comparison
      (st', if ok || acc.2.isSome then acc.2
            else some s!"slots outs refused={recRefused new}/{refusedOf sub.out} dispatched={recDispatched new}/{dispatchedOf sub.out}")) (l.st, none)
  match bad with
  | some m => ({ l with st := st, on := false }, some m)
  | none =>
    if slotsGauge st == slotsGaugeFull r.s then ({ l with st := st }, none)
    else ({ l with st := st, on := false }, some s!"slots abstract[{slotsGauge st}] full[{slotsGaugeFull r.s}]")

end H2.Server.Lock
