import H2.Server.Lock.Common
import H2.Server.Abs.Closing
/-!
# Lockstep adapter: `Abs.Closing` beside the full server model

Events per stream-loop action: `hdrNew` when a HEADERS frame reaches the refusal check, `close` for
every stream that left the table, `offence` for every GOAWAY the full model wrote (the offence is read
off the message the code puts into the GOAWAY; "lower-id" is decided by the abstract model itself),
`dispatch` for every dispatch record, `check` when the iteration reaches a check (the one before `continue`
in the connection-level branch, the one at the end of a stream's frame or of a handler's response).
The events of one action are one iteration of the stream loop; its shape (`okIter`, the hypothesis of
`closes_when_promised_done`) is checked here.
Compared per action: the GOAWAYs (last-stream-id and code — so the decision table of the abstract model
is held against the code), the dispatches, the refusals; per step: table ids, `lastID`, `closeRef`,
closing, and whether the stream loop has stopped.
-/
namespace H2.Server.Lock
open H2.Server.Abs
open H2.Server.Abs.Closing (Offence)
open H2.Frame (Frame)

structure Closing.L where
  st : Closing.St := Closing.init
  on : Bool := true
deriving Inhabited

def Closing.L.init : Closing.L := {}

/-- which offence a GOAWAY of the full model stands for; `known`: the frame's stream is in the table;
`rl`: written by the read loop -/
def offenceOfTag (tag : String) (code : Nat) (known rl : Bool) : Option Offence :=
  if tag == "RST_STREAM on idle stream" then some (if known then .rstOnIdleKnown else .rstOnIdle)
  else if tag == "closed-stream" then some .frameOnClosed
  else if tag == "stream that depends on itself" then some .selfDependency
  else if tag == "wrong frame on idle stream" then some .frameOnIdle
  else if tag == "lower-id" then some .lowerId
  else if tag == "previous stream headers not ended" then some .prevHeadersOpen
  else if tag == "stream-win-max" then some .streamWindowOverflow
  else if tag == "conn-win-max" then some .connWindowOverflow
  else if tag == "wrong frame on half-closed stream" then some .frameOnHalfClosed
  else if tag == "received headers on a finished stream" then some .headersOnFinished
  else if tag == "stream not open" then some .trailersWithoutEndStream
  else if tag == "compression" then some .compression
  else if tag == "header list exceeds the maximum size" then some .headerListTooLarge
  else if tag == "header field exceeds the maximum header list size" then some .headerListTooLarge   -- same offence (F68)
  else if tag == "END_HEADERS received on an incomplete stream" then some .endHeadersIncomplete
  else if tag == "stream didn't end the headers" then some .dataInHeaderBlock
  else if tag == "stream closed" then some .dataOnHalfClosed
  else if tag == "frame priority on an open stream" then some .priorityInHeaderBlock
  else if tag == "window update on idle stream" then some .windowUpdateOnIdle
  else if tag == "window increment of 0" then some (if rl then .windowUpdateZeroConn else .windowUpdateZeroStream)
  else if tag == "invalid frame" then some (if rl then .invalidFrameOnStreamZero else .invalidFrameOnStream)
  else if tag == "want-cont" then some .wantContinuation
  else if tag == "stray-cont" then some .strayContinuation
  else if tag == "ext-in-block" then some .extensionInHeaderBlock
  else if tag == "invalid stream id" then some .evenStreamId
  else if tag == "ping is carrying a stream id" then some .pingWithStreamId
  else if tag == "clients can't send push_promise frames" then some .pushPromiseFromClient
  else if tag == "frame-error" then some (.frameError code)
  else if tag == "idle" then some .idleTimeout
  else none

def knownStream (s : Srv) (sid : Nat) : Bool :=
  if sid ≤ s.lastID then (s.strms.find? (·.id == sid)).isSome else false

/-- `none`: a GOAWAY whose message is not in the table -/
def closingEvents (sub : Sub) : Option (List Closing.Ev) :=
  let closes := (closedIn sub.pre sub.post).map Closing.Ev.close
  let disp := (dispatchedOf sub.out).map Closing.Ev.dispatch
  let offs (known rl : Bool) (sid : Nat) : Option (List (List Closing.Ev)) :=
    (goAwaysOf sub.out).mapM fun (_, code, tag) =>
      match offenceOfTag tag code known rl with
      | some .lowerId => some []
      | some .prevHeadersOpen => some [Closing.Ev.offence .prevHeadersOpen (((getPrevious sub.post.strms).map (·.id)).getD 0)]
      | some o => some [Closing.Ev.offence o sid]
      | none => none
  match sub.act with
  | .frame fr =>
    let known := knownStream sub.pre fr.stream
    let created := sub.pre.nextUid < sub.post.nextUid
    match offs known false fr.stream with
    | none => none
    | some os =>
      let hdr := if reachesLimitCheck sub.pre fr then
          [Closing.Ev.hdrNew fr.stream (sub.pre.openStreams ≥ (sub.pre.cfg.maxStreams : Int))] else []
      let chk := if (fr.stream == 0 || known || created) && !(sub.out.any isGA) then [Closing.Ev.check] else []
      some (hdr ++ closes ++ os.flatten ++ disp ++ chk)
  | .done sid _ =>
    if sub.pre.slStopped then some []
    else if sub.pre.strms.any (fun st => st.id == sid && st.handlerRunning) then some (closes ++ [.check])
    else some []
  | .idle => (offs false false 0).map (·.flatten)
  | .rlGoAway => (offs false true 0).map (·.flatten)

def closingGauge (st : Closing.St) : String :=
  s!"ids={st.tbl} last={st.lastID} refused={st.lastRefused} ref={st.closeRef} closing={st.closing} stopped={st.stopped}"

def closingGaugeFull (s : Srv) : String :=
  s!"ids={s.strms.map (·.id)} last={s.lastID} refused={s.lastRefused} ref={s.closeRef} closing={s.closing} stopped={s.slStopped}"

def recGoAways (t : List Closing.Rec) : List (Nat × Nat) :=
  t.filterMap fun r => match r with | .goAway l c => some (l, c) | _ => none
def recDisp (t : List Closing.Rec) : List Nat :=
  t.filterMap fun r => match r with | .dispatched id => some id | _ => none
def recRef (t : List Closing.Rec) : List Nat :=
  t.filterMap fun r => match r with | .refused id => some id | _ => none

def Closing.L.step (l : Closing.L) (before : Srv) (ev : Event) (r : R) : Closing.L × Option String :=
  if !l.on then (l, none) else
  if r.s.undefined then ({ l with on := false }, none) else
  let subs := substeps before ev r
  if !replayAgrees subs before r then ({ l with on := false }, some "closing replay") else
  let (st, bad) := subs.foldl (fun (acc : Closing.St × Option String) sub =>
      let st := acc.1
      match closingEvents sub with
      | none => (st, if acc.2.isSome then acc.2 else some s!"closing unknown GOAWAY message {(goAwaysOf sub.out).map (·.2.2)}")
      | some evs =>
        let shape := Closing.okIter evs || evs.any fun e => match e with | .offence .prevHeadersOpen _ => true | _ => false
        if !shape then (st, if acc.2.isSome then acc.2 else some s!"closing iteration shape {repr evs}") else
        let st' := Closing.run st evs
        let new := st'.trace.drop st.trace.length
        let gas := (goAwaysOf sub.out).map fun g => (g.1, g.2.1)
        let ok := recGoAways new == gas && recDisp new == dispatchedOf sub.out && recRef new == refusedOf sub.out
        (st', if ok || acc.2.isSome then acc.2
              else some s!"closing outs ga={recGoAways new}/{gas} disp={recDisp new}/{dispatchedOf sub.out} refused={recRef new}/{refusedOf sub.out}")) (l.st, none)
  -- the read loop ended (EOF, peer's GOAWAY, dropped connection, its own GOAWAY): the stream loop goes with it
  let lastPost := (subs.getLast?.map (·.post)).getD before
  let st := if !lastPost.slStopped && r.s.slStopped then Closing.step st .peerGone else st
  match bad with
  | some m => ({ l with st := st, on := false }, some m)
  | none =>
    if closingGauge st == closingGaugeFull r.s then ({ l with st := st }, none)
    else ({ l with st := st, on := false }, some s!"closing abstract[{closingGauge st}] full[{closingGaugeFull r.s}]")

end H2.Server.Lock
