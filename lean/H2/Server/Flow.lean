/-!
# C06 — abstract model of the server's send side (stream loop: `sendData`, `flushStreams`, the two
WINDOW_UPDATE paths, the SETTINGS delta, handler completion, stream reset)

Reduced to what flow control is about: per stream the send window, whether the response is ready, the
octets still owed; per connection the send window. Ghost ledger fields (`granted`, `sent`) record what
the peer has granted and what has been sent, so "window = allowance" is a plain equality invariant.
The driver runs this model in lockstep with the full server model (`H2.Server.step`) and compares the
DATA octets per stream and step, so it is tied to the code through the same correspondence runs.
-/
namespace H2.Server.Flow

structure Strm where
  id : Nat
  window : Int
  responded : Bool
  running : Bool
  pending : Nat
  -- ghost ledger
  granted : Int
  sent : Nat
  fins : Nat := 0             -- ghost: DATA frames with END_STREAM sent on this stream
deriving Repr

structure St where
  strms : List Strm
  cw : Int
  initWin : Int
  -- ghost
  cgranted : Int
  csent : Nat
deriving Repr

inductive Ev
  | opn (id : Nat)            -- request complete, handler dispatched
  | done (id : Nat) (len : Nat)
  | wuS (id : Nat) (n : Nat)
  | wuC (n : Nat)
  | settings (v : Nat)
  | rst (id : Nat)            -- the stream is reset or otherwise gone: nothing more is owed on it

structure Data where
  id : Nat
  len : Nat
  availBefore : Int           -- ghost: min(stream allowance, connection allowance) before sending
  fin : Bool := false         -- END_STREAM: this frame takes the last octet owed
deriving Repr

def maxFrame : Nat := 16384

/-- `sendData`: returns updated stream, connection window, ghost conn sent, outputs. -/
def sendData (s : Strm) (cw : Int) (csent : Nat) : Strm × Int × Nat × List Data :=
  if h : s.pending = 0 then (s, cw, csent, [])
  else
    let avail := min s.window cw
    if ha : avail ≤ 0 then (s, cw, csent, [])
    else
      let step := min (min maxFrame avail.toNat) s.pending
      have : step > 0 := by
        have : avail.toNat > 0 := by omega
        simp only [step, maxFrame]; omega
      let fin := s.pending - step == 0
      let s' := { s with pending := s.pending - step, window := s.window - step, sent := s.sent + step,
                         fins := s.fins + (if fin then 1 else 0) }
      let (s'', cw', cs', outs) := sendData s' (cw - step) (csent + step)
      (s'', cw', cs', ⟨s.id, step, avail, fin⟩ :: outs)
termination_by s.pending
decreasing_by
  show s.pending - step < s.pending
  omega

def flushable (s : Strm) : Bool := s.responded && !s.running && s.pending > 0

/-- `flushStreams`: in table order -/
def flushAll : List Strm → Int → Nat → List Strm × Int × Nat × List Data
  | [], cw, cs => ([], cw, cs, [])
  | s :: rest, cw, cs =>
    if flushable s then
      let (s', cw', cs', o1) := sendData s cw cs
      let (rest', cw'', cs'', o2) := flushAll rest cw' cs'
      (s' :: rest', cw'', cs'', o1 ++ o2)
    else
      let (rest', cw'', cs'', o2) := flushAll rest cw cs
      (s :: rest', cw'', cs'', o2)

def updStrm (f : Strm → Strm) (id : Nat) : List Strm → List Strm
  | [] => []
  | s :: rest => if s.id = id then f s :: rest else s :: updStrm f id rest

def findStrm (id : Nat) : List Strm → Option Strm
  | [] => none
  | s :: rest => if s.id = id then some s else findStrm id rest

def bump (d : Int) (s : Strm) : Strm := { s with window := s.window + d, granted := s.granted + d }

def dropPending (s : Strm) : Strm := { s with pending := 0 }

def stepRst (st : St) (id : Nat) : St × List Data :=
  ({ st with strms := updStrm dropPending id st.strms }, [])

def step (st : St) : Ev → St × List Data
  | .opn id =>
    match findStrm id st.strms with
    | some _ => (st, [])
    | none => ({ st with strms := st.strms ++ [⟨id, st.initWin, false, true, 0, st.initWin, 0, 0⟩] }, [])
  | .done id len =>
    match findStrm id st.strms with
    | none => (st, [])
    | some s =>
      if s.responded then (st, []) else
      let s1 := { s with responded := true, running := false, pending := len }
      let (s2, cw, cs, outs) := sendData s1 st.cw st.csent
      ({ st with strms := updStrm (fun _ => s2) id st.strms, cw := cw, csent := cs }, outs)
  | .wuS id n =>
    match findStrm id st.strms with
    | none => (st, [])
    | some s =>
      let s1 := { s with window := s.window + n, granted := s.granted + n }
      if flushable s1 then
        let (s2, cw, cs, outs) := sendData s1 st.cw st.csent
        ({ st with strms := updStrm (fun _ => s2) id st.strms, cw := cw, csent := cs }, outs)
      else ({ st with strms := updStrm (fun _ => s1) id st.strms }, [])
  | .wuC n =>
    let (ss, cw, cs, outs) := flushAll st.strms (st.cw + n) st.csent
    ({ st with strms := ss, cw := cw, csent := cs, cgranted := st.cgranted + n }, outs)
  | .settings v =>
    let (ss', cw, cs, outs) := flushAll (st.strms.map (bump ((v : Int) - st.initWin))) st.cw st.csent
    ({ st with strms := ss', cw := cw, csent := cs, initWin := v }, outs)
  | .rst id => stepRst st id

def run (st : St) : List Ev → St × List Data
  | [] => (st, [])
  | e :: es => let (st', o) := step st e; let (st'', o') := run st' es; (st'', o ++ o')

def init : St := ⟨[], 65535, 65535, 65535, 0⟩

end H2.Server.Flow
