import H2.Base
import H2.Gen.Consts
import H2.Hpack.Model
import H2.Frame.Model
/-!
# Server model — state and outputs

Mirror of `serverConn` (read loop + stream loop) as one serial step function: the harness sends one
event at a time and waits for quiescence, so the real server is a deterministic function of the event
sequence (DESIGN.md §4.4). Machine integers are `Int`/`Nat` with explicit wrap where the Go type wraps.
-/
namespace H2.Server

inductive StState where
  | idle | reserved | open | halfClosed | closed
deriving Repr, DecidableEq, Inhabited

def StState.rank : StState → Nat
  | .idle => 0 | .reserved => 1 | .open => 2 | .halfClosed => 3 | .closed => 4

/-- digest of a byte string: length, sum mod 65521, xor — what the harness prints for bodies -/
structure Digest where
  len : Nat := 0
  sum : Nat := 0
  xor : Nat := 0
deriving Repr, DecidableEq, Inhabited

def Digest.add (d : Digest) (b : Bytes) : Digest :=
  b.foldl (fun d c => ⟨d.len + 1, (d.sum + c) % 65521, d.xor ^^^ c⟩) d

def Digest.toString (d : Digest) : String := s!"{d.len}:{d.sum}:{d.xor}"

/-- body octet of stream `sid` at offset `i` (harness `patByte`) -/
def patByte (sid i : Nat) : Nat := (i * 7 + sid * 13 + i / 251) % 251

def patDigest (sid off n : Nat) : Digest :=
  (List.range n).foldl (fun d k => let c := patByte sid (off + k); ⟨d.len + 1, (d.sum + c) % 65521, d.xor ^^^ c⟩) {}

/-- response body source: explicit octets or the pattern of a stream -/
inductive Src where
  | hex (b : Bytes)
  | pat (sid : Nat)
deriving Repr, DecidableEq, Inhabited

def Src.digest (s : Src) (off n : Nat) : Digest :=
  match s with
  | .hex b => ({} : Digest).add ((b.drop off).take n)
  | .pat sid => patDigest sid off n

/-- scripted body stream: remaining chunk sizes and how it ends -/
structure BodyStream where
  chunks : List Nat
  tail : Char      -- 'e' EOF alone, 'E' EOF with the last chunk, 'x' error after the chunks
deriving Repr, DecidableEq, Inhabited

structure Strm where
  uid : Nat
  id : Nat
  window : Int
  state : StState := .idle
  origType : Nat := 0
  prevHdr : Bytes := []
  pMethod : Bool := false
  pScheme : Bool := false
  pPath : Bool := false
  pAuthority : Bool := false
  regularSeen : Bool := false
  fieldSeen : Bool := false      -- a field of the header block in progress has been decoded
  path : Bytes := []
  contentLength : Int := 0
  hasCL : Bool := false
  recvBody : Nat := 0
  hdrListSize : Nat := 0
  headersFinished : Bool := false
  responded : Bool := false
  handlerRunning : Bool := false
  abandoned : Bool := false
  -- what the handler will see (fasthttp request view)
  method : Bytes := []
  uri : Bytes := []
  host : Bytes := []
  contentType : Option Bytes := none
  userAgent : Option Bytes := none
  fields : List (Bytes × Bytes) := []
  body : Digest := {}
  -- response being sent
  src : Src := .hex []
  pendOff : Nat := 0          -- offset of pendingData in `src`
  pendLen : Nat := 0          -- len(pendingData)
  pendingEnd : Bool := false
  stream : Option BodyStream := none
  bodySize : Int := 0
  bodyRead : Nat := 0
deriving Repr, Inhabited

inductive Out where
  | settingsAck
  | settings (pairs : List (Nat × Nat))
  | wu (sid inc : Nat)
  | ping (ack : Bool) (b : Bytes)
  | headers (sid : Nat) (es eh : Bool) (len : Nat) (fields : List (Bytes × Bytes)) (hpackErr : Bool := false)
  /-- a CONTINUATION frame of a response header block (`writeHeaderBlock`); the decoded field list of the whole block is
  printed on the frame that carries END_HEADERS, HEADERS or CONTINUATION -/
  | cont (sid : Nat) (eh : Bool) (len : Nat) (fields : List (Bytes × Bytes)) (hpackErr : Bool := false)
  | data (sid : Nat) (es : Bool) (len : Nat) (d : Digest)
  | rst (sid code : Nat)
  | goAway (last code : Nat) (tag : String)
  | dispatch (sid : Nat) (m p a : Bytes) (fields : List (Bytes × Bytes)) (body : Digest)
  | handlerPanicLogged
  | returned
deriving Repr, Inhabited

def fmtKV (kvs : List (Bytes × Bytes)) : String :=
  if kvs.isEmpty then "-" else ",".intercalate (kvs.map fun (k, v) => hexOrDash k ++ ":" ++ hexOrDash v)

def b01 (b : Bool) : String := if b then "1" else "0"

def Out.toString : Out → String
  | .settingsAck => "S(ack)"
  | .settings ps => "S(" ++ ",".intercalate (ps.map fun (k, v) => s!"{k}={v}") ++ ")"
  | .wu sid inc => s!"WU({sid},{inc})"
  | .ping ack b => s!"PING(ack={b01 ack},{toHex b})"
  | .headers sid es eh len fs e => s!"H({sid},es={b01 es},eh={b01 eh},len={len},{fmtKV fs}{if e then ",hpack-err" else ""})"
  | .cont sid eh len fs e => s!"C({sid},eh={b01 eh},len={len},{fmtKV fs}{if e then ",hpack-err" else ""})"
  | .data sid es len d => s!"D({sid},es={b01 es},len={len},{d.toString})"
  | .rst sid code => s!"RST({sid},{code})"
  | .goAway last code tag => s!"GA(last={last},code={code},{tag.replace " " "_"})"
  | .dispatch sid m p a fs body =>
      s!"dispatch({sid},m={hexOrDash m},p={hexOrDash p},a={hexOrDash a},f={fmtKV fs},b={body.toString})"
  | .handlerPanicLogged => "handler-panic-logged"
  | .returned => "returned"

def Out.isDispatch : Out → Bool
  | .dispatch .. => true
  | _ => false

/-- the harness prints frames first, then dispatch records, then markers -/
def fmtOuts (outs : List Out) : String :=
  let isMarker : Out → Bool := fun o => match o with | .returned | .handlerPanicLogged => true | _ => false
  let frames := outs.filter fun o => !o.isDispatch && !isMarker o
  let disp := outs.filter Out.isDispatch
  let marks := outs.filter isMarker
  let all := frames ++ disp ++ marks
  if all.isEmpty then "out -" else "out " ++ " | ".intercalate (all.map Out.toString)

structure Cfg where
  maxStreams : Nat := 1024
  maxHeaderList : Int := Gen.c_DefaultMaxHeaderListSize   -- ≤ 0 disables the check
  maxBody : Nat := 4 * 1024 * 1024
deriving Repr, Inhabited

structure Srv where
  cfg : Cfg := {}
  -- stream loop
  strms : List Strm := []
  abandoned : List Strm := []     -- closed while their handler runs; they keep their slot
  nextUid : Nat := 0
  lastID : Nat := 0
  openStreams : Int := 0
  ring : List Nat := []            -- recently closed ids, oldest first
  resetByUs : List Nat := []       -- ids of streams this side reset (bounded like `ring`)
  lastRefused : Nat := 0           -- highest id of a refused stream: used up although it never becomes lastID
  clientWindow : Int := Gen.c_defaultWindowSize
  curInitWin : Int := Gen.c_defaultWindowSize
  recvWin : Int := Gen.c_serverMaxWindow
  dec : Hpack.DecState := {}
  enc : Hpack.EncState := {}
  peerDec : Hpack.DecState := {}   -- the scripted peer's own (reference) decoder for what the server sends
  peerDecBroken : Bool := false
  closing : Bool := false
  closeRef : Nat := 0
  slStopped : Bool := false
  -- read loop
  inbuf : Bytes := []
  expectCont : Nat := 0
  peerFrameSize : Nat := 0         -- sc.clientS.frameSize: 0 until the first SETTINGS
  peerTableSize : Nat := Gen.c_defaultHeaderTableSize   -- sc.clientS.tableSize: persists across SETTINGS frames
  rlStopped : Bool := false
  returned : Bool := false
  /-- set when the code's behaviour depends on pool aliasing the model does not represent (F17) -/
  undefined : Bool := false
deriving Repr, Inhabited

end H2.Server
