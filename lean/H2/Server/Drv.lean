import H2.Server.Lockstep
/-! Line-protocol operations of the server area (driver side). -/
namespace H2.Server.Drv
open H2.Server

structure State where
  conns : List (String × Srv) := []
  locks : List (String × Lock) := []
  /-- handlers that returned after their connection's stream loop had ended (connection, stream id) -/
  late : List (String × Nat) := []

def State.init : State := {}

def State.get (st : State) (id : String) : Option Srv := (st.conns.find? (·.1 == id)).map (·.2)

def State.set (st : State) (id : String) (s : Srv) : State :=
  { st with conns := (id, s) :: st.conns.filter (·.1 != id) }

def State.getLock (st : State) (id : String) : Lock := ((st.locks.find? (·.1 == id)).map (·.2)).getD {}

def State.setLock (st : State) (id : String) (l : Lock) : State :=
  { st with locks := (id, l) :: st.locks.filter (·.1 != id) }

/-- GOAWAY sites of the read loop (written from the read loop's own goroutine) -/
def readLoopSites : List String :=
  ["want-cont", "stray-cont", "window increment of 0", "invalid frame", "invalid stream id",
   "ping is carrying a stream id", "clients can't send push_promise frames", "ext-in-block", "frame-error"]

/-- One step in which the read loop forwarded a HEADERS frame that asks for a new stream and then, on a later frame of
the same octets, wrote a GOAWAY of its own: in the real server the two goroutines race — either the stream loop gets
there first (the stream counts, the GOAWAY names it) or the GOAWAY does (the stream is refused). Both are right; the
serial model only knows the first. Such a step is not compared and ends what the model can say about the connection. -/
def racyStep (s : Srv) (r : R) : Bool :=
  (r.out.any fun o => match o with | .goAway _ _ tag => readLoopSites.contains tag | _ => false) &&
  (r.s.lastID != s.lastID || r.s.lastRefused != s.lastRefused)

/-- run one event through the full model and the lockstep models; returns the printed result -/
def runEvent (st : State) (id : String) (s : Srv) (ev : Event) (show_ : Srv → Srv → Bool) : State × String :=
  let r := Server.stepR s ev
  let r := if racyStep s r then { r with s := { r.s with undefined := true } } else r
  let l := st.getLock id
  let l' := l.step s ev r
  let st := (st.set id r.s).setLock id l'
  let res := if show_ s r.s then fmtOuts r.out else "undef"
  let res := if l'.mismatches.length > l.mismatches.length then res ++ " | lockstep-mismatch(" ++ l'.mismatches.getLast! ++ ")" else res
  (st, res)

def argOf (args : List String) (key : String) : Option String :=
  (args.find? (·.startsWith (key ++ "="))).map fun a => (a.drop (key.length + 1)).toString

def argInt (args : List String) (key : String) (dflt : Int) : Int :=
  match argOf args key with
  | some v => v.toInt?.getD dflt
  | none => dflt

def parseKV (s : String) : Option (List (Bytes × Bytes)) :=
  if s == "" || s == "-" then some []
  else (s.splitOn ",").mapM fun part =>
    match part.splitOn ":" with
    | [k, v] => do
      let k ← fromHex k
      let v ← fromHex v
      pure (k, v)
    | _ => none

def parseResp (sid : Nat) (args : List String) : Option Resp := do
  let status := argInt args "st" 200
  let view ← parseKV ((argOf args "view").getD "-")
  let body := (argOf args "body").getD "none"
  let base : Resp := { status := status, view := view }
  if body == "none" then pure base
  else if body == "panic" then pure { base with kind := "panic" }
  else if body.startsWith "hex:" then
    let b ← fromHex (body.drop 4).toString
    pure { base with kind := "buf", src := .hex b, len := b.length }
  else if body.startsWith "pat:" then
    let n ← (body.drop 4).toString.toNat?
    pure { base with kind := "buf", src := .pat sid, len := n }
  else if body.startsWith "stream:" then
    match (body.drop 7).toString.splitOn ":" with
    | [size, chunks, tail] =>
      let size ← size.toInt?
      let cs ← if chunks == "" || chunks == "-" then some [] else (chunks.splitOn ".").mapM (·.toNat?)
      let t ← tail.toList.head?
      pure { base with kind := "stream", src := .pat sid, size := size, stream := ⟨cs, t⟩ }
    | _ => none
  else none

def gauges (s : Srv) : String :=
  let held := (s.strms.map (·.prevHdr.length)).sum
  let infl := (s.strms.filter (·.handlerRunning)).length + s.abandoned.length
  let body := (s.strms.filter fun st => !st.responded && !st.handlerRunning).foldl (fun m st => max m st.body.len) 0
  s!"ok strms={s.strms.length} open={s.openStreams} ring={s.ring.length} held={held} rwin={s.recvWin} body={body} infl={infl} rmem={s.resetByUs.length}"

def step (st : State) (args : List String) : State × String :=
  match args with
  | _ :: id :: "new" :: rest =>
    let mcs := argInt rest "mcs" 100
    let mhl := argInt rest "mhl" 0
    let mrb := argInt rest "mrb" 0
    let cfg : Cfg := { maxStreams := if mcs ≤ 0 then 1024 else mcs.toNat,
                       maxHeaderList := if mhl == 0 then Gen.c_DefaultMaxHeaderListSize else mhl,
                       maxBody := if mrb > 0 then mrb.toNat else 4 * 1024 * 1024 }
    let s : Srv := { cfg := cfg }
    ({ (st.set id s).setLock id {} with late := st.late.filter (·.1 != id) }, fmtOuts (initOuts s))
  | _ :: id :: op :: rest =>
    match st.get id with
    | none => (st, "bad-op")
    | some s =>
      if op == "mon" || op == "burst" || op == "doneall" || op == "settle" || op == "stall" then (st, "mon")
      else if op == "sleep" then
        -- real time passes and the request timeout may fire: the model has no timer; from here on only the monitors speak
        (st.set id { s with undefined := true }, "mon")
      else if op == "stallcut" || op == "racega" || op == "racega2" then
        -- the peer stops reading, goes on sending and disconnects: judged by the monitors; the connection is over
        (st.set id { s with returned := true, rlStopped := true, slStopped := true }, "mon")
      else if op == "gauges" then (st, if s.undefined then "undef" else if s.returned then "ok gone" else gauges s)
      else if op == "end" then
        (st.set id { s with returned := true, rlStopped := true, slStopped := true }, if s.undefined then "undef" else "ok returned")
      else if s.undefined then (st, "undef")
      else if op == "frame" || op == "bytes" then
        match rest with
        | [h] =>
          match fromHex h with
          | none => (st, "bad-op")
          | some b =>
            if s.returned then (st, "out gone") else
            runEvent st id s (.bytes b) fun _ s' => !s'.undefined
        | _ => (st, "bad-op")
      else if op == "done" then
        match rest with
        | sidS :: more =>
          match sidS.toNat? with
          | none => (st, "bad-op")
          | some sid =>
            match parseResp sid more with
            | none => (st, "bad-op")
            | some resp =>
              let running := ((s.strms.any fun x => x.id == sid && x.handlerRunning) ||
                              (s.abandoned.any fun x => x.id == sid)) && !st.late.contains (id, sid)
              if !running then (st, "out no-handler") else
              -- a block the peer's decoder rejects is still printed; what follows is beyond the model
              let (st', res) := runEvent st id s (.done sid resp) fun s s' => !(s'.undefined && !(s'.peerDecBroken && !s.peerDecBroken))
              -- when the stream loop has ended nobody takes note of the handler's return (the model's step leaves the
              -- state alone), but the handler is gone all the same: the harness will not find it parked again
              if s.slStopped then ({ st' with late := (id, sid) :: st'.late }, res) else (st', res)
        | _ => (st, "bad-op")
      else if op == "cut" then
        runEvent st id s .cut fun _ _ => true
      else if op == "idle" then
        if s.returned then (st, "out gone") else
        runEvent st id s .idle fun _ _ => true
      else (st, "bad-op")
  | _ => (st, "bad-op")

end H2.Server.Drv
