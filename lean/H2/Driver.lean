import H2.Huffman.Spec
/-! Dispatch of the line protocol to the executable models. -/
namespace H2.Driver

structure State where
  dummy : Nat := 0

def State.init : State := {}

def optHex : Option Bytes → String
  | some b => "ok " ++ hexOrDash b
  | none => "err"

def step (st : State) (line : String) : State × String :=
  match line.splitOn " " with
  | ["huff.enc", h] =>
    match fromHex h with
    | some b => (st, "ok " ++ hexOrDash (Huffman.encode b))
    | none => (st, "bad-op")
  | ["huff.dec", h] =>
    match fromHex h with
    | some b => (st, optHex (Huffman.decode b))
    | none => (st, "bad-op")
  | _ => (st, "bad-op")

end H2.Driver
