import H2.Huffman.Spec
import H2.Hpack.Drv
import H2.Frame.Drv
import H2.Server.Drv
import H2.Client.Drv
/-! Dispatch of the line protocol to the executable models. Each area owns its `Drv` module. -/
namespace H2.Driver

structure State where
  hpack : Hpack.Drv.State := .init
  frame : Frame.Drv.State := .init
  srv : Server.Drv.State := .init
  cli : Client.Drv.State := .init

def State.init : State := {}

def optHex : Option Bytes → String
  | some b => "ok " ++ hexOrDash b
  | none => "err"

def step (st : State) (line : String) : State × String :=
  if line.isEmpty || line.startsWith "#" then (st, "#") else
  let args := line.splitOn " "
  match args with
  | ["huff.enc", h] =>
    match fromHex h with
    | some b => (st, "ok " ++ hexOrDash (Huffman.encode b))
    | none => (st, "bad-op")
  | ["huff.dec", h] =>
    match fromHex h with
    | some b => (st, optHex (Huffman.decode b))
    | none => (st, "bad-op")
  | op :: _ =>
    if op.startsWith "pool." then (st, "mon")
    else if op.startsWith "hpack." then
      let (s, r) := Hpack.Drv.step st.hpack args; ({ st with hpack := s }, r)
    else if op.startsWith "frame." then
      let (s, r) := Frame.Drv.step st.frame args; ({ st with frame := s }, r)
    else if op == "srv" then
      let (s, r) := Server.Drv.step st.srv args; ({ st with srv := s }, r)
    else if op == "cli" then
      let (s, r) := Client.Drv.step st.cli args; ({ st with cli := s }, r)
    else (st, "bad-op")
  | [] => (st, "bad-op")

end H2.Driver
