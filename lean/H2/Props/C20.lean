import H2.Proofs.MsgRefineFrames
import H2.Proofs.MsgRefineReq
import H2.Proofs.MsgRefineDecide
import H2.Proofs.Msg
import H2.Proofs.MsgRefine
/-!
# C20 (server half) — malformed requests are rejected; well-formed ones are all accepted

Theorems about `H2.Server.Msg.validate`: the field loop of `handleHeaderFrame`, `validateRequestPseudoHeaders`
and the content-length-vs-DATA test at dispatch (`serverConn.go`), on the decoded header list `hs`, the
decoded trailer list `trailers` and the number `dataLen` of DATA octets received. The model is tied to the
code by the lockstep run `H2.Server.Lock.Msg` beside the full server model (per header fragment: same verdict
or same per-stream flags; per request: same verdict and same request view).
`WFRequest` is RFC 7540 §8.1.2 as in DESIGN.md Appendix D2 (`H2.Server.MsgSpec`).

Hypotheses, both as the property text has them:
* `WithinLimits`: header list within MaxHeaderListSize, DATA and every declared length within
  MaxRequestBodySize (exceeding a limit is answered, by design, with ENHANCE_YOUR_CALM);
* `NoTrailerCL`: vocabulary — no `content-length` among the trailers (RFC 7230 §4.1.2 forbids it there and
  neither RFC fixes its treatment; what the code does with one is `trailer_content_length` below).

All header lists, of any length. (F60 two disagreeing content-length fields, F61 pseudo-header in trailers:
fixed in the library, the model follows the repaired code, so the statements are the full ones.)
-/
namespace H2.Props.C20
open H2.Server.Msg H2.Server.MsgSpec

/-- **dispatched iff well-formed** -/
theorem dispatched_iff_wf (cfg : Cfg) (hs trailers : List Field) (dataLen : Nat)
    (hl : WithinLimits cfg hs trailers dataLen) (hv : NoTrailerCL trailers) :
    validate cfg hs trailers dataLen = .dispatch ↔ WFRequest hs trailers dataLen :=
  H2.Server.Msg.dispatched_iff_wf cfg hs trailers dataLen hl hv

/-- **otherwise that stream alone is refused**: within the limits the verdict is either dispatch or
RST_STREAM(PROTOCOL_ERROR) — never a connection error, no other code (no vocabulary hypothesis needed) -/
theorem refused_stream_scoped (cfg : Cfg) (hs trailers : List Field) (dataLen : Nat)
    (hl : WithinLimits cfg hs trailers dataLen) :
    validate cfg hs trailers dataLen = .dispatch ∨ validate cfg hs trailers dataLen = .rst Gen.c_ProtocolError :=
  H2.Server.Msg.refused_stream_scoped cfg hs trailers dataLen hl

/-- so: a request that is not well-formed gets RST_STREAM(PROTOCOL_ERROR) and the handler never runs -/
theorem malformed_refused (cfg : Cfg) (hs trailers : List Field) (dataLen : Nat)
    (hl : WithinLimits cfg hs trailers dataLen) (hv : NoTrailerCL trailers) (h : ¬ WFRequest hs trailers dataLen) :
    validate cfg hs trailers dataLen = .rst Gen.c_ProtocolError := by
  rcases refused_stream_scoped cfg hs trailers dataLen hl with h1 | h1
  · exact absurd ((dispatched_iff_wf cfg hs trailers dataLen hl hv).mp h1) h
  · exact h1

/-- outside the limits too the message never costs more than its stream, except for a header list over
MaxHeaderListSize, which is answered with GOAWAY(ENHANCE_YOUR_CALM) by design -/
theorem connection_error_only_for_list_size (cfg : Cfg) (hs trailers : List Field) (dataLen : Nat) (c : Nat)
    (h : validate cfg hs trailers dataLen = .goAway c) :
    c = Gen.c_EnhanceYourCalm ∧ ¬ sizeWithin cfg (total (hs ++ trailers)) :=
  goaway_only_for_list_size cfg hs trailers dataLen c h

/-- outside the vocabulary: a `content-length` among the trailers is held to the same rule as one in the
request block (it has to be a number equal to the DATA octets received, and to agree with an earlier one) -/
theorem trailer_content_length (cfg : Cfg) (hs trailers : List Field) (dataLen : Nat)
    (hl : WithinLimits cfg hs trailers dataLen) (h : validate cfg hs trailers dataLen = .dispatch) :
    ∀ f ∈ trailers, f.1 = sContentLength → Digits f.2 ∧ natVal f.2 = dataLen := by
  rw [validate_dispatch_iff] at h
  obtain ⟨st, h1, _, _, hacc⟩ := h
  rw [acc_iff cfg trailers _ dataLen (lim_trailers hl h1)] at hacc
  exact hacc.cl

/-- **the model is the full model's**: one iteration of `Msg.field` is, through the projection `msgSt`, exactly
`fieldVerdict` / `fieldUpdate` of the full server model `H2.Server.Model` (the body of `fieldLoop`, the mirror of
`handleHeaderFrame`'s loop that the correspondence check ties to the Go code) — proved for every stream state,
configuration and field, in addition to the lockstep runs. -/
theorem field_is_full_model (cfg : H2.Server.Cfg) (st : H2.Server.Strm) (f : H2.Hpack.Field) (hcl : 0 ≤ st.contentLength) :
    field (H2.Server.Lock.cfgOf cfg) (H2.Server.Lock.msgSt st) (f.name, f.value) =
      match H2.Server.fieldVerdict cfg st f with
      | none => .ok (H2.Server.Lock.msgSt (H2.Server.fieldUpdate st f))
      | some e => .error (H2.Server.Lock.absErr e) :=
  H2.Server.Lock.field_refines cfg st f hcl

/-! ## non-vacuity: a well-formed POST with a body and trailers is inside the hypotheses and is dispatched;
dropping `:scheme`, or declaring a different length, or a pseudo-header among the trailers, is refused -/

def clField (v : Bytes) : Field := (Gen.s_StringContentLength, v)
/-- `:method POST, :scheme https, :path /p, content-length 3, te trailers` -/
def demoHs : List Field :=
  [(Gen.s_StringMethod, [80, 79, 83, 84]), (Gen.s_StringScheme, [104, 116, 116, 112, 115]), (Gen.s_StringPath, [47, 112]),
   clField [51], (Gen.s_StringTE, Gen.s_StringTrailers)]
/-- `x-t 1` -/
def demoTr : List Field := [([120, 45, 116], [49])]

example : validate {} demoHs demoTr 3 = .dispatch := by decide +kernel
example : validate {} (demoHs.eraseIdx 1) demoTr 3 = .rst Gen.c_ProtocolError := by decide +kernel
example : validate {} demoHs demoTr 5 = .rst Gen.c_ProtocolError := by decide +kernel
example : validate {} demoHs [(Gen.s_StringAuthority, [101, 118, 105, 108])] 3 = .rst Gen.c_ProtocolError := by decide +kernel
example : validate {} (demoHs ++ [clField [53]]) demoTr 3 = .rst Gen.c_ProtocolError := by decide +kernel

theorem demo_limits : WithinLimits {} demoHs demoTr 3 := by
  refine ⟨by unfold sizeWithin; decide +kernel, by decide +kernel, ?_, by decide +kernel⟩
  intro _ f hf hk _
  have : f = clField [51] := by
    simp only [demoHs, demoTr, List.cons_append, List.nil_append, List.mem_cons, List.not_mem_nil, or_false] at hf
    rcases hf with rfl | rfl | rfl | rfl | rfl | rfl <;> first | rfl | exact absurd hk (by decide +kernel)
  subst this; decide +kernel

theorem demo_vocab : NoTrailerCL demoTr := by unfold NoTrailerCL; decide +kernel

/-- the hypotheses are satisfiable and the equivalence is used in the interesting direction: the demo request
is well-formed because the model dispatches it -/
example : WFRequest demoHs demoTr 3 :=
  (dispatched_iff_wf {} demoHs demoTr 3 demo_limits demo_vocab).mp (by decide +kernel)

/-! ## APPEND to `lean/H2/Props/C20.lean` (before `end H2.Props.C20`); needs the extra import line
`import H2.Proofs.MsgRefineDecide`  (which brings in `H2.Proofs.MsgRefineLoop` and `H2.Proofs.MsgRefineSplit`). -/

/-! ## the message model abstracts the full server model beyond the single field step -/

section FullModel
open H2.Server H2.Server.Lock

/-- **loop refinement**: on the octets of one header-bearing frame the full model's `fieldLoop` is, through `msgSt` / `absErr`,
`Msg.loop` over the fields the decoder yields from them (`decRun`), followed by what the end of the decoder's pass means
(`loopSpec`): same verdict — accepted, RST_STREAM with the same code, GOAWAY with the same code — and same per-stream state -/
theorem loop_is_full_model (fuel : Nat) (s : Srv) (st : Strm) (bs eh : Bool) (fp : Nat) (b : Bytes) (hcl : 0 ≤ st.contentLength) :
    absOut (fieldLoop fuel s st bs eh fp b) = loopSpec s.cfg eh (msgSt st) (decRun fuel s.dec bs fp b) :=
  fieldLoop_refines fuel s st bs eh fp b hcl

/-- **across frames**: a header block cut into HEADERS + CONTINUATION pieces and fed through the `prevHdr` carry-over ends with
the verdict of the whole block in one frame and, when accepted, the same `msgSt` and decoder state. `cutsOK`: no piece leaves
more octets of an unfinished field than the server carries over (F68's bound), by design a different verdict -/
theorem split_is_whole (ps : List Bytes) (s : Srv) (st : Strm) (hne : ps ≠ []) (hg : st.Good) (hc : cutsOK s st ps) :
    absFin (feedBlock s st ps) = absFin (feedBlock s st [ps.flatten]) :=
  feedBlock_whole ps s st hne hg hc

/-- **decision**: at END_STREAM the full model's `dispatchOrSend` emits exactly one more output: the dispatch record with the
message model's request view when the message model's last clause (`content-length` against the octets received) says
dispatch, RST_STREAM(PROTOCOL_ERROR) otherwise -/
theorem decision_is_full_model (r : R) (uid : Nat) (st : Strm) (he : AtEnd st) (hg : st.Good) :
    (dispatchOrSend r uid st).out = r.out ++
      [match lastClause (msgSt st) st.recvBody with
       | .dispatch => dispOut st.id (msgSt st).view st.body
       | _ => .rst st.id Gen.c_ProtocolError] :=
  dispatchOrSend_decision r uid st he hg

/-- **the full model dispatches iff the request is well-formed** — for a request that is one HEADERS frame
(END_HEADERS | END_STREAM) on a stream the stream loop has just created (`Fresh`), whose block decodes completely to the
fields `fs` (`decRun … = (fs, .clean d)`), within the limits: the body of the stream loop (`knownStream`) hands the request to
the handler, with the request view of the message model, iff `WFRequest`; otherwise the handler never runs -/
theorem one_frame_dispatched_iff_wf (r : R) (uid : Nat) (fr : H2.Frame.Frame) (st : Strm) (prio : Option (Nat × Nat)) (frag : Bytes)
    (hg : r.getStrm uid = some st) (hf : Fresh st) (ht : fr.typ = Gen.c_FrameHeaders)
    (hb : fr.body = .headers true true prio frag) (heh : H2.Frame.hasFlag fr.flags Gen.c_FlagEndHeaders = true)
    (hes : H2.Frame.hasFlag fr.flags Gen.c_FlagEndStream = true)
    (hprio : ∀ dep w, prio = some (dep, w) → (dep == st.id) = false)
    (hp : headersPrelude r fr = (r, true))
    (fs : List H2.Hpack.Field) (d : H2.Hpack.DecState) (hdec : decRun (frag.length + 1) r.s.dec true 0 frag = (fs, .clean d))
    (hl : WithinLimits (cfgOf r.s.cfg) (fs.map kv) [] 0) :
    (WFRequest (fs.map kv) [] 0 →
      ∃ v, requestView (cfgOf r.s.cfg) (fs.map kv) [] 0 = some v ∧
        (knownStream r uid fr false).out = r.out ++ [dispOut st.id v st.body]) ∧
    (¬ WFRequest (fs.map kv) [] 0 →
      (∃ e, (handleFrame r uid fr).2 = some e ∧ absErr e = .rst Gen.c_ProtocolError) ∨
      (knownStream r uid fr false).out = r.out ++ [.rst st.id Gen.c_ProtocolError]) := by
  have hnt : NoTrailerCL [] := by intro f hf; cases hf
  have hiff := dispatched_iff_wf (cfgOf r.s.cfg) (fs.map kv) [] 0 hl hnt
  constructor
  · intro hwf
    have hv := hiff.mpr hwf
    obtain ⟨m, hm, hps, _, _⟩ := (validate_dispatch_iff _ _ _ _).mp hv
    have := request_one_frame_accepted r uid fr st prio frag hg hf ht hb heh hes hprio hp fs d hdec m hm hps
    rw [hv] at this
    exact ⟨m.view, this.2 rfl, this.1⟩
  · intro hwf
    have hv := malformed_refused (cfgOf r.s.cfg) (fs.map kv) [] 0 hl hnt hwf
    by_cases hacc : ∃ m, loop (cfgOf r.s.cfg) St.init (fs.map kv) = .ok m ∧ pseudoOK m = true
    · obtain ⟨m, hm, hps⟩ := hacc
      have := request_one_frame_accepted r uid fr st prio frag hg hf ht hb heh hes hprio hp fs d hdec m hm hps
      rw [hv] at this
      exact .inr this.1
    · have href : ∀ m, loop (cfgOf r.s.cfg) St.init (fs.map kv) = .ok m → pseudoOK m = false := by
        intro m hm
        cases hps : pseudoOK m
        · rfl
        · exact absurd ⟨m, hm, hps⟩ hacc
      obtain ⟨e, he1, he2⟩ := request_one_frame_refused r uid fr st true prio frag hg hf ht hb heh hprio fs d hdec [] 0 href
      exact .inl ⟨e, he1, by rw [he2, hv]⟩

/-! non-vacuity: `GET / https` (RFC 7541 static entries 2, 7, 4) in one HEADERS frame on stream 1 of a connection whose stream
loop has just created the stream; the same with `:path` left out -/

def demoStrm : Strm := { uid := 0, id := 1, window := 65535, origType := Gen.c_FrameHeaders }
def demoR : R := { s := { strms := [demoStrm], nextUid := 1, lastID := 1, openStreams := 1 } }
def demoFrame (frag : Bytes) : H2.Frame.Frame :=
  { typ := Gen.c_FrameHeaders, flags := 5, stream := 1, length := frag.length, body := .headers true true none frag }

theorem demo_fresh : Fresh demoStrm := ⟨rfl, rfl, rfl, rfl, rfl, rfl, rfl, rfl⟩
example : demoR.getStrm 0 = some demoStrm := rfl
example : (decRun 4 demoR.s.dec true 0 [0x82, 0x87, 0x84]).1.map kv =
    [(Gen.s_StringMethod, [71, 69, 84]), (Gen.s_StringScheme, [104, 116, 116, 112, 115]), (Gen.s_StringPath, [47])] := by decide +kernel
example : (decRun 4 demoR.s.dec true 0 [0x82, 0x87, 0x84]).2 = .clean {} := by decide +kernel
example : validate {} ((decRun 4 demoR.s.dec true 0 [0x82, 0x87, 0x84]).1.map kv) [] 0 = .dispatch := by decide +kernel
example : validate {} ((decRun 3 demoR.s.dec true 0 [0x82, 0x87]).1.map kv) [] 0 = .rst Gen.c_ProtocolError := by decide +kernel
/-- the full model itself on the two frames (what the theorems predict: one dispatch record / one RST_STREAM) -/
example : ((knownStream demoR 0 (demoFrame [0x82, 0x87, 0x84]) false).out.map Out.toString) =
    ["dispatch(1,m=474554,p=2f,a=-,f=-,b=0:0:0)"] := by decide +kernel
example : ((knownStream demoR 0 (demoFrame [0x82, 0x87]) false).out.map Out.toString) = ["RST(1,1)"] := by decide +kernel
/-- the hypotheses of `one_frame_dispatched_iff_wf` hold of the demo: `headersPrelude` lets the frame through unchanged -/
example : headersPrelude demoR (demoFrame [0x82, 0x87, 0x84]) = (demoR, true) := rfl
example (hl : WithinLimits (cfgOf demoR.s.cfg) ((decRun 4 demoR.s.dec true 0 [0x82, 0x87, 0x84]).1.map kv) [] 0) :
    WFRequest ((decRun 4 demoR.s.dec true 0 [0x82, 0x87, 0x84]).1.map kv) [] 0 →
      ∃ v, requestView (cfgOf demoR.s.cfg) ((decRun 4 demoR.s.dec true 0 [0x82, 0x87, 0x84]).1.map kv) [] 0 = some v ∧
        (knownStream demoR 0 (demoFrame [0x82, 0x87, 0x84]) false).out = demoR.out ++ [dispOut 1 v {}] :=
  (one_frame_dispatched_iff_wf demoR 0 (demoFrame [0x82, 0x87, 0x84]) demoStrm none [0x82, 0x87, 0x84] rfl demo_fresh rfl rfl
    (by decide) (by decide) (fun _ _ h => by cases h) rfl _ {} (by decide +kernel) hl).1
/-- a block cut in the middle of a literal: `cutsOK` holds and the pieces give what the whole gives -/
example : (absFin (feedBlock demoR.s demoStrm [[0x82, 0x87, 0x44, 0x02, 0x2f], [0x61]])).toOption.map (·.1.path) = some [47, 97] := by
  decide +kernel
example : (absFin (feedBlock demoR.s demoStrm [[0x82, 0x87, 0x44, 0x02, 0x2f, 0x61]])).toOption.map (·.1.path) = some [47, 97] := by
  decide +kernel

/-- why `cutsOK` is there (F68, by design): with a list limit of 1 octet a first piece holding 6 octets of an unfinished field is
answered GOAWAY(ENHANCE_YOUR_CALM) at once, while the same octets in one frame with END_HEADERS are a truncated block:
GOAWAY(COMPRESSION_ERROR) -/
def tightSrv : Srv := { cfg := { maxHeaderList := 1 } }
example : (match absFin (feedBlock tightSrv demoStrm [[0x40, 0x7f, 97, 97, 97, 97], [97]]) with | .error v => some v | .ok _ => none) =
    some (.goAway Gen.c_EnhanceYourCalm) := by decide +kernel
example : (match absFin (feedBlock tightSrv demoStrm [[0x40, 0x7f, 97, 97, 97, 97, 97]]) with | .error v => some v | .ok _ => none) =
    some (.goAway Gen.c_CompressionError) := by decide +kernel

end FullModel

/-! ## APPEND (second section) to `lean/H2/Props/C20.lean`, before `end H2.Props.C20`; needs the extra import line
`import H2.Proofs.MsgRefineReq`  (which imports `H2.Proofs.MsgRefineDecide`). -/

/-! ## the long shape: HEADERS, DATA*, DATA(END_STREAM) through the body of the stream loop -/

section LongShape
open H2.Server H2.Server.Lock

/-- **a refused frame is answered with the one frame `writeError` sends** (RST_STREAM(code) on the stream or GOAWAY(code)),
nothing else — in particular no dispatch record -/
theorem refused_frame_output (r : R) (uid : Nat) (fr : H2.Frame.Frame) (st1 : Strm) (e : SErr)
    (hp : headersPrelude r fr = (r, true)) (he : (handleFrame r uid fr).2 = some e)
    (hg1 : (handleFrame r uid fr).1.getStrm uid = some st1) (hresp : st1.responded = false) :
    (knownStream r uid fr false).out = (handleFrame r uid fr).1.out ++ [errOut (handleFrame r uid fr).1 st1 e] :=
  knownStream_refused r uid fr st1 e hp he hg1 hresp

/-- **the full model dispatches this request iff it is well-formed**: `HEADERS(END_HEADERS), DATA*, DATA(END_STREAM)` on a
stream the stream loop has just created, the frames handled one after the other by the body of the stream loop (`runReq`: up to
the first frame that is answered), `hs` the fields the block decodes to, `dataLen` the DATA octets, within the limits. Besides
WINDOW_UPDATEs exactly one output: the dispatch record with the message model's request view iff `WFRequest hs [] dataLen`,
RST_STREAM(PROTOCOL_ERROR) otherwise -/
theorem long_request_dispatched_iff_wf (r : R) (uid : Nat) (frH frL : H2.Frame.Frame) (ds : List H2.Frame.Frame) (st : Strm)
    (O : Strm → Prop) (es es' : Bool) (prio : Option (Nat × Nat)) (frag dL : Bytes)
    (ht : Tbl r uid st O) (hf : Fresh st) (htyp : frH.typ = Gen.c_FrameHeaders)
    (hb : frH.body = .headers es true prio frag) (heh : H2.Frame.hasFlag frH.flags Gen.c_FlagEndHeaders = true)
    (hes : H2.Frame.hasFlag frH.flags Gen.c_FlagEndStream = false)
    (hprio : ∀ dep w, prio = some (dep, w) → (dep == st.id) = false)
    (hp : headersPrelude r frH = (r, true))
    (fs : List H2.Hpack.Field) (d : H2.Hpack.DecState) (hdec : decRun (frag.length + 1) r.s.dec true 0 frag = (fs, .clean d))
    (hds : ∀ fr ∈ ds, PlainData fr)
    (hLt : frL.typ = Gen.c_FrameData) (hLb : frL.body = .data es' dL)
    (hLe : H2.Frame.hasFlag frL.flags Gen.c_FlagEndStream = true)
    (hl : WithinLimits (cfgOf r.s.cfg) (fs.map kv) [] (tot ds + dL.length)) :
    (WFRequest (fs.map kv) [] (tot ds + dL.length) →
      ∃ v body, requestView (cfgOf r.s.cfg) (fs.map kv) [] (tot ds + dL.length) = some v ∧
        sig (runReq r uid (frH :: (ds ++ [frL]))).out = sig r.out ++ [dispOut st.id v body]) ∧
    (¬ WFRequest (fs.map kv) [] (tot ds + dL.length) →
      sig (runReq r uid (frH :: (ds ++ [frL]))).out = sig r.out ++ [.rst st.id Gen.c_ProtocolError]) := by
  have hnt : NoTrailerCL [] := by intro f hf; cases hf
  obtain ⟨o, h1, h2⟩ := long_request_data r uid frH frL ds st O es es' prio frag dL ht hf htyp hb heh hes hprio hp fs d hdec
    hds hLt hLb hLe
  constructor
  · intro hwf
    have hv := (dispatched_iff_wf (cfgOf r.s.cfg) (fs.map kv) [] (tot ds + dL.length) hl hnt).mpr hwf
    rw [hv] at h2
    obtain ⟨v, body, e1, e2⟩ := h2
    exact ⟨v, body, e1, by rw [h1, e2]⟩
  · intro hwf
    have hv := malformed_refused (cfgOf r.s.cfg) (fs.map kv) [] (tot ds + dL.length) hl hnt hwf
    rw [hv] at h2
    have : o = .rst st.id Gen.c_ProtocolError := h2
    rw [h1, this]

/-! non-vacuity: `POST / https, content-length: 3` then DATA "a", DATA "bc"+END_STREAM on the demo stream: evaluated on the full
model (`runReq`), one dispatch record besides the WINDOW_UPDATEs; with `content-length: 5` RST_STREAM(PROTOCOL_ERROR) -/

def postFrame (cl : Nat) : H2.Frame.Frame :=
  { typ := Gen.c_FrameHeaders, flags := 4, stream := 1, length := 7,
    body := .headers false true none [0x83, 0x87, 0x84, 0x0f, 0x0d, 0x01, cl] }
def dataFrame (es : Bool) (b : Bytes) : H2.Frame.Frame :=
  { typ := Gen.c_FrameData, flags := if es then 1 else 0, stream := 1, length := b.length, body := .data es b }

example : PlainData (dataFrame false [97]) := ⟨rfl, ⟨_, _, rfl⟩, by decide⟩
example : ((sig (runReq demoR 0 [postFrame 0x33, dataFrame false [97], dataFrame true [98, 99]]).out).map Out.toString) =
    ["dispatch(1,m=504f5354,p=2f,a=-,f=-,b=3:294:96)"] := by decide +kernel
example : ((sig (runReq demoR 0 [postFrame 0x35, dataFrame false [97], dataFrame true [98, 99]]).out).map Out.toString) =
    ["RST(1,1)"] := by decide +kernel
example : validate {} ((decRun 8 demoR.s.dec true 0 [0x83, 0x87, 0x84, 0x0f, 0x0d, 0x01, 0x33]).1.map kv) [] 3 = .dispatch := by
  decide +kernel
example : validate {} ((decRun 8 demoR.s.dec true 0 [0x83, 0x87, 0x84, 0x0f, 0x0d, 0x01, 0x35]).1.map kv) [] 3 =
    .rst Gen.c_ProtocolError := by decide +kernel

end LongShape

/-! ## APPEND (third section) to `lean/H2/Props/C20.lean`, before `end H2.Props.C20`; needs the extra import line
`import H2.Proofs.MsgRefineFrames`  (which imports `H2.Proofs.MsgRefineTrailers` and, through it, `H2.Proofs.MsgRefineReq`). -/

/-! ## the long shape with trailers; header blocks in several frames -/

section Trailers
open H2.Server H2.Server.Lock

/-- **the full model dispatches a request with trailers iff it is well-formed**:
`HEADERS(END_HEADERS), DATA*, trailers HEADERS(END_HEADERS | END_STREAM)` on a stream the stream loop has just created, the frames
handled one after the other by the body of the stream loop (`runReq`: up to the first frame that is answered); `hs` / `trailers`
the fields the two blocks decode to (the trailer block from the decoder state the request block left), `dataLen` the DATA
octets; within the limits, no `content-length` among the trailers (`NoTrailerCL`, as in `dispatched_iff_wf`); the other
entries of the stream table `Settled` (their header blocks finished, none idle with a lower id — what `headersPrelude` looks at
when the trailer HEADERS frame arrives). Besides WINDOW_UPDATEs exactly one output: the dispatch record with the message
model's request view iff `WFRequest hs trailers dataLen`, RST_STREAM(PROTOCOL_ERROR) otherwise -/
theorem long_request_with_trailers_dispatched_iff_wf (r : R) (uid : Nat) (frH frT : H2.Frame.Frame) (ds : List H2.Frame.Frame)
    (st : Strm) (es esT : Bool) (prio prioT : Option (Nat × Nat)) (frag fragT : Bytes)
    (ht : Tbl r uid st (Settled st.id)) (hf : Fresh st) (htyp : frH.typ = Gen.c_FrameHeaders)
    (hb : frH.body = .headers es true prio frag) (heh : H2.Frame.hasFlag frH.flags Gen.c_FlagEndHeaders = true)
    (hes : H2.Frame.hasFlag frH.flags Gen.c_FlagEndStream = false)
    (hprio : ∀ dep w, prio = some (dep, w) → (dep == st.id) = false)
    (hp : headersPrelude r frH = (r, true))
    (fs : List H2.Hpack.Field) (d : H2.Hpack.DecState) (hdec : decRun (frag.length + 1) r.s.dec true 0 frag = (fs, .clean d))
    (hds : ∀ fr ∈ ds, PlainData fr)
    (hTt : frT.typ = Gen.c_FrameHeaders) (hTs : frT.stream = st.id) (hTb : frT.body = .headers esT true prioT fragT)
    (hTeh : H2.Frame.hasFlag frT.flags Gen.c_FlagEndHeaders = true)
    (hTes : H2.Frame.hasFlag frT.flags Gen.c_FlagEndStream = true)
    (hTprio : ∀ dep w, prioT = some (dep, w) → (dep == st.id) = false)
    (fsT : List H2.Hpack.Field) (d2 : H2.Hpack.DecState) (hdecT : decRun (fragT.length + 1) d true 0 fragT = (fsT, .clean d2))
    (hl : WithinLimits (cfgOf r.s.cfg) (fs.map kv) (fsT.map kv) (tot ds)) (hnt : NoTrailerCL (fsT.map kv)) :
    (WFRequest (fs.map kv) (fsT.map kv) (tot ds) →
      ∃ v body, requestView (cfgOf r.s.cfg) (fs.map kv) (fsT.map kv) (tot ds) = some v ∧
        sig (runReq r uid (frH :: (ds ++ [frT]))).out = sig r.out ++ [dispOut st.id v body]) ∧
    (¬ WFRequest (fs.map kv) (fsT.map kv) (tot ds) →
      sig (runReq r uid (frH :: (ds ++ [frT]))).out = sig r.out ++ [.rst st.id Gen.c_ProtocolError]) := by
  obtain ⟨o, h1, h2⟩ := long_request_trailers r uid frH frT ds st es esT prio prioT frag fragT ht hf htyp hb heh hes hprio hp
    fs d hdec hds hTt hTs hTb hTeh hTes hTprio fsT d2 hdecT
  constructor
  · intro hwf
    have hv := (dispatched_iff_wf (cfgOf r.s.cfg) (fs.map kv) (fsT.map kv) (tot ds) hl hnt).mpr hwf
    rw [hv] at h2
    obtain ⟨v, body, e1, e2⟩ := h2
    exact ⟨v, body, e1, by rw [h1, e2]⟩
  · intro hwf
    have hv := malformed_refused (cfgOf r.s.cfg) (fs.map kv) (fsT.map kv) (tot ds) hl hnt hwf
    rw [hv] at h2
    have : o = .rst st.id Gen.c_ProtocolError := h2
    rw [h1, this]

/-- **a header block in HEADERS + CONTINUATION frames, at the frame level**: `handleHeaderFrame` frame after frame (`hdrFrames`)
ends with the verdict it gives the whole block in one HEADERS frame with END_HEADERS, and when accepted with the same `msgSt`
and decoder state (`cutsOK`: F68's bound on what is carried over) -/
theorem block_frames_are_whole (s : Srv) (st : Strm) (frH frW : H2.Frame.Frame) (cs : List H2.Frame.Frame) (es es' : Bool)
    (prio prio' : Option (Nat × Nat)) (p0 : Bytes) (ps : List Bytes)
    (hb : frH.body = .headers es false prio p0) (hfin : st.headersFinished = false)
    (hprio : ∀ dep w, prio = some (dep, w) → (dep == st.id) = false) (hc : ContBlock cs ps)
    (hW : frW.body = .headers es' true prio' (p0 :: ps).flatten)
    (hprio' : ∀ dep w, prio' = some (dep, w) → (dep == st.id) = false)
    (hg : st.Good) (hcut : cutsOK s { st with fieldSeen := false } (p0 :: ps)) :
    absFin (hdrFrames s st (frH :: cs)) = absFin (handleHeaderFrame s st frW) :=
  hdrFrames_whole s st frH frW cs es es' prio prio' p0 ps hb hfin hprio hc hW hprio' hg hcut

/-! non-vacuity: the demo table is `Settled`; POST with content-length 3, DATA "a", DATA "bc", trailers `x-t: 1` with END_STREAM —
evaluated on the full model: one dispatch record; a pseudo-header among the trailers: RST_STREAM(PROTOCOL_ERROR) -/

example : Tbl demoR 0 demoStrm (Settled demoStrm.id) := by
  refine ⟨rfl, ?_, ?_⟩
  · intro x hx _
    have : x = demoStrm := by simpa [demoR] using hx
    exact this
  · intro x hx hu
    have : x = demoStrm := by simpa [demoR] using hx
    subst this
    exact absurd rfl hu

def trailerFrame (frag : Bytes) : H2.Frame.Frame :=
  { typ := Gen.c_FrameHeaders, flags := 5, stream := 1, length := frag.length, body := .headers true true none frag }

example : ((sig (runReq demoR 0 [postFrame 0x33, dataFrame false [97], dataFrame false [98, 99],
    trailerFrame [0x00, 0x03, 120, 45, 116, 0x01, 49]]).out).map Out.toString) =
    ["dispatch(1,m=504f5354,p=2f,a=-,f=782d74:31,b=3:294:96)"] := by decide +kernel
example : ((sig (runReq demoR 0 [postFrame 0x33, dataFrame false [97], dataFrame false [98, 99],
    trailerFrame [0x82]]).out).map Out.toString) = ["RST(1,1)"] := by decide +kernel
/-- a block in three frames through `handleHeaderFrame`: the path is what the whole block gives -/
def contFrame (eh : Bool) (frag : Bytes) : H2.Frame.Frame :=
  { typ := Gen.c_FrameContinuation, flags := if eh then 4 else 0, stream := 1, length := frag.length, body := .continuation eh frag }
example : ContBlock [contFrame false [0x2f], contFrame true [0x61]] [[0x2f], [0x61]] :=
  .cons _ _ _ _ _ _ rfl rfl (by decide) (.last _ _ rfl rfl (by decide))
example : (absFin (hdrFrames demoR.s demoStrm
    [{ typ := Gen.c_FrameHeaders, flags := 0, stream := 1, length := 4, body := .headers false false none [0x82, 0x87, 0x44, 0x02] },
     contFrame false [0x2f], contFrame true [0x61]])).toOption.map (·.1.path) = some [47, 97] := by decide +kernel

end Trailers

end H2.Props.C20
