import H2.Proofs.Msg
import H2.Proofs.MsgRefine
/-!
# C20 (server half) — malformed requests are rejected; well-formed ones are all accepted

Theorems about `H2.Server.Msg.validate`: the field loop of `handleHeaderFrame`, `validateRequestPseudoHeaders`
and the content-length-vs-DATA test at dispatch (`serverConn.go`), on the decoded header list `hs`, the
decoded trailer list `trailers` and the number `dataLen` of DATA octets received. The model is tied to the
code by the lockstep run `H2.Server.Lock.Msg` beside the full server model (per header fragment: same verdict
or same per-stream flags; per request: same verdict and same request view).
`WFRequest` is RFC 7540 §8.1.2 as in DESIGN.md Appendix D2 (`H2.Server.MsgSpec`).

Hypotheses, both as the property text has them:
* `WithinLimits`: header list within MaxHeaderListSize, DATA and every declared length within
  MaxRequestBodySize (exceeding a limit is answered, by design, with ENHANCE_YOUR_CALM);
* `NoTrailerCL`: vocabulary — no `content-length` among the trailers (RFC 7230 §4.1.2 forbids it there and
  neither RFC fixes its treatment; what the code does with one is `trailer_content_length` below).

All header lists, of any length. (F60 two disagreeing content-length fields, F61 pseudo-header in trailers:
fixed in the library, the model follows the repaired code, so the statements are the full ones.)
-/
namespace H2.Props.C20
open H2.Server.Msg H2.Server.MsgSpec

/-- **dispatched iff well-formed** -/
theorem dispatched_iff_wf (cfg : Cfg) (hs trailers : List Field) (dataLen : Nat)
    (hl : WithinLimits cfg hs trailers dataLen) (hv : NoTrailerCL trailers) :
    validate cfg hs trailers dataLen = .dispatch ↔ WFRequest hs trailers dataLen :=
  H2.Server.Msg.dispatched_iff_wf cfg hs trailers dataLen hl hv

/-- **otherwise that stream alone is refused**: within the limits the verdict is either dispatch or
RST_STREAM(PROTOCOL_ERROR) — never a connection error, no other code (no vocabulary hypothesis needed) -/
theorem refused_stream_scoped (cfg : Cfg) (hs trailers : List Field) (dataLen : Nat)
    (hl : WithinLimits cfg hs trailers dataLen) :
    validate cfg hs trailers dataLen = .dispatch ∨ validate cfg hs trailers dataLen = .rst Gen.c_ProtocolError :=
  H2.Server.Msg.refused_stream_scoped cfg hs trailers dataLen hl

/-- so: a request that is not well-formed gets RST_STREAM(PROTOCOL_ERROR) and the handler never runs -/
theorem malformed_refused (cfg : Cfg) (hs trailers : List Field) (dataLen : Nat)
    (hl : WithinLimits cfg hs trailers dataLen) (hv : NoTrailerCL trailers) (h : ¬ WFRequest hs trailers dataLen) :
    validate cfg hs trailers dataLen = .rst Gen.c_ProtocolError := by
  rcases refused_stream_scoped cfg hs trailers dataLen hl with h1 | h1
  · exact absurd ((dispatched_iff_wf cfg hs trailers dataLen hl hv).mp h1) h
  · exact h1

/-- outside the limits too the message never costs more than its stream, except for a header list over
MaxHeaderListSize, which is answered with GOAWAY(ENHANCE_YOUR_CALM) by design -/
theorem connection_error_only_for_list_size (cfg : Cfg) (hs trailers : List Field) (dataLen : Nat) (c : Nat)
    (h : validate cfg hs trailers dataLen = .goAway c) :
    c = Gen.c_EnhanceYourCalm ∧ ¬ sizeWithin cfg (total (hs ++ trailers)) :=
  goaway_only_for_list_size cfg hs trailers dataLen c h

/-- outside the vocabulary: a `content-length` among the trailers is held to the same rule as one in the
request block (it has to be a number equal to the DATA octets received, and to agree with an earlier one) -/
theorem trailer_content_length (cfg : Cfg) (hs trailers : List Field) (dataLen : Nat)
    (hl : WithinLimits cfg hs trailers dataLen) (h : validate cfg hs trailers dataLen = .dispatch) :
    ∀ f ∈ trailers, f.1 = sContentLength → Digits f.2 ∧ natVal f.2 = dataLen := by
  rw [validate_dispatch_iff] at h
  obtain ⟨st, h1, _, _, hacc⟩ := h
  rw [acc_iff cfg trailers _ dataLen (lim_trailers hl h1)] at hacc
  exact hacc.cl

/-- **the model is the full model's**: one iteration of `Msg.field` is, through the projection `msgSt`, exactly
`fieldVerdict` / `fieldUpdate` of the full server model `H2.Server.Model` (the body of `fieldLoop`, the mirror of
`handleHeaderFrame`'s loop that the correspondence check ties to the Go code) — proved for every stream state,
configuration and field, in addition to the lockstep runs. -/
theorem field_is_full_model (cfg : H2.Server.Cfg) (st : H2.Server.Strm) (f : H2.Hpack.Field) (hcl : 0 ≤ st.contentLength) :
    field (H2.Server.Lock.cfgOf cfg) (H2.Server.Lock.msgSt st) (f.name, f.value) =
      match H2.Server.fieldVerdict cfg st f with
      | none => .ok (H2.Server.Lock.msgSt (H2.Server.fieldUpdate st f))
      | some e => .error (H2.Server.Lock.absErr e) :=
  H2.Server.Lock.field_refines cfg st f hcl

/-! ## non-vacuity: a well-formed POST with a body and trailers is inside the hypotheses and is dispatched;
dropping `:scheme`, or declaring a different length, or a pseudo-header among the trailers, is refused -/

def clField (v : Bytes) : Field := (Gen.s_StringContentLength, v)
/-- `:method POST, :scheme https, :path /p, content-length 3, te trailers` -/
def demoHs : List Field :=
  [(Gen.s_StringMethod, [80, 79, 83, 84]), (Gen.s_StringScheme, [104, 116, 116, 112, 115]), (Gen.s_StringPath, [47, 112]),
   clField [51], (Gen.s_StringTE, Gen.s_StringTrailers)]
/-- `x-t 1` -/
def demoTr : List Field := [([120, 45, 116], [49])]

example : validate {} demoHs demoTr 3 = .dispatch := by decide +kernel
example : validate {} (demoHs.eraseIdx 1) demoTr 3 = .rst Gen.c_ProtocolError := by decide +kernel
example : validate {} demoHs demoTr 5 = .rst Gen.c_ProtocolError := by decide +kernel
example : validate {} demoHs [(Gen.s_StringAuthority, [101, 118, 105, 108])] 3 = .rst Gen.c_ProtocolError := by decide +kernel
example : validate {} (demoHs ++ [clField [53]]) demoTr 3 = .rst Gen.c_ProtocolError := by decide +kernel

theorem demo_limits : WithinLimits {} demoHs demoTr 3 := by
  refine ⟨by unfold sizeWithin; decide +kernel, by decide +kernel, ?_, by decide +kernel⟩
  intro _ f hf hk _
  have : f = clField [51] := by
    simp only [demoHs, demoTr, List.cons_append, List.nil_append, List.mem_cons, List.not_mem_nil, or_false] at hf
    rcases hf with rfl | rfl | rfl | rfl | rfl | rfl <;> first | rfl | exact absurd hk (by decide +kernel)
  subst this; decide +kernel

theorem demo_vocab : NoTrailerCL demoTr := by unfold NoTrailerCL; decide +kernel

/-- the hypotheses are satisfiable and the equivalence is used in the interesting direction: the demo request
is well-formed because the model dispatches it -/
example : WFRequest demoHs demoTr 3 :=
  (dispatched_iff_wf {} demoHs demoTr 3 demo_limits demo_vocab).mp (by decide +kernel)

end H2.Props.C20
