import H2.Proofs.FrameTotal
import H2.Proofs.FrameChecked
import H2.Proofs.HpackTotal
/-!
# C16 — wire parsers are total: any bytes give a result or an error, in bounded work

`H2.Frame.readFrame` mirrors `ReadFrameFromWithSize` (run against the real code on every check, together with the
pool tracker's counts and anomalies predicted by `H2.Pool`). `H2.Frame.Chk.readFrame?` is the same path with Go's
run-time checks explicit. `H2.Frame.Spec.parse` is the RFC 7540 grammar. `H2.Hpack.Dec.next` / `H2.Huffman.decode` are the
HPACK/Huffman decoder models of properties C03/C15.
-/
namespace H2.Props.C16
open H2 H2.Frame

/-- **no_panic**: for every byte string (octets) and every limit, no index, slice, pool-array or `BytesToUint32` check of
the read path can fire; the checked model returns what `readFrame` returns -/
theorem no_panic (max : Nat) (b : Bytes) (hb : WF b) : Chk.readFrame? max b = some (readFrame max b) := by
  apply Chk.readFrame?_eq
  by_cases h : 3 < b.length
  · have : b.getD 3 0 = b[3] := by simp [List.getD, List.getElem?_eq_getElem h]
    rw [this]; exact hb _ (List.getElem_mem h)
  · have : b.getD 3 0 = 0 := by simp [List.getD, List.getElem?_eq_none (by omega : b.length ≤ 3)]
    omega

/-- **total**: every byte string is read the way the RFC grammar classifies it —
a well-formed frame to exactly its fields with `9 + length` consumed and the remainder left in the reader;
an unknown type skipped with the reader at `9 + length`; a malformed frame rejected with a non-I/O error;
input that ends inside the frame answered with an I/O error (or, for an unknown type, skipped to the end) -/
theorem total (max : Nat) (b : Bytes) (hb : WF b) : Refines b (Spec.parse max b) (readFrame max b) :=
  read_refines max b hb

/-- conversely, a frame that is returned is the RFC's reading of exactly the `9 + length` octets consumed -/
theorem ok_is_rfc_reading (max : Nat) (b : Bytes) (hb : WF b) (f : Frame) (c : Nat) (h : readFrame max b = .ok f c) :
    Spec.parse max b = .frame f (b.drop (9 + f.length)) ∧ c = 9 + f.length ∧ c ≤ b.length :=
  ok_is_rfc max b hb f c h

/-- **consumed_le**: whatever the outcome, no more than what is there and no more than header plus announced length is
taken from the reader; after `ok` exactly `9 + length` -/
theorem consumed_le (max : Nat) (b : Bytes) :
    (∀ f c, readFrame max b = .ok f c → c ≤ b.length ∧ c = 9 + be24 b) ∧
    (∀ t c, readFrame max b = .unknownType t c → c ≤ b.length ∧ c ≤ 9 + be24 b) ∧
    (∀ k c, readFrame max b = .err k c → c ≤ b.length ∧ (9 ≤ b.length → c ≤ 9 + be24 b)) :=
  Frame.consumed_le max b

/-- **too_large_rejected**: a length over the limit is refused from the header alone — 9 octets consumed, nothing
allocated, no body acquired -/
theorem too_large_rejected (max : Nat) (b : Bytes) (hm : max ≠ 0) (h9 : 9 ≤ b.length) (hl : be24 b > max) :
    readFrame max b = .err .tooLarge 9 ∧ Pool.alloc max b = 0 ∧ Pool.readEvents max b = [.acquire .fh, .release .fh] := by
  have h9' : ¬ b.length < 9 := by omega
  have hc : (max ≠ 0 && be24 b > max) = true := by simp [hm, hl]
  refine ⟨?_, ?_, ?_⟩
  · simp only [readFrame, h9', if_false, hc, if_true]
  · simp only [Pool.alloc, Pool.path, h9', if_false, hc, if_true]
  · simp only [Pool.readEvents, Pool.path, h9', if_false, hc, if_true, Pool.pathEvents]

/-- the allocation the input can cause is bounded by the limit -/
theorem alloc_le (max : Nat) (b : Bytes) (hm : max ≠ 0) : Pool.alloc max b ≤ max := Frame.alloc_le max b hm

/-- **malformed_rejected**: what the RFC grammar calls malformed is never returned as a frame -/
theorem malformed_rejected (max : Nat) (b : Bytes) (hb : WF b) (c : Nat) (h : Spec.parse max b = .malformed c) :
    ∃ k n, readFrame max b = .err k n ∧ k ≠ .io := by
  have := read_refines max b hb
  rw [h] at this
  exact this

/-- impossible fixed-size or padding structure (per type: PRIORITY ≠ 5, RST_STREAM ≠ 4, SETTINGS not a multiple of 6 or
ACK with payload, PING ≠ 8, GOAWAY < 8, WINDOW_UPDATE ≠ 4, pad length ≥ payload length or missing for DATA/HEADERS/
PUSH_PROMISE) is rejected, whatever the flags and the rest of the payload -/
theorem impossible_structure_rejected (max typ flags stream : Nat) (p rest : Bytes) (hp : WF p) (hr : WF rest)
    (ht : typ < 256) (hf : flags < 256) (hs : stream < 2 ^ 32) (hl : p.length < 2 ^ 24) (hm : max = 0 ∨ p.length ≤ max)
    (himp : Impossible typ flags p) :
    ∃ k n, readFrame max (toBe24 p.length ++ [typ, flags] ++ toBe32 stream ++ p ++ rest) = .err k n ∧ k ≠ .io := by
  obtain ⟨c, hc⟩ := impossible_bad typ flags p himp
  have ht9 : ¬ typ > 9 := by
    rcases himp with ⟨h, _⟩ | ⟨h, _⟩ | ⟨h, _⟩ | ⟨h, _⟩ | ⟨h, _⟩ | ⟨h, _⟩ | ⟨h, _⟩ | ⟨h, _⟩ <;> omega
  refine malformed_rejected max _ ?wf c ?eq
  case wf =>
    have hw1 : WF (toBe24 p.length) := by intro x hx; simp [toBe24] at hx; omega
    have hw2 : WF [typ, flags] := by intro x hx; simp at hx; omega
    have hw3 : WF (toBe32 stream) := by intro x hx; simp [toBe32] at hx; omega
    have app : ∀ a b : Bytes, WF a → WF b → WF (a ++ b) := fun a b ha hb x hx => by
      rcases List.mem_append.mp hx with h | h
      · exact ha x h
      · exact hb x h
    exact app _ _ (app _ _ (app _ _ (app _ _ hw1 hw2) hw3) hp) hr
  case eq =>
    have hmax : ¬ (max ≠ 0 ∧ p.length > max) := by omega
    have h24 : (p.length / 65536 % 256 * 256 + p.length / 256 % 256) * 256 + p.length % 256 = p.length := by omega
    simp [Spec.parse, Spec.parseHdr, toBe24, toBe32, h24, hmax, ht9, hc]

/-- **unknown_skipped**: a frame of unknown type (≥ 0x0a, including ≥ 0x80 where `FrameType` is negative) is skipped
and the reader is left at the next frame -/
theorem unknown_skipped (max : Nat) (b : Bytes) (hb : WF b) (t l : Nat) (rest : Bytes)
    (h : Spec.parse max b = .ignored t l rest) :
    readFrame max b = .unknownType t (9 + l) ∧ rest = b.drop (9 + l) ∧ 9 + l ≤ b.length := by
  have := read_refines max b hb
  rw [h] at this
  exact this

/-- **pool_once**: on every return path of `ReadFrameFromWithSize` followed by the consumer's `ReleaseFrameHeader`,
every acquired object is released at most once (no tracker anomaly, the body never sits in its pool twice); a frame
that is returned still owns its header and body (nothing reachable from it has been released); after an error
nothing stays held -/
theorem pool_once (max : Nat) (b : Bytes) :
    (Pool.check (Pool.readEvents max b ++ Pool.callerRelease (Pool.path max b))).anomalies = [] ∧
    Pool.bodyFreeTwice (Pool.readEvents max b ++ Pool.callerRelease (Pool.path max b)) = false ∧
    (Pool.path max b = .ok →
      Pool.count (Pool.readEvents max b) (.release .fh) = 0 ∧ Pool.count (Pool.readEvents max b) (.release .body) = 0) ∧
    (Pool.path max b ≠ .ok →
      (Pool.check (Pool.readEvents max b)).heldFh = false ∧ (Pool.check (Pool.readEvents max b)).heldBody = false) :=
  pool_paths (Pool.path max b)

/-- the return path the pool model follows is the one the reader's result shows -/
theorem pool_path_matches (max : Nat) (b : Bytes) :
    match Pool.path max b with
    | .noHeader => readFrame max b = .err .io 0
    | .tooLarge => readFrame max b = .err .tooLarge 9
    | .unknownType => ∃ t c, readFrame max b = .unknownType t c
    | .shortPayload => readFrame max b = .err .io b.length
    | .deserErr => ∃ k, readFrame max b = .err k (9 + be24 b)
    | .ok => ∃ f, readFrame max b = .ok f (9 + be24 b) :=
  path_class max b

/-- **hpack_total** (progress): every successful step of the header-field decoder on non-empty input consumes at least
one octet, so decoding a block terminates after at most `|block|` steps -/
theorem hpack_total (st : Hpack.DecState) (blockStart : Bool) (fieldsProcessed : Nat) (b : Bytes) (hne : b ≠ [])
    (st' : Hpack.DecState) (f : Option Hpack.Field) (rest : Bytes)
    (h : Hpack.Dec.next st blockStart fieldsProcessed b = .ok st' f rest) : rest.length < b.length :=
  Hpack.nextFuel_lt _ st blockStart fieldsProcessed b st' f rest hne h

/-- … and every string it decodes from the input is bounded by the input consumed for it (≥ 5 bits per octet, raw or
Huffman), so is the value of every literal field -/
theorem hpack_string_bound (b s r : Bytes) (h : Hpack.readString b = .ok s r) :
    r.length < b.length ∧ 5 * s.length ≤ 8 * (b.length - r.length) :=
  Hpack.readString_bound b s r h

theorem hpack_literal_bound (st : Hpack.DecState) (n : Nat) (b name v r : Bytes)
    (h : Hpack.readLiteral st n b = .inl (some (name, v, r))) :
    r.length < b.length ∧ 5 * v.length ≤ 8 * (b.length - r.length) :=
  ⟨Hpack.readLiteral_lt st n b name v r h, Hpack.readLiteral_value_bound st n b name v r h⟩

/-- **huff_total**: Huffman decoding is a total function (it is one) whose output is bounded by its input -/
theorem huff_total (b s : Bytes) (h : Huffman.decode b = some s) : 5 * s.length ≤ 8 * b.length :=
  Huffman.decode_bound b s h

/-! non-vacuity -/
example : readFrame 16384 [0, 0, 6, 2, 0, 0, 0, 0, 1, 0, 0, 0, 3, 255, 0] = .err (.other 6) 15 := by decide
example : Impossible 2 0 [0, 0, 0, 3, 255, 0] := by unfold Impossible; decide
example : Spec.parse 16384 [0, 0, 1, 0x90, 0, 0, 0, 0, 1, 7, 9] = .ignored 0x90 1 [9] ∧
    readFrame 16384 [0, 0, 1, 0x90, 0, 0, 0, 0, 1, 7, 9] = .unknownType 0x90 10 := by decide
example : readFrame 5 [0, 0, 6, 0, 0, 0, 0, 0, 1, 1, 2, 3, 4, 5, 6] = .err .tooLarge 9 := by decide
example : Pool.path 16384 [0, 0, 5, 0, 0, 0, 0, 0, 1, 1, 2] = .shortPayload := by decide
example : Hpack.Dec.next {} true 0 [0x82] = .ok {} (some ⟨[58, 109, 101, 116, 104, 111, 100], [71, 69, 84], false⟩) [] := by decide

end H2.Props.C16
