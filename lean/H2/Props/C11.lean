import H2.Proofs.ClientInter
import H2.Proofs.ClientGoAway
import H2.Proofs.ClientRunGoAway
/-!
# C11 — the client honours GOAWAY; only a never-processed request is called retryable

* `retry_sound` (all interleavings of `Write`, `Close`, the write loop and its teardown, the read loop with
  `finish` and `afterGoAway`, timers — model `H2.Client.Inter`): a request whose caller reads an error that
  `retryable` accepts either never had its HEADERS written or was disclaimed by the server's GOAWAY (its
  stream is above last-stream-id). Proved for the code after fix F42; `F42_prefix_witness` shows the code
  before it reaches "written, not disclaimed and reported retryable".
* `no_stream_after_goaway` (serial model `H2.Client.step`, the one compared with the real `Conn`): once a
  GOAWAY has been processed, `writeRequest` writes nothing and turns the request away with the retryable
  `ErrNotAvailableStreams`.
* `C11_full`, the rest of the property text: requests above last-stream-id end promptly, with an error, those at
  or below it are kept and the read loop goes on for them. Refuted before the repair of F37 (`C11_full_fails`,
  `F37_witness_*`), now the theorem `goaway_honoured`; the old witnesses are the regression examples.
-/
namespace H2.Props.C11

open H2.Client

/-! ## retry soundness -/

open H2.Client.Inter in
/-- **retry_sound**: whatever the interleaving, a caller that reads a retryable error has a request whose
HEADERS were never written, or one the server disclaimed in its GOAWAY (so re-sending it cannot make a server
process it twice) -/
theorem retry_sound {s : Inter.S} (h : Inter.Reach recheckFixed s) (i : Nat)
    (hr : (s.r i).result = some .retryable) : (s.r i).written = false ∨ (s.r i).disclaimed = true :=
  ((reachB h).b4 i hr).1

open H2.Client.Inter in
/-- the same for a value still waiting in the channel -/
theorem retry_sound_pending {s : Inter.S} (h : Inter.Reach recheckFixed s) (i : Nat)
    (hr : (s.r i).errBuf = some .retryable) : (s.r i).written = false ∨ (s.r i).disclaimed = true :=
  ((reachB h).b3 i hr).1

open H2.Client.Inter in
/-- only a request whose HEADERS went out is ever marked as disclaimed: the second alternative of `retry_sound` is
"written and disclaimed" -/
theorem disclaimed_was_written {s : Inter.S} (h : Inter.Reach recheckFixed s) (i : Nat)
    (hd : (s.r i).disclaimed = true) : (s.r i).written = true :=
  (reachB h).b6 i (.inl hd)

open H2.Client.Inter in
/-- **headers_at_most_once** on a connection: a request comes off the queue at most once -/
theorem taken_once {s : Inter.S} (h : Inter.Reach recheckFixed s) (i : Nat) (hq : (s.r i).inQ = true) :
    (s.r i).written = false :=
  (reachB h).b2 i hq

open H2.Client.Inter in
/-- **F42 (before the fix)**: `Write` enqueues, the write loop writes the request, `Close` closes `done`
with no reason recorded yet, `Write`'s second select resolves with `ErrConnectionClosed`, the caller
reads it: written and reported retryable. Replayed on the real code through the yield points
(findings/F42-C11-before.json). -/
theorem F42_prefix_witness : ∃ s, Inter.Reach recheckOld s ∧ (s.r 0).written = true ∧ (s.r 0).disclaimed = false ∧
    (s.r 0).result = some .retryable := by
  have r1 := Reach.step (rv := recheckOld) Reach.init (Step.enqueue init 0 rfl)
  have r2 := Reach.step r1 (Step.wlTakeWrite _ 0 rfl rfl)
  have r3 := Reach.step r2 (Step.close _)
  have r4 := Reach.step r3 (Step.recheckD _ 0 rfl rfl)
  have r5 := Reach.step r4 (Step.read _ 0 .retryable rfl rfl)
  exact ⟨_, r5, rfl, rfl, rfl⟩

open H2.Client.Inter in
/-- non-vacuity of `retry_sound`: a retryable result is reachable (a request turned away by
`CanOpenStream`) -/
example : ∃ s, Inter.Reach recheckFixed s ∧ (s.r 0).result = some .retryable := by
  have r1 := Reach.step (rv := recheckFixed) Reach.init (Step.enqueue init 0 rfl)
  have r2 := Reach.step r1 (Step.recheckN _ 0 rfl rfl)
  have r3 := Reach.step r2 (Step.wlTakeReject _ 0 rfl rfl)
  have r4 := Reach.step r3 (Step.read _ 0 .retryable rfl rfl)
  exact ⟨_, r4, rfl⟩


open H2.Client.Inter in
/-- non-vacuity of the second alternative: a written request the server disclaims is reported retryable -/
example : ∃ s, Inter.Reach recheckFixed s ∧ (s.r 0).written = true ∧ (s.r 0).disclaimed = true ∧
    (s.r 0).result = some .retryable := by
  have r1 := Reach.step (rv := recheckFixed) Reach.init (Step.enqueue init 0 rfl)
  have r2 := Reach.step r1 (Step.recheckN _ 0 rfl rfl)
  have r3 := Reach.step r2 (Step.wlTakeWrite _ 0 rfl rfl)
  have r4 := Reach.step r3 (Step.refuse _ 0 .retryable rfl (by decide))
  have r5 := Reach.step r4 (Step.read _ 0 .retryable rfl rfl)
  exact ⟨_, r5, rfl, rfl, rfl⟩

/-! ## GOAWAY on the serial model -/

/-- processing a GOAWAY frame sets the flag `CanOpenStream` reads -/
theorem goaway_sets_flag (c : Conn) (f : Frame.Frame) (last code : Nat) (d : Bytes)
    (hs : f.stream = 0) (hb : f.body = .goAway last code d) : (rdFrame c f).1.goAway = true := by
  simp only [rdFrame, hs, hb]
  by_cases h0 : last = 0
  · simp [h0, setLastErr]; split <;> rfl
  · simp only [beq_self_eq_true, if_true, beq_iff_eq, h0, if_false, afterGoAway]
    exact (refuseAbove_table _ _).2.1

/-- **no_stream_after_goaway**: with the flag set, `writeRequest` writes no frame, allocates no stream
id and leaves the request with `ErrNotAvailableStreams` -/
theorem no_stream_after_goaway (c : Conn) (r : ReqSpec) (hg : c.goAway = true) :
    (writeRequest c r).2 = [] ∧ (writeRequest c r).1.nextID = c.nextID ∧
    (writeRequest c r).1 = resolve c r.tag .noStreams := by
  simp [writeRequest, canOpenStream, hg, resolve, updReq]

/-- and that error is one a caller may retry on another connection -/
theorem turned_away_is_retryable : Err.noStreams.retryable = true := by decide

/-- nothing else the connection reports is retryable except the two "never sent" sentinels and the error of a
request the server's GOAWAY disclaimed (`goAwayErr`, which wraps `ErrConnectionClosed`) -/
theorem retryable_iff (e : Err) : e.retryable = true ↔ (e = .connClosed ∨ e = .noStreams ∨ e = .noIds) := by
  cases e <;> simp [Err.retryable] <;> decide

/-- a disclaimed request is never reported as successful … -/
theorem goAwayErr_ne_ok (r : Req) : goAwayErr r ≠ .ok := by
  simp only [goAwayErr]; split <;> simp

/-- … and is called retryable exactly when its body did not come from a reader (one that did has been consumed and
cannot be sent a second time) -/
theorem goAwayErr_retryable (r : Req) : (goAwayErr r).retryable = !r.streamed := by
  cases h : r.streamed <;> simp [goAwayErr, h, Err.retryable] <;> decide

/-! ## the rest of the property: prompt failure above last-stream-id, the accepted streams are kept -/

/-- full statement for the serial model.
(1) When a GOAWAY with last-stream-id `last > 0` is processed, no request on a stream above `last` stays in the
table, and every request that was waiting there has a result (`refuse_resolves`: the error `goAwayErr`) unless its
caller has taken it back already.
(2) From then on the read loop stops after a stream frame only if `dispatch` says so (a flow-control error) or no
request at all is left waiting; and what it removes from the table are streams above `last` only. -/
def C11_full : Prop :=
  (∀ (c : Conn) (f : Frame.Frame) (last code : Nat) (d : Bytes), f.stream = 0 → f.body = .goAway last code d → last > 0 →
      (∀ p ∈ (rdFrame c f).1.reqQueued, p.1 ≤ last) ∧
      (∀ p ∈ c.reqQueued, p.1 > last → Settled (rdFrame c f).1 p.2)) ∧
  (∀ (c : Conn) (f : Frame.Frame),
      ((dispatchLoop c f).2 = true → (dispatch c f).2 = true ∨ (dispatchLoop c f).1.reqQueued = []) ∧
      (∀ p ∈ (dispatch c f).1.reqQueued, p.1 ≤ (dispatch c f).1.closeRef → p ∈ (dispatchLoop c f).1.reqQueued))

theorem goaway_honoured : C11_full := by
  constructor
  · intro c f last code d hs hb hl
    have h0 : last ≠ 0 := by omega
    simp only [rdFrame, hs, hb, beq_self_eq_true, if_true, beq_iff_eq, h0, if_false, afterGoAway]
    obtain ⟨_, _, _, t4, _⟩ := refuseAbove_table c.reqQueued { c with goAway := true, closeRef := last, stateClosed := true }
    constructor
    · intro p hp
      obtain ⟨hm, hne⟩ := t4 p hp
      by_cases hgt : p.1 > last
      · exact absurd rfl (hne p hm hgt)
      · omega
    · intro p hp hgt
      exact (refuseAbove_settles c.reqQueued { c with goAway := true, closeRef := last, stateClosed := true }).2 p hp hgt
  · intro c f
    simp only [dispatchLoop, afterGoAway]
    rcases hd : dispatch c f with ⟨c1, stop⟩
    simp only
    split
    · obtain ⟨_, _, _, t4, t5⟩ := refuseAbove_table c1.reqQueued c1
      refine ⟨?_, fun p hp hle => t5 p hp hle⟩
      intro h
      simp only [Bool.or_eq_true] at h
      rcases h with h | h
      · exact .inl h
      · right
        rw [List.eq_nil_iff_forall_not_mem]
        intro p hp
        obtain ⟨hm, hne⟩ := t4 p hp
        have hgt : p.1 > c1.closeRef := by
          have := List.all_eq_true.mp h p hm
          simpa using this
        exact hne p hm hgt rfl
    · exact ⟨fun h => .inl h, fun p hp _ => hp⟩

/-! ## the inputs of finding F37, now regression examples -/

def cW : Conn := { reqs := [{ tag := "a", sid := 1, hasConn := true }, { tag := "b", sid := 3, hasConn := true }],
                   reqQueued := [(1, "a"), (3, "b")], nextID := 5, openStreams := 2 }

def goAwayFrame : Frame.Frame := ⟨Gen.c_FrameGoAway, 0, 0, 8, .goAway 1 0 []⟩

/-- GOAWAY(last = 1) used to leave the request on stream 3 waiting: it now has the retryable error at once, the
request on stream 1 is left alone (non-vacuity of the first half of `goaway_honoured`) -/
theorem F37_regression_above :
    (rdFrame cW goAwayFrame).1.reqs.map (fun q => (q.sid, q.errBuf)) = [(1, none), (3, some .connClosed)] ∧
    (rdFrame cW goAwayFrame).1.reqQueued = [(1, "a")] ∧ (rdFrame cW goAwayFrame).2 = false := by
  decide

/-- after that GOAWAY a DATA frame without END_STREAM on stream 1 used to stop the read loop: it goes on … -/
theorem F37_regression_last :
    (rdFrame (rdFrame cW goAwayFrame).1 ⟨Gen.c_FrameData, 0, 1, 1, .data false [120]⟩).2 = false := by
  decide

/-- … until the response on stream 1 is complete -/
example :
    (rdFrame (rdFrame (rdFrame cW goAwayFrame).1 ⟨Gen.c_FrameHeaders, 4, 1, 1, .headers false true none [0x88]⟩).1
      ⟨Gen.c_FrameData, 1, 1, 1, .data true [120]⟩).2 = true := by
  decide

/-! ## the FULL serial model, every run (`H2.Client.run`, any event list)

NEEDS `import H2.Proofs.ClientRunGoAway` at the top of this file. `goaway_honoured` above is about ONE frame; here the
same for whole runs of `H2.Client.step` from the connection the driver creates (`Init`, see `Props/C12.lean`).
Proofs: `H2/Proofs/ClientRunHdr.lean` (`step_frames_spec`: which steps write HEADERS) and `ClientRunGoAway.lean`. -/

section FullModel
open H2.Client

/-- **Full.no_new_stream_after_goaway**: in any run, once the connection has processed a GOAWAY frame (`goAway`, or
`stateClosed` which implies it), no later step writes a frame of a header block (`writesHeaders`: HEADERS with or without END_HEADERS, CONTINUATION),
whatever the events are: no new stream is opened.
(Requests that arrive afterwards are turned away with `ErrNotAvailableStreams`: `no_stream_after_goaway`.) -/
theorem Full.no_new_stream_after_goaway (c : Conn) (h : Init c) (pre post : List Event)
    (hg : (run c pre).1.goAway = true ∨ (run c pre).1.stateClosed = true) :
    AllSteps (fun _ _ c' o => c'.goAway = true ∧ writesHeaders o = false) (run c pre).1 post := by
  have hi := run_hinv (init_hinv h) pre
  exact no_headers_after_goaway _ hi (hg.elim id hi.closed) post

/-- … in particular no frame that opens a stream (`.headers`, or `.hfrag`: a HEADERS frame without END_HEADERS) -/
theorem Full.no_stream_opening_frame_after_goaway (c : Conn) (h : Init c) (pre post : List Event)
    (hg : (run c pre).1.goAway = true ∨ (run c pre).1.stateClosed = true) :
    AllSteps (fun _ _ c' o => c'.goAway = true ∧ opensStream o = false) (run c pre).1 post := by
  have := Full.no_new_stream_after_goaway c h pre post hg
  revert this
  generalize (run c pre).1 = c0
  induction post generalizing c0 with
  | nil => intro _; trivial
  | cons e es ih => intro hh; exact ⟨⟨hh.1.1, not_writes_not_opens hh.1.2⟩, ih _ hh.2⟩

/-- **Full.goaway_frame_sets_flag**: in every reachable state, a GOAWAY frame handed to the read loop sets the flag,
whatever its last-stream-id -/
theorem Full.goaway_frame_sets_flag (c : Conn) (h : Init c) (evs : List Event) (f : Frame.Frame) (last code : Nat) (d : Bytes)
    (hs : f.stream = 0) (hb : f.body = .goAway last code d) : (rdFrame (run c evs).1 f).1.goAway = true :=
  rdFrame_goaway_sets _ (run_invariant (init_inv h) evs).keys f last code d hs hb

/-- **Full.goaway_disclaims**: what GOAWAY(last > 0) does in ANY state, request by request.
(1) A request waiting (no result, not taken back) on a stream above `last` holds exactly `goAwayErr` afterwards:
`ErrConnectionClosed` (retryable) unless its body came from a reader (`goAwayErr_retryable`).
(2) A request none of whose streams is above `last` is not touched at all (no error from the GOAWAY) and its streams stay
in the table: its response is still awaited. -/
theorem Full.goaway_disclaims (c : Conn) (f : Frame.Frame) (last code : Nat) (d : Bytes)
    (hs : f.stream = 0) (hb : f.body = .goAway last code d) (hl : 0 < last) :
    (∀ sid tag r, (sid, tag) ∈ c.reqQueued → sid > last → getReq c tag = some r → r.done = false → r.errBuf = none →
      getReq (rdFrame c f).1 tag = some { r with errBuf := some (goAwayErr r) }) ∧
    (∀ tag, (∀ sid, (sid, tag) ∈ c.reqQueued → sid ≤ last) →
      getReq (rdFrame c f).1 tag = getReq c tag ∧
      ∀ sid, (sid, tag) ∈ c.reqQueued → (sid, tag) ∈ (rdFrame c f).1.reqQueued) :=
  H2.Client.goaway_disclaims c f last code d hs hb hl

/-! ### non-vacuity: two requests, GOAWAY(last = 1), a third request -/

def fullReq (tag : String) : ReqSpec :=
  { tag := tag, method := [71, 69, 84], scheme := [104, 116, 116, 112, 115], host := [104], path := [47], ua := [117],
    hdrs := [], body := .none }

/-- GOAWAY, last-stream-id 1, NO_ERROR -/
def fullGoAway : List Nat := [0, 0, 8, 7, 0, 0, 0, 0, 0, 0, 0, 0, 1, 0, 0, 0, 0]

def fullRun : List Event := [.req (fullReq "a"), .req (fullReq "b"), .bytes fullGoAway, .req (fullReq "c"), .read "b", .read "c"]

/-- the two requests open streams, the flag is set by the GOAWAY, the third request writes nothing -/
example : (run {} fullRun).2.map writesHeaders = [true, true, false, false, false, false] ∧
    (run {} (fullRun.take 3)).1.goAway = true ∧ (run {} (fullRun.take 3)).1.stateClosed = true := by decide +kernel

/-- "b" (stream 3 > 1) is disclaimed with the retryable error, "a" (stream 1) is left waiting without an error, "c" is
turned away with the other retryable error -/
example : ((run {} fullRun).1.reqs.map fun q => (q.tag, q.sid, q.errBuf, q.done)) =
    [("a", 1, none, false), ("b", 3, none, true), ("c", 0, none, true)] ∧
    (getReq (run {} (fullRun.take 4)).1 "b").map (·.errBuf) = some (some .connClosed) ∧
    (getReq (run {} (fullRun.take 4)).1 "c").map (·.errBuf) = some (some .noStreams) ∧
    (run {} (fullRun.take 4)).1.reqQueued = [(1, "a")] := by decide +kernel

end FullModel

end H2.Props.C11
