import H2.Proofs.ClientInter
import H2.Client.Model
/-!
# C11 — the client honours GOAWAY; only a never-processed request is called retryable

* `retry_sound` (all interleavings of `Write`, `Close`, the write loop and its teardown, the read loop,
  timers — model `H2.Client.Inter`): a request whose caller reads an error that `retryable` accepts never
  had its HEADERS written. Proved for the code after fix F42; `F42_prefix_witness` shows the code before
  it reaches "written and reported retryable".
* `no_stream_after_goaway` (serial model `H2.Client.step`, the one compared with the real `Conn`): once a
  GOAWAY has been processed, `writeRequest` writes nothing and turns the request away with the retryable
  `ErrNotAvailableStreams`.
* `C11_full` keeps the rest of the property text visible: requests above last-stream-id end promptly,
  those at or below it complete. The code does neither (finding F37, known): `F37_witness_*`.
-/
namespace H2.Props.C11

open H2.Client

/-! ## retry soundness -/

open H2.Client.Inter in
/-- **retry_sound**: whatever the interleaving, a caller that reads a retryable error has a request whose
HEADERS were never written (so re-sending it cannot make the server process it twice) -/
theorem retry_sound {s : Inter.S} (h : Inter.Reach recheckFixed s) (i : Nat)
    (hr : (s.r i).result = some .retryable) : (s.r i).written = false :=
  ((reachB h).b4 i hr).1

open H2.Client.Inter in
/-- the same for a value still waiting in the channel -/
theorem retry_sound_pending {s : Inter.S} (h : Inter.Reach recheckFixed s) (i : Nat)
    (hr : (s.r i).errBuf = some .retryable) : (s.r i).written = false :=
  ((reachB h).b3 i hr).1

open H2.Client.Inter in
/-- **headers_at_most_once** on a connection: a request comes off the queue at most once -/
theorem taken_once {s : Inter.S} (h : Inter.Reach recheckFixed s) (i : Nat) (hq : (s.r i).inQ = true) :
    (s.r i).written = false :=
  (reachB h).b2 i hq

open H2.Client.Inter in
/-- **F42 (before the fix)**: `Write` enqueues, the write loop writes the request, `Close` closes `done`
with no reason recorded yet, `Write`'s second select resolves with `ErrConnectionClosed`, the caller
reads it: written and reported retryable. Replayed on the real code through the yield points
(findings/F42-C11-before.json). -/
theorem F42_prefix_witness : ∃ s, Inter.Reach recheckOld s ∧ (s.r 0).written = true ∧ (s.r 0).result = some .retryable := by
  have r1 := Reach.step (rv := recheckOld) Reach.init (Step.enqueue init 0 rfl)
  have r2 := Reach.step r1 (Step.wlTakeWrite _ 0 rfl rfl)
  have r3 := Reach.step r2 (Step.close _)
  have r4 := Reach.step r3 (Step.recheckD _ 0 rfl rfl)
  have r5 := Reach.step r4 (Step.read _ 0 .retryable rfl rfl)
  exact ⟨_, r5, rfl, rfl⟩

open H2.Client.Inter in
/-- non-vacuity of `retry_sound`: a retryable result is reachable (a request turned away by
`CanOpenStream`) -/
example : ∃ s, Inter.Reach recheckFixed s ∧ (s.r 0).result = some .retryable := by
  have r1 := Reach.step (rv := recheckFixed) Reach.init (Step.enqueue init 0 rfl)
  have r2 := Reach.step r1 (Step.recheckN _ 0 rfl rfl)
  have r3 := Reach.step r2 (Step.wlTakeReject _ 0 rfl rfl)
  have r4 := Reach.step r3 (Step.read _ 0 .retryable rfl rfl)
  exact ⟨_, r4, rfl⟩

/-! ## GOAWAY on the serial model -/

/-- processing a GOAWAY frame sets the flag `CanOpenStream` reads -/
theorem goaway_sets_flag (c : Conn) (f : Frame.Frame) (last code : Nat) (d : Bytes)
    (hs : f.stream = 0) (hb : f.body = .goAway last code d) : (rdFrame c f).1.goAway = true := by
  simp only [rdFrame, hs, hb]
  by_cases h0 : last = 0 <;> simp [h0, setLastErr] <;> split <;> rfl

/-- **no_stream_after_goaway**: with the flag set, `writeRequest` writes no frame, allocates no stream
id and leaves the request with `ErrNotAvailableStreams` -/
theorem no_stream_after_goaway (c : Conn) (r : ReqSpec) (hg : c.goAway = true) :
    (writeRequest c r).2 = [] ∧ (writeRequest c r).1.nextID = c.nextID ∧
    (writeRequest c r).1 = resolve c r.tag .noStreams := by
  simp [writeRequest, canOpenStream, hg, resolve, updReq]

/-- and that error is one a caller may retry on another connection -/
theorem turned_away_is_retryable : Err.noStreams.retryable = true := by decide

/-- nothing else the connection reports is retryable except the two "never sent" sentinels -/
theorem retryable_iff (e : Err) : e.retryable = true ↔ (e = .connClosed ∨ e = .noStreams ∨ e = .noIds) := by
  cases e <;> simp [Err.retryable] <;> decide

/-! ## the part of the property the code does not meet (F37, known finding) -/

/-- full statement for the serial model: after a GOAWAY with last-stream-id `last` is processed, every
request still waiting on a stream above `last` has a result, and no later server frame on a stream at or
below `last` ends the read loop -/
def C11_full : Prop :=
  (∀ (c : Conn) (f : Frame.Frame) (last code : Nat) (d : Bytes), f.stream = 0 → f.body = .goAway last code d → last > 0 →
      ∀ q ∈ (rdFrame c f).1.reqs, q.sid > last → (lookupA c.reqQueued q.sid).isSome → q.errBuf.isSome) ∧
  (∀ (c : Conn) (f : Frame.Frame), c.stateClosed = true → f.stream ≤ c.closeRef → f.stream ≠ 0 →
      ¬ Frame.hasFlag f.flags Gen.c_FlagEndStream → (match f.body with | .data _ _ => True | _ => False) →
      (rdFrame c f).2 = false)

def cW : Conn := { reqs := [{ tag := "a", sid := 1, hasConn := true }, { tag := "b", sid := 3, hasConn := true }],
                   reqQueued := [(1, "a"), (3, "b")], nextID := 5, openStreams := 2 }

def goAwayFrame : Frame.Frame := ⟨Gen.c_FrameGoAway, 0, 0, 8, .goAway 1 0 []⟩

/-- F37, first half: GOAWAY(last = 1) leaves the request on stream 3 waiting -/
theorem F37_witness_above :
    (rdFrame cW goAwayFrame).1.reqs.any (fun q => decide (q.sid > 1) && !q.errBuf.isSome) = true := by
  decide

/-- F37, second half: after that GOAWAY a DATA frame without END_STREAM on stream 1 stops the read loop -/
theorem F37_witness_last :
    (rdFrame (rdFrame cW goAwayFrame).1 ⟨Gen.c_FrameData, 0, 1, 1, .data false [120]⟩).2 = true := by
  decide

theorem C11_full_fails : ¬ C11_full := by
  intro ⟨h1, h2⟩
  have := h2 (rdFrame cW goAwayFrame).1 ⟨Gen.c_FrameData, 0, 1, 1, .data false [120]⟩ (by decide) (by decide) (by decide) (by decide) trivial
  rw [F37_witness_last] at this
  cases this

end H2.Props.C11
