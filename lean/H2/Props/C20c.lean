import H2.Client.Recv
/-!
# C20 (client half) — a response is delivered iff its header list is well-formed

After fix F38. `delivered` is the acceptance decision of `readHeader` + `dispatch` on a complete block
(field list already decoded), `WFResponse` the RFC 7540 §8.1.2 predicate of the property text.
-/
namespace H2.Props.C20c

open H2.Client

/-- after `:status`, the loop accepts exactly the lists of well-formed regular fields -/
theorem loop_after_status (rest : List (Bytes × Bytes)) (r : Req) (rs : Bool) :
    (fieldLoop r rs true rest).isSome = rest.all regularOk ∧
    ∀ x, fieldLoop r rs true rest = some x → x.2 = true := by
  induction rest generalizing r rs with
  | nil => simp [fieldLoop]
  | cons kv rest ih =>
    obtain ⟨k, v⟩ := kv
    simp only [fieldLoop, fieldStep, List.all_cons, regularOk]
    by_cases hp : isPseudo k = true
    · simp only [hp, if_true]
      by_cases hr : rs = true
      · simp [hr]
      · simp only [hr, Bool.false_eq_true, if_false]
        by_cases hk : (k != Gen.s_StringStatus) = true
        · simp [hk]
        · simp only [hk, Bool.false_eq_true, if_false]
          cases parseUint v <;> simp
    · simp only [hp, Bool.false_eq_true, if_false, Bool.not_false, Bool.true_and]
      by_cases hu : hasUpperCase k = true
      · simp [hu]
      · simp only [hu, Bool.false_eq_true, if_false, Bool.not_false, Bool.true_and]
        by_cases hc : isConnectionSpecific k = true
        · simp [hc]
        · simp only [hc, Bool.false_eq_true, if_false, Bool.not_false, Bool.true_and]
          by_cases hl : (k == Gen.s_StringContentLength) = true
          · have : (k != Gen.s_StringContentLength) = false := by simp at hl ⊢; exact hl
            simp only [hl, if_true, this, Bool.false_or]
            cases hpu : parseUint v with
            | none => simp
            | some n => simp only [Option.isSome_some, Bool.true_and]; exact ih _ _
          · have : (k != Gen.s_StringContentLength) = true := by simp at hl ⊢; exact hl
            simp only [hl, Bool.false_eq_true, if_false, this, Bool.true_or, Bool.true_and]
            by_cases ht : (k == Gen.s_StringContentType) = true
            · simp only [ht, if_true]; exact ih _ _
            · simp only [ht, Bool.false_eq_true, if_false]; exact ih _ _

/-- once a regular field has been seen, `regularSeen` stays set and no status can be recorded any more -/
theorem fieldStep_regular_seen {r r' : Req} {b : Bool} {k v : Bytes} {rs ss : Bool}
    (h : fieldStep r true b k v = some (r', rs, ss)) : rs = true ∧ ss = b := by
  unfold fieldStep at h
  repeat' split at h
  all_goals first
    | (cases h; exact ⟨rfl, rfl⟩)
    | (exfalso; simp_all)

/-- the first regular field sets `regularSeen` and leaves `statusSeen` alone -/
theorem fieldStep_regular {r r' : Req} {a b : Bool} {k v : Bytes} {rs ss : Bool} (hp : isPseudo k = false)
    (h : fieldStep r a b k v = some (r', rs, ss)) : rs = true ∧ ss = b := by
  unfold fieldStep at h
  simp only [hp, Bool.false_eq_true, if_false] at h
  repeat' split at h
  all_goals (cases h; try exact ⟨rfl, rfl⟩)

/-- without `:status` so far and a regular field seen, the loop never reports a status -/
theorem loop_no_status (rest : List (Bytes × Bytes)) (r : Req) :
    ∀ x, fieldLoop r true false rest = some x → x.2 = false := by
  induction rest generalizing r with
  | nil => intro x h; simp [fieldLoop] at h; rw [← h]
  | cons kv rest ih =>
    obtain ⟨k, v⟩ := kv
    intro x h
    simp only [fieldLoop] at h
    cases hfs : fieldStep r true false k v with
    | none => rw [hfs] at h; cases h
    | some y =>
      obtain ⟨r', rs, ss⟩ := y
      have hreg := fieldStep_regular_seen hfs
      rw [hfs] at h
      simp only at h
      rw [hreg.1, hreg.2] at h
      exact ih _ x h

/-- **delivered_iff_wf**: the client hands a response to the caller exactly when its header list is
well-formed (single valid `:status` first, lower-case regular fields, none connection-specific,
numeric `content-length`) -/
theorem delivered_iff_wf (hs : List (Bytes × Bytes)) : delivered hs = WFResponse hs := by
  match hs with
  | [] => simp [delivered, fieldLoop, WFResponse]
  | (k, v) :: rest =>
    simp only [delivered, fieldLoop, WFResponse, validStatus]
    by_cases hp : isPseudo k = true
    · simp only [fieldStep, hp, if_true, Bool.false_eq_true, if_false]
      by_cases hk : (k != Gen.s_StringStatus) = true
      · have : (k == Gen.s_StringStatus) = false := by simp at hk ⊢; exact hk
        simp [hk, this]
      · have hk' : (k == Gen.s_StringStatus) = true := by simp at hk ⊢; exact hk
        simp only [hk, Bool.false_eq_true, if_false, hk', Bool.true_and]
        cases hpu : parseUint v with
        | none => simp
        | some n =>
          simp only [Bool.false_or]
          by_cases hb : (v.length != 3 || decide (n < 100)) = true
          · have : (v.length == 3 && decide (100 ≤ n)) = false := by
              simp only [Bool.or_eq_true, bne_iff_ne, ne_eq, decide_eq_true_eq] at hb
              simp only [Bool.and_eq_false_imp, beq_iff_eq, decide_eq_false_iff_not, Int.not_le]
              intro h3; rcases hb with h | h
              · exact absurd h3 h
              · exact h
            simp [hb, this]
          · have : (v.length == 3 && decide (100 ≤ n)) = true := by
              simp only [Bool.or_eq_true, bne_iff_ne, ne_eq, decide_eq_true_eq, not_or, Decidable.not_not, Int.not_lt] at hb
              simp [hb.1, hb.2]
            simp only [hb, Bool.false_eq_true, if_false, this, Bool.true_and]
            have := loop_after_status rest { tag := "", status := n, statusSeen := true } false
            cases hl : fieldLoop { tag := "", status := n, statusSeen := true } false true rest with
            | none => rw [hl] at this; rw [← this.1]; rfl
            | some x => rw [hl] at this; rw [← this.1]; simp [this.2 x rfl]
    · have hk : (k == Gen.s_StringStatus) = false := by
        cases hks : (k == Gen.s_StringStatus)
        · rfl
        · exfalso; apply hp
          have : k = Gen.s_StringStatus := by simpa using hks
          rw [this]; decide
      simp only [hk, Bool.false_and]
      -- a regular field first: whatever follows, no status is ever recorded
      have hp' : isPseudo k = false := by simpa using hp
      cases hfs : fieldStep { tag := "" } false false k v with
      | none => rfl
      | some y =>
        obtain ⟨r', rs, ss⟩ := y
        have hreg := fieldStep_regular hp' hfs
        simp only
        rw [hreg.1, hreg.2]
        cases hl : fieldLoop r' true false rest with
        | none => rfl
        | some x => simpa using loop_no_status rest r' x hl

/-! non-vacuity and the shapes of finding F38 (fixed) -/
example : delivered [(Gen.s_StringStatus, [50, 48, 48]), ([120, 45, 97], [49])] = true := by decide
example : delivered [([120, 45, 97], [49])] = false := by decide                         -- no :status
example : delivered [(Gen.s_StringStatus, [50, 48, 48]), (Gen.s_StringStatus, [52, 48, 52])] = false := by decide
example : delivered [(Gen.s_StringStatus, List.replicate 20 57)] = false := by decide   -- overflows int

end H2.Props.C20c
