import H2.Proofs.ServerFlowFull
import H2.Proofs.Flow
/-!
# C06 — the server never sends DATA beyond the peer's flow-control windows, and finishes

Theorems about the abstract send-side model `H2.Server.Flow` (every event sequence, no bound).
`Flow.run init evs` is the state and the DATA frames after the events `evs`, where an event is: a
request dispatched, a handler finished with `len` octets of body, a stream or connection
WINDOW_UPDATE, a SETTINGS_INITIAL_WINDOW_SIZE change, a stream reset. Each DATA record carries the
ghost field `availBefore` = min(stream allowance, connection allowance) at the moment it is sent.
-/
namespace H2.Props.C06
open H2.Server.Flow

/-- the invariant holds in every reachable state and every DATA frame ever produced is fine -/
theorem reachable (evs : List Ev) : Inv (run init evs).1 ∧ OutOK (run init evs).2 :=
  run_inv evs init init_inv

/-- **never overdraw**: every DATA frame is non-empty, no larger than what both the stream's and the
connection's allowance permitted at the moment it was sent, and no larger than 16 384 octets (the
smallest SETTINGS_MAX_FRAME_SIZE a peer can have). -/
theorem never_overdraw (evs : List Ev) :
    ∀ d ∈ (run init evs).2, 0 < d.len ∧ (d.len : Int) ≤ d.availBefore ∧ d.len ≤ 16384 := by
  intro d hd
  have := (reachable evs).2 d hd
  simpa [maxFrame] using this

/-- **the windows are the peer's ledger**: after any history the stream's send window equals what was
granted to it (initial value, SETTINGS deltas — possibly negative —, WINDOW_UPDATE) minus what was sent
on it, and likewise for the connection. -/
theorem window_is_ledger (evs : List Ev) :
    (∀ s ∈ (run init evs).1.strms, s.window = s.granted - s.sent) ∧
    (run init evs).1.cw = (run init evs).1.cgranted - (run init evs).1.csent :=
  ⟨(reachable evs).1.led, (reachable evs).1.cled⟩

/-- **progress, as an invariant**: after every step, a stream whose handler has finished and which
still owes octets is blocked by flow control (one of the two windows is ≤ 0). So whenever both windows
are positive nothing sendable is left unsent. -/
theorem no_sendable_left (evs : List Ev) :
    ∀ s ∈ (run init evs).1.strms, s.responded = true → s.running = false → 0 < s.pending →
      min s.window (run init evs).1.cw ≤ 0 := by
  intro s hs hr hrun hp
  exact (reachable evs).1.blk s hs (by simp [flushable, hr, hrun, hp])

/-- **END_STREAM once, and on the last octet**: in every reachable state, for every stream, at most one DATA
frame carrying END_STREAM has been sent (`fins` counts them: `sendData_spec.fins` ties the counter to the frames
each `sendData` run emits), and once it has been sent nothing is owed on the stream any more. -/
theorem end_stream_once (evs : List Ev) :
    ∀ s ∈ (run init evs).1.strms, s.fins ≤ 1 ∧ (s.fins = 1 → s.pending = 0 ∧ s.responded = true) :=
  run_fin evs init (by intro s hs; simp [init] at hs)

/-- … and a `sendData` run sets END_STREAM on a frame exactly when that run takes the last octet owed -/
theorem end_stream_on_last_octet (s : Strm) (cw : Int) (cs : Nat) :
    finTotal (sendData s cw cs).2.2.2 = if 0 < s.pending ∧ (sendData s cw cs).1.pending = 0 then 1 else 0 :=
  (sendData_spec s cw cs).finspec

/-- one `sendData` run conserves octets: what it emits plus what stays pending is what was pending -/
theorem send_conserves (s : Strm) (cw : Int) (cs : Nat) :
    (sendData s cw cs).1.pending + total (sendData s cw cs).2.2.2 = s.pending :=
  (sendData_spec s cw cs).pend

/-! non-vacuity: the theorems have no hypotheses beyond "reachable from `init`"; `init` satisfies the
invariant, and a stream with body 25 and window 10 owes 15 octets after its first `sendData`
(the driver's lockstep run reproduces the 10 + 15 split the real server shows). -/
example : Inv init := init_inv
example (s : Strm) (cw : Int) (cs : Nat) (h : s.pending = 25) :
    (sendData s cw cs).1.pending + total (sendData s cw cs).2.2.2 = 25 := by
  rw [send_conserves, h]

end H2.Props.C06


/-! # C06 on the FULL server model (safety half)

NEEDS one more import at the head of this file: `import H2.Proofs.ServerFlowFull`.

Everything below is about `H2.Server.stepR` / `step` of `H2/Server/Model.lean` itself — the model that is diffed against
`serverConn.go` — for EVERY configuration `cfg` and EVERY event list `evs`; the abstract model `H2.Server.Flow` above is not
involved. `runOuts cfg evs` are the outputs of the run, `runFwd cfg evs` the frames the read loop handed to the stream loop
(`R.fwd`, step by step), `(run cfg evs).1` the state reached.

Measures: `sentC outs` / `sentS sid outs` = payload octets of the DATA frames in `outs` (on stream `sid`); `grantC fwd` = sum
of the increments of the WINDOW_UPDATE frames on stream 0 in `fwd`; `wuS sid fwd` = the same for the WINDOW_UPDATE frames on
stream `sid`; `initWin fwd` = 65 535, or the value of the last SETTINGS_INITIAL_WINDOW_SIZE in `fwd`.

Step level: `full_data_within_windows`, `full_one_frame`, `full_callers_send_through_sendData`, `full_no_data_elsewhere`,
`full_windows_only_grow_by_grants`, `full_grant_handlers`, `full_no_window_moves_elsewhere`.
Run level: `full_conn_ledger`, `full_conn_never_overdrawn`, `full_stream_ledger`, `full_max_frame_size`.
The liveness half of C06 (`no_sendable_left`) stays on the abstract model. -/
namespace H2.Props.C06
open H2.Server

/-- **data_within_windows** (step level; any state whose table has distinct uids and ids, which every reachable state has:
`full_reachable_table`). What one run of `sendData` on the stream `uid` appends is a list `l` of DATA frames on that stream's
id (and at most a RST_STREAM after a failed body read) such that, frame by frame, a non-empty frame has
`len ≤ clientWindow`, `len ≤` the stream's window — both AS THEY ARE JUST BEFORE THAT FRAME — and `len ≤ 16 384`
(`Fits`); the two windows go down by exactly the octets of `l`. -/
theorem full_data_within_windows (r : R) (t : Tbl r) (uid : Nat) (st : Strm) (hg : r.getStrm uid = some st) :
    ∃ l, (sendData r uid).1.out = r.out ++ l ∧ Fits st.id r.s.clientWindow st.window l ∧
      (sendData r uid).1.s.clientWindow = r.s.clientWindow - sentC l ∧
      ∀ st', (sendData r uid).1.getStrm uid = some st' → st'.id = st.id ∧ st'.window = st.window - sentC l :=
  sendData_fits t uid st hg

/-- … one frame (`sendFrame`): one DATA record of `step` octets on the stream's id, `clientWindow` and the window of the
stream object `uid` down by `step`, nothing else -/
theorem full_one_frame (r : R) (uid : Nat) (st : Strm) (step : Nat) :
    (∃ es d, (sendFrame r uid st step).1.out = r.out ++ [.data st.id es step d]) ∧
    (sendFrame r uid st step).1.s.clientWindow = r.s.clientWindow - step ∧
    (sendFrame r uid st step).1.s.strms =
      r.s.strms.map (fun s => if s.uid == uid then sentStrm s (st.pendLen - step) step else s) :=
  sendFrame_spec r uid st step

/-- … `flushOne` (hence `flushStreams`, a fold of it followed by `closeDone`s that write nothing), `finishRequest` and
`dispatchOrSend` write DATA only through `sendData`: each is `sendData` applied to a state with the same windows, or
writes no DATA at all (`Quiet`: no window moved, no DATA octet written) -/
theorem full_callers_send_through_sendData (r : R) (uid : Nat) :
    (∀ acc : R × List Nat, (flushOne acc uid).1 = acc.1 ∨ (flushOne acc uid).1 = (sendData acc.1 uid).1) ∧
    (∀ resp, ∃ r0, Quiet r r0 ∧ wtab r0 = wtab r ∧
      ((finishRequest r uid resp).1 = r0 ∨ (finishRequest r uid resp).1 = (sendData r0 uid).1)) ∧
    (∀ st, st.id ≤ r.s.lastID → Quiet r (dispatchOrSend r uid st) ∨
      ∃ r1, Quiet (sendData r uid).1 r1 ∧ dispatchOrSend r uid st = r1) :=
  ⟨fun acc => flushOne_sends acc uid, fun resp => finishRequest_sends uid resp,
    fun st hle => dispatchOrSend_sends uid st hle⟩

/-- … and no other function of the stream loop or the read loop writes a DATA frame (the counting lemmas of
`ServerExt.lean`; `slFrame` / `slHandlerDone` reach DATA only through the three callers above) -/
theorem full_no_data_elsewhere (r : R) (uid : Nat) (fr : H2.Frame.Frame) (wc : Bool) (e : Option SErr) (n : Nat)
    (st : H2.Frame.SettingsVal) :
    cnt .data (handleFrame r uid fr).1.out = cnt .data r.out ∧
    cnt .data (unknownStream r fr wc).1.out = cnt .data r.out ∧
    cnt .data (headersPrelude r fr).1.out = cnt .data r.out ∧
    cnt .data (onFrameError r uid e).1.out = cnt .data r.out ∧
    cnt .data (consumeConnWindow r n).out = cnt .data r.out ∧
    cnt .data (contCheck r fr).1.out = cnt .data r.out ∧
    cnt .data (handleSettings r st).out = cnt .data r.out :=
  ⟨handleFrame_cnt .data (by decide) r uid fr, unknownStream_cnt .data (by decide) r fr wc,
    headersPrelude_cnt .data (by decide) r fr, onFrameError_cnt .data (by decide) r uid e,
    consumeConnWindow_cnt .data (by decide) r n, contCheck_cnt .data (by decide) r fr,
    by simp [handleSettings, Out.kind]⟩

/-- **windows_only_grow_by_grants** (one event, from any state satisfying the invariant `SInv`, which every reachable state
does: `full_reachable`). Across the step the connection window moves by exactly
`+ (connection WINDOW_UPDATE increments forwarded in the step) − (DATA octets written in the step)`; while the stream loop
runs, a stream that stays in the table moves by `+ (new − old SETTINGS_INITIAL_WINDOW_SIZE, possibly negative)
+ (WINDOW_UPDATE increments forwarded on its id) − (DATA octets written on its id)`, and a stream that enters the table
stands at `initial window in force + increments on its id − DATA octets on its id` -/
theorem full_windows_only_grow_by_grants {O : List Out} {F : List H2.Frame.Frame} {s : Srv} (h : SInv O F s) (ev : Event) :
    (stepR s ev).s.clientWindow + (sentC (stepR s ev).out : Int) = s.clientWindow + (grantC (stepR s ev).fwd : Int) ∧
    ((stepR s ev).s.slStopped = false → s.slStopped = false →
      ∀ st' ∈ (stepR s ev).s.strms,
        (∀ st ∈ s.strms, st.id = st'.id →
          st'.window + (sentS st'.id (stepR s ev).out : Int) =
            st.window + ((stepR s ev).s.curInitWin - s.curInitWin) + (wuS st'.id (stepR s ev).fwd : Int)) ∧
        (s.lastID < st'.id → s.lastRefused < st'.id →
          st'.window + (sentS st'.id (stepR s ev).out : Int) =
            (stepR s ev).s.curInitWin + (wuS st'.id (stepR s ev).fwd : Int))) :=
  step_ledger h ev

/-- … function by function. The handlers that raise a send window: (1) `handleFrame` on a stream WINDOW_UPDATE it lets
through raises the window of that stream object by the increment and does nothing else; (2) a connection WINDOW_UPDATE taken
by the stream loop (`slFrame_eq`: `slConnWU`) adds the increment to `clientWindow`, then flushes; (3)
SETTINGS_INITIAL_WINDOW_SIZE (`slSettings`) adds `new − old` to every stream of the table unless one would pass 2^31−1
(`applyDelta`; then GOAWAY and the loop stops); (4) a new stream starts at `curInitWin` (`withNew`). Every other function is
`Quiet` (`full_no_window_moves_elsewhere`) or lowers the windows (`full_one_frame`). -/
theorem full_grant_handlers (r : R) (uid : Nat) (fr : H2.Frame.Frame) (st : Strm) :
    (r.getStrm uid = some st → verifyState st fr = none → fr.typ = H2.Gen.c_FrameWindowUpdate →
      (st.state == .idle) = false → (wuOf fr == 0) = false →
        (handleFrame r uid fr).1 = r.updStrm uid fun s => { s with window := st.window + wuOf fr }) ∧
    (∀ d l, (applyDelta d l).2 = false → (applyDelta d l).1 = l.map (fun s => { s with window := s.window + d })) ∧
    (∀ d l, (applyDelta d l).1.map (fun s => (s.uid, s.id)) = l.map (fun s => (s.uid, s.id))) ∧
    (withNew r fr).s.strms = r.s.strms ++ [{ uid := r.s.nextUid, id := fr.stream, window := r.s.curInitWin, origType := fr.typ }] :=
  ⟨fun hg hv ht hs hi => handleFrame_wu r uid fr st hg hv ht hs hi, applyDelta_ok, applyDelta_keys, rfl⟩

theorem full_no_window_moves_elsewhere {r : R} (t : Tbl r) (uid : Nat) (fr : H2.Frame.Frame) (e : SErr) (oe : Option SErr)
    (st : Strm) (resp : Resp) (hb : Bool) (fuel id : Nat) :
    Quiet r (writeError r uid e) ∧ Quiet r (closeStream r uid) ∧ Quiet r (closeDone r uid) ∧
    Quiet r (closeIfClosed r uid) ∧ Quiet r (closeIdleBelow fuel r id) ∧ Quiet r (headersPrelude r fr).1 ∧
    Quiet r (onFrameError r uid oe).1 ∧ Quiet r (dispatch r uid st) ∧ Quiet r (responseHeaders r st resp hb) ∧
    Quiet r (contCheck r fr).1 ∧ Quiet r (closeBody r uid) ∧ Quiet r (settle r) ∧
    (r.getStrm uid = some st → Quiet r (refill r uid st).1 ∧ Quiet r (hfHeaders r uid st fr).1) :=
  quiet_functions t uid fr e oe st resp hb fuel id

/-- the invariant (table facts, send ledger, receive ledger) holds after every run -/
theorem full_reachable (cfg : Cfg) (evs : List Event) : SInv (runOuts cfg evs) (runFwd cfg evs) (run cfg evs).1 :=
  run_sinv cfg evs

theorem full_reachable_table (cfg : Cfg) (evs : List Event) : Tbl { s := (run cfg evs).1 } := reachable_tbl cfg evs

/-- **connection ledger** (run level): `clientWindow + DATA octets written = 65 535 + connection increments forwarded`, and
`clientWindow ≥ 0` -/
theorem full_conn_ledger (cfg : Cfg) (evs : List Event) :
    (run cfg evs).1.clientWindow + (sentC (runOuts cfg evs) : Int) = 65535 + (grantC (runFwd cfg evs) : Int) ∧
      0 ≤ (run cfg evs).1.clientWindow :=
  conn_ledger cfg evs

/-- **never overdraw the connection** (run level): for every prefix `p` of the outputs of any run, the DATA octets of `p`
are at most 65 535 plus the connection increments the peer has sent (those of the run: an increment is never negative) -/
theorem full_conn_never_overdrawn (cfg : Cfg) (evs : List Event) (p : List Out) (hp : p <+: runOuts cfg evs) :
    sentC p ≤ 65535 + grantC (runFwd cfg evs) :=
  conn_never_overdrawn cfg evs p hp

/-- **stream ledger** (run level): while the stream loop runs, for every stream of the table
`window + DATA octets written on its id = SETTINGS_INITIAL_WINDOW_SIZE in force + increments forwarded on its id`
(a SETTINGS decrease may leave `window` negative: then nothing is sent until it is positive again, by
`full_data_within_windows`), and a new stream starts at the initial window in force -/
theorem full_stream_ledger (cfg : Cfg) (evs : List Event) (hrun : (run cfg evs).1.slStopped = false) :
    (∀ st ∈ (run cfg evs).1.strms,
      st.window + (sentS st.id (runOuts cfg evs) : Int) =
        initWin (runFwd cfg evs) + (wuS st.id (runFwd cfg evs) : Int)) ∧
    (run cfg evs).1.curInitWin = initWin (runFwd cfg evs) :=
  ⟨stream_ledger cfg evs hrun, init_window_in_force cfg evs⟩

/-- **no frame exceeds the peer's maximum frame size** (run level): every DATA frame of any run carries at most 16 384
octets, and the peer's SETTINGS_MAX_FRAME_SIZE as the server stores it (`peerFrameSize`) is unset or at least 16 384 -/
theorem full_max_frame_size (cfg : Cfg) (evs : List Event) :
    (∀ o ∈ runOuts cfg evs, o.dataLen ≤ 16384) ∧
      ((run cfg evs).1.peerFrameSize = 0 ∨ 16384 ≤ (run cfg evs).1.peerFrameSize) :=
  data_frames_small cfg evs

/-! non-vacuity: SETTINGS(INITIAL_WINDOW_SIZE = 10); GET on stream 1; the handler answers with 25 octets — 10 go out;
WINDOW_UPDATE(1, 5) — 5 more; SETTINGS(INITIAL_WINDOW_SIZE = 3) — the window of stream 1 is 10 + 5 − 15 − 7 = −7;
WINDOW_UPDATE(0, 100). Both ledgers, as `full_stream_ledger` / `full_conn_ledger` state them:
−7 + 15 = 3 + 5 and 65 620 + 15 = 65 535 + 100. -/
def fullFlowRun : List Event :=
  [.bytes [0, 0, 6, 4, 0, 0, 0, 0, 0, 0, 4, 0, 0, 0, 10],
   .bytes [0, 0, 3, 1, 5, 0, 0, 0, 1, 0x82, 0x86, 0x84],
   .done 1 { kind := "buf", src := .pat 1, len := 25 },
   .bytes [0, 0, 4, 8, 0, 0, 0, 0, 1, 0, 0, 0, 5],
   .bytes [0, 0, 6, 4, 0, 0, 0, 0, 0, 0, 4, 0, 0, 0, 3],
   .bytes [0, 0, 4, 8, 0, 0, 0, 0, 0, 0, 0, 0, 100]]

example : (run {} fullFlowRun).1.slStopped = false ∧ (run {} fullFlowRun).1.strms.map (fun s => (s.id, s.window)) = [(1, -7)] ∧
    (run {} fullFlowRun).1.clientWindow = 65620 ∧
    sentC (runOuts {} fullFlowRun) = 15 ∧ sentS 1 (runOuts {} fullFlowRun) = 15 ∧
    grantC (runFwd {} fullFlowRun) = 100 ∧ wuS 1 (runFwd {} fullFlowRun) = 5 ∧ initWin (runFwd {} fullFlowRun) = 3 := by
  decide +kernel

end H2.Props.C06
