import H2.Proofs.Flow
/-!
# C06 — the server never sends DATA beyond the peer's flow-control windows, and finishes

Theorems about the abstract send-side model `H2.Server.Flow` (every event sequence, no bound).
`Flow.run init evs` is the state and the DATA frames after the events `evs`, where an event is: a
request dispatched, a handler finished with `len` octets of body, a stream or connection
WINDOW_UPDATE, a SETTINGS_INITIAL_WINDOW_SIZE change, a stream reset. Each DATA record carries the
ghost field `availBefore` = min(stream allowance, connection allowance) at the moment it is sent.
-/
namespace H2.Props.C06
open H2.Server.Flow

/-- the invariant holds in every reachable state and every DATA frame ever produced is fine -/
theorem reachable (evs : List Ev) : Inv (run init evs).1 ∧ OutOK (run init evs).2 :=
  run_inv evs init init_inv

/-- **never overdraw**: every DATA frame is non-empty, no larger than what both the stream's and the
connection's allowance permitted at the moment it was sent, and no larger than 16 384 octets (the
smallest SETTINGS_MAX_FRAME_SIZE a peer can have). -/
theorem never_overdraw (evs : List Ev) :
    ∀ d ∈ (run init evs).2, 0 < d.len ∧ (d.len : Int) ≤ d.availBefore ∧ d.len ≤ 16384 := by
  intro d hd
  have := (reachable evs).2 d hd
  simpa [maxFrame] using this

/-- **the windows are the peer's ledger**: after any history the stream's send window equals what was
granted to it (initial value, SETTINGS deltas — possibly negative —, WINDOW_UPDATE) minus what was sent
on it, and likewise for the connection. -/
theorem window_is_ledger (evs : List Ev) :
    (∀ s ∈ (run init evs).1.strms, s.window = s.granted - s.sent) ∧
    (run init evs).1.cw = (run init evs).1.cgranted - (run init evs).1.csent :=
  ⟨(reachable evs).1.led, (reachable evs).1.cled⟩

/-- **progress, as an invariant**: after every step, a stream whose handler has finished and which
still owes octets is blocked by flow control (one of the two windows is ≤ 0). So whenever both windows
are positive nothing sendable is left unsent. -/
theorem no_sendable_left (evs : List Ev) :
    ∀ s ∈ (run init evs).1.strms, s.responded = true → s.running = false → 0 < s.pending →
      min s.window (run init evs).1.cw ≤ 0 := by
  intro s hs hr hrun hp
  exact (reachable evs).1.blk s hs (by simp [flushable, hr, hrun, hp])

/-- **END_STREAM once, and on the last octet**: in every reachable state, for every stream, at most one DATA
frame carrying END_STREAM has been sent (`fins` counts them: `sendData_spec.fins` ties the counter to the frames
each `sendData` run emits), and once it has been sent nothing is owed on the stream any more. -/
theorem end_stream_once (evs : List Ev) :
    ∀ s ∈ (run init evs).1.strms, s.fins ≤ 1 ∧ (s.fins = 1 → s.pending = 0 ∧ s.responded = true) :=
  run_fin evs init (by intro s hs; simp [init] at hs)

/-- … and a `sendData` run sets END_STREAM on a frame exactly when that run takes the last octet owed -/
theorem end_stream_on_last_octet (s : Strm) (cw : Int) (cs : Nat) :
    finTotal (sendData s cw cs).2.2.2 = if 0 < s.pending ∧ (sendData s cw cs).1.pending = 0 then 1 else 0 :=
  (sendData_spec s cw cs).finspec

/-- one `sendData` run conserves octets: what it emits plus what stays pending is what was pending -/
theorem send_conserves (s : Strm) (cw : Int) (cs : Nat) :
    (sendData s cw cs).1.pending + total (sendData s cw cs).2.2.2 = s.pending :=
  (sendData_spec s cw cs).pend

/-! non-vacuity: the theorems have no hypotheses beyond "reachable from `init`"; `init` satisfies the
invariant, and a stream with body 25 and window 10 owes 15 octets after its first `sendData`
(the driver's lockstep run reproduces the 10 + 15 split the real server shows). -/
example : Inv init := init_inv
example (s : Strm) (cw : Int) (cs : Nat) (h : s.pending = 25) :
    (sendData s cw cs).1.pending + total (sendData s cw cs).2.2.2 = 25 := by
  rw [send_conserves, h]

end H2.Props.C06
