import H2.Proofs.StreamSM
/-!
# C08 — the server reacts to each frame as its stream's RFC 7540 state prescribes

Theorems about the abstract per-stream decision model `H2.Server.StreamSM` (mirror of `readLoop`'s sequencing
rules, the unknown-stream branch of `handleStreams`, `verifyState`, `handleFrame`, `handleState`, the dispatch
condition; tied to the code by the lockstep run of `H2.Server.Lock.StreamSM` beside the full server model)
against the RFC-side state machine `H2.Server.StreamSpec` (RFC 7540 §5.1 / §6; DESIGN.md Appendix D1).

* `Pos`  — where the server's tables have the stream; `SpecSt` — the stream's RFC state, a function of the
  history; `sim p σ` — the simulation relation between them.
* `react p f c` — the model's reaction to frame `f` in context `c` and the stream's next place;
  `allowed σ f c r` — the RFC allows reaction `r`; `next σ f r` — the RFC state afterwards.
* `jrun p σ evs` — both machines run side by side over ANY sequence of events on one stream id (frames of
  the peer with their contexts, handler completions, end of the response, newer streams opened or refused,
  ids dropping out of the server's two bounded memories); the result lists, per frame, the RFC state it
  arrived in and the reaction. No bound on the length.

The only hypothesis on the environment is `wellCtx`: each frame's context agrees with the history on
whether a header block is open on this stream — what the read loop's CONTINUATION bookkeeping guarantees
(the lockstep adapter checks that agreement on every generated run).
-/
namespace H2.Props.C08
open H2.Server.StreamSM H2.Server.StreamSpec

/-- **Every reaction is one the RFC allows, and the tables keep describing the RFC state.** For every place
`p` related to an RFC state `σ`, every frame and every context consistent with the history: the reaction of
the model is in the RFC's allowed set, and unless it is a connection error (which ends the connection) the
next place is related to the next RFC state. -/
theorem reaction_allowed {p : Pos} {σ : SpecSt} (h : sim p σ = true) (f : Fr) (c : Ctx)
    (hc : consistent σ c = true) :
    allowed σ f c (react p f c).1 = true ∧
    (isConnErr (react p f c).1 = false → sim (react p f c).2 (next σ f (react p f c).1) = true) :=
  ⟨(cell h f c hc).1, (cell h f c hc).2.1⟩

/-- what the server and the rest of the connection do to a stream (handler completion, end of the response,
newer streams, the bounded memories forgetting the id) keeps the relation as well -/
theorem environment_preserves {p : Pos} {σ : SpecSt} (h : sim p σ = true) (e : Ev)
    (hf : ∀ f c, e ≠ .frame f c) (hen : e.enabled p = true) :
    sim (stepEv p e).2 (envNext σ e) = true :=
  env_preserves h e hf hen

/-- **All sequences.** Along every sequence of events on a stream id nobody has used yet, every reaction of
the model is allowed by the RFC state the frame arrives in. -/
theorem run_allowed (evs : List Ev) (hw : wellCtx Pos.fresh .idle evs = true) :
    ∀ o ∈ jrun Pos.fresh .idle evs, allowed o.σ o.f o.c o.r = true :=
  fun o ho => (jrun_spec evs (by decide) hw o ho).1

/-- the same from any related pair of states (so: from any point of any connection) -/
theorem run_allowed_from {p : Pos} {σ : SpecSt} (h : sim p σ = true) (evs : List Ev)
    (hw : wellCtx p σ evs = true) : ∀ o ∈ jrun p σ evs, allowed o.σ o.f o.c o.r = true :=
  fun o ho => (jrun_spec evs h hw o ho).1

/-- **Legal frames are served without any error** (pointwise): a frame the RFC lets the peer send in state
`σ` (inside the server's limits: `legal`) gets neither RST_STREAM nor GOAWAY. -/
theorem legal_no_error {p : Pos} {σ : SpecSt} (h : sim p σ = true) (f : Fr) (c : Ctx)
    (hc : consistent σ c = true) (hl : legal σ f c = true) : (react p f c).1.isError = false :=
  (cell h f c hc).2.2.1 hl

/-- **Every legal sequence is served without any error**: if each frame of the sequence is legal where it
arrives, no reaction anywhere along the run is an error (and so the run is never cut short). -/
theorem legal_run_no_error (evs : List Ev) (hw : wellCtx Pos.fresh .idle evs = true)
    (hl : legalRun Pos.fresh .idle evs = true) : ∀ o ∈ jrun Pos.fresh .idle evs, o.r.isError = false :=
  jrun_legal evs (by decide) hw hl

/-- **A request is dispatched only from a legal sequence** (pointwise): the model dispatches only on a frame
that completes `HEADERS [CONTINUATION*] DATA* [HEADERS+END_STREAM [CONTINUATION*]]` with END_STREAM seen
(`completes`, over the RFC state computed from the history). -/
theorem dispatch_only_legal {p : Pos} {σ : SpecSt} (h : sim p σ = true) (f : Fr) (c : Ctx)
    (hc : consistent σ c = true) (hd : (react p f c).1 = .dispatch) : completes σ f = true :=
  (cell h f c hc).2.2.2.1 hd

/-- the same along every sequence of events -/
theorem run_dispatch_only_legal (evs : List Ev) (hw : wellCtx Pos.fresh .idle evs = true) :
    ∀ o ∈ jrun Pos.fresh .idle evs, o.r = .dispatch → completes o.σ o.f = true :=
  fun o ho => (jrun_spec evs (by decide) hw o ho).2

/-- and conversely a legal frame that completes the request does dispatch it: every legal request is served -/
theorem legal_request_dispatched {p : Pos} {σ : SpecSt} (h : sim p σ = true) (f : Fr) (c : Ctx)
    (hc : consistent σ c = true) (hl : legal σ f c = true) (hcp : completes σ f = true) :
    (react p f c).1 = .dispatch :=
  (cell h f c hc).2.2.2.2 hl hcp

/-! ## non-vacuity

`sim` relates the fresh place to `idle`; a concrete legal exchange — HEADERS, DATA, DATA+END_STREAM, then the
handler finishing, then a late WINDOW_UPDATE — satisfies `wellCtx` and `legalRun` and produces exactly
process, process, dispatch, ignore; an illegal one (DATA on an idle stream) is answered, and allowed to be
answered, with a connection error PROTOCOL_ERROR. -/

example : sim Pos.fresh .idle = true := by decide

def ctx0 : Ctx := ⟨.none, false, false, true, false⟩

def demo : List Ev :=
  [.frame (.headers false true false .wf) ctx0, .frame (.data false false) ctx0, .frame (.data true false) ctx0,
   .handlerDone true false true, .frame (.wu .fits) ctx0]

example : wellCtx Pos.fresh .idle demo = true ∧ legalRun Pos.fresh .idle demo = true := by decide
example : (jrun Pos.fresh .idle demo).map (·.r) = [.process, .process, .dispatch, .ignore] := by decide
example : (jrun Pos.fresh .idle [.frame (.data false false) ctx0]).map (·.r) = [.connErr .protocol] := by decide
example : allowed .idle (.data false false) ctx0 (.connErr .protocol) = true ∧
          allowed .idle (.data false false) ctx0 .process = false := by decide

end H2.Props.C08
