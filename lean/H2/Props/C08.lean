import H2.Proofs.StreamSMRefine.By
import H2.Proofs.StreamSM
/-!
# C08 — the server reacts to each frame as its stream's RFC 7540 state prescribes

Theorems about the abstract per-stream decision model `H2.Server.StreamSM` (mirror of `readLoop`'s sequencing
rules, the unknown-stream branch of `handleStreams`, `verifyState`, `handleFrame`, `handleState`, the dispatch
condition; tied to the code by the lockstep run of `H2.Server.Lock.StreamSM` beside the full server model)
against the RFC-side state machine `H2.Server.StreamSpec` (RFC 7540 §5.1 / §6; DESIGN.md Appendix D1).

* `Pos`  — where the server's tables have the stream; `SpecSt` — the stream's RFC state, a function of the
  history; `sim p σ` — the simulation relation between them.
* `react p f c` — the model's reaction to frame `f` in context `c` and the stream's next place;
  `allowed σ f c r` — the RFC allows reaction `r`; `next σ f r` — the RFC state afterwards.
* `jrun p σ evs` — both machines run side by side over ANY sequence of events on one stream id (frames of
  the peer with their contexts, handler completions, end of the response, newer streams opened or refused,
  ids dropping out of the server's two bounded memories); the result lists, per frame, the RFC state it
  arrived in and the reaction. No bound on the length.

The only hypothesis on the environment is `wellCtx`: each frame's context agrees with the history on
whether a header block is open on this stream — what the read loop's CONTINUATION bookkeeping guarantees
(the lockstep adapter checks that agreement on every generated run).
-/
namespace H2.Props.C08
open H2.Server.StreamSM H2.Server.StreamSpec

/-- **Every reaction is one the RFC allows, and the tables keep describing the RFC state.** For every place
`p` related to an RFC state `σ`, every frame and every context consistent with the history: the reaction of
the model is in the RFC's allowed set, and unless it is a connection error (which ends the connection) the
next place is related to the next RFC state. -/
theorem reaction_allowed {p : Pos} {σ : SpecSt} (h : sim p σ = true) (f : Fr) (c : Ctx)
    (hc : consistent σ c = true) :
    allowed σ f c (react p f c).1 = true ∧
    (isConnErr (react p f c).1 = false → sim (react p f c).2 (next σ f (react p f c).1) = true) :=
  ⟨(cell h f c hc).1, (cell h f c hc).2.1⟩

/-- what the server and the rest of the connection do to a stream (handler completion, end of the response,
newer streams, the bounded memories forgetting the id) keeps the relation as well -/
theorem environment_preserves {p : Pos} {σ : SpecSt} (h : sim p σ = true) (e : Ev)
    (hf : ∀ f c, e ≠ .frame f c) (hen : e.enabled p = true) :
    sim (stepEv p e).2 (envNext σ e) = true :=
  env_preserves h e hf hen

/-- **All sequences.** Along every sequence of events on a stream id nobody has used yet, every reaction of
the model is allowed by the RFC state the frame arrives in. -/
theorem run_allowed (evs : List Ev) (hw : wellCtx Pos.fresh .idle evs = true) :
    ∀ o ∈ jrun Pos.fresh .idle evs, allowed o.σ o.f o.c o.r = true :=
  fun o ho => (jrun_spec evs (by decide) hw o ho).1

/-- the same from any related pair of states (so: from any point of any connection) -/
theorem run_allowed_from {p : Pos} {σ : SpecSt} (h : sim p σ = true) (evs : List Ev)
    (hw : wellCtx p σ evs = true) : ∀ o ∈ jrun p σ evs, allowed o.σ o.f o.c o.r = true :=
  fun o ho => (jrun_spec evs h hw o ho).1

/-- **Legal frames are served without any error** (pointwise): a frame the RFC lets the peer send in state
`σ` (inside the server's limits: `legal`) gets neither RST_STREAM nor GOAWAY. -/
theorem legal_no_error {p : Pos} {σ : SpecSt} (h : sim p σ = true) (f : Fr) (c : Ctx)
    (hc : consistent σ c = true) (hl : legal σ f c = true) : (react p f c).1.isError = false :=
  (cell h f c hc).2.2.1 hl

/-- **Every legal sequence is served without any error**: if each frame of the sequence is legal where it
arrives, no reaction anywhere along the run is an error (and so the run is never cut short). -/
theorem legal_run_no_error (evs : List Ev) (hw : wellCtx Pos.fresh .idle evs = true)
    (hl : legalRun Pos.fresh .idle evs = true) : ∀ o ∈ jrun Pos.fresh .idle evs, o.r.isError = false :=
  jrun_legal evs (by decide) hw hl

/-- **A request is dispatched only from a legal sequence** (pointwise): the model dispatches only on a frame
that completes `HEADERS [CONTINUATION*] DATA* [HEADERS+END_STREAM [CONTINUATION*]]` with END_STREAM seen
(`completes`, over the RFC state computed from the history). -/
theorem dispatch_only_legal {p : Pos} {σ : SpecSt} (h : sim p σ = true) (f : Fr) (c : Ctx)
    (hc : consistent σ c = true) (hd : (react p f c).1 = .dispatch) : completes σ f = true :=
  (cell h f c hc).2.2.2.1 hd

/-- the same along every sequence of events -/
theorem run_dispatch_only_legal (evs : List Ev) (hw : wellCtx Pos.fresh .idle evs = true) :
    ∀ o ∈ jrun Pos.fresh .idle evs, o.r = .dispatch → completes o.σ o.f = true :=
  fun o ho => (jrun_spec evs (by decide) hw o ho).2

/-- and conversely a legal frame that completes the request does dispatch it: every legal request is served -/
theorem legal_request_dispatched {p : Pos} {σ : SpecSt} (h : sim p σ = true) (f : Fr) (c : Ctx)
    (hc : consistent σ c = true) (hl : legal σ f c = true) (hcp : completes σ f = true) :
    (react p f c).1 = .dispatch :=
  (cell h f c hc).2.2.2.2 hl hcp

/-! ## non-vacuity

`sim` relates the fresh place to `idle`; a concrete legal exchange — HEADERS, DATA, DATA+END_STREAM, then the
handler finishing, then a late WINDOW_UPDATE — satisfies `wellCtx` and `legalRun` and produces exactly
process, process, dispatch, ignore; an illegal one (DATA on an idle stream) is answered, and allowed to be
answered, with a connection error PROTOCOL_ERROR. -/

example : sim Pos.fresh .idle = true := by decide

def ctx0 : Ctx := ⟨.none, false, false, true, false⟩

def demo : List Ev :=
  [.frame (.headers false true false .wf) ctx0, .frame (.data false false) ctx0, .frame (.data true false) ctx0,
   .handlerDone true false true, .frame (.wu .fits) ctx0]

example : wellCtx Pos.fresh .idle demo = true ∧ legalRun Pos.fresh .idle demo = true := by decide
example : (jrun Pos.fresh .idle demo).map (·.r) = [.process, .process, .dispatch, .ignore] := by decide
example : (jrun Pos.fresh .idle [.frame (.data false false) ctx0]).map (·.r) = [.connErr .protocol] := by decide
example : allowed .idle (.data false false) ctx0 (.connErr .protocol) = true ∧
          allowed .idle (.data false false) ctx0 .process = false := by decide

end H2.Props.C08

/-! ## appended section for `lean/H2/Props/C08.lean` (round r08)

Needs this import at the head of `H2/Props/C08.lean`, next to `import H2.Proofs.StreamSM`:

    import H2.Proofs.StreamSMRefine

The lockstep comparison of `H2.Server.Lock.StreamSM.checkFrame` (abstract `StreamSM.react` beside the FULL server model
`H2.Server.slStreamFrame`), as theorems — for the frames listed in each statement. `reactSL` is `StreamSM.react` after the
read loop's own checks (`react_eq`); `absReaction` / `fullReaction` / `absPos` / `absFrame` are the adapter's own
definitions. What is still only run in lockstep: header-bearing frames on a stream of the table (`HFspec` for HEADERS /
CONTINUATION, i.e. `walkFrame` against `handleHeaderFrame`), frames that resume a stalled response, and the run-level
invariant (see REPORT of round r08).
-/
namespace H2.Props.C08
open H2.Server H2.Server.Lock H2.Server.Lock.Refine
open H2.Frame (Frame)
open H2 (Bytes)

/-- **full model, stream not in the table** (idle, closed and remembered in the ring, reset by this side, below `lastID`,
refused): for EVERY state `s` of the full model and every parsed frame with an odd stream id the table does not hold,
unless the frame opens a stream, the reaction string of the abstract model equals the one read off the full model's
outputs, and unless it is a connection error the abstract next place is the place of the id in the state after. No
invariant is needed. -/
theorem full_unknown_stream_refines (s : Srv) (fr : Frame) (hwf : FrWF fr) (hodd : fr.stream % 2 = 1)
    (hl : lookup s fr.stream = none) (hu : (unknownStream { s := s } fr s.closing).2 = none) :
    let rp := reactSL (absPos s fr.stream) (absFrame s fr) (absCtx s fr.stream (some fr))
    absReaction rp.1 = fullReaction (slStreamFrame { s := s } fr).out fr.stream ∧
    (isConn rp.1 = false → absPos (slStreamFrame { s := s } fr).s fr.stream = rp.2) :=
  unknown_frame_refines (r := { s := s }) hl hwf hodd rfl _ (absCtx_refuse s fr.stream (some fr)) hu

/-- **full model, stream in the table, frames without header fragment** (DATA, RST_STREAM, PRIORITY, WINDOW_UPDATE and the
types the stream loop rejects): in a state whose table holds each stream object and each id once, for a stream that is
not `reserved`, not in `resetByUs`, and has no response data waiting for window (`resume`), the reaction strings agree
and the abstract next place is the place after — END_STREAM → dispatch, the content-length check, RST_STREAM → closed and
remembered in the ring, the flow-control and body-size stream errors included. -/
theorem full_known_stream_refines (s : Srv) (fr : Frame) (st : Strm) (hwf : FrWF fr) (hodd : fr.stream % 2 = 1)
    (hl : lookup s fr.stream = some st)
    (hun : (s.strms.map (·.uid)).Nodup) (hidn : (s.strms.map (·.id)).Nodup)
    (hres : st.state ≠ .reserved) (hnr : resume st = false) (hnb : s.resetByUs.contains fr.stream = false)
    (hcl : 0 ≤ st.contentLength)
    (hb : (∃ c, fr.body = .rstStream c) ∨ (∃ d w, fr.body = .priority d w) ∨ (∃ i, fr.body = .windowUpdate i) ∨
          (∃ es b, fr.body = .data es b)) :
    let rp := reactSL (absPos s fr.stream) (absFrame s fr) (absCtx s fr.stream (some fr))
    absReaction rp.1 = fullReaction (slStreamFrame { s := s } fr).out fr.stream ∧
    (isConn rp.1 = false → absPos (slStreamFrame { s := s } fr).s fr.stream = rp.2) := by
  have tb := TB.of_lookup (r := { s := s }) hl hun hidn
  have htyp : fr.typ ≠ H2.Gen.c_FrameHeaders := by
    rcases hb with ⟨c, e⟩ | ⟨d, w, e⟩ | ⟨i, e⟩ | ⟨es, b, e⟩ <;> (have := hwf; simp only [FrWF, e] at this) <;>
      first | (rw [this]; decide) | (rw [this.1]; decide)
  have hpre : headersPrelude { s := s } fr = ({ s := s }, true) := by
    simp only [headersPrelude]; split
    · rename_i h; exact absurd (by simpa using h) htyp
    · rfl
  have hisH : StreamSM.isHeaders (absFrame s fr) = false := by
    rcases hb with ⟨c, e⟩ | ⟨d, w, e⟩ | ⟨i, e⟩ | ⟨es, b, e⟩ <;> simp [absFrame, e, StreamSM.isHeaders]
  refine known_frame_refines (r := { s := s }) hl hun hidn hwf hodd hres rfl hnr hnb hpre _ (by simp [hisH])
    (absCtx_isLast s fr.stream (some fr)) ?_
  have hm : ∀ n : Nat, (st.contentLength.toNat != n) = (((n : Nat) : Int) != st.contentLength) := by
    intro n; rw [Bool.eq_iff_iff]; simp only [bne_iff_ne, ne_eq]; omega
  rcases hb with ⟨c, e⟩ | ⟨d, w, e⟩ | ⟨i, e⟩ | ⟨es, b, e⟩
  · exact hf_simple tb fr hwf hres rfl (Or.inl ⟨c, e⟩) _ (by simp [absCtx, hl, walkFrame, headerPart, e, msgSt, clm, hm])
  · exact hf_simple tb fr hwf hres rfl (Or.inr (Or.inl ⟨d, w, e⟩)) _ (by simp [absCtx, hl, walkFrame, headerPart, e, msgSt, clm, hm])
  · exact hf_wu tb fr hwf hres rfl i e _ (by simp [absCtx, hl, walkFrame, headerPart, e, msgSt, clm, hm])
  · exact hf_data tb fr hwf hres rfl es b e _ (by simp [absCtx, hl, walkFrame, headerPart, e, msgSt, clm, hm])

/-- every frame the parser hands to the read loop satisfies `FrWF` -/
theorem full_parsed_frames_wf (max : Nat) (b : Bytes) (fr : Frame) (n : Nat) (h : H2.Frame.readFrame max b = .ok fr n) : FrWF fr :=
  readFrame_wf max b fr n h

/-! ### non-vacuity: the hypotheses hold on concrete states, and the conclusions are the expected reactions -/

/-- RST_STREAM on the idle stream 1 of a fresh connection -/
def exRst : Frame := ⟨3, 0, 1, 4, .rstStream 8⟩

example : FrWF exRst ∧ exRst.stream % 2 = 1 ∧ lookup ({} : Srv) exRst.stream = none ∧
    (unknownStream { s := {} } exRst false).2 = none :=
  ⟨(rfl : exRst.typ = H2.Gen.c_FrameResetStream), by decide, by decide +kernel, by decide +kernel⟩

example : fullRC (slStreamFrame { s := {} } exRst).out 1 = .conn 1 := by decide +kernel

/-- a connection with stream 1 open (request headers complete) -/
def exStrm : Strm := { uid := 0, id := 1, window := 65535, state := .open, origType := 1, headersFinished := true,
                        pMethod := true, pScheme := true, pPath := true, path := [47] }
def exSrv : Srv := { strms := [exStrm], nextUid := 1, lastID := 1, openStreams := 1 }
/-- DATA with END_STREAM on it: the request is dispatched -/
def exData : Frame := ⟨0, 1, 1, 2, .data true [104, 105]⟩

example : FrWF exData ∧ exData.stream % 2 = 1 ∧ lookup exSrv exData.stream = some exStrm ∧
    (exSrv.strms.map (·.uid)).Nodup ∧ (exSrv.strms.map (·.id)).Nodup ∧ exStrm.state ≠ .reserved ∧ resume exStrm = false ∧
    exSrv.resetByUs.contains exData.stream = false ∧ 0 ≤ exStrm.contentLength :=
  ⟨⟨rfl, rfl⟩, by decide, rfl, by decide, by decide, by decide, by decide, by decide, by decide⟩

example : fullRC (slStreamFrame { s := exSrv } exData).out 1 = .dispatch ∧
    absPos (slStreamFrame { s := exSrv } exData).s 1 = .tab .halfClosed true true true := by decide +kernel

end H2.Props.C08
/-! ## second appended section for `lean/H2/Props/C08.lean` (round r08, part 2)

Needs this import at the head of `H2/Props/C08.lean` (it replaces `import H2.Proofs.StreamSMRefine`, which it imports):

    import H2.Proofs.StreamSMRefine.By

**The lockstep comparison of `H2.Server.Lock.StreamSM.checkFrame` as a theorem, for every frame type**: HEADERS opening a
stream, continued blocks (CONTINUATION), trailers with and without END_STREAM (F67's repaired behaviour), END_STREAM →
dispatch, the block classes the adapter computes with `walkFrame` (`Blk`), the read loop's own checks (CONTINUATION
sequencing, even id, PING / PUSH_PROMISE with a stream id), the unknown-stream branch, DATA / RST_STREAM / PRIORITY /
WINDOW_UPDATE. `SInv s` is the invariant; `resume st = false` (no response data waiting for window on the frame's stream)
stays a hypothesis: the outputs of a resumed response are what the adapter now treats separately.
-/
namespace H2.Props.C08
open H2.Server H2.Server.Lock H2.Server.Lock.Refine
open H2.Frame (Frame)
open H2 (Bytes)

/-- **Step refinement, per frame, full model against `StreamSM.react`** (the two comparisons of the lockstep adapter):
for every state `s` with `SInv s` whose stream loop runs, every parsed frame (`FrWF`: what `readFrame` returns,
`full_parsed_frames_wf`) with a stream id: the reaction string of the abstract model on `absPos` / `absFrame` / `absCtx`
equals the string read off the full model's outputs for that frame, and unless the reaction is a connection error the
abstract next place is `absPos` of the state after the frame. -/
theorem full_frame_refines (s : Srv) (fr : Frame) (hI : SInv s) (hwf : FrWF fr) (h0 : fr.stream ≠ 0)
    (hsl : s.slStopped = false) (hnr : ∀ st, lookup s fr.stream = some st → resume st = false) :
    let rp := H2.Server.StreamSM.react (absPos s fr.stream) (absFrame s fr) (absCtx s fr.stream (some fr))
    absReaction rp.1 = fullReaction (rlFrame { s := s } fr).out fr.stream ∧
    (isConn rp.1 = false → absPos (rlFrame { s := s } fr).s fr.stream = rp.2) :=
  frame_refines s fr hI hwf h0 hsl hnr

/-- the same at the stream loop (`slStreamFrame`), for any outputs-free `R` -/
theorem full_stream_loop_refines (r : R) (fr : Frame) (hI : SInv r.s) (hwf : FrWF fr) (hodd : fr.stream % 2 = 1)
    (hout : r.out = []) (hnr : ∀ st, lookup r.s fr.stream = some st → resume st = false) :
    let rp := reactSL (absPos r.s fr.stream) (absFrame r.s fr) (absCtx r.s fr.stream (some fr))
    absReaction rp.1 = fullReaction (slStreamFrame r fr).out fr.stream ∧
    (isConn rp.1 = false → absPos (slStreamFrame r fr).s fr.stream = rp.2) :=
  sl_refines r fr hI hwf hodd hout hnr

/-- the block class of the adapter IS the field loop's verdict: `walk` (HPACK model + C20 model `Msg.field`) against the
full model's `fieldLoop` -/
theorem full_walk_is_fieldLoop (fuel : Nat) (s : Srv) (st : Strm) (bs eh : Bool) (fp : Nat) (b : Bytes)
    (acc : List H2.Server.MsgSpec.Field) (hcl : 0 ≤ st.contentLength) :
    (fieldLoop fuel s st bs eh fp b).2.2.map errRC = blkRC (absBlk false (walk (msgCfg s) fuel s.dec (msgSt st) bs eh fp b acc)) ∧
    ((fieldLoop fuel s st bs eh fp b).2.2 = none →
      (walk (msgCfg s) fuel s.dec (msgSt st) bs eh fp b acc).1.isOk = true ∧
      (walk (msgCfg s) fuel s.dec (msgSt st) bs eh fp b acc).2.1 = msgSt (fieldLoop fuel s st bs eh fp b).2.1) :=
  walk_fieldLoop fuel s st bs eh fp b acc hcl

/-- **in every reachable state**: each stream of the table has `0 ≤ contentLength` and is never `reserved` -/
theorem full_reachable_streams_ok (cfg : Cfg) (evs : List Event) :
    ∀ st ∈ (run cfg evs).1.strms, 0 ≤ st.contentLength ∧ st.state ≠ .reserved :=
  run_pq cfg evs

/-- **in every reachable state in which no GOAWAY has been written** no stream of the table is idle or closed, and no id of
the table is in `resetByUs` (so: the places `tab idle …` / `tab closed …`, which the simulation relation of this file relates
to nothing, do not occur between frames) -/
theorem full_reachable_live (cfg : Cfg) (evs : List Event) (hc : (run cfg evs).1.closing = false) :
    ∀ st ∈ (run cfg evs).1.strms, st.state ≠ .idle ∧ st.state ≠ .closed ∧ (run cfg evs).1.resetByUs.contains st.id = false :=
  reachable_live cfg evs hc

/-- the invariant of `full_frame_refines` holds in every reachable state before the first GOAWAY -/
theorem full_reachable_sinv (cfg : Cfg) (evs : List Event) (ib : Bytes) (hc : (run cfg evs).1.closing = false) :
    SInv { (run cfg evs).1 with inbuf := ib } :=
  reachable_sinv' cfg evs ib hc

/-- **Step refinement in every reachable state, up to the first connection error.** After ANY event list, as long as no GOAWAY
has been written and the stream loop runs, for the next parsed frame with a stream id (`ib`: whatever else is in the read
buffer): the two comparisons of the lockstep adapter hold. The one side condition left: the frame's stream, if it is in the
table, has no response data waiting for flow-control window (`resume`; such a frame also makes DATA / RST_STREAM(INTERNAL_ERROR)
of the response go out, which the adapter now reads separately). -/
theorem full_frame_refines_reachable (cfg : Cfg) (evs : List Event) (ib : Bytes) (fr : Frame) (hwf : FrWF fr) (h0 : fr.stream ≠ 0)
    (hsl : (run cfg evs).1.slStopped = false) (hc : (run cfg evs).1.closing = false)
    (hnr : ∀ st, lookup (run cfg evs).1 fr.stream = some st → resume st = false) :
    let s : Srv := { (run cfg evs).1 with inbuf := ib }
    let rp := H2.Server.StreamSM.react (absPos s fr.stream) (absFrame s fr) (absCtx s fr.stream (some fr))
    absReaction rp.1 = fullReaction (rlFrame { s := s } fr).out fr.stream ∧
    (isConn rp.1 = false → absPos (rlFrame { s := s } fr).s fr.stream = rp.2) :=
  reachable_frame_refines' cfg evs ib fr hwf h0 hsl hc hnr

/-- **Bystanders, per frame** (goal 2): a frame on stream `fr.stream` moves the place of ANY other id `b` only as the
environment events of `StreamSM` do (`newer`, `higherRefused`, `evictRing`, `forgetReset`) — the adapter's `envReach`, which
the lockstep run checks for three watched ids, holds for every id, unless the frame is answered with a GOAWAY. `Inv` is the
invariant of `H2.Proofs.ServerOnce` (one table entry per stream object / per id), which holds in every reachable state. -/
theorem full_bystander_frame {D H E : List Nat} (s : Srv) (fr : Frame) (hi : Inv D H E { s := s }) (hI : SInv s) (h0 : fr.stream ≠ 0)
    (hsl : s.slStopped = false) (hc : (rlFrame { s := s } fr).s.closing = false) (b : Nat) (hb : b ≠ fr.stream) :
    envReach (absPos s b) (absPos (rlFrame { s := s } fr).s b) = true :=
  bystander_frame s fr hi hI h0 hsl hc b hb

/-- the same in every reachable state before the first GOAWAY, no side condition left -/
theorem full_bystander_reachable (cfg : Cfg) (evs : List Event) (ib : Bytes) (fr : Frame) (h0 : fr.stream ≠ 0)
    (hsl : (run cfg evs).1.slStopped = false) (hc0 : (run cfg evs).1.closing = false)
    (hc : (rlFrame { s := { (run cfg evs).1 with inbuf := ib } } fr).s.closing = false) (b : Nat) (hb : b ≠ fr.stream) :
    envReach (absPos { (run cfg evs).1 with inbuf := ib } b)
      (absPos (rlFrame { s := { (run cfg evs).1 with inbuf := ib } } fr).s b) = true :=
  reachable_bystander cfg evs ib fr h0 hsl hc0 hc b hb

/-! ### non-vacuity -/

example : SInv ({} : Srv) :=
  ⟨List.nodup_nil, List.nodup_nil, fun _ h => (List.not_mem_nil h).elim, fun _ h => (List.not_mem_nil h).elim,
   fun _ h => (List.not_mem_nil h).elim, fun _ h => (List.not_mem_nil h).elim, fun _ h => (List.not_mem_nil h).elim⟩

/-- a whole GET request in one HEADERS frame (END_STREAM | END_HEADERS) on a fresh connection: opens stream 1 and is dispatched -/
def exHdrs : Frame := ⟨1, 5, 1, 3, .headers true true none [0x82, 0x86, 0x84]⟩
/-- the same without END_HEADERS: the stream opens, its block stays open -/
def exHdrsOpen : Frame := ⟨1, 1, 1, 3, .headers true false none [0x82, 0x86, 0x84]⟩

example : FrWF exHdrs ∧ FrWF exHdrsOpen := ⟨⟨rfl, rfl, rfl⟩, ⟨rfl, rfl, rfl⟩⟩

example : fullRC (rlFrame { s := {} } exHdrs).out 1 = .dispatch ∧
    absPos (rlFrame { s := {} } exHdrs).s 1 = .tab .halfClosed true true true := by decide +kernel

example : fullRC (rlFrame { s := {} } exHdrsOpen).out 1 = .ok ∧
    absPos (rlFrame { s := {} } exHdrsOpen).s 1 = .tab .halfClosed false false false ∧
    (rlFrame { s := {} } exHdrsOpen).s.expectCont = 1 := by decide +kernel

/-- HEADERS opening stream 3 on a connection where stream 1 is open: the place of id 1 is untouched, id 5 stays fresh, and
the adapter's `envReach` relates the places of id 1 before and after (it was the newest stream, now it is not) -/
example : envReach (absPos exSrv 5) (absPos (rlFrame { s := exSrv } ⟨1, 5, 3, 3, .headers true true none [0x82, 0x86, 0x84]⟩).s 5) = true ∧
    (rlFrame { s := exSrv } ⟨1, 5, 3, 3, .headers true true none [0x82, 0x86, 0x84]⟩).s.closing = false := by decide +kernel

end H2.Props.C08
