import H2.Proofs.ClientFlow
import H2.Proofs.ClientRunFlow
/-!
# C07 — the client never sends DATA beyond the server's windows, and finishes

Statements are about `H2.Client.Flow`, the interleaving model of the `sendLck` sections and the
`winCh` token (read loop growing windows, write loop spending them), for **every** finite
interleaving (`Reach`), with the `int32` arithmetic of the Go code. The serial model the stepping
harness compares with the real `Conn` uses the same `spendN` / `addWin` / `wrap32` / `writeData`.
-/
namespace H2.Props.C07

open H2.Client H2.Client.Flow

/-- every emission ever decided respects both ledgers at the moment it is decided -/
def Within (e : Emit) : Prop := 0 < e.n → (e.n : Int) ≤ e.allowBefore ∧ (e.n : Int) ≤ e.connAllowBefore

/-- **never_overdraw_c**: in every interleaving, each DATA emission of positive length fits the stream
allowance and the connection allowance an RFC 7540 server ledger holds at that moment (D3). -/
theorem never_overdraw_c {s : S} {es : List Emit} (h : Reach s es) : ∀ e ∈ es, Within e := by
  induction h with
  | init => intro e he; cases he
  | step hr st ih =>
    rename_i s0 a s1 e0 es0
    intro e he
    simp only [List.mem_append, Option.mem_toList] at he
    rcases he with he | he
    · cases st with
      | wlSpend id rest pb htodo hpid hnr =>
        have f := spend_facts (reach_inv hr) hpid
        simp only [spendEmit] at he
        split at he
        · cases he
        · simp only [Option.mem_def, Option.some.injEq] at he
          subst he
          exact f.2.1
      | _ => cases he
    · exact ih e he

/-- the connection ledger never goes negative: octets sent on the connection never exceed
65 535 + the increments received on stream 0 (`connAllow` is exactly that difference) -/
theorem conn_sent_le_granted {s : S} {es : List Emit} (h : Reach s es) : 0 ≤ s.connAllow :=
  (reach_inv h).cnn

/-- the `int32` windows the code keeps are the ledgers reduced modulo 2^32; a window that wrapped
(F40: increments beyond 2^31-1 from a non-conforming server) only under-sends -/
theorem windows_track_ledgers {s : S} {es : List Emit} (h : Reach s es) :
    s.connWindow = wrap32 s.connAllow ∧ ∀ id pb, s.pending id = some pb → pb.window = wrap32 pb.allow :=
  ⟨(reach_inv h).cwin, fun id pb hp => ((reach_inv h).pbs id pb hp).win⟩

/-- **no_lost_wakeup**: whenever a pending body could send (octets buffered or to come, both windows
positive), the write loop still has that stream on its work list or the `winCh` token is present -/
theorem no_lost_wakeup {s : S} {es : List Emit} (h : Reach s es) (id : Nat) (pb : PB)
    (hp : s.pending id = some pb) (hs : Sendable s pb) : s.winTok = true ∨ id ∈ s.todo :=
  (reach_inv h).wake id pb hp hs

/-- hence at quiescence (write loop idle, no token) every pending body is blocked by a window -/
theorem quiescent_blocked {s : S} {es : List Emit} (h : Reach s es) (hq : s.todo = []) (ht : s.winTok = false)
    (id : Nat) (pb : PB) (hp : s.pending id = some pb) : ¬ Sendable s pb := by
  intro hs
  rcases no_lost_wakeup h id pb hp hs with h1 | h1
  · rw [ht] at h1; cases h1
  · rw [hq] at h1; cases h1

/-- END_STREAM recorded for every ending emission -/
theorem ended_recorded {s : S} {es : List Emit} (h : Reach s es) :
    ∀ e ∈ es, e.endStream = true → s.ended e.id = true := by
  induction h with
  | init => intro e he; cases he
  | step hr st ih =>
    intro e he hend
    simp only [List.mem_append, Option.mem_toList] at he
    cases st with
    | wlSpend id rest pb htodo hpid hnr =>
      rcases he with he | he
      · simp only [spendEmit] at he
        split at he
        · cases he
        · simp only [Option.mem_def, Option.some.injEq] at he
          subst he
          simp only at hend
          simp [spendState, hend]
      · have := ih e he hend
        simp only [spendState]
        by_cases hj : e.id = id
        · simp [hj] at this ⊢; simp [this]
        · simp [hj, this]
    | wlRegister id body more a b c => rcases he with he | he; · cases he
                                       · exact ih e he hend
    | wlTakeTok ids a b c => rcases he with he | he; · cases he
                             · exact ih e he hend
    | wlSkip id rest a b => rcases he with he | he; · cases he
                            · exact ih e he hend
    | wlRefill id rest pb k m a b c d f => rcases he with he | he; · cases he
                                           · exact ih e he hend
    | wlRefillFail id rest pb a b c d => rcases he with he | he; · cases he
                                         · exact ih e he hend
    | rdWindowUpdate id inc a => rcases he with he | he; · cases he
                                 · exact ih e he hend
    | rdConnWindowUpdate inc a => rcases he with he | he; · cases he
                                  · exact ih e he hend
    | rdSettingsWindow v a => rcases he with he | he; · cases he
                              · exact ih e he hend
    | drop id => rcases he with he | he; · cases he
                 · exact ih e he hend

/-- **end_stream_once / nothing after END_STREAM**: in the emission history (newest first) no emission
on a stream comes after one that carried END_STREAM on that stream -/
theorem nothing_after_end_stream {s : S} {es : List Emit} (h : Reach s es) :
    es.Pairwise (fun later earlier => earlier.endStream = true → earlier.id ≠ later.id) := by
  induction h with
  | init => exact List.Pairwise.nil
  | step hr st ih =>
    rename_i s0 a s1 e0 es0
    cases st with
    | wlSpend id rest pb htodo hpid hnr =>
      simp only [spendEmit]
      split
      · exact ih
      · simp only [Option.toList_some, List.singleton_append, List.pairwise_cons]
        refine ⟨?_, ih⟩
        intro e he hend heq
        have h1 := ended_recorded hr e he hend
        have h2 := ((reach_inv hr).endedP e.id h1).1
        rw [heq, hpid] at h2
        cases h2
    | wlRegister id body more a b c => simpa using ih
    | wlTakeTok ids a b c => simpa using ih
    | wlSkip id rest a b => simpa using ih
    | wlRefill id rest pb k m a b c d f => simpa using ih
    | wlRefillFail id rest pb a b c d => simpa using ih
    | rdWindowUpdate id inc a => simpa using ih
    | rdConnWindowUpdate inc a => simpa using ih
    | rdSettingsWindow v a => simpa using ih
    | drop id => simpa using ih

/-- **upload_completes** (one step of it): a buffered body whose stream and connection windows cover it
goes out whole, with END_STREAM, in a single locked section -/
theorem covered_body_goes_out_whole (pb : PB) (cw : Int) (hm : pb.more = false) (hb : 0 < pb.body)
    (hw : (pb.body : Int) ≤ pb.window) (hc : (pb.body : Int) ≤ cw) :
    spend pb cw = pb.body := by
  simp only [spend, spendN]; omega

/-! ## frame sizes (`writeData`, shared with the serial model) -/

def frameLen : OutFrame → Nat
  | .data _ n _ => n
  | _ => 0

def frameEnd : OutFrame → Bool
  | .data _ _ e => e
  | _ => false

theorem dataFrames_spec (sid step : Nat) (hstep : 0 < step) :
    ∀ fuel n endS, n < fuel + 1 → 0 < n →
      (∀ f ∈ dataFrames sid step fuel n endS, frameLen f ≤ step ∧ 0 < frameLen f) ∧
      ((dataFrames sid step fuel n endS).map frameLen).sum = n ∧
      ((dataFrames sid step fuel n endS).filter frameEnd).length = (if endS then 1 else 0) := by
  intro fuel
  induction fuel with
  | zero => intro n endS h1 h2; omega
  | succ k ih =>
    intro n endS h1 h2
    simp only [dataFrames]
    split
    · rename_i hle
      refine ⟨?_, by simp [frameLen], by cases endS <;> simp [frameEnd, List.filter]⟩
      intro f hf; simp only [List.mem_singleton] at hf; subst hf; exact ⟨hle, h2⟩
    · rename_i hgt
      have := ih (n - step) endS (by omega) (by omega)
      obtain ⟨a, b, c⟩ := this
      refine ⟨?_, ?_, ?_⟩
      · intro f hf
        simp only [List.mem_cons] at hf
        rcases hf with hf | hf
        · subst hf; simp only [frameLen]; omega
        · exact a f hf
      · simp only [List.map_cons, List.sum_cons, frameLen, b]; omega
      · simp only [List.filter_cons, frameEnd]; simpa using c

/-- **DATA ≤ MAX_FRAME_SIZE, body intact, END_STREAM once**: `writeData` cuts `n` octets into frames no
larger than the `maxFrameSize` the connection holds for the server (`Settings.Read` only admits
2^14 … 2^24-1, so the clamp to the default is never what decides), their lengths add up to `n`, and
exactly one frame carries END_STREAM when the body ends here. -/
theorem data_frames_within_max (c : Conn) (sid n : Nat) (endS : Bool) (hn : 0 < n)
    (hm : 0 < c.maxFrameSize ∧ c.maxFrameSize ≤ Gen.c_maxFrameSize) :
    (∀ f ∈ writeData c sid n endS, frameLen f ≤ c.maxFrameSize) ∧
    ((writeData c sid n endS).map frameLen).sum = n ∧
    ((writeData c sid n endS).filter frameEnd).length = (if endS then 1 else 0) := by
  have h0 : ¬ (c.maxFrameSize == 0 || decide (c.maxFrameSize > Gen.c_maxFrameSize)) = true := by
    simp; omega
  have hn0 : (n == 0) = false := by simp; omega
  simp only [writeData, h0, hn0, Bool.false_eq_true, if_false]
  have := dataFrames_spec sid c.maxFrameSize hm.1 (n + 1) n endS (by omega) hn
  exact ⟨fun f hf => (this.1 f hf).1, this.2.1, this.2.2⟩

/-! ## non-vacuity -/

def pb0 : PB := ⟨(Gen.c_defaultWindowSize : Nat), 10, false, (Gen.c_defaultWindowSize : Nat)⟩

def s1 : S :=
  { setP init 1 (some { window := init.streamWindow, body := 10, more := false, allow := init.streamWindow }) with
    todo := [1], used := fun j => if j = 1 then true else init.used j }

theorem reach1 : Reach s1 (none.toList ++ []) :=
  Reach.step Reach.init (Step.wlRegister init 1 10 false rfl rfl (Or.inl (by decide)))

/-- a reachable state with an emission: register stream 1 with 10 octets, run the locked section; the
hypotheses of `never_overdraw_c` are met with a non-empty history -/
example : ∃ s es, Reach s es ∧ ∃ e ∈ es, e.n = 10 ∧ e.endStream = true :=
  ⟨_, _, Reach.step reach1 (Step.wlSpend s1 1 [] pb0 rfl rfl (by decide)),
    ⟨1, 10, true, (Gen.c_defaultWindowSize : Nat), (Gen.c_defaultWindowSize : Nat)⟩, by decide, rfl, rfl⟩

/-- `Sendable` is satisfiable in a reachable state (so `no_lost_wakeup` says something) -/
example : ∃ s es id pb, Reach s es ∧ s.pending id = some pb ∧ Sendable s pb :=
  ⟨_, _, 1, pb0, reach1, rfl, by decide, by decide, by decide⟩

/-! ## finding F48 (fixed): the window of a new body was read outside `sendLck`

With the read and the registration as separate atomic actions, a SETTINGS change between them leaves
the new body with the old window: the write loop reads 65 535, the server lowers
INITIAL_WINDOW_SIZE to 0, the body is registered with 65 535 and ten octets go out on a stream whose
allowance is 0. After the fix the read happens under the lock (`Step.wlRegister`) and
`never_overdraw_c` holds. The race itself was confirmed on the real code with the race detector
(findings/F48-race-detector-before.txt). -/
theorem F48_prefix_witness : ∃ s es, ReachOld s es ∧ ∃ e ∈ es, ¬ Within e := by
  let sA : S := { init with winTok := true, streamWindow := (0 : Nat),
                            pending := fun j => (init.pending j).map fun pb =>
                              { pb with window := wrap32 (pb.window + wrap32 (((0 : Nat) : Int) - init.streamWindow)),
                                        allow := pb.allow + (((0 : Nat) : Int) - init.streamWindow) } }
  have r1 : ReachOld (init, some init.streamWindow) _ := ReachOld.step ReachOld.init (StepOld.readSW init none rfl)
  have r2 : ReachOld (sA, some init.streamWindow) _ := ReachOld.step r1 (StepOld.std (Step.rdSettingsWindow init 0 (by decide)))
  have r3 : ReachOld (registerWith sA 1 10 false init.streamWindow, none) _ :=
    ReachOld.step r2 (StepOld.registerStale sA 1 10 false init.streamWindow rfl rfl (Or.inl (by decide)))
  have r4 := ReachOld.step r3 (StepOld.std (w := none)
    (Step.wlSpend (registerWith sA 1 10 false init.streamWindow) 1 [] ⟨init.streamWindow, 10, false, (0 : Nat)⟩ rfl rfl (by decide)))
  refine ⟨_, _, r4, ⟨1, 10, true, (0 : Nat), (Gen.c_defaultWindowSize : Nat)⟩, by decide, ?_⟩
  intro h
  have := h (by decide)
  simp at this

/-! ## the FULL serial model (`H2.Client.step`, the one the correspondence check compares with `conn.go`): every run

NEEDS `import H2.Proofs.ClientRunFlow` at the top of this file. State form: ghost ledgers `Led` are stepped beside the
connection (`gstep`, `grun`), and they are moved ONLY by what the connection receives and writes:
`connInc`/`strInc sid` by the increments of the WINDOW_UPDATE frames the read loop goes through (the frames `splitFrames`
cuts out of the `bytes` events, as far as `rdFrames` reads them), `iws` by the SETTINGS_INITIAL_WINDOW_SIZE of the SETTINGS
frames among them (initially the value of the handshake), `connSent`/`strSent sid` by the lengths of the `.data` frames
in the outputs (`Full.sent_ledgers_are_the_outputs`). The invariant `FL` (`H2/Proofs/ClientRunFlow.lean`) ties the
`int32` windows `connWindow`, `pending[*].window` to them, wrap-around included. No hypothesis on the server: increments
that overflow a window and INITIAL_WINDOW_SIZE changes of any size `Settings.Read` lets through are covered. -/

section FullModel
open H2.Client

/-- **Full.data_within_windows**: in any run from the connection the driver creates, after EVERY step
(1) the DATA octets written on the connection so far are at most 65 535 plus all increments received on stream 0;
(2) for every stream on which the step wrote DATA octets, the octets written on it so far are at most the
INITIAL_WINDOW_SIZE in force plus the increments received for it (RFC 9113 6.9.1/6.9.2: the stream's window, with the
SETTINGS adjustments, was not overdrawn by the frames of this step);
(3) no DATA frame of the step is longer than the MAX_FRAME_SIZE the connection holds. -/
theorem Full.data_within_windows (c : Conn) (h : InitF c) (evs : List Event) :
    GAll (fun g c e =>
      ((gstep g c e).connSent : Int) ≤ 65535 + (gstep g c e).connInc ∧
      (∀ sid, 0 < dataOn sid (outFrames (step c e).2) →
        ((gstep g c e).strSent sid : Int) ≤ (gstep g c e).iws + (gstep g c e).strInc sid) ∧
      (∀ sid len es, OutFrame.data sid len es ∈ outFrames (step c e).2 → len ≤ (step c e).1.maxFrameSize))
      (Led.init c) c evs := by
  refine GAll.imp ?_ evs _ _ (gall_stepOK evs _ _ (fl_init h))
  intro g c e ok
  refine ⟨ok.fl.connLe, ?_, fun sid len es hm => ok.size _ hm⟩
  intro sid hs
  have := ok.emit sid hs
  simpa [gstep, Led.wrote] using this

/-- **Full.windows_follow_ledgers**: in every reachable state the connection window is at most what the ledgers leave
(65 535 + increments − DATA written) and DATA written is at most 65 535 + increments; every body that waits has a window
of at most INITIAL_WINDOW_SIZE + increments − DATA written on its stream -/
theorem Full.windows_follow_ledgers (c : Conn) (h : InitF c) (evs : List Event) :
    let g := (grun (Led.init c) c evs).1
    let c' := (run c evs).1
    c'.connWindow ≤ 65535 + (g.connInc : Int) - g.connSent ∧ (g.connSent : Int) ≤ 65535 + g.connInc ∧
    ∀ p ∈ c'.pending, p.2.window ≤ g.iws + g.strInc p.1 - g.strSent p.1 := by
  intro g c'
  have hfl := grun_fl evs _ _ (fl_init h)
  rw [grun_conn] at hfl
  exact ⟨hfl.conn, hfl.connLe, fun p hp => (hfl.ent p hp).wok.le⟩

/-- **Full.sent_ledgers_are_the_outputs**: the `sent` ledgers are nothing but the DATA frames of the run's outputs: in
total and per stream -/
theorem Full.sent_ledgers_are_the_outputs (c : Conn) (evs : List Event) :
    (grun (Led.init c) c evs).1.connSent = dataAll (runFrames (run c evs).2) ∧
    ∀ sid, (grun (Led.init c) c evs).1.strSent sid = dataOn sid (runFrames (run c evs).2) := by
  obtain ⟨a, b⟩ := grun_sent evs (Led.init c) c
  exact ⟨by rw [a]; simp [Led.init], fun sid => by rw [b sid]; simp [Led.init]⟩

/-- **Full.total_data_within_connection_window**: the two together, without ghosts on the left: the DATA octets of all
frames written in a run are at most 65 535 plus the increments the ledger has counted on stream 0 -/
theorem Full.total_data_within_connection_window (c : Conn) (h : InitF c) (evs : List Event) :
    (dataAll (runFrames (run c evs).2) : Int) ≤ 65535 + (grun (Led.init c) c evs).1.connInc := by
  have := (grun_fl evs _ _ (fl_init h)).connLe
  rw [(Full.sent_ledgers_are_the_outputs c evs).1] at this
  exact this

/-- **Full.received_ledgers_are_the_frames**: the `received` ledgers are nothing but the increments of the WINDOW_UPDATE
frames the read loop went through in the run (`runTaken`: the frames `splitFrames` cuts out of the `bytes` events, up to
where `rdFrames` stops): those on stream 0 for the connection, those on `sid` for the stream -/
theorem Full.received_ledgers_are_the_frames (c : Conn) (evs : List Event) :
    (grun (Led.init c) c evs).1.connInc = ((runTaken c evs).map (wuOn 0)).sum ∧
    ∀ sid, sid ≠ 0 → (grun (Led.init c) c evs).1.strInc sid = ((runTaken c evs).map (wuOn sid)).sum := by
  obtain ⟨a, b⟩ := grun_inc evs (Led.init c) c
  exact ⟨by rw [a]; simp [Led.init], fun sid hs => by rw [b sid hs]; simp [Led.init]⟩

/-- **Full.iws_ledger_is_the_settings_history**: the INITIAL_WINDOW_SIZE ledger is the fold of `Led.recv` over the frames
the read loop went through: the value of the last SETTINGS frame (not an acknowledgement) among them that carries
INITIAL_WINDOW_SIZE, the handshake's value if there is none -/
theorem Full.iws_ledger_is_the_settings_history (c : Conn) (evs : List Event) :
    (grun (Led.init c) c evs).1.iws = ((runTaken c evs).foldl Led.recv (Led.init c)).iws :=
  grun_iws evs _ _

/-- **Full.connection_flow_control**, no ghost left: in any run, the DATA octets of all frames the client writes are at
most 65 535 plus the increments of all WINDOW_UPDATE frames on stream 0 its read loop went through -/
theorem Full.connection_flow_control (c : Conn) (h : InitF c) (evs : List Event) :
    dataAll (runFrames (run c evs).2) ≤ 65535 + ((runTaken c evs).map (wuOn 0)).sum := by
  have h1 := Full.total_data_within_connection_window c h evs
  rw [(Full.received_ledgers_are_the_frames c evs).1] at h1
  omega

/-- what `Drv.handshake` builds satisfies the hypothesis -/
theorem Full.handshake_gives_init (b : Bytes) (c : Conn) (h : Drv.handshake b = some c) : InitF c := handshake_initF h

/-! ### non-vacuity: a body of 70 000 octets against the default windows, two WINDOW_UPDATEs, a SETTINGS change -/

def fullBodyReq : ReqSpec :=
  { tag := "a", method := [80, 79, 83, 84], scheme := [104, 116, 116, 112, 115], host := [104], path := [47], ua := [117],
    hdrs := [], body := .buf 70000 }

/-- WINDOW_UPDATE on stream 0, increment 10 000 -/
def fullWu0 : List Nat := [0, 0, 4, 8, 0, 0, 0, 0, 0, 0, 0, 0x27, 0x10]
/-- WINDOW_UPDATE on stream 1, increment 3 000 -/
def fullWu1 : List Nat := [0, 0, 4, 8, 0, 0, 0, 0, 1, 0, 0, 0x0b, 0xb8]
/-- SETTINGS, INITIAL_WINDOW_SIZE = 66 535 -/
def fullSt : List Nat := [0, 0, 6, 4, 0, 0, 0, 0, 0, 0, 4, 0, 1, 0x03, 0xe7]

def fullRun : List Event := [.req fullBodyReq, .bytes fullWu0, .bytes fullWu1, .bytes fullSt]

example : InitF ({} : Conn) := initF_default

/-- the DATA frames written, step by step: 65 535 octets in frames of at most 16 384, nothing for the connection window
alone, 3 000 after the stream's WINDOW_UPDATE, 1 000 after INITIAL_WINDOW_SIZE went up by 1 000 -/
example : (run {} fullRun).2.map (fun o => (outFrames o).map dataLen) =
    [[0, 16384, 16384, 16384, 16383], [], [3000], [0, 1000]] := by decide +kernel

/-- the ledgers at the end: every stream octet allowed has been used (69 535 = 66 535 + 3 000), the connection keeps
6 000 (75 535 − 69 535) -/
example : (grun (Led.init {}) {} fullRun).1.iws = 66535 ∧ (grun (Led.init {}) {} fullRun).1.connInc = 10000 ∧
    (grun (Led.init {}) {} fullRun).1.connSent = 69535 ∧ (grun (Led.init {}) {} fullRun).1.strInc 1 = 3000 ∧
    (grun (Led.init {}) {} fullRun).1.strSent 1 = 69535 ∧ (run {} fullRun).1.connWindow = 6000 := by decide +kernel

/-- the three frames the read loop went through, and the octets written against them: 69 535 ≤ 65 535 + 10 000 -/
example : (runTaken {} fullRun).length = 3 ∧ ((runTaken {} fullRun).map (wuOn 0)).sum = 10000 ∧
    ((runTaken {} fullRun).map (wuOn 1)).sum = 3000 ∧ dataAll (runFrames (run {} fullRun).2) = 69535 := by decide +kernel

end FullModel

end H2.Props.C07
