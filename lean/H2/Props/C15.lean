import H2.Proofs.Huffman
/-!
# C15 — Huffman coding is the RFC 7541 code: lossless, canonical, strict on decode

Property theorems only. The code table is `H2.Gen.huffCodes/huffLens`, regenerated from
`huffman.go` on every run, so every theorem below is re-checked against the table the source has now.
The executable definitions `Huffman.encode`/`Huffman.decode` are the model that the correspondence
check runs against `HuffmanEncode`/`HuffmanDecode`.
-/
namespace H2.Props.C15
open H2 H2.Huffman

/-- The table in the source is the RFC 7541 Appendix B table: its lengths are the RFC's … -/
theorem rfc_table_lens : Gen.huffLens = rfcLens := fact_lens

/-- … its codes are the canonical assignment for those lengths … -/
theorem rfc_table_codes (s : Nat) (hs : s < 256) :
    Gen.huffCodes.getD s 0 = canonicalCodeOf rfcLensWithEos s := by
  have h := List.all_eq_true.mp fact_canonical s (List.mem_range.mpr hs)
  exact (beq_iff_eq.mp h).symm

/-- … and EOS, which sorts last among the 30-bit codes, is 30 one-bits. -/
theorem rfc_table_eos : canonicalCodeOf rfcLensWithEos 256 = 2 ^ 30 - 1 := fact_eos

/-- The code is prefix-free and complete: every leaf of the trie is the code of its symbol and every
symbol's code leads to its leaf. -/
theorem prefix_code (s : Nat) (hs : s < 256) (rest : List Bool) :
    trie.walk (code s ++ rest) = some (s, rest) := trie_walk_code s hs rest

/-- what `encode` emits: the codes, then `padLen` one-bits, `padLen < 8` -/
theorem encode_bits (s : Bytes) :
    unpack (encode s) = encBits s ++ List.replicate (padLen (encBits s).length) true ∧
    padLen (encBits s).length < 8 := by
  refine ⟨?_, padLen_lt _⟩
  unfold encode
  have h := padLen_spec (encBits s).length
  apply unpack_pack _ (((encBits s).length + padLen (encBits s).length) / 8)
  simp only [List.length_append, List.length_replicate]
  omega

/-- lossless: decoding the encoding of any octet string gives it back -/
theorem decode_encode (s : Bytes) (hs : WF s) : decode (encode s) = some s := by
  unfold decode
  rw [(encode_bits s).1]
  exact dec_enc s hs _ (padLen_lt _)

/-- strict and canonical: decoding succeeds exactly on `encode s`, i.e. on complete codes followed by
at most 7 one-bits; nothing else (zero padding, 8 or more padding bits, an embedded EOS, a truncated
code) is accepted, and the decoded string is unique. -/
theorem decode_ok_iff (b s : Bytes) (hb : WF b) :
    decode b = some s ↔ (WF s ∧ b = encode s) := by
  constructor
  · intro h
    unfold decode at h
    obtain ⟨k, hk, hbits, hs⟩ := (dec_iff _ _).1 h
    refine ⟨hs, ?_⟩
    have hlen : (unpack b).length = 8 * b.length := unpack_length b
    have hk' : k = padLen (encBits s).length := by
      apply padLen_unique _ _ hk
      have : (unpack b).length = (encBits s).length + k := by
        rw [hbits]; simp
      omega
    have : unpack b = unpack (encode s) := by
      rw [(encode_bits s).1, hbits, hk']
    have h2 := congrArg pack this
    rw [pack_unpack b hb, pack_unpack (encode s) (pack_wf _)] at h2
    exact h2
  · rintro ⟨hs, rfl⟩
    exact decode_encode s hs

/-- decoded output is a string of octets -/
theorem decode_wf (b s : Bytes) (h : decode b = some s) : WF s := by
  unfold decode at h
  obtain ⟨_, _, _, hs⟩ := (dec_iff _ _).1 h
  exact hs

/-- `encode` yields octets -/
theorem encode_wf (s : Bytes) : WF (encode s) := pack_wf _

/-! non-vacuity: the hypotheses are met by ordinary inputs, and a strictness case -/
example : WF (strBytes "www.example.com") ∧ decode (encode (strBytes "www.example.com")) = some (strBytes "www.example.com") := by
  decide +kernel
example : decode [0xff] = none := by decide +kernel          -- 8 padding bits
example : decode [0x1f] = some [0x61] := by decide +kernel   -- 'a' = 00011, padding 111
example : decode [0x18] = none := by decide +kernel          -- 'a' followed by zero padding

end H2.Props.C15
