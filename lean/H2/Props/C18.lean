import H2.Proofs.ServerExt
import H2.Proofs.Frame
import H2.Props.C06
import H2.Props.C16
/-!
# C18 — SETTINGS are acknowledged in order and the peer's limits are obeyed (server role)

Theorems about the full executable server model (`H2.Server`, the one compared with `serverConn.go`
event by event), the frame model (`Frame.settingsRead`) and the abstract send-side model.
The client role is in `H2/Props/C18c.lean`.
-/
namespace H2.Props.C18
open H2 H2.Server H2.Frame

/-- **Exactly one acknowledgement per SETTINGS frame.** Whatever state the connection is in and whatever
else handling the frame causes (window deltas, resumed responses, a flow-control GOAWAY), the read loop's
handling of one parsed frame adds exactly one `SETTINGS(ACK)` to the output if the frame is a SETTINGS
frame without ACK on stream 0 that is not caught by the CONTINUATION sequencing rule, and none otherwise.
Frames are handled one after the other in arrival order (`rlDrain`), so the i-th acknowledgement answers
the i-th SETTINGS frame. -/
theorem acks_exactly_once (r : R) (fr : Frame) :
    cnt .ack (rlFrame r fr).out = cnt .ack r.out + acksOwed r fr :=
  rlFrame_acks r fr

/-- nothing but the read loop's SETTINGS handling ever produces an acknowledgement: the stream loop
(frames, window changes, resumed responses) … -/
theorem stream_loop_never_acks (r : R) (fr : Frame) : cnt .ack (slFrame r fr).out = cnt .ack r.out :=
  slFrame_cnt .ack (by decide) r fr

/-- … and handler completions do not -/
theorem handler_done_never_acks (r : R) (sid : Nat) (resp : Resp) :
    cnt .ack (slHandlerDone r sid resp).out = cnt .ack r.out :=
  slHandlerDone_cnt .ack (by decide) r sid resp

/-- **Invalid values are a connection error with the RFC's code** (RFC 7540 §6.5.2): decoding a SETTINGS
payload fails exactly when some (identifier, value) pair is invalid, with the code of the first such pair —
ENABLE_PUSH ∉ {0,1}: PROTOCOL_ERROR; INITIAL_WINDOW_SIZE > 2^31-1: FLOW_CONTROL_ERROR; MAX_FRAME_SIZE
outside [2^14, 2^24-1]: PROTOCOL_ERROR — and otherwise succeeds. -/
theorem invalid_values_rejected (p : Bytes) (s : SettingsVal) (c : Nat) :
    settingsRead p s = .inr c ↔ Spec.firstBad (Spec.pairsOf p) = some c := by
  rw [settingsRead_spec]
  cases h : Spec.firstBad (Spec.pairsOf p) with
  | some c' => simp
  | none => simp

theorem bad_pair_codes (p : Nat × Nat) (c : Nat) (h : Spec.pairBad p = some c) :
    (p.1 = 2 ∧ p.2 > 1 ∧ c = Gen.c_ProtocolError) ∨
    (p.1 = 4 ∧ p.2 > 2 ^ 31 - 1 ∧ c = Gen.c_FlowControlError) ∨
    (p.1 = 5 ∧ (p.2 < 2 ^ 14 ∨ p.2 > 2 ^ 24 - 1) ∧ c = Gen.c_ProtocolError) := by
  unfold Spec.pairBad at h
  simp only [Gen.c_ProtocolError, Gen.c_FlowControlError]
  split at h
  · split at h <;> simp_all
  · split at h
    · split at h <;> simp_all
    · split at h
      · split at h
        · have hc : c = 1 := by simpa using h.symm
          subst hc; simp_all
        · simp at h
      · simp at h

/-- **DATA frames respect any MAX_FRAME_SIZE a peer can have**: every DATA frame the send side ever
produces is at most 16 384 octets (C06), and no accepted SETTINGS frame can announce less (above). -/
theorem data_within_peer_max_frame_size (evs : List Flow.Ev) :
    ∀ d ∈ (Flow.run Flow.init evs).2, d.len ≤ 2 ^ 14 := by
  intro d hd
  have := (C06.never_overdraw evs d hd).2.2
  simpa using this

/-- **The advertised MAX_FRAME_SIZE is enforced**: the read loop reads with the limit the server
advertises (`Gen.c_defaultDataFrameSize`, see `rlDrain`), and a frame header announcing more is an
error after 9 octets, before any payload is read or allocated. -/
theorem advertised_frame_size_enforced (b : Bytes) (h9 : 9 ≤ b.length) (hl : be24 b > Gen.c_defaultDataFrameSize) :
    readFrame Gen.c_defaultDataFrameSize b = .err .tooLarge 9 :=
  (C16.too_large_rejected Gen.c_defaultDataFrameSize b (by decide) h9 hl).1

/-- **The peer's SETTINGS_HEADER_TABLE_SIZE persists and bounds the encoder**: the stream loop, which owns the
encoder, sets its table limit to the value a SETTINGS frame announces and leaves it alone when the frame does not
mention it — an unrelated SETTINGS frame no longer brings the default back (finding F52), and the resize no longer
happens on the read loop in the middle of a header block (finding F34). -/
theorem encoder_limit_is_peers (r : R) (st : SettingsVal) :
    (applyTableSize r st).s.enc.maxSize = (if st.hasTableSize then st.tableSize else r.s.enc.maxSize) := by
  have hset : ∀ (e : Hpack.EncState) (n : Nat), (e.setMax n).maxSize = n := by
    intro e n; simp only [Hpack.EncState.setMax]; split <;> simp_all
  simp only [applyTableSize]
  split <;> simp_all

/-- the read loop no longer touches the encoder -/
theorem read_loop_leaves_encoder (r : R) (st : SettingsVal) : (handleSettings r st).s.enc = r.s.enc := by
  simp [handleSettings, R.emit]

/-- a decoded SETTINGS payload says the table size is present exactly when it carries identifier 1, and then
holds the last such value -/
theorem table_size_flag (p : Bytes) (s s' : SettingsVal) (h : settingsRead p s = .inl (some s')) :
    s'.hasTableSize = (s.hasTableSize || (Spec.pairsOf p).any (·.1 = 1)) := by
  rw [settingsRead_spec] at h
  cases hb : Spec.firstBad (Spec.pairsOf p) with
  | some c => rw [hb] at h; cases h
  | none =>
    rw [hb] at h
    injection h with h; injection h with h; subst h
    simp only [withPairs]
    generalize Spec.pairsOf p = ps
    induction ps generalizing s with
    | nil => simp
    | cons q qs ih =>
      simp only [List.foldl_cons, List.any_cons]
      rw [ih]
      simp only [Spec.applyPair]
      repeat' split
      all_goals simp_all [Bool.or_assoc]

/-! ### what is not proved (known finding, see KNOWN_FINDINGS.txt)
* F33 — a response header block always goes out as one HEADERS frame, whatever its size: the full model's
  `responseHeaders` emits a single `.headers` output whose length is the block length, so a HEADERS frame can
  exceed the peer's SETTINGS_MAX_FRAME_SIZE. -/

/-! non-vacuity -/
example : acksOwed { s := {} } ⟨4, 0, 0, 0, .settings {}⟩ = 1 := by decide
example : Spec.firstBad (Spec.pairsOf [0, 2, 0, 0, 0, 2]) = some 1 := by decide

end H2.Props.C18
