import H2.Proofs.ServerExt
import H2.Proofs.Frame
import H2.Props.C06
import H2.Props.C16
import H2.Proofs.HpackEnc
import H2.Proofs.ServerHdrFrames
/-!
# C18 — SETTINGS are acknowledged in order and the peer's limits are obeyed (server role)

Theorems about the full executable server model (`H2.Server`, the one compared with `serverConn.go`
event by event), the frame model (`Frame.settingsRead`) and the abstract send-side model.
The client role is in `H2/Props/C18c.lean`.
-/
namespace H2.Props.C18
open H2 H2.Server H2.Frame

/-- **Exactly one acknowledgement per SETTINGS frame.** Whatever state the connection is in and whatever
else handling the frame causes (window deltas, resumed responses, a flow-control GOAWAY), the read loop's
handling of one parsed frame adds exactly one `SETTINGS(ACK)` to the output if the frame is a SETTINGS
frame without ACK on stream 0 that is not caught by the CONTINUATION sequencing rule, and none otherwise.
Frames are handled one after the other in arrival order (`rlDrain`), so the i-th acknowledgement answers
the i-th SETTINGS frame. -/
theorem acks_exactly_once (r : R) (fr : Frame) :
    cnt .ack (rlFrame r fr).out = cnt .ack r.out + acksOwed r fr :=
  rlFrame_acks r fr

/-- nothing but the read loop's SETTINGS handling ever produces an acknowledgement: the stream loop
(frames, window changes, resumed responses) … -/
theorem stream_loop_never_acks (r : R) (fr : Frame) : cnt .ack (slFrame r fr).out = cnt .ack r.out :=
  slFrame_cnt .ack (by decide) r fr

/-- … and handler completions do not -/
theorem handler_done_never_acks (r : R) (sid : Nat) (resp : Resp) :
    cnt .ack (slHandlerDone r sid resp).out = cnt .ack r.out :=
  slHandlerDone_cnt .ack (by decide) r sid resp

/-- **Invalid values are a connection error with the RFC's code** (RFC 7540 §6.5.2): decoding a SETTINGS
payload fails exactly when some (identifier, value) pair is invalid, with the code of the first such pair —
ENABLE_PUSH ∉ {0,1}: PROTOCOL_ERROR; INITIAL_WINDOW_SIZE > 2^31-1: FLOW_CONTROL_ERROR; MAX_FRAME_SIZE
outside [2^14, 2^24-1]: PROTOCOL_ERROR — and otherwise succeeds. -/
theorem invalid_values_rejected (p : Bytes) (s : SettingsVal) (c : Nat) :
    settingsRead p s = .inr c ↔ Spec.firstBad (Spec.pairsOf p) = some c := by
  rw [settingsRead_spec]
  cases h : Spec.firstBad (Spec.pairsOf p) with
  | some c' => simp
  | none => simp

theorem bad_pair_codes (p : Nat × Nat) (c : Nat) (h : Spec.pairBad p = some c) :
    (p.1 = 2 ∧ p.2 > 1 ∧ c = Gen.c_ProtocolError) ∨
    (p.1 = 4 ∧ p.2 > 2 ^ 31 - 1 ∧ c = Gen.c_FlowControlError) ∨
    (p.1 = 5 ∧ (p.2 < 2 ^ 14 ∨ p.2 > 2 ^ 24 - 1) ∧ c = Gen.c_ProtocolError) := by
  unfold Spec.pairBad at h
  simp only [Gen.c_ProtocolError, Gen.c_FlowControlError]
  split at h
  · split at h <;> simp_all
  · split at h
    · split at h <;> simp_all
    · split at h
      · split at h
        · have hc : c = 1 := by simpa using h.symm
          subst hc; simp_all
        · simp at h
      · simp at h

/-- **DATA frames respect any MAX_FRAME_SIZE a peer can have**: every DATA frame the send side ever
produces is at most 16 384 octets (C06), and no accepted SETTINGS frame can announce less (above). -/
theorem data_within_peer_max_frame_size (evs : List Flow.Ev) :
    ∀ d ∈ (Flow.run Flow.init evs).2, d.len ≤ 2 ^ 14 := by
  intro d hd
  have := (C06.never_overdraw evs d hd).2.2
  simpa using this

/-- **The advertised MAX_FRAME_SIZE is enforced**: the read loop reads with the limit the server
advertises (`Gen.c_defaultDataFrameSize`, see `rlDrain`), and a frame header announcing more is an
error after 9 octets, before any payload is read or allocated. -/
theorem advertised_frame_size_enforced (b : Bytes) (h9 : 9 ≤ b.length) (hl : be24 b > Gen.c_defaultDataFrameSize) :
    readFrame Gen.c_defaultDataFrameSize b = .err .tooLarge 9 :=
  (C16.too_large_rejected Gen.c_defaultDataFrameSize b (by decide) h9 hl).1

theorem setMax_maxSize (e : Hpack.EncState) (n : Nat) : (e.setMax n).maxSize = n := by
  simp only [Hpack.EncState.setMax]; split <;> simp_all

theorem foldl_setMax_maxSize (vs : List Nat) (e : Hpack.EncState) :
    (vs.foldl Hpack.EncState.setMax e).maxSize = vs.getLast?.getD e.maxSize := by
  induction vs generalizing e with
  | nil => rfl
  | cons v vs ih =>
    rw [List.foldl_cons, ih, setMax_maxSize]
    cases vs with
    | nil => rfl
    | cons a t => simp [List.getLast?_cons_cons, List.getLast?_eq_some_getLast (List.cons_ne_nil a t)]

/-- **The peer's SETTINGS_HEADER_TABLE_SIZE persists and bounds the encoder**: the stream loop, which owns the
encoder, leaves its table limit at the last value a SETTINGS frame announces and leaves it alone when the frame does not
mention it — an unrelated SETTINGS frame no longer brings the default back (finding F52), and the resize no longer
happens on the read loop in the middle of a header block (finding F34). -/
theorem encoder_limit_is_peers (r : R) (st : SettingsVal) :
    (applyTableSize r st).s.enc.maxSize = (tableSizes st).getLast?.getD r.s.enc.maxSize := by
  simp only [applyTableSize, foldl_setMax_maxSize]

/-- a frame without SETTINGS_HEADER_TABLE_SIZE leaves the encoder as it is -/
theorem encoder_untouched (r : R) (st : SettingsVal) (h : tableSizes st = []) : (applyTableSize r st).s.enc = r.s.enc := by
  simp [applyTableSize, h]

/-- "an announcement is owed that names a size of at most `m`": what `SetMaxTableSize` leaves behind for the next header
block, which then opens with dynamic table size updates — the smallest size first (`C04.size_updates_announced`) -/
def Owes (e : Hpack.EncState) (m : Nat) : Prop := e.pending = true ∧ e.minPending ≤ m ∧ e.minPending ≤ e.maxSize

theorem owes_mono {e : Hpack.EncState} {m m' : Nat} (h : Owes e m) (hm : m ≤ m') : Owes e m' :=
  ⟨h.1, Nat.le_trans h.2.1 hm, h.2.2⟩

theorem owes_setMax {e : Hpack.EncState} {m : Nat} (h : Owes e m) (n : Nat) : Owes (e.setMax n) m := by
  obtain ⟨h1, h2, h3⟩ := h
  simp only [Hpack.EncState.setMax, Owes]
  split
  · exact ⟨h1, h2, h3⟩
  · simp only [h1, Bool.not_true, Bool.false_or, decide_eq_true_eq]
    refine ⟨trivial, ?_, ?_⟩ <;> split <;> omega

theorem owes_foldl {e : Hpack.EncState} {m : Nat} (h : Owes e m) (vs : List Nat) :
    Owes (vs.foldl Hpack.EncState.setMax e) m := by
  induction vs generalizing e with
  | nil => exact h
  | cons v vs ih => exact ih (owes_setMax h v)

theorem owes_of_lower (e : Hpack.EncState) (v : Nat) (h : v < e.maxSize) : Owes (e.setMax v) v := by
  have hne : ¬ e.maxSize = v := by omega
  simp only [Hpack.EncState.setMax, hne, if_false, Owes]
  refine ⟨trivial, ?_, ?_⟩ <;> split <;> first | exact Nat.le_refl _ | (rename_i hc; simp at hc; omega)

theorem dip_owed (vs : List Nat) (e : Hpack.EncState) (v : Nat) (hv : v ∈ vs) (hlt : v < e.maxSize) :
    Owes (vs.foldl Hpack.EncState.setMax e) v := by
  induction vs generalizing e with
  | nil => cases hv
  | cons n vs ih =>
    rw [List.foldl_cons]
    rcases List.mem_cons.mp hv with rfl | hv'
    · exact owes_foldl (owes_of_lower e v hlt) vs
    · by_cases hlt' : v < (e.setMax n).maxSize
      · exact ih _ hv' hlt'
      · rw [setMax_maxSize] at hlt'
        exact owes_foldl (owes_mono (owes_of_lower e n (by omega)) (by omega)) vs

/-- **Every dip is announced** (server twin of F09c, repaired): if a SETTINGS frame names, anywhere among its values, a
SETTINGS_HEADER_TABLE_SIZE below the encoder's table limit, the encoder is left owing the peer an announcement of at most
that size — whatever the last value of the frame is ("0, then 4096" included, which used to reach the encoder as 4096
alone and change nothing) — and its limit is the frame's last value. -/
theorem dip_announced (r : R) (st : SettingsVal) (v : Nat) (hv : v ∈ tableSizes st) (hlt : v < r.s.enc.maxSize) :
    Owes (applyTableSize r st).s.enc v ∧
    (applyTableSize r st).s.enc.maxSize = (tableSizes st).getLast?.getD r.s.enc.maxSize :=
  ⟨dip_owed _ _ v hv hlt, encoder_limit_is_peers r st⟩

open H2.Hpack in
/-- what is owed is paid at the start of the next header block: `AppendHeader` opens it with a dynamic table size update
that names at most `m` (followed by the final size when that is larger), before the first field -/
theorem owed_block_opens (e : Hpack.EncState) (m : Nat) (h : Owes e m) (f : Hpack.Field) (store : Bool) :
    ∃ k rest, k ≤ m ∧ encPre e = .sizeUpdate k :: rest ∧
      (Enc.append e f store).2 = serAll (encPre e) ++ Spec.ser (encRepr e f store) := by
  obtain ⟨h1, h2, h3⟩ := h
  by_cases hc : e.minPending < e.maxSize
  · exact ⟨e.minPending, [.sizeUpdate e.maxSize], h2, by simp [encPre, h1, hc], append_out _ _ _⟩
  · exact ⟨e.maxSize, [], by omega, by simp [encPre, h1, hc], append_out _ _ _⟩

/-- the values are those of the frame, in wire order: identifier 1 of `Spec.pairsOf` -/
theorem tableSizes_of_payload (p : Bytes) (s' : SettingsVal) (ack : Bool)
    (h : settingsRead p { ack := ack } = .inl (some s')) :
    tableSizes s' = ((Spec.pairsOf p).filter fun q => q.1 == Gen.c_HeaderTableSize).map (·.2) := by
  rw [settingsRead_spec] at h
  cases hb : Spec.firstBad (Spec.pairsOf p) with
  | some c => rw [hb] at h; cases h
  | none =>
    rw [hb] at h
    injection h with h; injection h with h; subst h
    simp [tableSizes, withPairs]

/-- the read loop no longer touches the encoder -/
theorem read_loop_leaves_encoder (r : R) (st : SettingsVal) : (handleSettings r st).s.enc = r.s.enc := by
  simp [handleSettings, R.emit]

/-- a decoded SETTINGS payload says the table size is present exactly when it carries identifier 1, and then
holds the last such value -/
theorem table_size_flag (p : Bytes) (s s' : SettingsVal) (h : settingsRead p s = .inl (some s')) :
    s'.hasTableSize = (s.hasTableSize || (Spec.pairsOf p).any (·.1 = 1)) := by
  rw [settingsRead_spec] at h
  cases hb : Spec.firstBad (Spec.pairsOf p) with
  | some c => rw [hb] at h; cases h
  | none =>
    rw [hb] at h
    injection h with h; injection h with h; subst h
    simp only [withPairs]
    generalize Spec.pairsOf p = ps
    induction ps generalizing s with
    | nil => simp
    | cons q qs ih =>
      simp only [List.foldl_cons, List.any_cons]
      rw [ih]
      simp only [Spec.applyPair]
      repeat' split
      all_goals simp_all [Bool.or_assoc]

/-! ### the server twin of F09c: "0, then 4096" in one SETTINGS frame, now a regression example -/

/-- the encoder holds `:status 201` from an earlier response; the frame's two values empty its table and leave the
announcement "0, then 4096" owed … -/
theorem F09s_regression :
    let r : R := { s := { enc := { dyn := [([58, 115, 116, 97, 116, 117, 115], [50, 48, 49])] } } }
    let e := (applyTableSize r { pairs := [(Gen.c_HeaderTableSize, 0), (Gen.c_HeaderTableSize, 4096)] }).s.enc
    (e.dyn, e.pending, e.minPending, e.maxSize) = ([], true, 0, 4096) := by decide +kernel

/-- … where the code before the repair, told of the last value only, changed nothing and went on indexing -/
example : let e : Hpack.EncState := { dyn := [([58, 115, 116, 97, 116, 117, 115], [50, 48, 49])] }
    e.setMax 4096 = e := by decide

/-- the peer that sent the frame has emptied its table (`peerAnnounce`, srv.go `noteSettings`) and cannot read the index
62 the unrepaired encoder sent next (`be`) -/
example :
    let d : Hpack.DecState := { dyn := [([58, 115, 116, 97, 116, 117, 115], [50, 48, 49])] }
    let d' := [0, 4096].foldl peerAnnounce d
    (d'.dyn, d'.maxSize, d'.limit) = ([], 0, 4096) ∧ decodeAll 2 d' true 0 [0xbe] [] = none := by decide +kernel

/-! ### header blocks respect any MAX_FRAME_SIZE a peer can have (finding F33, repaired)

The write loop cuts a response header block at 16384 octets (`writeHeaderBlock` with `maxDataFrameSize`; `cutBlock` and
`blockOuts` in the full model): HEADERS with the first fragment, CONTINUATION frames for the rest, END_HEADERS on the
last. Before the repair the block went out as one HEADERS frame whatever its length. -/

/-- **Every HEADERS and CONTINUATION frame of every run is at most 16384 octets** — whatever the configuration and the
events (frames received, handler completions with any response, cuts, the idle timer), on the full server model. No
accepted SETTINGS frame can announce a smaller SETTINGS_MAX_FRAME_SIZE (`invalid_values_rejected`, `bad_pair_codes`), so
together with `data_within_peer_max_frame_size` and the fixed sizes of the other frames the peer's limit is obeyed. -/
theorem header_frames_within_peer_max_frame_size (cfg : Cfg) (evs : List Event) :
    ∀ o ∈ runOuts cfg evs,
      match o with
      | .headers _ _ _ len _ _ => len ≤ 2 ^ 14
      | .cont _ _ len _ _ => len ≤ 2 ^ 14
      | _ => True := by
  intro o ho
  have h := run_frags_le cfg evs
  cases o with
  | headers sid es eh len fs e =>
    exact h len (List.mem_filterMap.mpr ⟨_, ho, rfl⟩)
  | cont sid eh len fs e =>
    exact h len (List.mem_filterMap.mpr ⟨_, ho, rfl⟩)
  | _ => trivial

/-- **The frames of a block are the block** (the response-direction twin of `C20.block_frames_are_whole`): what
`responseHeaders` adds to the output is exactly the frames of the fragments `cutBlock` makes of the encoder's block —
one HEADERS frame on the stream's id, END_STREAM on it exactly when there is no body, then CONTINUATION frames, their
payload lengths the fragment lengths in order; the fragments written one after the other are the encoder's octets
(nothing lost, added or reordered), none is longer than 16384 octets and no CONTINUATION frame is empty. -/
theorem header_block_frames_are_whole (r : R) (st : Strm) (resp : Resp) (hasBody : Bool) :
    let block := responseBlock r resp
    let frags := cutBlock Gen.c_maxDataFrameSize block
    (∃ fs e, (responseHeaders r st resp hasBody).out = r.out ++ blockOuts st.id (!hasBody) fs e frags ∧
        fm fragLen (blockOuts st.id (!hasBody) fs e frags) = frags.map List.length) ∧
    frags.flatten = block ∧ (∀ f ∈ frags, f.length ≤ 2 ^ 14) ∧ (∀ f ∈ frags.tail, f ≠ []) := by
  intro block frags
  obtain ⟨fs, e, h⟩ := responseHeaders_block r st resp hasBody
  exact ⟨⟨fs, e, h, fm_fragLen_blockOuts _ _ _ _ _⟩, cutBlock_whole _ (by decide) _, cutBlock_le _ _,
    cutRest_ne _ (by decide) _ _⟩

/-- the shape of the frames: the first is the HEADERS frame, END_HEADERS is on the last frame and on no other, and a
block of at most 16384 octets is one HEADERS frame as before -/
theorem header_block_shape (sid : Nat) (es : Bool) (fs : List (Bytes × Bytes)) (e : Bool) (f : Bytes) (rest : List Bytes) :
    blockOuts sid es fs e (f :: rest) =
      .headers sid es rest.isEmpty f.length (if rest.isEmpty then fs else []) (rest.isEmpty && e) :: contOuts sid fs e rest ∧
    (∀ (g : Bytes) (more : List Bytes), contOuts sid fs e (g :: more) =
      .cont sid more.isEmpty g.length (if more.isEmpty then fs else []) (more.isEmpty && e) :: contOuts sid fs e more) :=
  ⟨rfl, fun _ _ => rfl⟩

theorem small_block_one_frame (sid : Nat) (es : Bool) (fs : List (Bytes × Bytes)) (e : Bool) (b : Bytes)
    (h : b.length ≤ 2 ^ 14) :
    blockOuts sid es fs e (cutBlock Gen.c_maxDataFrameSize b) = [.headers sid es true b.length fs e] :=
  blockOuts_small sid es fs e _ b h

/-- the frame sizes are a function of the block length: 16384, 16384, …, and what is left -/
theorem header_frame_sizes (b : Bytes) :
    (cutBlock Gen.c_maxDataFrameSize b).map List.length =
      min Gen.c_maxDataFrameSize b.length :: restLens Gen.c_maxDataFrameSize b.length (b.length - Gen.c_maxDataFrameSize) :=
  cutBlock_lens _ b

/-- non-vacuity: a block of 40 000 octets goes out in 3 frames of 16384, 16384 and 7232 octets (before the repair: one
HEADERS frame of 40 000); 16384 octets are one frame, 16385 two -/
example : (cutBlock Gen.c_maxDataFrameSize (List.replicate 40000 0)).map List.length = [16384, 16384, 7232] := by
  rw [header_frame_sizes, List.length_replicate]; decide
example : (cutBlock Gen.c_maxDataFrameSize (List.replicate 16384 0)).map List.length = [16384] := by
  rw [header_frame_sizes, List.length_replicate]; decide
example : (cutBlock Gen.c_maxDataFrameSize (List.replicate 16385 0)).map List.length = [16384, 1] := by
  rw [header_frame_sizes, List.length_replicate]; decide
example : blockOuts 1 true [([1], [2])] false [[7, 7], [8], [9]] =
    [.headers 1 true false 2 [], .cont 1 false 1 [], .cont 1 true 1 [([1], [2])]] := rfl
/-- a run with a HEADERS output exists: the first request of a connection answered without a body (1 octet: `:status 200`) -/
example : fm fragLen (runOuts {} [.bytes [0, 0, 5, 1, 5, 0, 0, 0, 1, 0x82, 0x87, 0x84, 0x41, 0], .done 1 {}]) = [1] := by
  decide +kernel

/-! non-vacuity -/
example : ∃ (r : R) (st : SettingsVal) (v : Nat), v ∈ tableSizes st ∧ v < r.s.enc.maxSize :=
  ⟨{ s := {} }, { pairs := [(Gen.c_HeaderTableSize, 0), (Gen.c_HeaderTableSize, 4096)] }, 0, by decide, by decide⟩
example : acksOwed { s := {} } ⟨4, 0, 0, 0, .settings {}⟩ = 1 := by decide
example : Spec.firstBad (Spec.pairsOf [0, 2, 0, 0, 0, 2]) = some 1 := by decide

end H2.Props.C18
