import H2.Proofs.ServerExt
/-!
# C09 — a stream-level error never disturbs other streams or the compression context

Theorems about the full executable server model (`H2.Server`). What is proved: an offence that the
code classifies as stream-scoped is answered on that stream only (one RST_STREAM, no GOAWAY, the loop goes on,
no other stream's entry is touched); every malformed-message verdict of the header field loop is
stream-scoped; frames still in flight for a stream the server has reset are ignored and their DATA is
charged to the connection window; a trailer section that does not end the stream is answered on its stream
alone once its block has been decoded (F67 repaired: `trailer_not_last_*`). What is not: the HPACK context of a
block that is *refused* or *abandoned at a malformed field* (known findings F22, F23 — `ctx_sync` is stated in
full and refuted by a witness; the partial form covers blocks decoded to their end).
-/
namespace H2.Props.C09
open H2 H2.Server

/-- **A stream-scoped error stays on its stream**: the loop's reaction to a `reset`-typed error is exactly
one RST_STREAM and nothing else — no GOAWAY — and the loop is not left. -/
theorem stream_scoped_stays_scoped (r : R) (uid code : Nat) :
    (onFrameError r uid (some (.reset code))).2 = false ∧
    cnt .goAway (onFrameError r uid (some (.reset code))).1.out = cnt .goAway r.out ∧
    cnt .rst (onFrameError r uid (some (.reset code))).1.out ≤ cnt .rst r.out + 1 := by
  refine ⟨by simp [onFrameError], ?_, ?_⟩
  · simp only [onFrameError, writeError]
    split <;> simp [Out.kind]
  · simp only [onFrameError, writeError]
    split <;> simp [Out.kind]

/-- … and it changes no other stream's entry, nor the connection's closing state -/
theorem stream_scoped_leaves_others (r : R) (uid code : Nat) (st : Strm) (h : st ∈ r.s.strms) (hne : st.uid ≠ uid) :
    st ∈ (onFrameError r uid (some (.reset code))).1.s.strms ∧
    (onFrameError r uid (some (.reset code))).1.s.closing = r.s.closing := by
  have hb : (st.uid == uid) = false := by simpa using hne
  simp only [onFrameError, writeError]
  split
  · refine ⟨?_, rfl⟩
    simp only [R.updStrm, List.mem_map]
    exact ⟨st, h, by simp [hb]⟩
  · refine ⟨?_, rfl⟩
    simp only [R.updStrm, writeReset, R.emit, List.mem_map]
    exact ⟨st, ⟨st, h, by simp [hb]⟩, by simp [hb]⟩

/-- **Every malformed-message verdict is stream-scoped**: whatever field is decoded, the loop body accepts it,
or answers with RST_STREAM (PROTOCOL_ERROR, or ENHANCE_YOUR_CALM for a declared body over the limit), or —
the one connection error the design intends here — finds the header list over MaxHeaderListSize. -/
def StreamScopedVerdict (e : Option SErr) : Prop :=
  e = none ∨ e = some (.reset Gen.c_ProtocolError) ∨ e = some (.reset Gen.c_EnhanceYourCalm) ∨
  e = some (.goAway Gen.c_EnhanceYourCalm "header list exceeds the maximum size")

theorem field_verdicts (cfg : Cfg) (st : Strm) (f : Hpack.Field) :
    StreamScopedVerdict (fieldStep cfg st f).2 := by
  simp only [fieldStep, fieldVerdict]
  repeat' split
  all_goals simp [StreamScopedVerdict]

/-- … and so does the loop over a whole fragment: besides the verdicts above only an undecodable block
(COMPRESSION_ERROR) ends it, or a field that is not complete yet and already longer than any field within
MaxHeaderListSize can be (the same connection error as for the list, F68). -/
theorem field_loop_verdicts (fuel : Nat) (s : Srv) (st : Strm) (bs eh : Bool) (fp : Nat) (b : Bytes) :
    (fieldLoop fuel s st bs eh fp b).2.2 = none ∨
    (fieldLoop fuel s st bs eh fp b).2.2 = some (.reset Gen.c_ProtocolError) ∨
    (fieldLoop fuel s st bs eh fp b).2.2 = some (.reset Gen.c_EnhanceYourCalm) ∨
    (fieldLoop fuel s st bs eh fp b).2.2 = some (.goAway Gen.c_CompressionError "compression") ∨
    (fieldLoop fuel s st bs eh fp b).2.2 = some (.goAway Gen.c_EnhanceYourCalm "header list exceeds the maximum size") ∨
    (fieldLoop fuel s st bs eh fp b).2.2 =
      some (.goAway Gen.c_EnhanceYourCalm "header field exceeds the maximum header list size") := by
  induction fuel generalizing s st fp b with
  | zero => simp [fieldLoop]
  | succ n ih =>
    cases b with
    | nil => simp [fieldLoop]
    | cons c cs =>
      simp only [fieldLoop]
      cases Hpack.Dec.next s.dec bs fp (c :: cs) with
      | needMore => simp only []; repeat' split
                    all_goals simp
      | err => simp
      | ok dec fo rest =>
        cases fo with
        | none => simp
        | some f =>
        simp only []
        have hv := field_verdicts s.cfg { st with fieldSeen := true } f
        cases hx : (fieldStep s.cfg { st with fieldSeen := true } f).2 with
        | none => simp only []; exact ih _ _ _ _
        | some e =>
          simp only []
          rw [hx] at hv
          simp only [StreamScopedVerdict] at hv
          rcases hv with h | h | h | h
          · cases h
          · injection h with h; simp [h]
          · injection h with h; simp [h]
          · injection h with h; simp [h]

/-- **Frames in flight for a stream the server has reset are ignored**: no error of any kind, the loop
goes on, no stream is created. -/
theorem frames_for_reset_stream_ignored (r : R) (fr : Frame.Frame) (wc : Bool)
    (h : r.s.resetByUs.contains fr.stream = true) :
    (unknownStream r fr wc).2 = none ∧
    cnt .goAway (unknownStream r fr wc).1.out = cnt .goAway r.out ∧
    cnt .rst (unknownStream r fr wc).1.out = cnt .rst r.out ∧
    (unknownStream r fr wc).1.s.slStopped = r.s.slStopped := by
  have e : unknownStream r fr wc =
      ((if fr.typ == Gen.c_FrameData then consumeConnWindow r fr.length else r), none) := by
    simp only [unknownStream, h, if_true]
  rw [e]
  refine ⟨rfl, ?_, ?_, ?_⟩
  · simp only []; split <;> simp [consumeConnWindow_cnt .goAway (by decide)]
  · simp only []; split <;> simp [consumeConnWindow_cnt .rst (by decide)]
  · simp only []
    split
    · simp only [consumeConnWindow]
      repeat' split
      all_goals rfl
    · rfl

/-- … and their DATA is still charged to, and credited on, the connection window -/
theorem data_for_reset_stream_charged (r : R) (fr : Frame.Frame) (wc : Bool)
    (h : r.s.resetByUs.contains fr.stream = true) (hd : fr.typ = Gen.c_FrameData) :
    (unknownStream r fr wc).1 = consumeConnWindow r fr.length := by
  simp only [unknownStream, h, if_true, hd, beq_self_eq_true]

/-! ### HPACK context (known findings F22, F23)
The decoder state after a header frame equals the state after decoding the *whole* fragment only when the
field loop reaches the end of the fragment. -/

/-- the decoder states along the field loop when nothing stops it: what a decoder that reads the whole
fragment ends with -/
def decOnly : Nat → Hpack.DecState → Bool → Nat → Bytes → Option Hpack.DecState
  | 0, _, _, _, _ => none
  | _, dec, _, _, [] => some dec
  | fuel + 1, dec, bs, fp, b =>
    match Hpack.Dec.next dec bs fp b with
    | .ok d (some _) rest => decOnly fuel d bs (fp + 1) rest
    | .ok d none _ => some d      -- only table size updates were left
    | _ => none

/-- full statement: whatever becomes of the stream, the decoder has consumed the whole fragment -/
def ctx_sync_full : Prop :=
  ∀ (s : Srv) (st : Strm) (b : Bytes) (dec : Hpack.DecState),
    decOnly (b.length + 1) s.dec true 0 b = some dec →
      (fieldLoop (b.length + 1) s st true true 0 b).1.dec = dec

/-- F23 witness: `X: 1` (upper-case name, literal with incremental indexing) followed by `y: 2` (also with
incremental indexing): the loop stops at the first field, so the second never reaches the table -/
theorem ctx_sync_witness : ¬ ctx_sync_full := by
  intro h
  have := h {} { uid := 0, id := 1, window := 0 }
    [0x40, 0x01, 0x58, 0x01, 0x31, 0x40, 0x01, 0x79, 0x01, 0x32] _ rfl
  revert this
  decide +kernel

/-- partial: when the loop reports no error on a complete block (END_HEADERS), the decoder is where a
decoder that read the whole block would be -/
theorem ctx_sync_partial (fuel : Nat) (s : Srv) (st : Strm) (bs : Bool) (fp : Nat) (b : Bytes)
    (hok : (fieldLoop fuel s st bs true fp b).2.2 = none) :
    decOnly fuel s.dec bs fp b = some (fieldLoop fuel s st bs true fp b).1.dec := by
  induction fuel generalizing s st fp b with
  | zero => simp [fieldLoop] at hok
  | succ n ih =>
    cases b with
    | nil => simp [fieldLoop, decOnly]
    | cons c cs =>
      simp only [fieldLoop, decOnly] at hok ⊢
      cases hd : Hpack.Dec.next s.dec bs fp (c :: cs) with
      | needMore => rw [hd] at hok; simp at hok
      | err => rw [hd] at hok; simp at hok
      | ok dec fo rest =>
        cases fo with
        | none => simp
        | some f =>
        rw [hd] at hok
        simp only [] at hok ⊢
        cases hx : (fieldStep s.cfg { st with fieldSeen := true } f).2 with
        | some e => rw [hx] at hok; simp at hok
        | none =>
          rw [hx] at hok
          simp only [] at hok ⊢
          exact ih _ _ _ _ hok

/-! ### a trailer section that does not end the stream (F67, repaired)

A second HEADERS frame without END_STREAM on a stream whose request headers are done makes the request malformed
(RFC 7540 8.1, 8.1.2.6). When the block ends in that frame it is decoded like any block and the answer is a stream
error: the offence is stream-scoped (`stream_scoped_stays_scoped`, `stream_scoped_leaves_others` apply to it) and the
decoder is where a decoder that read the whole block would be. A block that goes on in CONTINUATION frames is still a
connection error (the stream would be gone before the rest of the block arrives: the obstacle of F23). -/

/-- **trailer section without END_STREAM, block complete in the frame**: when the field loop accepts every field
of the block, `handleHeaderFrame` answers RST_STREAM(PROTOCOL_ERROR) and the HPACK decoder has consumed the
whole block (`decOnly`); `st0` is the stream as the loop starts on it -/
theorem trailer_not_last_stream_scoped (s : Srv) (st : Strm) (fr : Frame.Frame) (es : Bool)
    (prio : Option (Nat × Nat)) (frag : Bytes)
    (hp : ∀ d w, prio = some (d, w) → d ≠ st.id)
    (hF : st.headersFinished = true)
    (hS : Frame.hasFlag fr.flags Gen.c_FlagEndStream = false)
    (hH : Frame.hasFlag fr.flags Gen.c_FlagEndHeaders = true)
    (hb : fr.body = .headers es true prio frag) :
    ∃ st0 : Strm,
      (fieldLoop ((st.prevHdr ++ frag).length + 1) s st0 true true 0 (st.prevHdr ++ frag)).2.2 = none →
        (handleHeaderFrame s st fr).2.2 = some (.reset Gen.c_ProtocolError) ∧
        decOnly ((st.prevHdr ++ frag).length + 1) s.dec true 0 (st.prevHdr ++ frag) =
          some (handleHeaderFrame s st fr).1.dec := by
  refine ⟨{ st with regularSeen := true, fieldSeen := false, prevHdr := [] }, ?_⟩
  intro hx
  have hd := ctx_sync_partial _ _ _ _ _ _ hx
  simp only [handleHeaderFrame, hS, hH, hb, hF] at hx hd ⊢
  simp at hx hd ⊢
  cases prio with
  | none => simp [hx, hd]
  | some p =>
    obtain ⟨d, w⟩ := p
    have := hp d w rfl
    simp [hx, hd, this]

/-- … and it is never accepted: whatever the block holds, a trailer section without END_STREAM ends in an error -/
theorem trailer_not_last_refused (s : Srv) (st : Strm) (fr : Frame.Frame)
    (hF : st.headersFinished = true) (hS : Frame.hasFlag fr.flags Gen.c_FlagEndStream = false) :
    (handleHeaderFrame s st fr).2.2 ≠ none := by
  simp only [handleHeaderFrame, hF, hS]
  cases Frame.hasFlag fr.flags Gen.c_FlagEndHeaders
  · simp
  · simp only [Bool.true_and, Bool.not_false, Bool.not_true, Bool.false_eq_true, if_false, Bool.and_false]
    generalize fieldLoop _ _ _ _ _ _ _ = X
    cases h : X.2.2 <;> repeat' split
    all_goals simp_all

/-- the part that is left (same obstacle as F23): the block goes on in CONTINUATION frames — connection error -/
theorem trailer_not_last_continued (s : Srv) (st : Strm) (fr : Frame.Frame)
    (hF : st.headersFinished = true)
    (hS : Frame.hasFlag fr.flags Gen.c_FlagEndStream = false)
    (hH : Frame.hasFlag fr.flags Gen.c_FlagEndHeaders = false) :
    handleHeaderFrame s st fr = (s, st, some (.goAway Gen.c_ProtocolError "stream not open")) := by
  simp [handleHeaderFrame, hF, hS, hH]

/-- non-vacuity (the trailer frame of `known/F67.ops`, cut to `x: 1` with incremental indexing): stream error,
and the entry is in the table -/
example :
    (handleHeaderFrame {} { uid := 0, id := 3, window := 0, headersFinished := true }
      { typ := 1, flags := 4, stream := 3, length := 5, body := .headers false true none [0x40, 0x01, 0x78, 0x01, 0x31] }).2.2
      = some (.reset Gen.c_ProtocolError) ∧
    (handleHeaderFrame {} { uid := 0, id := 3, window := 0, headersFinished := true }
      { typ := 1, flags := 4, stream := 3, length := 5, body := .headers false true none [0x40, 0x01, 0x78, 0x01, 0x31] }).1.dec.dyn
      = [([0x78], [0x31])] := by
  decide +kernel

/-! non-vacuity: a well-formed GET block (all indexed) passes the loop without error -/
example : (fieldLoop 4 {} { uid := 0, id := 1, window := 0 } true true 0 [0x82, 0x87, 0x84]).2.2 = none := by
  decide +kernel

end H2.Props.C09
