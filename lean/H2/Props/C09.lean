import H2.Proofs.ServerExt
/-!
# C09 — a stream-level error never disturbs other streams or the compression context

Theorems about the full executable server model (`H2.Server`). What is proved: an offence that the
code classifies as stream-scoped is answered on that stream only (one RST_STREAM, no GOAWAY, the loop goes on,
no other stream's entry is touched); every malformed-message verdict of the header field loop is
stream-scoped; frames still in flight for a stream the server has reset are ignored and their DATA is
charged to the connection window. What is not: the HPACK context of a block that is *refused* or
*abandoned at a malformed field* (known findings F22, F23 — `ctx_sync` is stated in full and refuted by a
witness; the partial form covers blocks decoded to their end).
-/
namespace H2.Props.C09
open H2 H2.Server

/-- **A stream-scoped error stays on its stream**: the loop's reaction to a `reset`-typed error is exactly
one RST_STREAM and nothing else — no GOAWAY — and the loop is not left. -/
theorem stream_scoped_stays_scoped (r : R) (uid code : Nat) :
    (onFrameError r uid (some (.reset code))).2 = false ∧
    cnt .goAway (onFrameError r uid (some (.reset code))).1.out = cnt .goAway r.out ∧
    cnt .rst (onFrameError r uid (some (.reset code))).1.out ≤ cnt .rst r.out + 1 := by
  refine ⟨by simp [onFrameError], ?_, ?_⟩
  · simp only [onFrameError, writeError]
    split <;> simp [Out.kind]
  · simp only [onFrameError, writeError]
    split <;> simp [Out.kind]

/-- … and it changes no other stream's entry, nor the connection's closing state -/
theorem stream_scoped_leaves_others (r : R) (uid code : Nat) (st : Strm) (h : st ∈ r.s.strms) (hne : st.uid ≠ uid) :
    st ∈ (onFrameError r uid (some (.reset code))).1.s.strms ∧
    (onFrameError r uid (some (.reset code))).1.s.closing = r.s.closing := by
  have hb : (st.uid == uid) = false := by simpa using hne
  simp only [onFrameError, writeError]
  split
  · refine ⟨?_, rfl⟩
    simp only [R.updStrm, List.mem_map]
    exact ⟨st, h, by simp [hb]⟩
  · refine ⟨?_, rfl⟩
    simp only [R.updStrm, writeReset, R.emit, List.mem_map]
    exact ⟨st, ⟨st, h, by simp [hb]⟩, by simp [hb]⟩

/-- **Every malformed-message verdict is stream-scoped**: whatever field is decoded, the loop body accepts it,
or answers with RST_STREAM (PROTOCOL_ERROR, or ENHANCE_YOUR_CALM for a declared body over the limit), or —
the one connection error the design intends here — finds the header list over MaxHeaderListSize. -/
def StreamScopedVerdict (e : Option SErr) : Prop :=
  e = none ∨ e = some (.reset Gen.c_ProtocolError) ∨ e = some (.reset Gen.c_EnhanceYourCalm) ∨
  e = some (.goAway Gen.c_EnhanceYourCalm "header list exceeds the maximum size")

theorem field_verdicts (cfg : Cfg) (st : Strm) (f : Hpack.Field) :
    StreamScopedVerdict (fieldStep cfg st f).2 := by
  simp only [fieldStep, fieldVerdict]
  repeat' split
  all_goals simp [StreamScopedVerdict]

/-- … and so does the loop over a whole fragment: besides the verdicts above only an undecodable block
(COMPRESSION_ERROR) ends it. -/
theorem field_loop_verdicts (fuel : Nat) (s : Srv) (st : Strm) (bs eh : Bool) (fp : Nat) (b : Bytes) :
    (fieldLoop fuel s st bs eh fp b).2.2 = none ∨
    (fieldLoop fuel s st bs eh fp b).2.2 = some (.reset Gen.c_ProtocolError) ∨
    (fieldLoop fuel s st bs eh fp b).2.2 = some (.reset Gen.c_EnhanceYourCalm) ∨
    (fieldLoop fuel s st bs eh fp b).2.2 = some (.goAway Gen.c_CompressionError "compression") ∨
    (fieldLoop fuel s st bs eh fp b).2.2 = some (.goAway Gen.c_EnhanceYourCalm "header list exceeds the maximum size") := by
  induction fuel generalizing s st fp b with
  | zero => simp [fieldLoop]
  | succ n ih =>
    cases b with
    | nil => simp [fieldLoop]
    | cons c cs =>
      simp only [fieldLoop]
      cases Hpack.Dec.next s.dec bs fp (c :: cs) with
      | needMore => simp only []; split <;> simp
      | err => simp
      | ok dec fo rest =>
        cases fo with
        | none => simp
        | some f =>
        simp only []
        have hv := field_verdicts s.cfg { st with fieldSeen := true } f
        cases hx : (fieldStep s.cfg { st with fieldSeen := true } f).2 with
        | none => simp only []; exact ih _ _ _ _
        | some e =>
          simp only []
          rw [hx] at hv
          simp only [StreamScopedVerdict] at hv
          rcases hv with h | h | h | h
          · cases h
          · injection h with h; simp [h]
          · injection h with h; simp [h]
          · injection h with h; simp [h]

/-- **Frames in flight for a stream the server has reset are ignored**: no error of any kind, the loop
goes on, no stream is created. -/
theorem frames_for_reset_stream_ignored (r : R) (fr : Frame.Frame) (wc : Bool)
    (h : r.s.resetByUs.contains fr.stream = true) :
    (unknownStream r fr wc).2 = none ∧
    cnt .goAway (unknownStream r fr wc).1.out = cnt .goAway r.out ∧
    cnt .rst (unknownStream r fr wc).1.out = cnt .rst r.out ∧
    (unknownStream r fr wc).1.s.slStopped = r.s.slStopped := by
  have e : unknownStream r fr wc =
      ((if fr.typ == Gen.c_FrameData then consumeConnWindow r fr.length else r), none) := by
    simp only [unknownStream, h, if_true]
  rw [e]
  refine ⟨rfl, ?_, ?_, ?_⟩
  · simp only []; split <;> simp [consumeConnWindow_cnt .goAway (by decide)]
  · simp only []; split <;> simp [consumeConnWindow_cnt .rst (by decide)]
  · simp only []
    split
    · simp only [consumeConnWindow]
      repeat' split
      all_goals rfl
    · rfl

/-- … and their DATA is still charged to, and credited on, the connection window -/
theorem data_for_reset_stream_charged (r : R) (fr : Frame.Frame) (wc : Bool)
    (h : r.s.resetByUs.contains fr.stream = true) (hd : fr.typ = Gen.c_FrameData) :
    (unknownStream r fr wc).1 = consumeConnWindow r fr.length := by
  simp only [unknownStream, h, if_true, hd, beq_self_eq_true]

/-! ### HPACK context (known findings F22, F23)
The decoder state after a header frame equals the state after decoding the *whole* fragment only when the
field loop reaches the end of the fragment. -/

/-- the decoder states along the field loop when nothing stops it: what a decoder that reads the whole
fragment ends with -/
def decOnly : Nat → Hpack.DecState → Bool → Nat → Bytes → Option Hpack.DecState
  | 0, _, _, _, _ => none
  | _, dec, _, _, [] => some dec
  | fuel + 1, dec, bs, fp, b =>
    match Hpack.Dec.next dec bs fp b with
    | .ok d (some _) rest => decOnly fuel d bs (fp + 1) rest
    | .ok d none _ => some d      -- only table size updates were left
    | _ => none

/-- full statement: whatever becomes of the stream, the decoder has consumed the whole fragment -/
def ctx_sync_full : Prop :=
  ∀ (s : Srv) (st : Strm) (b : Bytes) (dec : Hpack.DecState),
    decOnly (b.length + 1) s.dec true 0 b = some dec →
      (fieldLoop (b.length + 1) s st true true 0 b).1.dec = dec

/-- F23 witness: `X: 1` (upper-case name, literal with incremental indexing) followed by `y: 2` (also with
incremental indexing): the loop stops at the first field, so the second never reaches the table -/
theorem ctx_sync_witness : ¬ ctx_sync_full := by
  intro h
  have := h {} { uid := 0, id := 1, window := 0 }
    [0x40, 0x01, 0x58, 0x01, 0x31, 0x40, 0x01, 0x79, 0x01, 0x32] _ rfl
  revert this
  decide +kernel

/-- partial: when the loop reports no error on a complete block (END_HEADERS), the decoder is where a
decoder that read the whole block would be -/
theorem ctx_sync_partial (fuel : Nat) (s : Srv) (st : Strm) (bs : Bool) (fp : Nat) (b : Bytes)
    (hok : (fieldLoop fuel s st bs true fp b).2.2 = none) :
    decOnly fuel s.dec bs fp b = some (fieldLoop fuel s st bs true fp b).1.dec := by
  induction fuel generalizing s st fp b with
  | zero => simp [fieldLoop] at hok
  | succ n ih =>
    cases b with
    | nil => simp [fieldLoop, decOnly]
    | cons c cs =>
      simp only [fieldLoop, decOnly] at hok ⊢
      cases hd : Hpack.Dec.next s.dec bs fp (c :: cs) with
      | needMore => rw [hd] at hok; simp at hok
      | err => rw [hd] at hok; simp at hok
      | ok dec fo rest =>
        cases fo with
        | none => simp
        | some f =>
        rw [hd] at hok
        simp only [] at hok ⊢
        cases hx : (fieldStep s.cfg { st with fieldSeen := true } f).2 with
        | some e => rw [hx] at hok; simp at hok
        | none =>
          rw [hx] at hok
          simp only [] at hok ⊢
          exact ih _ _ _ _ hok

/-! non-vacuity: a well-formed GET block (all indexed) passes the loop without error -/
example : (fieldLoop 4 {} { uid := 0, id := 1, window := 0 } true true 0 [0x82, 0x87, 0x84]).2.2 = none := by
  decide +kernel

end H2.Props.C09
