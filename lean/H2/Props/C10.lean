import H2.Proofs.ServerSlotsFull
import H2.Proofs.Closing
import H2.Proofs.ClosingRace
/-!
# C10 — the server's GOAWAY tells the truth; connection errors end the connection

Theorems about the abstract model `H2.Server.Abs.Closing` (every event sequence, no bound). An event is:
a HEADERS frame reaching the refusal check, an offence answered with GOAWAY, a dispatch, a stream leaving
the table, the end-of-iteration check, the read loop going away. `(run init evs).trace` is the ghost
trace of GOAWAYs, streams opened / refused and requests dispatched, in order. The driver runs the model
in lockstep with the full server model and compares every GOAWAY (last-stream-id, code), dispatch,
refusal, the table, `lastID`, `closeRef`, the closing flag and whether the stream loop has stopped.

Serial model: each `writeGoAway` is one atomic action. What that hides is spelled out in `Race` below.
-/
namespace H2.Props.C10
open H2.Server.Abs.Closing

theorem reachable (evs : List Ev) : Inv (run init evs) := run_inv evs init init_inv

/-- **GOAWAY tells the truth**: the last-stream-id of every GOAWAY ever written is no smaller than the id
of every request ever dispatched on the connection — those dispatched before it and those dispatched
after it. (`trace` holds the whole history, so `d` ranges over both.) -/
theorem goaway_truth (evs : List Ev) (l c d : Nat)
    (hg : Rec.goAway l c ∈ (run init evs).trace) (hd : Rec.dispatched d ∈ (run init evs).trace) : d ≤ l := by
  have h := reachable evs
  exact Nat.le_trans (h.dispLe d hd) (h.gaGe l c hg)

/-- … and no smaller than any stream still in the table -/
theorem goaway_covers_open_streams (evs : List Ev) (l c id : Nat)
    (hg : Rec.goAway l c ∈ (run init evs).trace) (hid : id ∈ (run init evs).tbl) : id ≤ l := by
  have h := reachable evs
  exact Nat.le_trans (h.tblLe id hid) (h.gaGe l c hg)

/-- **no new stream after GOAWAY**: once a GOAWAY is in the trace, whatever happens next (`evs'`), the
connection stays closing, `lastID` does not move, no stream is opened and the table only shrinks. -/
theorem no_new_stream_after_goaway (evs evs' : List Ev) (l c : Nat)
    (hg : Rec.goAway l c ∈ (run init evs).trace) :
    let s := run init evs
    let s' := run init (evs ++ evs')
    s'.closing = true ∧ s'.lastID = s.lastID ∧ openedOf s'.trace = openedOf s.trace ∧ ∀ id ∈ s'.tbl, id ∈ s.tbl := by
  intro s s'
  have hc : s.closing = true := (reachable evs).gaClosing l c hg
  have hf := run_frozen evs' s hc
  have : s' = run s evs' := run_append evs evs' init
  rw [this]
  exact ⟨hf.closing, hf.lastID, hf.opened, hf.tbl⟩

/-- while closing, a HEADERS frame for a stream not in the table is refused (RST_STREAM(REFUSED_STREAM)),
whatever the concurrency count (the refused id counts as used from then on) -/
theorem refused_while_closing (s : St) (id : Nat) (full : Bool)
    (hc : s.closing = true) (hs : s.stopped = false) (hk : knows s id = false) :
    step s (.hdrNew id full) = { s with lastRefused := max s.lastRefused id, trace := s.trace ++ [.refused id] } := by
  simp [step, stepLive, survivesStop, hc, hs, hk]

/-! ### the connection closes once the promised streams are done -/

/-- **closes when the promised streams are done** (full form, after the repair F53). The stream loop
works in iterations — one frame taken off the reader, or one handler reporting back — and an iteration is
a short list of the model's events (`okIter`: it ends with an event after which the code looks whether it
can close — the check before `continue` in the connection-level branch, the check at the end of a
stream's frame or a handler's response, a GOAWAY that stops or stops-if-done, the read loop going away —
or it consists of a refused/ignored frame only). After ANY sequence of such iterations: closing and no
stream left at or below `closeRef` means the stream loop has stopped, i.e. `ServeConn` returns.
The lockstep adapter checks `okIter` on every iteration it projects. Not covered: an iteration that ends
with the GOAWAY "previous stream headers not ended" (`continue` without a check) — not reachable behind
the read loop's CONTINUATION rules, and the frame's own stream is then still in the table. -/
theorem closes_when_promised_done (iters : List (List Ev)) (h : ∀ it ∈ iters, okIter it = true) :
    let s := run init iters.flatten
    s.closing = true → canClose s = true → s.stopped = true :=
  run_iters iters init h (by intro hc; cases hc)

/-- the single step behind it: right after any event where the code looks, in any state -/
theorem closes_after_looking (evs : List Ev) (e : Ev) (he : looksAfter e = true) :
    let s := run init (evs ++ [e])
    s.closing = true → canClose s = true → s.stopped = true := by
  intro s
  have hs : s = step (run init evs) e := by
    show run init (evs ++ [e]) = _
    rw [run_append]; rfl
  rw [hs]
  exact looks_closed _ e he

/-- why the check in the connection-level branch matters (the defect F53, now repaired): request 1 is
dispatched; RST_STREAM on the idle stream 3 is answered with GOAWAY (the connection goes on for stream 1);
the handler answers but the body waits for flow-control credit; a connection-level WINDOW_UPDATE lets
`flushStreams` finish and close stream 1. Without a check at the end of that iteration the model is
closing, has nothing left to wait for, and runs on; with it, it stops. -/
theorem check_after_flush_needed :
    let pre : List Ev := [.hdrNew 1 false, .dispatch 1, .offence .rstOnIdle 3, .check]
    let s₀ := run init (pre ++ [.close 1])
    let s₁ := run init (pre ++ [.close 1, .check])
    (s₀.closing = true ∧ canClose s₀ = true ∧ s₀.stopped = false) ∧ s₁.stopped = true ∧
    okIter [.close 1] = false ∧ okIter [.close 1, .check] = true := by
  decide

/-! ### connection errors carry the code RFC 7540 names -/

/-- the error codes RFC 7540 names for each offence (section in the comment) -/
def rfcAllows : Offence → List Nat
  | .rstOnIdle => [PROTOCOL_ERROR]                      -- §6.4
  | .frameOnClosed => [STREAM_CLOSED]                   -- §5.1 closed
  | .selfDependency => [PROTOCOL_ERROR]                 -- §5.3.1
  | .frameOnIdle => [PROTOCOL_ERROR]                    -- §5.1 idle
  | .lowerId => [PROTOCOL_ERROR]                        -- §5.1.1
  | .prevHeadersOpen => [PROTOCOL_ERROR]                -- §6.2, §6.10
  | .frameOnHalfClosed => [STREAM_CLOSED]               -- §5.1 half-closed (remote)
  | .headersOnFinished => [STREAM_CLOSED]               -- §5.1 half-closed (remote) / closed
  | .trailersWithoutEndStream => [PROTOCOL_ERROR]       -- §8.1
  | .compression => [COMPRESSION_ERROR]                 -- §4.3
  | .headerListTooLarge => [ENHANCE_YOUR_CALM]          -- §10.5, §10.5.1
  | .endHeadersIncomplete => [COMPRESSION_ERROR]        -- §4.3
  | .dataInHeaderBlock => [PROTOCOL_ERROR]              -- §6.2, §6.10
  | .dataOnHalfClosed => [STREAM_CLOSED]                -- §5.1
  | .rstOnIdleKnown => [PROTOCOL_ERROR]                 -- §6.4
  | .priorityInHeaderBlock => [PROTOCOL_ERROR]          -- §6.10
  | .windowUpdateOnIdle => [PROTOCOL_ERROR]             -- §5.1 idle
  | .windowUpdateZeroStream => [PROTOCOL_ERROR]         -- §6.9
  | .invalidFrameOnStream => [PROTOCOL_ERROR]           -- §5.1, §8.2
  | .streamWindowOverflow => [FLOW_CONTROL_ERROR]       -- §6.9.2
  | .connWindowOverflow => [FLOW_CONTROL_ERROR]         -- §6.9.1
  | .wantContinuation | .strayContinuation | .extensionInHeaderBlock => [PROTOCOL_ERROR]   -- §6.2, §6.10
  | .evenStreamId => [PROTOCOL_ERROR]                   -- §5.1.1
  | .pingWithStreamId => [PROTOCOL_ERROR]               -- §6.7
  | .pushPromiseFromClient => [PROTOCOL_ERROR]          -- §8.2
  | .windowUpdateZeroConn => [PROTOCOL_ERROR]           -- §6.9
  | .invalidFrameOnStreamZero => [PROTOCOL_ERROR]       -- §6.1–§6.4: stream 0 not allowed
  | .frameError _ => [FRAME_SIZE_ERROR, PROTOCOL_ERROR, FLOW_CONTROL_ERROR]   -- §4.2, §6.1, §6.5.2
  | .idleTimeout => [NO_ERROR]                          -- §6.8

def conn_error_codes_full : Prop := ∀ o : Offence, codeOf o ∈ rfcAllows o

/-- **decision table, partial**: for every offence the server answers with GOAWAY, the code it sends is
the one the RFC names, with three provisos made explicit: the frame parser's own verdict is passed on
as it is (the Frame model yields FRAME_SIZE_ERROR, PROTOCOL_ERROR, FLOW_CONTROL_ERROR only), and two
branches send PROTOCOL_ERROR where the RFC names a more specific code (`conn_error_codes_deviations`).
Both are shadowed by earlier checks in the serial model (`verifyState` answers HEADERS on a half-closed
stream first; the field loop reports a field cut short as COMPRESSION_ERROR first) and no generated run
reaches them. -/
theorem conn_error_codes_partial (o : Offence)
    (h1 : o ≠ .headersOnFinished) (h2 : o ≠ .endHeadersIncomplete)
    (h3 : ∀ c, o = .frameError c → c ∈ [FRAME_SIZE_ERROR, PROTOCOL_ERROR, FLOW_CONTROL_ERROR]) :
    codeOf o ∈ rfcAllows o := by
  cases o <;> first | decide | (exact absurd rfl h1) | (exact absurd rfl h2) | (exact h3 _ rfl)

theorem conn_error_codes_deviations :
    codeOf .headersOnFinished = PROTOCOL_ERROR ∧ rfcAllows .headersOnFinished = [STREAM_CLOSED] ∧
    codeOf .endHeadersIncomplete = PROTOCOL_ERROR ∧ rfcAllows .endHeadersIncomplete = [COMPRESSION_ERROR] := by
  decide

theorem conn_error_codes_witness : ¬ conn_error_codes_full := by
  intro h; have := h .headersOnFinished; revert this; decide

/-- every GOAWAY that names no stream ends the stream loop at once; the ones that go on serving
(`ifDone`, `cont`) name the offending stream, so `closeRef` is set and there is something to wait for -/
theorem unnamed_goaway_stops (o : Offence) (h : namesStream o = false) : modeOf o = .stop := by
  cases o <;> first | rfl | (exact absurd h (by decide))

/-! ### what the serial model hides: a GOAWAY written from another goroutine

`writeGoAway` is also called by the read loop and by the idle timer. Before the repair of F64 it read `lastID`, queued
the frame and marked the connection closed without any ordering against the stream loop, which read the state at the
top of its iteration and advanced `lastID` later. The two witnesses below are runs of a model of THAT protocol
(`Race`); the forced interleaving was replayed on the real code (harness op `racega`, findings/F64-C10-before-fix.txt).
The repaired protocol (`Locked`: `goAwayMu` held by the writer from the load to the closed flag, and by the stream loop
around "closing? / lastID := id") is proved correct for every interleaving of any number of writers. -/

open Locked in
/-- **GOAWAY truth under every interleaving** (the protocol as repaired): whatever the order in which the stream loop
and any number of outside writers (read loop, idle timer) take their steps, every GOAWAY's last-stream-id is at least
every stream dispatched before it and nothing is dispatched after a GOAWAY -/
theorem goaway_truth_all_interleavings (acts : List Locked.Act) : Locked.Truth (Locked.lrun {} acts).trace :=
  Locked.run_truth acts

open Locked in
/-- non-vacuity: the interleaving of the witness below, on the repaired protocol: the timer takes the lock and loads
`lastID` = 0, the HEADERS of stream 1 has to wait, the GOAWAY goes out, the flag is set, the lock is released, and the
stream is refused -/
example : (Locked.lrun {} [.w 0 0, .w 0 0, .slHeaders 1, .w 0 0, .w 0 0, .w 0 0, .slHeaders 1]).trace =
    [.goAway 0 NO_ERROR, .refused 1] := by decide

open Race in
/-- the same predicate fails on the unlocked protocol's run -/
theorem unlocked_protocol_breaks_truth :
    ¬ Locked.Truth (rrun {} [.load, .slHeaders 1, .send, .setClosing]).trace := by decide

open Race in
/-- **race witness (GOAWAY truth), protocol before the repair**: the idle timer (or the read loop) loads `lastID` = 0; the stream loop
opens and dispatches stream 1; the timer writes GOAWAY(last = 0). A request is being processed on a
stream the GOAWAY told the client it may replay. -/
theorem goaway_truth_race_witness :
    let s := rrun {} [.load, .slHeaders 1, .send, .setClosing]
    Rec.goAway 0 NO_ERROR ∈ s.trace ∧ Rec.dispatched 1 ∈ s.trace := by
  decide

open Race in
/-- **race witness (no new stream after GOAWAY), protocol before the repair**: the closing flag is stored after the frame is queued, so
a stream can be opened and dispatched after the GOAWAY went out, even if the GOAWAY itself was right when
written. -/
theorem no_new_stream_race_witness :
    (rrun {} [.slHeaders 1, .load, .send, .slHeaders 3, .setClosing]).trace =
      [.opened 1, .dispatched 1, .goAway 1 NO_ERROR, .opened 3, .dispatched 3] := by
  decide

/-! non-vacuity -/
example : Rec.goAway 3 1 ∈ (run init [.hdrNew 1 false, .dispatch 1, .offence .rstOnIdle 3]).trace ∧
    Rec.dispatched 1 ∈ (run init [.hdrNew 1 false, .dispatch 1, .offence .rstOnIdle 3]).trace := by decide
example : (run init [.hdrNew 1 false, .offence .rstOnIdle 5, .hdrNew 7 false]).trace =
    [.opened 1, .goAway 5 1, .refused 7] := by decide
example : (∀ it ∈ [[Ev.hdrNew 1 false, .dispatch 1, .check], [.offence .rstOnIdle 3], [.close 1, .check]], okIter it = true) ∧
    (let s := run init [.hdrNew 1 false, .dispatch 1, .check, .offence .rstOnIdle 3, .close 1, .check]
     s.closing = true ∧ canClose s = true ∧ s.stopped = true) := by decide

end H2.Props.C10


/-! ### what a GOAWAY promises, proved directly on the FULL server model

NEEDS `import H2.Proofs.ServerSlotsFull` among the imports at the top of this file.

Everything below is about `H2.Server.step` itself (`H2/Server/Model.lean`, the serial model the driver runs against
the real `serverConn`), for EVERY configuration and EVERY event list; `runOuts cfg evs` is the list of everything
written and dispatched, in the order the model produces it. Proofs: `H2/Proofs/ServerSlotsFull.lean` (invariant:
every GOAWAY written so far names at least `lastID`; `closing` is set exactly when a GOAWAY has been written; no
stream is created while `closing`) together with `dispatched_le_lastID` of `H2/Proofs/ServerOnce.lean`.
(The serial model knows one interleaving of the read loop's own GOAWAYs with the stream loop; the other orders are
the subject of `goaway_truth_all_interleavings` above.) -/
namespace H2.Props.C10
section FullModel
open H2.Server

/-- **goaway_covers_dispatched** (full model, run level): split the outputs of any run at any GOAWAY frame; the
last-stream-id it carries is at least every stream id handed to a handler BEFORE it. -/
theorem Full.goaway_covers_dispatched (cfg : Cfg) (evs : List Event) (pre post : List Out) (l c : Nat) (t : String)
    (h : runOuts cfg evs = pre ++ .goAway l c t :: post) : ∀ i ∈ dispatchedIds pre, i ≤ l :=
  H2.Server.goaway_covers_dispatched cfg evs pre post l c t h

/-- **no_dispatch_after_goaway_above_last** (full model, run level): … and no stream id above it is handed to a handler
AFTER it. -/
theorem Full.no_dispatch_after_goaway_above_last (cfg : Cfg) (evs : List Event) (pre post : List Out) (l c : Nat) (t : String)
    (h : runOuts cfg evs = pre ++ .goAway l c t :: post) : ∀ i ∈ dispatchedIds post, i ≤ l :=
  H2.Server.no_dispatch_after_goaway_above_last cfg evs pre post l c t h

/-- (full model, run level) every GOAWAY of a run names at least the final `lastID` (the highest stream id the server
ever accepted), which is a 31-bit id: `writeGoAway` truncates nothing. -/
theorem Full.goaway_ge_lastID (cfg : Cfg) (evs : List Event) :
    (∀ l ∈ goAwayLasts (runOuts cfg evs), (run cfg evs).1.lastID ≤ l) ∧ (run cfg evs).1.lastID < 2 ^ 31 :=
  H2.Server.goaway_ge_lastID cfg evs

/-- **closing_is_permanent** (full model, run level): once `closing` is set it is set after any further events. -/
theorem Full.closing_is_permanent (cfg : Cfg) (evs evs' : List Event) (h : (run cfg evs).1.closing = true) :
    (run cfg (evs ++ evs')).1.closing = true :=
  H2.Server.closing_is_permanent cfg evs evs' h

/-- (full model, run level) `closing` is set exactly when a GOAWAY has been written. -/
theorem Full.closing_iff_goaway (cfg : Cfg) (evs : List Event) :
    (run cfg evs).1.closing = true ↔ goAwayLasts (runOuts cfg evs) ≠ [] :=
  H2.Server.closing_iff_goaway cfg evs

/-- (full model, run level) once `closing` is set `lastID` never moves again: no stream is created after a GOAWAY
(a HEADERS frame for a new stream is answered with RST_STREAM(REFUSED_STREAM)). -/
theorem Full.no_new_stream_after_goaway (cfg : Cfg) (evs evs' : List Event) (h : (run cfg evs).1.closing = true) :
    (run cfg (evs ++ evs')).1.lastID = (run cfg evs).1.lastID :=
  H2.Server.no_new_stream_after_goaway cfg evs evs' h

/-! non-vacuity on the full model (`Ex.gaRun`: requests 1 and 3 dispatched, 3 answered and closed, DATA on the closed
stream 3 → GOAWAY(last = 3) while the handler of 1 still runs, HEADERS(5) refused, `lastID` stays 3). The same
operations replayed on the real server give the same lines (REPORT). -/
example : fm Ex.tag (runOuts {} Ex.gaRun) = [("dispatch", 1), ("dispatch", 3), ("goaway", 3), ("rst", 5)] := by
  decide +kernel
example : (run {} Ex.gaRun).1.closing = true ∧ (run {} Ex.gaRun).1.lastID = 3 ∧
    (run {} (Ex.gaRun.take 4)).1.closing = false := by decide +kernel
/-- the hypothesis of the two split theorems is satisfiable: the outputs of this run do split at a GOAWAY(last = 3) -/
example : ∃ pre post c t, runOuts {} Ex.gaRun = pre ++ .goAway 3 c t :: post :=
  split_at_goAway _ 3 (by decide +kernel)

end FullModel
end H2.Props.C10
